(* Proofs for C03: request streams accept exactly the RFC 9114 4.1 frame sequences. *)
From H3V Require Import Base.Bytes Base.BytesLemmas Gen.GenCodes Gen.GenFrameTypes Gen.GenReqStream
  Spec.RFC9000 Spec.FrameVocab Spec.Frames Spec.FrameTrace Spec.RequestSeq Spec.RequestTrace
  Model.Varint Model.FrameDec Model.FrameStream Model.RequestStream Proofs.FramesProofs.
From Coq Require Import ZifyBool ZifyNat ZifyN.
Ltac Zify.zify_post_hook ::= Z.div_mod_to_equations.

Lemma request_codes :
  rd_other_code = H3_FRAME_UNEXPECTED_rfc /\ rt_first_other_code = H3_FRAME_UNEXPECTED_rfc /\
  rt_after_code = H3_FRAME_UNEXPECTED_rfc /\ srv_other_code = H3_FRAME_UNEXPECTED_rfc /\
  cli_other_code = H3_FRAME_UNEXPECTED_rfc /\ cli_none_code = H3_FRAME_UNEXPECTED_rfc /\
  srv_none_is_stream_error = true /\ srv_none_code = H3_REQUEST_INCOMPLETE_rfc /\
  srv_none_reset = Some H3_REQUEST_INCOMPLETE_rfc.
Proof. repeat split. Qed.

Notation sc := settings_verdict.

(* ====================================================================================== *)
(* Part A: more facts about FrameStream                                                   *)
(* ====================================================================================== *)

(* a clean end leaves the stream at its end *)
Lemma next_loop_end : forall fuel s s', next_loop fuel s = (Ready (Ok None), s') ->
  st_eos s' = true /\ bl_remaining (st_buf s') = 0 /\ st_rem s' = st_rem s.
Proof.
  induction fuel as [|fuel IH]; intros s s' H; [discriminate|].
  cbn [next_loop] in H.
  assert (Htr : forall p s1, try_recv s = (p, s1) -> st_rem s1 = st_rem s /\ (p = Ready (Ok true) -> st_eos s1 = true)).
  { intros p s1. unfold try_recv. destruct (st_eos s) eqn:He.
    - intros E; inversion E; subst. auto.
    - destruct (rx_poll (st_q s)) as [[[[c|]|e|n]|] q'].
      + destruct c; intros E; inversion E; subst; cbn; split; auto; discriminate.
      + intros E; inversion E; subst; cbn; auto.
      + intros E; inversion E; subst; split; auto; discriminate.
      + intros E; inversion E; subst; split; auto; discriminate.
      + intros E; inversion E; subst; split; auto; discriminate. }
  destruct (try_recv s) as [p s1]. destruct (Htr p s1 eq_refl) as [Hr1 He1].
  assert (Hdd : st_eos (snd (decoder_decode s1)) = st_eos s1 /\ st_rem (snd (decoder_decode s1)) = st_rem s1).
  { unfold decoder_decode. destruct (dec_loop _ _ _) as [[r b] m]. auto. }
  destruct (decoder_decode s1) as [r s2]. cbn [snd] in Hdd. destruct Hdd as [He2 Hr2].
  destruct p as [[b|e|n]|]; try discriminate.
  - destruct r as [[f|]|e|n]; try discriminate.
    + destruct f; discriminate.
    + destruct b.
      * unfold fs_next_end_checks_buffer in H. cbn [andb] in H.
        destruct (N.eqb_spec (bl_remaining (st_buf s2)) 0) as [Hz|Hnz]; cbn [negb] in H; [|discriminate].
        inversion H; subst. rewrite He2, Hr2. auto.
      * destruct (IH _ _ H) as (A & B & C). rewrite C, Hr2. auto.
  - destruct r as [[f|]|e|n]; try discriminate. destruct f; discriminate.
Qed.

Lemma poll_next_end s s' : poll_next s = (Ready (Ok None), s') ->
  st_eos s' = true /\ bl_remaining (st_buf s') = 0 /\ st_rem s' = 0.
Proof.
  unfold poll_next. destruct (N.eqb_spec (st_rem s) 0) as [Hz|Hnz]; cbn [negb]; [|discriminate].
  intros H. destruct (next_loop_end _ _ _ H) as (A & B & C). rewrite C. auto.
Qed.

(* at its end the stream keeps answering "end" *)
Lemma poll_next_at_eos s : st_eos s = true -> bl_remaining (st_buf s) = 0 -> st_rem s = 0 ->
  exists s', poll_next s = (Ready (Ok None), s') /\ st_eos s' = true /\ st_buf s' = st_buf s /\ st_rem s' = 0 /\
             st_q s' = st_q s.
Proof.
  intros He Hb Hr. unfold poll_next. rewrite Hr. cbn [negb N.eqb]. change (negb (0 =? 0)) with false. cbv iota.
  cbn [next_loop]. unfold try_recv. rewrite He. cbv iota.
  unfold decoder_decode. cbn [dec_loop]. rewrite Hb. change (0 =? 0) with true. cbv iota.
  unfold fs_next_end_checks_buffer. cbn [st_buf]. rewrite Hb. change (0 =? 0) with true. cbn [andb negb].
  eexists. split; [reflexivity|]. cbn. auto.
Qed.

(* while payload bytes are owed poll_data never says "end of this DATA frame" *)
Lemma poll_data_not_none s : fs_inv s -> st_rem s <> 0 -> fst (poll_data s) <> Ready (Ok None).
Proof.
  intros Hinv Hrem. unfold poll_data. rewrite (eqb_false _ _ Hrem).
  assert (Hmax : forall s1, st_rem s1 = st_rem s -> (st_rem s1 =? usize_max) = false).
  { intros s1 E. apply eqb_false. rewrite E. pose proof (inv_rem s Hinv) as H62. unfold usize_max. intros Ex.
    rewrite Ex in H62. vm_compute in H62. discriminate. }
  assert (Htr : st_rem (snd (try_recv s)) = st_rem s).
  { unfold try_recv. destruct (st_eos s); [reflexivity|].
    destruct (rx_poll (st_q s)) as [[[[c|]|e|n]|] q']; try reflexivity. destruct c; reflexivity. }
  destruct (try_recv s) as [p s1]. cbn [snd] in Htr.
  destruct p as [[b|e|n]|]; try discriminate.
  - destruct (bl_take_chunk (st_rem s1) (st_buf s1)) as [[d|] b'].
    + destruct (b && fs_data_short_last_guard && (len d <? st_rem s1) && (bl_remaining b' =? 0)); discriminate.
    + destruct b; [|discriminate]. unfold fs_data_none_end_guard. rewrite (Hmax s1 Htr). discriminate.
  - destruct (bl_take_chunk (st_rem s1) (st_buf s1)) as [[d|] b']; cbn [andb]; discriminate.
Qed.

Lemma eos_spec s fut fen : fs_inv s -> fut_ok s fut -> is_eos s = true -> st_rem s = 0 ->
  spec_of s fut fen = ([], CleanEnd).
Proof.
  intros Hinv [Hw Hfut] He Hr. unfold is_eos in He. apply andb_true_iff in He as [He Hb].
  pose proof (inv_eos s Hinv He) as Hq.
  assert (Hf : fut = []) by (apply Hfut; rewrite Hq; discriminate).
  unfold bl_remaining in Hb. apply N.eqb_eq in Hb. apply len_zero_nil in Hb.
  unfold spec_of, outcome_in, V, E. rewrite Hr, Hq, Hf, Hb. reflexivity.
Qed.

(* the prescribed tokens are never more than the bytes *)
Lemma outcome_len en : forall n v, wf_bytes v -> (length v <= n)%nat ->
  (length (fst (frame_outcome sc v en)) <= length v)%nat.
Proof.
  induction n as [|n IH]; intros v Hwf Hn.
  - destruct v; [|cbn in Hn; lia]. cbn. lia.
  - rewrite (frame_outcome_unfold v en Hwf).
    destruct (head_of v) as [| |l r2|sid r2|ty p rest] eqn:Hh; cbn [fst length]; try lia.
    + destruct (head_data_size _ _ _ Hwf Hh) as [Hs Hw2]. unfold len in Hs.
      destruct (len r2 <? l).
      * cbn [fst length]. rewrite map_length. lia.
      * assert (Hsk : (length (skipn (N.to_nat l) r2) <= n)%nat) by (rewrite skipn_length; lia).
        specialize (IH _ (wf_bytes_skipn _ _ Hw2) Hsk).
        destruct (frame_outcome sc (skipn (N.to_nat l) r2) en) as [ts t]. cbn [fst length] in *.
        rewrite app_length, map_length, firstn_length, skipn_length in *. lia.
    + destruct (head_wt_inv _ _ _ Hh) as (r1 & H1 & H2). pose proof (take_not_nil _ _ _ H1) as Hnn. destruct v; [congruence|cbn [length]; lia].
    + destruct (head_frame_size _ _ _ _ Hwf Hh) as (Hs & Hwr & _). unfold len in Hs.
      assert (Hr : (length rest <= n)%nat) by lia. specialize (IH _ Hwr Hr).
      destruct (classify sc ty p); cbn [fst length]; try lia.
      destruct (frame_outcome sc rest en) as [ts t]. cbn [fst length] in *. lia.
Qed.

Lemma outcome_in_len rem v en : wf_bytes v -> (length (fst (outcome_in rem v en)) <= length v)%nat.
Proof.
  intros Hwf. unfold outcome_in. destruct (rem =? 0); [eapply outcome_len; eauto|].
  destruct (len v <? rem); cbn [fst]; [rewrite map_length; lia|].
  pose proof (outcome_len en (length v) (skipn (N.to_nat rem) v) (wf_bytes_skipn _ _ Hwf)) as H.
  destruct (frame_outcome sc (skipn (N.to_nat rem) v) en) as [ts t]. cbn [fst] in *.
  rewrite app_length, map_length, firstn_length. rewrite skipn_length in H. lia.
Qed.

Lemma qbytes_ev_bytes q : queue_ok q -> qbytes q = concat (map ev_bytes q).
Proof. induction 1; cbn; auto. rewrite IHqueue_ok. reflexivity. Qed.

Lemma spec_len_pending s : fs_inv s ->
  (length (fst (spec_of s [] Open)) <= pending_bytes s)%nat.
Proof.
  intros Hinv. unfold spec_of, pending_bytes.
  pose proof (outcome_in_len (st_rem s) (V s []) (E s Open) (V_wf s [] Hinv (Forall_nil _))) as H.
  unfold V in *. rewrite app_nil_r in *. rewrite app_length in H.
  rewrite (qbytes_ev_bytes _ (inv_q s Hinv)) in *. exact H.
Qed.

(* ====================================================================================== *)
(* Part B: algebra of the request-level reference                                         *)
(* ====================================================================================== *)

Lemma req_walk_app sd : forall a st b,
  req_walk sd st (a ++ b) =
  let '(ev, r) := req_walk sd st a in
  match r with
  | inl st' => let '(ev', r') := req_walk sd st' b in (ev ++ ev', r')
  | inr f => (ev, inr f)
  end.
Proof.
  induction a as [|t a IH]; intros st b.
  - cbn [app req_walk]. destruct (req_walk sd st b). reflexivity.
  - cbn [app]. destruct t as [f|x].
    + destruct f; cbn [req_walk]; try reflexivity;
        destruct st; try reflexivity; rewrite IH;
        repeat match goal with |- context [req_walk ?s ?st ?l] => destruct (req_walk s st l) as [? [?|?]] end; reflexivity.
    + cbn [req_walk]. destruct st; try reflexivity. rewrite IH.
      destruct (req_walk sd DBody a) as [ev [st'|f]]; [destruct (req_walk sd st' b)|]; reflexivity.
Qed.

Lemma req_out_pre sd st ts O :
  req_out sd st (pre ts O) =
  let '(ev, r) := req_walk sd st ts in
  match r with
  | inl st' => (ev ++ fst (req_out sd st' O), snd (req_out sd st' O))
  | inr f => (ev, f)
  end.
Proof.
  unfold req_out, pre. cbn [fst snd]. rewrite req_walk_app.
  destruct (req_walk sd st ts) as [ev [st'|f]]; [|reflexivity].
  destruct (req_walk sd st' (fst O)) as [ev' [st''|f]].
  - destruct (req_stop sd st'' (snd O)). cbn [fst snd]. rewrite app_assoc. reflexivity.
  - reflexivity.
Qed.

Lemma req_walk_bytes sd d : req_walk sd DBody (map TByte d) = (map EByte d, inl DBody).
Proof. induction d as [|x d IH]; [reflexivity|]. cbn [map req_walk]. rewrite IH. reflexivity. Qed.

Lemma req_out_bytes sd d O :
  req_out sd DBody (pre (map TByte d) O) = (map EByte d ++ fst (req_out sd DBody O), snd (req_out sd DBody O)).
Proof. rewrite req_out_pre, req_walk_bytes. reflexivity. Qed.

Definition rpre (ev : list revent) (RO : list revent * rfinal) : list revent * rfinal := (ev ++ fst RO, snd RO).

Lemma rpre_nil RO : rpre [] RO = RO.
Proof. destruct RO; reflexivity. Qed.

(* the spec-rside phase: what the application is waiting for *)
Inductive rph := QStart | QBody | QTrail (t : bytes) | QEnd.

Definition owed (sd : rside) (q : rph) (O : list tok * tail) : list revent * rfinal :=
  match q with
  | QStart => req_out sd DStart O
  | QBody => req_out sd DBody O
  | QTrail t => req_out sd (DTrail t) O
  | QEnd => ([ETrailers None], RDone)
  end.

Definition rinv (ph : phase) (rs : rstream) (q : rph) : Prop :=
  rs_reset rs = None /\
  match ph, q with
  | PFirst, QStart => fs_inv (rs_fs rs) /\ st_rem (rs_fs rs) = 0 /\ rs_trailers rs = None
  | PBody, QBody => fs_inv (rs_fs rs) /\ rs_trailers rs = None
  | PTrailers, QTrail t => fs_inv (rs_fs rs) /\ rs_trailers rs = Some t /\ st_rem (rs_fs rs) = 0
  | PTrailers, QEnd =>
      rs_trailers rs = None /\ st_eos (rs_fs rs) = true /\ bl_remaining (st_buf (rs_fs rs)) = 0 /\
      st_rem (rs_fs rs) = 0
  | _, _ => False
  end.

Definition rcont (en : ending) (fut : bytes) (fen : ending) (ph : phase) (rs : rstream) (q : rph) : Prop :=
  rinv ph rs q /\ (q <> QEnd -> fut_ok (rs_fs rs) fut /\ E (rs_fs rs) fen = en).

Inductive rstep_ok (sd : rside) (RO : list revent * rfinal) (en : ending) (fut : bytes) (fen : ending)
  : robs -> phase -> rstream -> Prop :=
| rso_pend o ph' rs' q' :
    robs_pending o = true -> rcont en fut fen ph' rs' q' -> q' <> QEnd -> st_q (rs_fs rs') = [] ->
    RO = owed sd q' (spec_of (rs_fs rs') fut fen) ->
    (fut = [] -> fen = Open -> RO = ([], RWaiting)) ->
    rstep_ok sd RO en fut fen o ph' rs'
| rso_emit o ph' rs' q' :
    robs_final o = false -> robs_pending o = false -> rcont en fut fen ph' rs' q' ->
    RO = rpre (events_of_robs o) (owed sd q' (spec_of (rs_fs rs') fut fen)) ->
    rstep_ok sd RO en fut fen o ph' rs'
| rso_final o rs' f :
    robs_final o = true -> final_of_robs o = Some f ->
    rrefines_final (events_of_robs o) f (rs_reset rs') RO en ->
    (exists rest, fst RO = events_of_robs o ++ rest) ->
    rstep_ok sd RO en fut fen o PDone rs'.

(* ====================================================================================== *)
(* Part C: one application call                                                           *)
(* ====================================================================================== *)

(* what poll_next does to the owed-payload counter *)
Definition rem_after (s : fstream) (r : poll (res fserr (option frame))) (s' : fstream) : Prop :=
  match r with
  | Ready (Ok (Some (FData l))) => st_rem s' = l
  | Ready (Ok (Some (FWebTransport _))) => True
  | Ready (Panic _) => True
  | _ => st_rem s' = st_rem s
  end.

Lemma try_recv_rem s : st_rem (snd (try_recv s)) = st_rem s.
Proof.
  unfold try_recv. destruct (st_eos s); [reflexivity|].
  destruct (rx_poll (st_q s)) as [[[[c|]|e|n]|] q']; try reflexivity. destruct c; reflexivity.
Qed.

Lemma decoder_decode_rem s : st_rem (snd (decoder_decode s)) = st_rem s.
Proof. unfold decoder_decode. destruct (dec_loop _ _ _) as [[r b] m]. reflexivity. Qed.

Lemma next_loop_rem : forall fuel s, rem_after s (fst (next_loop fuel s)) (snd (next_loop fuel s)).
Proof.
  induction fuel as [|fuel IH]; intros s; [exact I|].
  cbn [next_loop]. pose proof (try_recv_rem s) as H1. destruct (try_recv s) as [p s1]. cbn [snd] in H1.
  pose proof (decoder_decode_rem s1) as H2. destruct (decoder_decode s1) as [r s2]. cbn [snd] in H2.
  assert (H12 : st_rem s2 = st_rem s) by congruence.
  destruct p as [[b|e|n]|]; cbn [fst snd rem_after]; auto.
  - destruct r as [[f|]|e|n]; cbn [fst snd rem_after]; auto.
    + destruct f; cbn [fst snd rem_after with_rem st_rem]; auto.
    + destruct b.
      * destruct (fs_next_end_checks_buffer && negb (bl_remaining (st_buf s2) =? 0)); cbn [fst snd rem_after]; auto.
      * specialize (IH s2). unfold rem_after in *. destruct (fst (next_loop fuel s2)) as [[[[]|]|?|?]|]; congruence.
  - destruct r as [[f|]|e|n]; cbn [fst snd rem_after]; auto.
    destruct f; cbn [fst snd rem_after with_rem st_rem]; auto.
Qed.

Lemma poll_next_rem s : st_rem s = 0 -> rem_after s (fst (poll_next s)) (snd (poll_next s)).
Proof.
  intros H. unfold poll_next. rewrite H. change (negb (0 =? 0)) with false. cbv iota. apply next_loop_rem.
Qed.

Definition phase_after_first (r : poll (res rerr bytes)) : phase :=
  match r with Pending => PFirst | Ready (Ok _) => PBody | Ready _ => PDone end.
Definition phase_after_body (r : poll (res rerr (option bytes))) : phase :=
  match r with Pending => PBody | Ready (Ok (Some _)) => PBody | Ready (Ok None) => PTrailers | Ready _ => PDone end.
Definition phase_after_trailers (r : poll (res rerr (option bytes))) : phase :=
  match r with Pending => PTrailers | Ready _ => PDone end.

(* final results *)
Lemma final_conn c allowed evs reset RO en :
  snd RO = RConnError allowed -> In c allowed -> reset = None -> evs = fst RO ->
  rrefines_final evs (FErr (RConnLocal c)) reset RO en.
Proof.
  intros H1 H2 H3 H4. unfold rrefines_final. rewrite H1. exists allowed. auto.
Qed.

Lemma final_abort e evs reset RO en :
  en = Broken e -> reset = None -> (exists rest, fst RO = evs ++ rest) ->
  rrefines_final evs (FErr (match e with QTerminated c => RRemoteTerminate c | q => RConnRemote q end)) reset RO en.
Proof.
  intros H1 H2 H3. unfold rrefines_final. destruct (snd RO); auto; destruct e; auto.
Qed.

Lemma err_of_quic {A} e : @err_of_fserr A (FsQuic e) =
  Err (match e with QTerminated c => RRemoteTerminate c | q => RConnRemote q end).
Proof. destruct e; reflexivity. Qed.

(* a protocol error found by the frame layer, seen from any state of the message *)
Lemma proto_final sd st k fe e reset en :
  bad_matches fe e -> map_ferr fe = Some (FsProto k fe) -> reset = None ->
  exists c, @err_of_fserr (option bytes) (FsProto k fe) = Err (RConnLocal c) /\
            @err_of_fserr bytes (FsProto k fe) = Err (RConnLocal c) /\
            rrefines_final [] (FErr (RConnLocal c)) reset (req_out sd st ([], ProtoError e)) en.
Proof.
  intros Hbm Hmap Hr.
  destruct e as [|t|se]; cbn in Hbm; subst fe; cbn in Hmap; inversion Hmap; subst k.
  - exists H3_FRAME_ERROR_rfc. repeat split.
    destruct st; (eapply final_conn; [reflexivity|cbn; auto|auto|reflexivity]).
  - exists H3_FRAME_UNEXPECTED_rfc. repeat split.
    destruct st; (eapply final_conn; [reflexivity|cbn; auto|auto|reflexivity]).
  - exists H3_SETTINGS_ERROR_rfc. repeat split.
    destruct st; (eapply final_conn; [reflexivity|cbn; auto|auto|reflexivity]).
Qed.

Lemma first_step r rs fut fen :
  rinv PFirst rs QStart -> fut_ok (rs_fs rs) fut ->
  rstep_ok (side_of r) (owed (side_of r) QStart (spec_of (rs_fs rs) fut fen)) (E (rs_fs rs) fen) fut fen
    (OHead (fst (poll_first r rs))) (phase_after_first (fst (poll_first r rs))) (snd (poll_first r rs)).
Proof.
  intros (Hreset & Hinv & Hrem & Htr) Hfut.
  pose proof (poll_next_spec (rs_fs rs) fut fen Hinv Hrem Hfut) as Hstep.
  pose proof (poll_next_rem (rs_fs rs) Hrem) as Hra.
  unfold poll_first. destruct (poll_next (rs_fs rs)) as [res s']. cbn [fst snd] in Hstep, Hra.
  cbn [owed].
  inversion Hstep as
    [s'' Hc Hq HO Hw | | f s'' Hnw Hc HO | x s'' HO | | | s'' HO | s'' HO | | k fe e s'' Hbm Hmap HO | e s'' Hen | ]; subst.
  - (* pending *)
    cbn [fst snd phase_after_first]. destruct Hc as (Hinv' & Hfut' & HE').
    eapply rso_pend with (q' := QStart).
    + reflexivity.
    + split; [split; [exact Hreset|]|intros _; split; [exact Hfut'|exact HE']].
      cbn [rinv with_fs rs_fs rs_trailers]. cbn [rem_after] in Hra. split; [exact Hinv'|]. split; [|exact Htr].
      rewrite Hra. exact Hrem.
    + discriminate.
    + exact Hq.
    + cbn [with_fs rs_fs owed]. rewrite <- HO. reflexivity.
    + intros Hf He. rewrite (Hw Hf He). reflexivity.
  - (* a frame *)
    destruct Hc as (Hinv' & Hfut' & HE'). rewrite HO.
    destruct f; try (exfalso; eapply Hnw; reflexivity; fail); cbn [fst snd phase_after_first].
    + (* DATA first *)
      apply rso_final with (f := FErr (RConnLocal (match r with RServer => srv_other_code | RClient => cli_other_code end)));
        [reflexivity|reflexivity| |exists []; rewrite req_out_pre; reflexivity].
      rewrite req_out_pre. cbn [req_walk]. eapply final_conn; [reflexivity| |exact Hreset|reflexivity].
      destruct r; cbn; auto.
    + (* HEADERS: the message starts *)
      eapply rso_emit with (q' := QBody); [reflexivity|reflexivity| |].
      * split; [|intros _; auto]. split; [exact Hreset|]. cbn [rinv with_fs rs_fs rs_trailers]. auto.
      * rewrite req_out_pre. reflexivity.
    + apply rso_final with (f := FErr (RConnLocal (match r with RServer => srv_other_code | RClient => cli_other_code end)));
        [reflexivity|reflexivity| |exists []; rewrite req_out_pre; reflexivity].
      rewrite req_out_pre. cbn [req_walk]. eapply final_conn; [reflexivity| |exact Hreset|reflexivity].
      destruct r; cbn; auto.
    + apply rso_final with (f := FErr (RConnLocal (match r with RServer => srv_other_code | RClient => cli_other_code end)));
        [reflexivity|reflexivity| |exists []; rewrite req_out_pre; reflexivity].
      rewrite req_out_pre. cbn [req_walk]. eapply final_conn; [reflexivity| |exact Hreset|reflexivity].
      destruct r; cbn; auto.
    + apply rso_final with (f := FErr (RConnLocal (match r with RServer => srv_other_code | RClient => cli_other_code end)));
        [reflexivity|reflexivity| |exists []; rewrite req_out_pre; destruct r; reflexivity].
      rewrite req_out_pre. cbn [req_walk]. destruct r; (eapply final_conn; [reflexivity| |exact Hreset|reflexivity]); cbn; auto.
    + apply rso_final with (f := FErr (RConnLocal (match r with RServer => srv_other_code | RClient => cli_other_code end)));
        [reflexivity|reflexivity| |exists []; rewrite req_out_pre; reflexivity].
      rewrite req_out_pre. cbn [req_walk]. eapply final_conn; [reflexivity| |exact Hreset|reflexivity].
      destruct r; cbn; auto.
    + apply rso_final with (f := FErr (RConnLocal (match r with RServer => srv_other_code | RClient => cli_other_code end)));
        [reflexivity|reflexivity| |exists []; rewrite req_out_pre; reflexivity].
      rewrite req_out_pre. cbn [req_walk]. eapply final_conn; [reflexivity| |exact Hreset|reflexivity].
      destruct r; cbn; auto.
  - (* WebTransport header: outside the property *)
    rewrite HO. cbn [fst snd phase_after_first].
    apply rso_final with (f := FErr (RConnLocal (match r with RServer => srv_other_code | RClient => cli_other_code end)));
      [reflexivity|reflexivity|exact I|exists []; reflexivity].
  - (* the stream ended before any HEADERS *)
    rewrite HO. destruct r; cbn [fst snd phase_after_first side_of].
    + apply rso_final with (f := FErr (RStream srv_none_code)); [reflexivity|reflexivity| |exists []; reflexivity].
      cbv. auto.
    + apply rso_final with (f := FErr (RConnLocal cli_none_code)); [reflexivity|reflexivity| |exists []; reflexivity].
      eapply final_conn; [reflexivity|cbn; auto|exact Hreset|reflexivity].
  - (* truncated frame *)
    rewrite HO. cbn [fst snd phase_after_first].
    apply rso_final with (f := FErr (RConnLocal H3_FRAME_ERROR_rfc)); [reflexivity|reflexivity| |exists []; reflexivity].
    eapply final_conn; [reflexivity|cbn; auto|exact Hreset|reflexivity].
  - (* protocol error of the frame layer *)
    rewrite HO. destruct (proto_final (side_of r) DStart k fe e (rs_reset rs) (E (rs_fs rs) fen) Hbm Hmap Hreset) as (c & _ & Hc2 & Hfin).
    rewrite Hc2. cbn [fst snd phase_after_first].
    apply rso_final with (f := FErr (RConnLocal c)); [reflexivity|reflexivity|exact Hfin|].
    exists []. destruct e; reflexivity.
  - (* reset / connection lost *)
    rewrite err_of_quic. cbn [fst snd phase_after_first].
    eapply rso_final; [reflexivity|reflexivity| |eexists; reflexivity].
    apply final_abort; auto. eexists; reflexivity.
Qed.

Lemma fst_snd_eta {A B} (x : A * B) : (fst x, snd x) = x.
Proof. destruct x; reflexivity. Qed.

(* the frame after the trailers (or the end of the stream) *)
Lemma trailers_tail_step sd rs s b fut fen :
  rs_reset rs = None -> fs_inv s -> st_rem s = 0 -> fut_ok s fut ->
  rstep_ok sd (owed sd (QTrail b) (spec_of s fut fen)) (E s fen) fut fen
    (OTrail (fst (trailers_tail rs s b))) (phase_after_trailers (fst (trailers_tail rs s b)))
    (snd (trailers_tail rs s b)).
Proof.
  intros Hreset Hinv Hrem Hfut. unfold trailers_tail, rt_checks_after. cbn [andb owed].
  destruct (is_eos s) eqn:Heos; cbn [negb].
  { rewrite (eos_spec s fut fen Hinv Hfut Heos Hrem). cbn [fst snd phase_after_trailers].
    apply rso_final with (f := FDone); [reflexivity|reflexivity| |exists []; reflexivity].
    cbv [rrefines_final req_out req_walk req_stop fst snd app events_of_robs]. auto. }
  pose proof (poll_next_spec s fut fen Hinv Hrem Hfut) as Hstep.
  pose proof (poll_next_rem s Hrem) as Hra.
  destruct (poll_next s) as [res s']. cbn [fst snd] in Hstep, Hra.
  inversion Hstep as
    [s'' Hc Hq HO Hw | | f s'' Hnw Hc HO | x s'' HO | | | s'' HO | s'' HO | | k fe e s'' Hbm Hmap HO | e s'' Hen | ]; subst.
  - destruct Hc as (Hinv' & Hfut' & HE'). cbn [fst snd phase_after_trailers].
    eapply rso_pend with (q' := QTrail b).
    + reflexivity.
    + split; [split; [exact Hreset|]|intros _; split; [exact Hfut'|exact HE']].
      cbn [rinv rs_fs rs_trailers]. cbn [rem_after] in Hra. split; [exact Hinv'|]. split; [reflexivity|].
      rewrite Hra. exact Hrem.
    + discriminate.
    + exact Hq.
    + cbn [rs_fs owed]. rewrite <- HO. reflexivity.
    + intros Hf He. rewrite (Hw Hf He). reflexivity.
  - rewrite HO. cbn [fst snd phase_after_trailers].
    apply rso_final with (f := FErr (RConnLocal rt_after_code));
      [reflexivity|reflexivity| |exists []; rewrite req_out_pre; destruct f, sd; reflexivity].
    rewrite req_out_pre.
    destruct f; try (exfalso; eapply Hnw; reflexivity; fail); cbn [req_walk];
      try (eapply final_conn; [reflexivity|cbn; auto|exact Hreset|reflexivity]).
    destruct sd; (eapply final_conn; [reflexivity|cbn; auto|exact Hreset|reflexivity]).
  - rewrite HO. cbn [fst snd phase_after_trailers].
    apply rso_final with (f := FErr (RConnLocal rt_after_code)); [reflexivity|reflexivity|exact I|exists []; reflexivity].
  - rewrite HO. cbn [fst snd phase_after_trailers].
    apply rso_final with (f := FDone); [reflexivity|reflexivity| |exists []; reflexivity].
    cbv [rrefines_final req_out req_walk req_stop fst snd app events_of_robs]. auto.
  - rewrite HO. cbn [fst snd phase_after_trailers].
    apply rso_final with (f := FErr (RConnLocal H3_FRAME_ERROR_rfc)); [reflexivity|reflexivity| |exists []; reflexivity].
    eapply final_conn; [reflexivity|cbn; auto|exact Hreset|reflexivity].
  - rewrite HO. destruct (proto_final sd (DTrail b) k fe e (rs_reset rs) (E s fen) Hbm Hmap Hreset) as (c & Hc1 & _ & Hfin).
    rewrite Hc1. cbn [fst snd phase_after_trailers].
    apply rso_final with (f := FErr (RConnLocal c)); [reflexivity|reflexivity|exact Hfin|].
    exists []. destruct e; reflexivity.
  - rewrite err_of_quic. cbn [fst snd phase_after_trailers].
    eapply rso_final; [reflexivity|reflexivity| |eexists; reflexivity].
    apply final_abort; auto. eexists; reflexivity.
Qed.

Lemma trailers_step sd rs t fut fen :
  rinv PTrailers rs (QTrail t) -> fut_ok (rs_fs rs) fut ->
  rstep_ok sd (owed sd (QTrail t) (spec_of (rs_fs rs) fut fen)) (E (rs_fs rs) fen) fut fen
    (OTrail (fst (poll_recv_trailers rs))) (phase_after_trailers (fst (poll_recv_trailers rs)))
    (snd (poll_recv_trailers rs)).
Proof.
  intros (Hreset & Hinv & Htr & Hrem) Hfut. unfold poll_recv_trailers. rewrite Htr.
  apply trailers_tail_step; auto.
Qed.

(* after a body that ended with the stream: "no trailers" *)
Lemma trailers_end_result rs : rinv PTrailers rs QEnd ->
  exists rs1, poll_recv_trailers rs = (Ready (Ok None), rs1) /\ rs_reset rs1 = None.
Proof.
  intros (Hreset & Htr & He & Hb & Hrem). unfold poll_recv_trailers. rewrite Htr.
  destruct (poll_next_at_eos _ He Hb Hrem) as (s' & Hpn & _). rewrite Hpn.
  eexists. split; [reflexivity|exact Hreset].
Qed.

(* the body *)
Lemma data_part_step sd rs fut fen :
  rinv PBody rs QBody -> fut_ok (rs_fs rs) fut -> st_rem (rs_fs rs) <> 0 ->
  rstep_ok sd (owed sd QBody (spec_of (rs_fs rs) fut fen)) (E (rs_fs rs) fen) fut fen
    (OBody (fst (data_part rs))) (phase_after_body (fst (data_part rs))) (snd (data_part rs)).
Proof.
  intros (Hreset & Hinv & Htr) Hfut Hrem.
  pose proof (poll_data_spec (rs_fs rs) fut fen Hinv Hfut) as Hstep.
  pose proof (poll_data_not_none (rs_fs rs) Hinv Hrem) as Hnn.
  unfold data_part. destruct (poll_data (rs_fs rs)) as [res s']. cbn [fst snd] in Hstep, Hnn. cbn [owed].
  inversion Hstep as
    [ | s'' Hc Hq HO Hw | | | d s'' Hc HO | s'' Hc HO | | | s'' bs HO | | | e s'' Hen]; subst.
  - destruct Hc as (Hinv' & Hfut' & HE'). cbn [fst snd phase_after_body].
    eapply rso_pend with (q' := QBody).
    + reflexivity.
    + split; [split; [exact Hreset|]|intros _; split; [exact Hfut'|exact HE']].
      cbn [rinv with_fs rs_fs rs_trailers]. auto.
    + discriminate.
    + exact Hq.
    + cbn [with_fs rs_fs owed]. rewrite <- HO. reflexivity.
    + intros Hf He. rewrite (Hw Hf He). reflexivity.
  - destruct Hc as (Hinv' & Hfut' & HE'). cbn [fst snd phase_after_body].
    eapply rso_emit with (q' := QBody); [reflexivity|reflexivity| |].
    + split; [split; [exact Hreset|]|intros _; split; [exact Hfut'|exact HE']].
      cbn [rinv with_fs rs_fs rs_trailers]. auto.
    + rewrite HO. rewrite req_out_bytes. reflexivity.
  - congruence.
  - rewrite HO. cbn [fst snd phase_after_body].
    apply rso_final with (f := FErr (RConnLocal H3_FRAME_ERROR_rfc)); [reflexivity|reflexivity| |].
    + unfold rrefines_final, req_out. cbn [fst snd]. rewrite req_walk_bytes. cbn [req_stop fst snd].
      exists [H3_FRAME_ERROR_rfc]. repeat split; cbn; auto. right. split; [reflexivity|].
      exists bs. rewrite app_nil_r. reflexivity.
    + unfold req_out. cbn [fst snd]. rewrite req_walk_bytes. cbn [req_stop fst snd]. eexists. reflexivity.
  - rewrite err_of_quic. cbn [fst snd phase_after_body].
    eapply rso_final; [reflexivity|reflexivity| |eexists; reflexivity].
    apply final_abort; auto. eexists; reflexivity.
Qed.

Lemma body_loop_step sd fut fen : forall fuel rs,
  rinv PBody rs QBody -> fut_ok (rs_fs rs) fut ->
  (length (fst (spec_of (rs_fs rs) [] Open)) < fuel)%nat ->
  rstep_ok sd (owed sd QBody (spec_of (rs_fs rs) fut fen)) (E (rs_fs rs) fen) fut fen
    (OBody (fst (recv_data_loop fuel rs))) (phase_after_body (fst (recv_data_loop fuel rs)))
    (snd (recv_data_loop fuel rs)).
Proof.
  induction fuel as [|fuel IH]; intros rs Hri Hfut Hfuel; [lia|].
  cbn [recv_data_loop]. unfold has_data.
  destruct (N.eqb_spec (st_rem (rs_fs rs)) 0) as [Hrem|Hrem]; cbn [negb].
  2:{ apply data_part_step; auto. }
  destruct Hri as (Hreset & Hinv & Htr).
  pose proof (poll_next_spec (rs_fs rs) fut fen Hinv Hrem Hfut) as Hstep.
  assert (Hfut0 : fut_ok (rs_fs rs) []) by (split; [constructor|auto]).
  pose proof (poll_next_spec (rs_fs rs) [] Open Hinv Hrem Hfut0) as Hstep0.
  pose proof (poll_next_rem (rs_fs rs) Hrem) as Hra.
  destruct (poll_next (rs_fs rs)) as [res s'] eqn:Hpn. cbn [fst snd] in Hstep, Hstep0, Hra. cbn [owed].
  inversion Hstep as
    [s'' Hc Hq HO Hw | | f s'' Hnw Hc HO | x s'' HO | | | s'' HO | s'' HO | | k fe e s'' Hbm Hmap HO | e s'' Hen | ]; subst.
  - destruct Hc as (Hinv' & Hfut' & HE'). cbn [fst snd phase_after_body].
    eapply rso_pend with (q' := QBody).
    + reflexivity.
    + split; [split; [exact Hreset|]|intros _; split; [exact Hfut'|exact HE']].
      cbn [rinv with_fs rs_fs rs_trailers]. auto.
    + discriminate.
    + exact Hq.
    + cbn [with_fs rs_fs owed]. rewrite <- HO. reflexivity.
    + intros Hf He. rewrite (Hw Hf He). reflexivity.
  - destruct Hc as (Hinv' & Hfut' & HE'). rewrite HO.
    destruct f; try (exfalso; eapply Hnw; reflexivity; fail).
    + (* a DATA frame header: keep going *)
      unfold rd_data_header_continues, rd_is_loop.
      assert (Hri' : rinv PBody (with_fs rs s') QBody).
      { split; [exact Hreset|]. cbn [rinv with_fs rs_fs rs_trailers]. auto. }
      assert (Hlen' : (length (fst (spec_of (rs_fs (with_fs rs s')) [] Open)) < fuel)%nat).
      { inversion Hstep0 as [ | | f0 s0 Hnw0 Hc0 HO0 | | | | | | | | | ]; subst.
        rewrite HO0 in Hfuel. unfold pre in Hfuel. cbn [fst app length with_fs rs_fs] in *. lia. }
      specialize (IH (with_fs rs s') Hri' Hfut' Hlen').
      cbn [with_fs rs_fs] in IH. rewrite HE' in IH.
      rewrite req_out_pre. cbn [req_walk app]. rewrite fst_snd_eta. exact IH.
    + (* HEADERS: the body is complete, these are the trailers *)
      cbn [fst snd phase_after_body].
      eapply rso_emit with (q' := QTrail block); [reflexivity|reflexivity| |].
      * split; [split; [exact Hreset|]|intros _; split; [exact Hfut'|exact HE']].
        cbn [rinv rs_fs rs_trailers]. cbn [rem_after] in Hra. split; [exact Hinv'|]. split; [reflexivity|congruence].
      * rewrite req_out_pre. reflexivity.
    + cbn [fst snd phase_after_body].
      apply rso_final with (f := FErr (RConnLocal rd_other_code));
        [reflexivity|reflexivity| |exists []; rewrite req_out_pre; reflexivity].
      rewrite req_out_pre. cbn [req_walk]. eapply final_conn; [reflexivity|cbn; auto|exact Hreset|reflexivity].
    + cbn [fst snd phase_after_body].
      apply rso_final with (f := FErr (RConnLocal rd_other_code));
        [reflexivity|reflexivity| |exists []; rewrite req_out_pre; reflexivity].
      rewrite req_out_pre. cbn [req_walk]. eapply final_conn; [reflexivity|cbn; auto|exact Hreset|reflexivity].
    + cbn [fst snd phase_after_body].
      apply rso_final with (f := FErr (RConnLocal rd_other_code));
        [reflexivity|reflexivity| |exists []; rewrite req_out_pre; destruct sd; reflexivity].
      rewrite req_out_pre. cbn [req_walk]. destruct sd; (eapply final_conn; [reflexivity|cbn; auto|exact Hreset|reflexivity]).
    + cbn [fst snd phase_after_body].
      apply rso_final with (f := FErr (RConnLocal rd_other_code));
        [reflexivity|reflexivity| |exists []; rewrite req_out_pre; reflexivity].
      rewrite req_out_pre. cbn [req_walk]. eapply final_conn; [reflexivity|cbn; auto|exact Hreset|reflexivity].
    + cbn [fst snd phase_after_body].
      apply rso_final with (f := FErr (RConnLocal rd_other_code));
        [reflexivity|reflexivity| |exists []; rewrite req_out_pre; reflexivity].
      rewrite req_out_pre. cbn [req_walk]. eapply final_conn; [reflexivity|cbn; auto|exact Hreset|reflexivity].
  - rewrite HO. cbn [fst snd phase_after_body].
    apply rso_final with (f := FErr (RConnLocal rd_other_code)); [reflexivity|reflexivity|exact I|exists []; reflexivity].
  - (* clean end: the body is complete and there are no trailers *)
    rewrite HO. cbn [fst snd phase_after_body].
    destruct (poll_next_end _ _ Hpn) as (He' & Hb' & Hr').
    eapply rso_emit with (q' := QEnd); [reflexivity|reflexivity| |reflexivity].
    split; [|intros Hx; congruence]. split; [exact Hreset|]. cbn [rinv with_fs rs_fs rs_trailers]. auto.
  - rewrite HO. cbn [fst snd phase_after_body].
    apply rso_final with (f := FErr (RConnLocal H3_FRAME_ERROR_rfc)); [reflexivity|reflexivity| |exists []; reflexivity].
    eapply final_conn; [reflexivity|cbn; auto|exact Hreset|reflexivity].
  - rewrite HO. destruct (proto_final sd DBody k fe e (rs_reset rs) (E (rs_fs rs) fen) Hbm Hmap Hreset) as (c & Hc1 & _ & Hfin).
    rewrite Hc1. cbn [fst snd phase_after_body].
    apply rso_final with (f := FErr (RConnLocal c)); [reflexivity|reflexivity|exact Hfin|].
    exists []. destruct e; reflexivity.
  - rewrite err_of_quic. cbn [fst snd phase_after_body].
    eapply rso_final; [reflexivity|reflexivity| |eexists; reflexivity].
    apply final_abort; auto. eexists; reflexivity.
Qed.

Lemma body_step sd rs fut fen :
  rinv PBody rs QBody -> fut_ok (rs_fs rs) fut ->
  rstep_ok sd (owed sd QBody (spec_of (rs_fs rs) fut fen)) (E (rs_fs rs) fen) fut fen
    (OBody (fst (poll_recv_data rs))) (phase_after_body (fst (poll_recv_data rs))) (snd (poll_recv_data rs)).
Proof.
  intros Hri Hfut. unfold poll_recv_data. apply body_loop_step; auto.
  destruct Hri as (_ & Hinv & _). pose proof (spec_len_pending _ Hinv). lia.
Qed.

(* ====================================================================================== *)
(* Part D: histories                                                                      *)
(* ====================================================================================== *)

(* calls never change how the queue ends *)
Lemma data_part_qend rs : q_end (st_q (rs_fs (snd (data_part rs)))) = q_end (st_q (rs_fs rs)).
Proof.
  unfold data_part. pose proof (poll_data_qend (rs_fs rs)) as H.
  destruct (poll_data (rs_fs rs)) as [[[o|e|n]|] s']; exact H.
Qed.

Lemma recv_data_loop_qend : forall fuel rs,
  q_end (st_q (rs_fs (snd (recv_data_loop fuel rs)))) = q_end (st_q (rs_fs rs)).
Proof.
  induction fuel as [|fuel IH]; intros rs; [reflexivity|].
  cbn [recv_data_loop]. destruct (has_data (rs_fs rs)); [apply data_part_qend|].
  pose proof (poll_next_qend (rs_fs rs)) as H.
  destruct (poll_next (rs_fs rs)) as [[[[f|]|e|n]|] s']; cbn [snd] in H; try exact H.
  destruct f; try exact H. unfold rd_data_header_continues, rd_is_loop. rewrite IH. exact H.
Qed.

Lemma poll_first_qend r rs : q_end (st_q (rs_fs (snd (poll_first r rs)))) = q_end (st_q (rs_fs rs)).
Proof.
  unfold poll_first. pose proof (poll_next_qend (rs_fs rs)) as H.
  destruct (poll_next (rs_fs rs)) as [[[[f|]|e|n]|] s']; cbn [snd] in H; try exact H.
  - destruct f; exact H.
  - destruct r; exact H.
Qed.

Lemma trailers_tail_qend rs s b : q_end (st_q (rs_fs (snd (trailers_tail rs s b)))) = q_end (st_q s).
Proof.
  unfold trailers_tail. destruct (rt_checks_after && negb (is_eos s)); [|reflexivity].
  pose proof (poll_next_qend s) as H.
  destruct (poll_next s) as [[[[f|]|e|n]|] s']; exact H.
Qed.

Lemma poll_recv_trailers_qend rs :
  q_end (st_q (rs_fs (snd (poll_recv_trailers rs)))) = q_end (st_q (rs_fs rs)).
Proof.
  unfold poll_recv_trailers. destruct (rs_trailers rs); [apply trailers_tail_qend|].
  pose proof (poll_next_qend (rs_fs rs)) as H.
  destruct (poll_next (rs_fs rs)) as [[[[f|]|e|n]|] s'] eqn:Hp; cbn [snd] in H; try exact H.
  destruct f; try exact H. rewrite trailers_tail_qend. exact H.
Qed.

Lemma rrun_done r : forall h rs, fst (rrun r h rs PDone) = [] /\ rs_reset (snd (rrun r h rs PDone)) = rs_reset rs.
Proof.
  induction h as [|a h IH]; intros rs; [auto|].
  destruct a; cbn [rrun]; [|apply IH].
  destruct (IH (rarrive e rs)) as [H1 H2]. split; [exact H1|]. rewrite H2. reflexivity.
Qed.

(* composing observations *)
Lemma last_robs_cons o os : last_robs (o :: os) = match os with [] => Some o | _ => last_robs os end.
Proof. destruct os; reflexivity. Qed.

Lemma rrefines_final_pre ev evs f reset RO1 en :
  rrefines_final evs f reset RO1 en -> rrefines_final (ev ++ evs) f reset (rpre ev RO1) en.
Proof.
  unfold rrefines_final, rpre. cbn [fst snd]. destruct (snd RO1); auto; destruct f as [|[c|c|c|q]]; intros H.
  all: try (destruct H as (H1 & H2 & H3); repeat split; auto; congruence).
  all: try (destruct H as (al & H1 & H2 & H3 & [H4|(H4 & bs & H5)]); exists al; repeat split; auto;
            [left; congruence|right; split; auto; exists bs; rewrite H5, app_assoc; reflexivity]).
  all: try (destruct H as (H1 & H2 & H3 & H4); repeat split; auto; congruence).
  all: try (destruct H as (H1 & H2 & rest & H3); repeat split; auto; exists rest; rewrite H3, app_assoc; reflexivity).
Qed.

Lemma rrefines_nil reset RO en q : rrefines [] reset RO en q.
Proof. split; [exists (fst RO); reflexivity|]. split; intros; discriminate. Qed.

Lemma rrefines_emit o os' reset RO1 en q :
  robs_final o = false -> robs_pending o = false -> rrefines os' reset RO1 en q ->
  rrefines (o :: os') reset (rpre (events_of_robs o) RO1) en q.
Proof.
  intros Hnf Hnp (Hpre & Hfin & Hquiet). unfold rrefines.
  assert (Hev : events_of (o :: os') = events_of_robs o ++ events_of os') by reflexivity.
  rewrite Hev, last_robs_cons. split; [|split].
  - destruct Hpre as [rest Hr]. exists rest. unfold rpre. cbn [fst]. rewrite Hr, app_assoc. reflexivity.
  - intros o' Hl Hf. destruct os' as [|o2 os2].
    + inversion Hl; subst. congruence.
    + destruct (Hfin o' Hl Hf) as (f & Hff & Hr). exists f. split; auto. apply rrefines_final_pre. exact Hr.
  - intros Hq o' Hl Hp. destruct os' as [|o2 os2].
    + inversion Hl; subst. congruence.
    + destruct (Hquiet Hq o' Hl Hp) as [He HO]. split; auto. rewrite HO. reflexivity.
Qed.

Lemma rrefines_pending o os' reset RO en q q' :
  robs_pending o = true -> rrefines os' reset RO en q' -> (q = true -> q' = true) ->
  (os' = [] -> q = true -> en = Open /\ RO = ([], RWaiting)) ->
  rrefines (o :: os') reset RO en q.
Proof.
  intros Hp (Hpre & Hfin & Hquiet) Hqq Hlast. unfold rrefines.
  assert (Hto : events_of_robs o = []) by (destruct o as [[|]|[|]|[|]]; try discriminate; reflexivity).
  assert (Hnf : robs_final o = false) by (destruct o as [[|]|[|]|[|]]; try discriminate; reflexivity).
  assert (Hev : events_of (o :: os') = events_of os') by (unfold events_of; cbn [flat_map]; rewrite Hto; reflexivity).
  rewrite Hev, last_robs_cons. split; [exact Hpre|]. split.
  - intros o' Hl Hf. destruct os' as [|o2 os2]; [inversion Hl; subst; congruence|]. apply Hfin; auto.
  - intros Hq o' Hl Hp'. destruct os' as [|o2 os2].
    + apply Hlast; auto.
    + apply (Hquiet (Hqq Hq) o'); auto.
Qed.

Lemma rrefines_last o reset RO en q f :
  robs_final o = true -> robs_pending o = false -> final_of_robs o = Some f ->
  rrefines_final (events_of_robs o) f reset RO en -> (exists rest, fst RO = events_of_robs o ++ rest) ->
  rrefines [o] reset RO en q.
Proof.
  intros Hf Hnp Hff Hr Hpre. unfold rrefines, events_of. cbn [flat_map last_robs]. rewrite app_nil_r.
  split; [exact Hpre|]. split.
  - intros o' Hl _. inversion Hl; subst. exists f. auto.
  - intros _ o' Hl Hp. inversion Hl; subst. congruence.
Qed.

Lemma rrefines_quiet_mono os reset RO en q q' : (q = true -> q' = true) -> rrefines os reset RO en q' -> rrefines os reset RO en q.
Proof. intros Hq (H1 & H2 & H3). split; [exact H1|]. split; [exact H2|]. intros Hqt. apply H3. auto. Qed.

Lemma final_not_pending o : robs_final o = true -> robs_pending o = false.
Proof. destruct o as [[[]|]|[[]|]|[[]|]]; cbn; congruence. Qed.

Lemma rrun_nonempty_of_call r : forall h rs ph, ph <> PDone ->
  existsb is_call (map to_action h) = true -> fst (rrun r h rs ph) <> [].
Proof.
  induction h as [|a h IH]; intros rs ph Hph Hc; [discriminate|].
  destruct a; cbn [rrun map to_action existsb is_call orb] in *.
  - apply IH; auto.
  - destruct ph; try congruence.
    + destruct (poll_first r rs) as [res rs']. destruct (rrun r h rs' _). discriminate.
    + destruct (poll_recv_data rs) as [res rs']. destruct (rrun r h rs' _). discriminate.
    + destruct (poll_recv_trailers rs) as [res rs']. destruct (rrun r h rs' _). discriminate.
Qed.

Lemma rsettled_silent r : forall h rs ph, ph <> PDone -> rsettled h = true -> fst (rrun r h rs ph) = [] ->
  arrivals (map to_action h) = ([], Open).
Proof.
  induction h as [|a h IH]; intros rs ph Hph Hs Hr; [reflexivity|].
  destruct a; unfold rsettled in *; cbn [map to_action settled] in Hs.
  - apply andb_true_iff in Hs as [Hc _]. cbn [rrun] in Hr. exfalso. eapply rrun_nonempty_of_call; eauto.
  - cbn [rrun] in Hr. destruct ph; try congruence.
    + destruct (poll_first r rs) as [res rs']. destruct (rrun r h rs' _). discriminate.
    + destruct (poll_recv_data rs) as [res rs']. destruct (rrun r h rs' _). discriminate.
    + destruct (poll_recv_trailers rs) as [res rs']. destruct (rrun r h rs' _). discriminate.
Qed.

Definition rcompat (h : list raction) (rs : rstream) (q : rph) (fut : bytes) (fen en : ending) : Prop :=
  q <> QEnd ->
  fut_ok (rs_fs rs) fut /\ E (rs_fs rs) fen = en /\
  (q_end (st_q (rs_fs rs)) = Open -> arrivals (map to_action h) = (fut, fen)).

Lemma rcall_case sd r h' o ph' rs1 RO en fut fen :
  rstep_ok sd RO en fut fen o ph' rs1 ->
  (q_end (st_q (rs_fs rs1)) = Open -> arrivals (map to_action h') = (fut, fen)) ->
  (forall ph rs q, rinv ph rs q -> rcompat h' rs q fut fen en ->
     rrefines (fst (rrun r h' rs ph)) (rs_reset (snd (rrun r h' rs ph)))
              (owed sd q (spec_of (rs_fs rs) fut fen)) en (rsettled h')) ->
  rrefines (o :: fst (rrun r h' rs1 ph')) (rs_reset (snd (rrun r h' rs1 ph'))) RO en (rsettled h').
Proof.
  intros Hstep Har IH.
  inversion Hstep as [o' ph'' rs'' q' Hp Hc Hnq Hq HO Hw | o' ph'' rs'' q' Hnf Hnp Hc HO | o' rs'' f Hf Hff Hr Hpre]; subst.
  - (* pending *)
    destruct Hc as (Hri & Hc2). destruct (Hc2 Hnq) as (Hfut & HE).
    assert (Hph : ph' <> PDone).
    { destruct Hri as (_ & Hm). destruct ph'; try discriminate. destruct q'; contradiction. }
    eapply rrefines_pending with (q' := rsettled h'); [exact Hp| |auto|].
    + apply IH; auto. intros _. split; [exact Hfut|split; [exact HE|exact Har]].
    + intros Hos Hs. pose proof (rsettled_silent r h' rs1 ph' Hph Hs Hos) as Ha.
      assert (Hopen : q_end (st_q (rs_fs rs1)) = Open) by (rewrite Hq; reflexivity).
      rewrite (Har Hopen) in Ha. injection Ha as Hf1 Hf2. split.
      * rewrite <- HE. unfold E. rewrite Hopen. exact Hf2.
      * apply Hw; assumption.
  - (* something was shown, the application goes on *)
    destruct Hc as (Hri & Hc2).
    apply rrefines_emit; auto. apply IH; auto.
    intros Hnq. destruct (Hc2 Hnq) as (Hfut & HE). split; [exact Hfut|split; [exact HE|exact Har]].
  - (* final *)
    destruct (rrun_done r h' rs1) as [Hos Hreset]. rewrite Hos, Hreset.
    eapply rrefines_last; eauto. apply final_not_pending. exact Hf.
Qed.

Lemma arrive_fields e s :
  st_rem (arrive e s) = st_rem s /\ st_eos (arrive e s) = st_eos s /\ st_buf (arrive e s) = st_buf s.
Proof. unfold arrive. destruct (terminated (st_q s)); auto. Qed.

Lemma rinv_fs_inv ph rs q : rinv ph rs q -> q <> QEnd -> fs_inv (rs_fs rs).
Proof. intros (_ & Hm) Hq. destruct ph, q; try contradiction; try tauto. Qed.

Lemma rinv_arrive ph rs q e : rinv ph rs q -> action_ok (Arrive e) -> rinv ph (rarrive e rs) q.
Proof.
  intros (Hreset & Hm) Hok. split; [exact Hreset|].
  destruct (arrive_fields e (rs_fs rs)) as (Hr & He & Hb).
  destruct ph, q; try contradiction; cbn [rinv rarrive with_fs rs_fs rs_trailers] in *.
  - destruct Hm as (A & B & C). split; [apply arrive_inv; auto|]. split; [rewrite Hr; exact B|exact C].
  - destruct Hm as (A & B). split; [apply arrive_inv; auto|exact B].
  - destruct Hm as (A & B & C). split; [apply arrive_inv; auto|]. split; [exact B|rewrite Hr; exact C].
  - destruct Hm as (A & B & C & D). split; [exact A|]. split; [rewrite He; exact B|].
    split; [rewrite Hb; exact C|rewrite Hr; exact D].
Qed.

Lemma rarrive_case sd e h' ph rs q fut fen en :
  rinv ph rs q -> rcompat (RArrive e :: h') rs q fut fen en -> action_ok (Arrive e) ->
  exists fut' fen', rinv ph (rarrive e rs) q /\ rcompat h' (rarrive e rs) q fut' fen' en /\
    owed sd q (spec_of (rs_fs (rarrive e rs)) fut' fen') = owed sd q (spec_of (rs_fs rs) fut fen).
Proof.
  intros Hri Hcompat Hok.
  assert (Hdec : q = QEnd \/ q <> QEnd) by (destruct q; auto; right; discriminate).
  destruct Hdec as [->|HQ].
  - exists fut, fen. split; [apply rinv_arrive; auto|]. split; [intros Hx; congruence|reflexivity].
  - destruct (Hcompat HQ) as (Hfut & HE & Har).
    pose proof (rinv_fs_inv _ _ _ Hri HQ) as Hinv.
    destruct (arrive_spec e (map to_action h') (rs_fs rs) fut fen Hinv Hok Hfut Har) as (fut' & fen' & Hfut' & Har' & Hspec & HE').
    exists fut', fen'. split; [apply rinv_arrive; auto|]. split.
    + intros _. cbn [rarrive with_fs rs_fs]. split; [exact Hfut'|]. split; [congruence|exact Har'].
    + cbn [rarrive with_fs rs_fs]. rewrite Hspec. reflexivity.
Qed.

Lemma rrun_refines sd r : side_of r = sd -> forall h ph rs q fut fen en,
  rinv ph rs q -> rcompat h rs q fut fen en -> rhist_ok h ->
  rrefines (fst (rrun r h rs ph)) (rs_reset (snd (rrun r h rs ph)))
           (owed sd q (spec_of (rs_fs rs) fut fen)) en (rsettled h).
Proof.
  intros Hsd. induction h as [|a h' IH]; intros ph rs q fut fen en Hri Hcompat Hh.
  - apply rrefines_nil.
  - unfold rhist_ok, hist_ok in Hh. cbn [map] in Hh. apply Forall_cons_iff in Hh as [Ha Hh'].
    destruct a as [e|].
    + (* an arrival *)
      cbn [rrun]. cbn [to_action] in Ha.
      destruct (rarrive_case sd e h' ph rs q fut fen en Hri Hcompat Ha) as (fut' & fen' & Hri' & Hcompat' & Hspec).
      rewrite <- Hspec.
      eapply rrefines_quiet_mono; [|apply IH; auto].
      unfold rsettled. cbn [map to_action settled]. intros Hs. apply andb_true_iff in Hs. tauto.
    + (* a call *)
      assert (Hset : rsettled (RCall :: h') = rsettled h') by reflexivity. rewrite Hset.
      destruct Hri as (Hreset & Hm).
      destruct ph; cbn [rrun].
      * (* first frame *)
        destruct q; try contradiction.
        assert (HQ : QStart <> QEnd) by discriminate. destruct (Hcompat HQ) as (Hfut & HE & Har).
        pose proof (first_step r rs fut fen (conj Hreset Hm) Hfut) as Hstep. rewrite Hsd, HE in Hstep.
        pose proof (poll_first_qend r rs) as Hqe.
        destruct (poll_first r rs) as [res rs1]. cbn [fst snd] in Hstep, Hqe.
        pose proof (rcall_case sd r h' (OHead res) (phase_after_first res) rs1 _ en fut fen Hstep) as Hcc.
        unfold phase_after_first in Hcc.
        destruct (rrun r h' rs1 match res with Pending => PFirst | Ready (Ok _) => PBody | Ready _ => PDone end) as [os rs2].
        cbn [fst snd] in *. apply Hcc.
        -- rewrite Hqe. exact Har.
        -- intros ph0 rs0 q0 H1 H2. apply IH; auto.
      * (* body *)
        destruct q; try contradiction.
        assert (HQ : QBody <> QEnd) by discriminate. destruct (Hcompat HQ) as (Hfut & HE & Har).
        pose proof (body_step sd rs fut fen (conj Hreset Hm) Hfut) as Hstep. rewrite HE in Hstep.
        pose proof (recv_data_loop_qend (S (pending_bytes (rs_fs rs))) rs) as Hqe. fold (poll_recv_data rs) in Hqe.
        destruct (poll_recv_data rs) as [res rs1]. cbn [fst snd] in Hstep, Hqe.
        pose proof (rcall_case sd r h' (OBody res) (phase_after_body res) rs1 _ en fut fen Hstep) as Hcc.
        unfold phase_after_body in Hcc.
        destruct (rrun r h' rs1 match res with
                                | Pending => PBody | Ready (Ok (Some _)) => PBody | Ready (Ok None) => PTrailers
                                | Ready _ => PDone end) as [os rs2].
        cbn [fst snd] in *. apply Hcc.
        -- rewrite Hqe. exact Har.
        -- intros ph0 rs0 q0 H1 H2. apply IH; auto.
      * (* trailers *)
        destruct q as [| |t|]; try contradiction.
        -- assert (HQ : QTrail t <> QEnd) by discriminate. destruct (Hcompat HQ) as (Hfut & HE & Har).
           pose proof (trailers_step sd rs t fut fen (conj Hreset Hm) Hfut) as Hstep. rewrite HE in Hstep.
           pose proof (poll_recv_trailers_qend rs) as Hqe.
           destruct (poll_recv_trailers rs) as [res rs1]. cbn [fst snd] in Hstep, Hqe.
           pose proof (rcall_case sd r h' (OTrail res) (phase_after_trailers res) rs1 _ en fut fen Hstep) as Hcc.
           unfold phase_after_trailers in Hcc.
           destruct (rrun r h' rs1 match res with Pending => PTrailers | Ready _ => PDone end) as [os rs2].
           cbn [fst snd] in *. apply Hcc.
           ++ rewrite Hqe. exact Har.
           ++ intros ph0 rs0 q0 H1 H2. apply IH; auto.
        -- destruct (trailers_end_result rs (conj Hreset Hm)) as (rs1 & Hp & Hr1). rewrite Hp.
           destruct (rrun_done r h' rs1) as [Hos Hres].
           destruct (rrun r h' rs1 PDone) as [os rs2]. cbn [fst snd] in *. subst os. rewrite Hres, Hr1.
           cbn [owed].
           apply rrefines_last with (f := FDone); [reflexivity|reflexivity|reflexivity| |exists []; reflexivity].
           cbv [rrefines_final fst snd events_of_robs]. auto.
      * contradiction.
Qed.

Lemma rs_new_inv : rinv PFirst (rs_new []) QStart.
Proof. split; [reflexivity|]. cbn [rinv rs_new rs_fs rs_trailers]. split; [apply fs_new_inv|]. split; reflexivity. Qed.

(* T1-T3 as one refinement statement *)
Theorem request_refinement r h : rhist_ok h ->
  rrefines (fst (rrun r h (rs_new []) PFirst)) (rs_reset (snd (rrun r h (rs_new []) PFirst)))
           (request_outcome sc (side_of r) (rflat_of h) (rending_of h)) (rending_of h) (rsettled h).
Proof.
  intros Hh.
  change (request_outcome sc (side_of r) (rflat_of h) (rending_of h))
    with (owed (side_of r) QStart (spec_of (rs_fs (rs_new [])) (rflat_of h) (rending_of h))).
  apply (rrun_refines (side_of r) r eq_refl h PFirst (rs_new []) QStart (rflat_of h) (rending_of h) (rending_of h)); auto.
  - apply rs_new_inv.
  - intros _. split; [|split].
    + split; [apply arrivals_wf; exact Hh|]. cbn. intros Hx; congruence.
    + reflexivity.
    + intros _. unfold rflat_of, rending_of, flat_of, ending_of. destruct (arrivals (map to_action h)); reflexivity.
Qed.

(* ---------- the language ---------- *)
Definition kind_of_tok (t : tok) : kind :=
  match t with
  | TFrame (FHeaders _) => KHeaders
  | TFrame (FData _) => KData
  | TByte _ => KData
  | TFrame _ => KOther
  end.

Lemma in_language_trail t t' ks : in_language (DTrail t) ks = in_language (DTrail t') ks.
Proof. destruct ks as [|[]]; reflexivity. Qed.

(* a complete stream yields a complete message exactly when its frame sequence is HEADERS DATA* HEADERS? *)
Theorem delivered_iff_language sd : forall toks st,
  snd (req_out sd st (toks, CleanEnd)) = RDone <-> in_language st (map kind_of_tok toks) = true.
Proof.
  induction toks as [|t toks IH]; intros st.
  - destruct st, sd; cbn; split; intros H; try reflexivity; try discriminate.
  - unfold req_out in *. cbn [fst snd] in *.
    destruct t as [f|b].
    + destruct f; cbn [req_walk map kind_of_tok in_language].
      * destruct st; cbn [snd]; try (split; intros; discriminate). apply IH.
      * destruct st.
        -- specialize (IH DBody). destruct (req_walk sd DBody toks) as [ev [st'|ff]]; cbn [snd] in *;
             [destruct (req_stop sd st' CleanEnd)|]; exact IH.
        -- specialize (IH (DTrail block)). rewrite (in_language_trail [] block).
           destruct (req_walk sd (DTrail block) toks) as [ev [st'|ff]]; cbn [snd] in *;
             [destruct (req_stop sd st' CleanEnd)|]; exact IH.
        -- cbn [snd]. split; intros; discriminate.
      * cbn [snd]. split; intros; discriminate.
      * cbn [snd]. split; intros; discriminate.
      * destruct sd; cbn [snd not_a_message_frame]; split; intros; discriminate.
      * cbn [snd]. split; intros; discriminate.
      * cbn [snd]. split; intros; discriminate.
      * cbn [snd]. split; intros; discriminate.
    + cbn [req_walk map kind_of_tok in_language]. destruct st; cbn [snd]; try (split; intros; discriminate).
      specialize (IH DBody). destruct (req_walk sd DBody toks) as [ev [st'|ff]]; cbn [snd] in *;
        [destruct (req_stop sd st' CleanEnd)|]; exact IH.
Qed.

(* every other sequence on a complete stream is H3_FRAME_UNEXPECTED - or, for the server, the empty request that is
   refused as incomplete; a WebTransport stream header is outside the property *)
Theorem not_in_language_unexpected sd : forall toks st,
  in_language st (map kind_of_tok toks) = false ->
  match snd (req_out sd st (toks, CleanEnd)) with
  | RConnError l => In H3_FRAME_UNEXPECTED_rfc l
  | RIncomplete => st = DStart /\ sd = AtServer /\ Forall (fun t => exists b, t = TByte b) toks /\ toks = []
  | ROutOfScope => True
  | _ => False
  end.
Proof.
  induction toks as [|t toks IH]; intros st Hl.
  - destruct st; cbn in Hl; try discriminate. destruct sd; cbn; auto.
  - unfold req_out in *. cbn [fst snd] in *.
    destruct t as [f|b].
    + destruct f; cbn [req_walk map kind_of_tok in_language] in *.
      * destruct st; cbn [snd unexpected]; try (cbn; auto; fail).
        specialize (IH DBody Hl). destruct (req_walk sd DBody toks) as [ev [st'|ff]]; cbn [snd] in *;
          [destruct (req_stop sd st' CleanEnd) as [ev' fin]|]; cbn [snd] in *;
          match goal with |- match ?x with _ => _ end => destruct x end; auto; destruct IH as (Hx & _); discriminate.
      * destruct st.
        -- specialize (IH DBody Hl). destruct (req_walk sd DBody toks) as [ev [st'|ff]]; cbn [snd] in *;
             [destruct (req_stop sd st' CleanEnd) as [ev' fin]|]; cbn [snd] in *;
             match goal with |- match ?x with _ => _ end => destruct x end; auto; destruct IH as (Hx & _); discriminate.
        -- rewrite (in_language_trail [] block) in Hl. specialize (IH (DTrail block) Hl).
           destruct (req_walk sd (DTrail block) toks) as [ev [st'|ff]]; cbn [snd] in *;
             [destruct (req_stop sd st' CleanEnd) as [ev' fin]|]; cbn [snd] in *;
             match goal with |- match ?x with _ => _ end => destruct x end; auto; destruct IH as (Hx & _); discriminate.
        -- cbn. auto.
      * cbn. auto.
      * cbn. auto.
      * destruct sd; cbn; auto.
      * cbn. auto.
      * cbn. auto.
      * cbn. auto.
    + cbn [req_walk map kind_of_tok in_language] in *. destruct st; cbn [snd unexpected]; try (cbn; auto; fail).
      specialize (IH DBody Hl). destruct (req_walk sd DBody toks) as [ev [st'|ff]]; cbn [snd] in *;
        [destruct (req_stop sd st' CleanEnd) as [ev' fin]|]; cbn [snd] in *;
        match goal with |- match ?x with _ => _ end => destruct x end; auto; destruct IH as (Hx & _); discriminate.
Qed.

(* the content shown is the concatenation of the DATA payloads, byte by byte and in order *)
Fixpoint body_of_events (ev : list revent) : bytes :=
  match ev with
  | [] => []
  | EByte b :: r => b :: body_of_events r
  | _ :: r => body_of_events r
  end.
Fixpoint payload_of_toks (toks : list tok) : bytes :=
  match toks with
  | [] => []
  | TByte b :: r => b :: payload_of_toks r
  | _ :: r => payload_of_toks r
  end.

Theorem body_is_payload sd : forall toks st t,
  snd (req_out sd st (toks, t)) = RDone ->
  body_of_events (fst (req_out sd st (toks, t))) = payload_of_toks toks.
Proof.
  induction toks as [|x toks IH]; intros st t Hd.
  - unfold req_out in *. cbn [fst snd req_walk] in *.
    destruct (req_stop sd st t) as [ev fin] eqn:Hs. cbn [fst snd app] in *. subst fin.
    destruct t as [| |e| | |]; cbn in Hs; try (inversion Hs; fail); try (destruct e; inversion Hs; fail).
    destruct st; [destruct sd|..]; inversion Hs; reflexivity.
  - unfold req_out in *. cbn [fst snd] in *.
    destruct x as [f|b].
    + destruct f; cbn [req_walk payload_of_toks] in *;
        try (cbn [snd] in Hd; discriminate); try (destruct sd; cbn [snd] in Hd; discriminate).
      * destruct st; try (cbn [snd] in Hd; discriminate). apply IH. exact Hd.
      * destruct st; try (cbn [snd] in Hd; discriminate).
        -- specialize (IH DBody t). destruct (req_walk sd DBody toks) as [ev [st'|ff]];
             [destruct (req_stop sd st' t) as [ev' fin]|]; cbn [fst snd app body_of_events] in *; auto.
        -- specialize (IH (DTrail block) t). destruct (req_walk sd (DTrail block) toks) as [ev [st'|ff]];
             [destruct (req_stop sd st' t) as [ev' fin]|]; cbn [fst snd app body_of_events] in *; auto.
    + cbn [req_walk payload_of_toks] in *. destruct st; try (cbn [snd] in Hd; discriminate).
      specialize (IH DBody t). destruct (req_walk sd DBody toks) as [ev [st'|ff]];
        [destruct (req_stop sd st' t) as [ev' fin]|]; cbn [fst snd app body_of_events] in *; auto.
      * rewrite IH; auto.
      * rewrite IH; auto.
Qed.
