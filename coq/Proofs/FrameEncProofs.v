(* C14, part 2: what the encoders put into the header array, and what each WriteBuf constructor yields. *)
From H3V Require Import Base.Bytes Base.BytesLemmas Gen.GenWriters Spec.RFC9000 Spec.RFC9114Wire
  Model.Varint Model.Datagram Model.FrameEnc Model.WriteBuf Proofs.VarintProofs Proofs.DatagramProofs
  Proofs.WriteBufProofs.
From Coq Require Import ZifyBool ZifyNat ZifyN.
Ltac Zify.zify_post_hook ::= Z.div_mod_to_equations.

(* ---- source facts used below ---- *)
Lemma gen_orders :
  simple_frame_order = [0; 1; 2] /\ frame_header_order = [0; 1] /\ control_header_order = [0; 1] /\
  pair_type_first = true /\ push_promise_puts_payload_in_header = true.
Proof. repeat split; reflexivity. Qed.
Lemma gen_types :
  data_type = T_DATA /\ headers_type = T_HEADERS /\ cancel_push_type = T_CANCEL_PUSH /\ settings_type = T_SETTINGS /\
  push_promise_type = T_PUSH_PROMISE /\ goaway_type = T_GOAWAY /\ max_push_id_type = T_MAX_PUSH_ID /\
  uni_Control_type = S_CONTROL /\ uni_Encoder_type = S_QPACK_ENCODER /\ uni_Decoder_type = S_QPACK_DECODER /\
  uni_WebTransportUni_type = S_WEBTRANSPORT.
Proof. repeat split; reflexivity. Qed.
Lemma gen_lengths :
  data_len_add = 0 /\ data_len_sub = 0 /\ headers_len_add = 0 /\ headers_len_sub = 0 /\
  grease_len_field = len grease_payload.
Proof. repeat split; reflexivity. Qed.
Lemma gen_grease :
  ft_grease_mul = 31 /\ ft_grease_add = 33 /\ st_grease_mul = 31 /\ st_grease_add = 33 /\
  sid_grease_mul = 31 /\ sid_grease_add = 33 /\
  ft_grease_range = 148764065110560899 /\ st_grease_range = 148764065110560899 /\ sid_grease_range = 148764065110560899.
Proof. repeat split; reflexivity. Qed.

(* ---- the header array as an append-only writer ---- *)
Definition written (h : hbuf) : bytes := firstn (N.to_nat (h_len h)) (h_buf h).
Definition hb_ok (h : hbuf) : Prop := h_len h <= len (h_buf h).

(* e appends exactly bs whenever bs fits *)
Definition enc_writes (e : enc) (bs : bytes) : Prop :=
  forall h, hb_ok h -> h_len h + len bs <= len (h_buf h) ->
    exists h', e h = Ok h' /\ written h' = written h ++ bs /\ len (h_buf h') = len (h_buf h) /\
               h_len h' = h_len h + len bs.

(* e panics whenever bs does not fit *)
Definition enc_overflows (e : enc) (bs : bytes) : Prop :=
  forall h, hb_ok h -> len (h_buf h) < h_len h + len bs -> exists s, e h = Panic s.

Lemma put_slice_writes bs : enc_writes (put_slice bs) bs.
Proof.
  intros h Hok Hfit. unfold put_slice. destruct (N.leb_spec (h_len h + len bs) (len (h_buf h))); [|lia].
  eexists. split; [reflexivity|]. unfold written, hb_ok in *. cbn [h_buf h_len].
  set (n := N.to_nat (h_len h)).
  assert (Hn : length (firstn n (h_buf h)) = n).
  { rewrite firstn_length. unfold len in Hok. lia. }
  repeat split.
  - rewrite app_assoc. replace (N.to_nat (h_len h + len bs)) with (length (firstn n (h_buf h) ++ bs)).
    + apply firstn_app_exact.
    + rewrite app_length, Hn. unfold len, n. lia.
  - unfold len in *. rewrite !app_length, Hn, skipn_length. lia.
Qed.

Lemma put_slice_overflows bs : enc_overflows (put_slice bs) bs.
Proof.
  intros h Hok Hbig. unfold put_slice. destruct (N.leb_spec (h_len h + len bs) (len (h_buf h))); [lia|].
  eexists; reflexivity.
Qed.

Lemma len_rfc_varint x : x < 2 ^ 62 -> len (rfc_varint x) = rfc_vi_shortest x.
Proof. intros _. unfold rfc_varint, len. rewrite rfc_vi_enc_length. lia. Qed.

Lemma shortest_le_8 x : 1 <= rfc_vi_shortest x <= 8.
Proof.
  unfold rfc_vi_shortest. destruct (x <? 2 ^ 6); [lia|]. destruct (x <? 2 ^ 14); [lia|].
  destruct (x <? 2 ^ 30); lia.
Qed.

Lemma put_var_writes x : x < 2 ^ 62 -> enc_writes (put_var x) (rfc_varint x).
Proof.
  intros Hx h Hok Hfit. unfold put_var. rewrite vi_encode_shortest by exact Hx.
  apply put_slice_writes; assumption.
Qed.

Lemma put_var_overflows x : x < 2 ^ 62 -> enc_overflows (put_var x) (rfc_varint x).
Proof.
  intros Hx h Hok Hbig. unfold put_var. rewrite vi_encode_shortest by exact Hx.
  apply put_slice_overflows; assumption.
Qed.

Lemma seq_nil_writes : enc_writes (seq []) [].
Proof.
  intros h Hok _. exists h. cbn. rewrite app_nil_r. unfold len. cbn. repeat split; auto. lia.
Qed.

Lemma seq_cons_writes e es b bs :
  enc_writes e b -> enc_writes (seq es) bs -> enc_writes (seq (e :: es)) (b ++ bs).
Proof.
  intros He Hes h Hok Hfit. rewrite len_app in Hfit. cbn [seq].
  destruct (He h Hok) as (h1 & E1 & W1 & L1 & N1); [lia|]. rewrite E1. cbn [res_bind].
  destruct (Hes h1) as (h2 & E2 & W2 & L2 & N2); [unfold hb_ok; lia|lia|].
  exists h2. split; [exact E2|]. rewrite W2, W1, L2, L1, N2, N1, len_app, app_assoc. repeat split; lia.
Qed.

Lemma seq_app_writes es1 es2 b1 b2 :
  enc_writes (seq es1) b1 -> enc_writes (seq es2) b2 -> enc_writes (seq (es1 ++ es2)) (b1 ++ b2).
Proof.
  intros H1 H2 h Hok Hfit. rewrite len_app in Hfit.
  destruct (H1 h Hok) as (h1 & E1 & W1 & L1 & N1); [lia|].
  destruct (H2 h1) as (h2 & E2 & W2 & L2 & N2); [unfold hb_ok; lia|lia|].
  exists h2. split.
  - clear - E1 E2. revert h E1. induction es1 as [|e es1 IH]; intros h E1; cbn [seq app] in *.
    + inversion E1; subst. exact E2.
    + destruct (e h) as [h'| |]; cbn [res_bind] in *; try discriminate. apply IH. exact E1.
  - rewrite W2, W1, L2, L1, N2, N1, len_app, app_assoc. repeat split; lia.
Qed.

Lemma seq_single_writes e b : enc_writes e b -> enc_writes (seq [e]) b.
Proof.
  intros H. rewrite <- (app_nil_r b). apply seq_cons_writes; [exact H|apply seq_nil_writes].
Qed.

Lemma enc_writes_ext e e' bs : (forall h, e h = e' h) -> enc_writes e bs -> enc_writes e' bs.
Proof. intros Hext H h Hok Hfit. rewrite <- Hext. apply H; assumption. Qed.

Ltac seq_writes :=
  repeat first [ apply seq_nil_writes
               | apply seq_cons_writes
               | apply put_var_writes
               | apply put_slice_writes ].

(* ---- frames ---- *)
Definition settings_entry_ok (e : N * N) : Prop := fst e < 2 ^ 62 /\ snd e < 2 ^ 62.
Definition settings_ok (es : list (N * N)) : Prop := Forall settings_entry_ok es.
Definition rfc_settings_bytes (es : list (N * N)) : bytes :=
  concat (map (fun e => rfc_varint (fst e) ++ rfc_varint (snd e)) es).

Lemma settings_payload_len_ok es :
  settings_ok es -> settings_payload_len es = Some (len (rfc_settings_bytes es)) /\ len (rfc_settings_bytes es) < 2 ^ 62 + 16 * N.of_nat (length es).
Proof.
  induction es as [|[i v] r IH]; intros H.
  - cbn. unfold len. cbn. split; [reflexivity|lia].
  - inversion H as [|? ? [Hi Hv] Hr]; subst. cbn [fst snd] in *.
    destruct (IH Hr) as [E B]. cbn [settings_payload_len]. rewrite E.
    rewrite !vi_size_shortest by assumption.
    unfold rfc_settings_bytes in *. cbn [map concat fst snd]. rewrite !len_app, !len_rfc_varint by assumption.
    pose proof (shortest_le_8 i). pose proof (shortest_le_8 v).
    split; [f_equal; lia|]. cbn [length]. lia.
Qed.

Lemma enc_entries_writes es : settings_ok es -> enc_writes (enc_entries es) (rfc_settings_bytes es).
Proof.
  unfold enc_entries, rfc_settings_bytes. induction es as [|[i v] r IH]; intros H.
  - apply seq_nil_writes.
  - inversion H as [|? ? [Hi Hv] Hr]; subst. cbn [fst snd] in *.
    cbn [flat_map map concat app fst snd]. rewrite <- app_assoc.
    apply seq_cons_writes; [apply put_var_writes; exact Hi|].
    apply seq_cons_writes; [apply put_var_writes; exact Hv|]. apply IH. exact Hr.
Qed.

Lemma enc_settings_writes es :
  settings_ok es -> len (rfc_settings_bytes es) < 2 ^ 62 ->
  enc_writes (enc_settings es) (rfc_frame T_SETTINGS (rfc_settings_bytes es)).
Proof.
  intros Hes Hlen. unfold enc_settings, rfc_frame.
  destruct gen_orders as (_ & -> & _). destruct gen_types as (_ & _ & _ & -> & _).
  cbn [in_order assoc N.eqb app]. change (0 =? 0) with true. change (1 =? 0) with false. change (1 =? 1) with true.
  cbv beta iota.
  apply seq_cons_writes; [apply put_var_writes; reflexivity|].
  apply seq_cons_writes.
  - intros h Hok Hfit. unfold put_settings_len. destruct (settings_payload_len_ok es Hes) as [-> _].
    apply put_var_writes; assumption.
  - apply seq_single_writes. apply enc_entries_writes. exact Hes.
Qed.

Lemma enc_simple_frame_writes ty id :
  ty < 2 ^ 62 -> id < 2 ^ 62 ->
  enc_writes (enc_simple_frame ty id) (rfc_frame ty (rfc_varint id)).
Proof.
  intros Hty Hid. unfold enc_simple_frame, rfc_frame.
  destruct gen_orders as (-> & _).
  cbn [in_order assoc app]. change (0 =? 0) with true. change (1 =? 0) with false. change (1 =? 1) with true.
  change (2 =? 0) with false. change (2 =? 1) with false. change (2 =? 2) with true. cbv beta iota.
  apply seq_cons_writes; [apply put_var_writes; exact Hty|].
  apply seq_cons_writes.
  - intros h Hok Hfit. unfold put_size_of. rewrite vi_size_shortest by exact Hid.
    rewrite (len_rfc_varint id Hid) in Hfit |- *.
    apply put_var_writes; [pose proof (shortest_le_8 id); lia|exact Hok|exact Hfit].
  - apply seq_single_writes. apply put_var_writes. exact Hid.
Qed.

Definition grease_id (g : N) : N := 31 * g + 33.
Lemma grease_id_range g : g < 148764065110560899 -> grease_id g < 2 ^ 62.
Proof. unfold grease_id. change (2 ^ 62) with 4611686018427387904. lia. Qed.
Lemma grease_id_reserved g : rfc_reserved (grease_id g) = true.
Proof.
  unfold rfc_reserved, grease_id. apply andb_true_iff. split; [lia|].
  replace (31 * g + 33 - 33) with (g * 31) by lia. rewrite N.mod_mul by lia. reflexivity.
Qed.

(* the header each frame variant encodes, as RFC bytes (the part before the streamed payload) *)
Definition frame_header_bytes (f : frame) : bytes :=
  match f with
  | FData p => rfc_varint T_DATA ++ rfc_varint (len (concat p))
  | FHeaders b => rfc_varint T_HEADERS ++ rfc_varint (len b)
  | FSettings es => rfc_frame T_SETTINGS (rfc_settings_bytes es)
  | FCancelPush id => rfc_frame T_CANCEL_PUSH (rfc_varint id)
  | FGoaway id => rfc_frame T_GOAWAY (rfc_varint id)
  | FMaxPushId id => rfc_frame T_MAX_PUSH_ID (rfc_varint id)
  | FGrease g => rfc_frame (grease_id g) grease_payload
  | FWebTransportStream sid => rfc_varint 65 ++ rfc_varint sid
  | FPushPromise id e => rfc_varint T_PUSH_PROMISE ++ rfc_varint (rfc_vi_shortest id + len e) ++ rfc_varint id ++ e
  end.

Definition frame_args_ok (f : frame) : Prop :=
  match f with
  | FData p => len (concat p) < 2 ^ 62
  | FHeaders b => len b < 2 ^ 62
  | FSettings es => settings_ok es /\ len (rfc_settings_bytes es) < 2 ^ 62
  | FCancelPush id | FGoaway id | FMaxPushId id | FWebTransportStream id => id < 2 ^ 62
  | FGrease g => g < 148764065110560899
  | FPushPromise id e => id < 2 ^ 62 /\ len e < 2 ^ 61
  end.

Lemma enc_frame_writes f : frame_args_ok f -> enc_writes (enc_frame f) (frame_header_bytes f).
Proof.
  destruct f as [p|b|id|es|id e|id|id|sid|g]; cbn [frame_args_ok frame_header_bytes enc_frame]; intros Hok.
  - destruct gen_lengths as (-> & -> & _). destruct gen_types as (-> & _).
    apply seq_cons_writes; [apply put_var_writes; reflexivity|].
    apply seq_single_writes. intros h Hh Hfit. unfold put_len_field.
    destruct (N.ltb_spec (pl_remaining p + 0) 0); [lia|].
    replace (pl_remaining p + 0 - 0) with (len (concat p)) by (unfold pl_remaining; lia).
    apply put_var_writes; assumption.
  - destruct gen_lengths as (_ & _ & -> & -> & _). destruct gen_types as (_ & -> & _).
    apply seq_cons_writes; [apply put_var_writes; reflexivity|].
    apply seq_single_writes. intros h Hh Hfit. unfold put_len_field.
    destruct (N.ltb_spec (len b + 0) 0); [lia|].
    replace (len b + 0 - 0) with (len b) by lia.
    apply put_var_writes; assumption.
  - apply enc_simple_frame_writes; [reflexivity|exact Hok].
  - destruct Hok. apply enc_settings_writes; assumption.
  - destruct Hok as [Hid He]. destruct gen_orders as (_ & _ & _ & _ & ->).
    apply seq_cons_writes; [apply put_var_writes; reflexivity|].
    apply seq_cons_writes.
    { intros h Hh Hfit. unfold put_pp_len. rewrite vi_size_shortest by exact Hid.
      apply put_var_writes; [|assumption|assumption].
      pose proof (shortest_le_8 id). change (2 ^ 62) with (2 * 2 ^ 61). lia. }
    apply seq_cons_writes; [apply put_var_writes; exact Hid|].
    apply seq_single_writes. apply put_slice_writes.
  - apply enc_simple_frame_writes; [reflexivity|exact Hok].
  - apply enc_simple_frame_writes; [reflexivity|exact Hok].
  - apply seq_cons_writes; [apply put_var_writes; reflexivity|].
    apply seq_single_writes. apply put_var_writes. exact Hok.
  - unfold rfc_frame. destruct gen_lengths as (_ & _ & _ & _ & Hgl).
    apply seq_cons_writes.
    { intros h Hh Hfit. unfold put_grease_type, grease_value.
      destruct gen_grease as (-> & -> & _).
      pose proof (grease_id_range g Hok) as Hr. unfold grease_id in Hr.
      replace (g * 31 + 33) with (31 * g + 33) by lia.
      destruct (N.ltb_spec (31 * g + 33) (2 ^ 64)); [|change (2 ^ 64) with (4 * 2 ^ 62) in *; lia].
      apply put_var_writes; assumption. }
    apply seq_cons_writes; [rewrite <- Hgl; apply put_var_writes; reflexivity|].
    apply seq_single_writes. apply put_slice_writes.
Qed.

(* ---- stream headers ---- *)
Definition uni_header_bytes (u : uni_header) : bytes :=
  match u with
  | UControl es => rfc_varint S_CONTROL ++ rfc_frame T_SETTINGS (rfc_settings_bytes es)
  | UWebTransportUni sid => rfc_varint S_WEBTRANSPORT ++ rfc_varint sid
  | UEncoder => rfc_varint S_QPACK_ENCODER
  | UDecoder => rfc_varint S_QPACK_DECODER
  end.
Definition uni_args_ok (u : uni_header) : Prop :=
  match u with
  | UControl es => settings_ok es /\ len (rfc_settings_bytes es) < 2 ^ 62
  | UWebTransportUni sid => sid < 2 ^ 62
  | _ => True
  end.

Lemma enc_uni_header_writes u : uni_args_ok u -> enc_writes (enc_uni_header u) (uni_header_bytes u).
Proof.
  destruct u as [es|sid| |]; cbn [uni_args_ok uni_header_bytes enc_uni_header]; intros Hok.
  - destruct Hok. destruct gen_orders as (_ & _ & -> & _).
    cbn [in_order assoc]. change (0 =? 0) with true. change (1 =? 0) with false. change (1 =? 1) with true.
    cbv beta iota.
    apply seq_cons_writes; [apply put_var_writes; reflexivity|].
    apply seq_single_writes. apply enc_settings_writes; assumption.
  - apply seq_cons_writes; [apply put_var_writes; reflexivity|].
    apply seq_single_writes. apply put_var_writes. exact Hok.
  - apply put_var_writes. reflexivity.
  - apply put_var_writes. reflexivity.
Qed.

Lemma enc_bidi_header_writes sid :
  sid < 2 ^ 62 -> enc_writes (enc_bidi_header sid) (rfc_varint 65 ++ rfc_varint sid).
Proof.
  intros H. unfold enc_bidi_header.
  apply seq_cons_writes; [apply put_var_writes; reflexivity|].
  apply seq_single_writes. apply put_var_writes. exact H.
Qed.

(* ---- WriteBuf constructors ---- *)
Definition frame_payload_bytes (f : option frame) : bytes :=
  match f with
  | Some (FData p) => concat p
  | Some (FHeaders b) => b
  | Some (FPushPromise _ e) => e
  | _ => []
  end.
Definition frame_chunks_ok (f : option frame) : Prop :=
  match f with Some (FData p) => nonempty_chunks p | _ => True end.

Lemma wb_pl_empty fr : wb_pl (wb_empty fr) = frame_payload_bytes fr.
Proof.
  unfold wb_pl, wb_payload, wb_empty. cbn [w_frame]. destruct fr as [f|]; [|reflexivity].
  rewrite frame_payload_eq. destruct f; cbn; try reflexivity; apply concat_bytes_chunks.
Qed.

Lemma wb_apply_law e bs w :
  enc_writes e bs -> wb_inv w -> w_len w + len bs <= len (w_buf w) ->
  exists w', wb_apply e w = Ok w' /\ wb_inv w' /\ w_frame w' = w_frame w /\ w_pos w' = w_pos w /\
             w_len w' = w_len w + len bs /\ len (w_buf w') = len (w_buf w) /\
             firstn (N.to_nat (w_len w')) (w_buf w') = firstn (N.to_nat (w_len w)) (w_buf w) ++ bs.
Proof.
  intros He (Hp & Hl & Hne) Hfit. unfold wb_apply.
  destruct (N.ltb_spec (len (w_buf w)) (w_len w)); [lia|].
  destruct (He {| h_buf := w_buf w; h_len := w_len w |}) as (h' & E & W & L & Nn); [exact Hl|exact Hfit|].
  rewrite E. eexists. split; [reflexivity|]. cbn [h_buf h_len] in *. unfold written in W. cbn [h_buf h_len] in W.
  split.
  - unfold wb_inv, wb_payload in *. cbn [w_buf w_len w_pos w_frame]. repeat split; [lia|lia|exact Hne].
  - cbn [w_buf w_len w_pos w_frame]. repeat split; auto.
Qed.

Lemma wb_empty_inv fr : frame_chunks_ok fr -> wb_inv (wb_empty fr).
Proof.
  intros Hc. unfold wb_inv, wb_empty, wb_payload. cbn [w_buf w_len w_pos w_frame].
  destruct gen_init as (-> & -> & ->). split; [lia|]. split; [unfold len; rewrite repeat_length; lia|].
  destruct fr as [f|]; [|exact I]. rewrite frame_payload_eq.
  destruct f; cbn in *; auto; apply nonempty_bytes_chunks.
Qed.

Lemma wb_view_of_hdr w bs :
  w_pos w = 0 -> firstn (N.to_nat (w_len w)) (w_buf w) = bs -> wb_view w = bs ++ wb_pl w.
Proof.
  intros Hp Hb. rewrite wb_view_split. f_equal. unfold wb_hdr. rewrite Hp, N.sub_0_r. exact Hb.
Qed.

Lemma empty_facts fr :
  w_pos (wb_empty fr) = 0 /\ w_len (wb_empty fr) = 0 /\ len (w_buf (wb_empty fr)) = 64 /\ w_frame (wb_empty fr) = fr.
Proof.
  unfold wb_empty. cbn [w_buf w_len w_pos w_frame]. destruct gen_init as (-> & -> & ->).
  repeat split.
Qed.

(* one encoder run on an empty WriteBuf *)
Lemma wb_ctor1 e bs fr :
  enc_writes e bs -> frame_chunks_ok fr -> len bs <= 64 ->
  exists w, wb_apply e (wb_empty fr) = Ok w /\ wb_inv w /\ w_frame w = fr /\
            wb_view w = bs ++ frame_payload_bytes fr /\ w_pos w = 0 /\ w_len w = len bs /\ len (w_buf w) = 64.
Proof.
  intros He Hc Hfit. destruct (empty_facts fr) as (P0 & L0 & B0 & F0).
  destruct (wb_apply_law e bs (wb_empty fr) He (wb_empty_inv fr Hc)) as (w & E & Hinv & Hf & Hp & Hl & Hb & Hw); [lia|].
  exists w. split; [exact E|]. split; [exact Hinv|]. rewrite Hf, F0. split; [reflexivity|].
  rewrite L0 in Hw. cbn [N.to_nat firstn app] in Hw.
  split.
  - rewrite (wb_view_of_hdr w bs); [|lia|exact Hw]. f_equal. unfold wb_pl, wb_payload. rewrite Hf, F0.
    rewrite <- wb_pl_empty. unfold wb_pl, wb_payload. rewrite F0. reflexivity.
  - repeat split; lia.
Qed.

Theorem wb_from_stream_type_ok ty :
  ty < 2 ^ 62 ->
  exists w, wb_from_stream_type ty = Ok w /\ wb_inv w /\ wb_view w = rfc_varint ty.
Proof.
  intros H. unfold wb_from_stream_type.
  destruct (wb_ctor1 (put_var ty) (rfc_varint ty) None (put_var_writes ty H) I) as (w & E & Hi & _ & Hv & _).
  { rewrite len_rfc_varint by exact H. pose proof (shortest_le_8 ty). lia. }
  exists w. rewrite app_nil_r in Hv. auto.
Qed.

Theorem wb_from_uni_ok u :
  uni_args_ok u -> len (uni_header_bytes u) <= 64 ->
  exists w, wb_from_uni u = Ok w /\ wb_inv w /\ wb_view w = uni_header_bytes u.
Proof.
  intros H Hfit. unfold wb_from_uni.
  destruct (wb_ctor1 _ _ None (enc_uni_header_writes u H) I Hfit) as (w & E & Hi & _ & Hv & _).
  exists w. rewrite app_nil_r in Hv. auto.
Qed.

Theorem wb_from_bidi_ok sid :
  sid < 2 ^ 62 ->
  exists w, wb_from_bidi sid = Ok w /\ wb_inv w /\ wb_view w = rfc_varint 65 ++ rfc_varint sid.
Proof.
  intros H. unfold wb_from_bidi.
  destruct (wb_ctor1 _ _ None (enc_bidi_header_writes sid H) I) as (w & E & Hi & _ & Hv & _).
  { rewrite len_app, !len_rfc_varint by (exact H || reflexivity). pose proof (shortest_le_8 sid). pose proof (shortest_le_8 65). lia. }
  exists w. rewrite app_nil_r in Hv. auto.
Qed.

Theorem wb_from_frame_ok f :
  frame_args_ok f -> frame_chunks_ok (Some f) -> len (frame_header_bytes f) <= 64 ->
  exists w, wb_from_frame f = Ok w /\ wb_inv w /\
            wb_view w = frame_header_bytes f ++ frame_payload_bytes (Some f).
Proof.
  intros H Hc Hfit. unfold wb_from_frame, wb_encode_frame_header.
  destruct (empty_facts (Some f)) as (_ & _ & _ & ->).
  destruct (wb_ctor1 _ _ (Some f) (enc_frame_writes f H) Hc Hfit) as (w & E & Hi & _ & Hv & _).
  exists w. auto.
Qed.

Theorem wb_from_pair_ok ty f :
  ty < 2 ^ 62 -> frame_args_ok f -> frame_chunks_ok (Some f) -> len (frame_header_bytes f) <= 56 ->
  exists w, wb_from_pair ty f = Ok w /\ wb_inv w /\
            wb_view w = rfc_varint ty ++ frame_header_bytes f ++ frame_payload_bytes (Some f).
Proof.
  intros Hty H Hc Hfit. unfold wb_from_pair. destruct gen_orders as (_ & _ & _ & -> & _).
  pose proof (shortest_le_8 ty) as Hs.
  destruct (wb_ctor1 (put_var ty) (rfc_varint ty) (Some f) (put_var_writes ty Hty) Hc) as (w1 & E1 & Hi1 & Hf1 & Hv1 & Hp1 & Hl1 & Hb1).
  { rewrite len_rfc_varint by exact Hty. lia. }
  rewrite E1. cbn [res_bind]. unfold wb_encode_frame_header. rewrite Hf1.
  rewrite len_rfc_varint in Hl1 by exact Hty.
  destruct (wb_apply_law _ _ w1 (enc_frame_writes f H) Hi1) as (w & E & Hinv & Hf & Hp & Hl & Hb & Hw); [lia|].
  exists w. split; [exact E|]. split; [exact Hinv|].
  rewrite (wb_view_of_hdr w (rfc_varint ty ++ frame_header_bytes f)).
  - rewrite <- app_assoc. f_equal. f_equal. unfold wb_pl, wb_payload. rewrite Hf, Hf1.
    rewrite <- wb_pl_empty. unfold wb_pl, wb_payload. destruct (empty_facts (Some f)) as (_ & _ & _ & ->). reflexivity.
  - lia.
  - rewrite Hw. f_equal.
    assert (Hv1' : wb_view w1 = wb_hdr w1 ++ wb_pl w1) by reflexivity.
    unfold wb_hdr in Hv1'. rewrite Hp1, N.sub_0_r in Hv1'. cbn [N.to_nat skipn] in Hv1'.
    rewrite Hv1 in Hv1'.
    assert (Hpl : wb_pl w1 = frame_payload_bytes (Some f)).
    { unfold wb_pl, wb_payload. rewrite Hf1. rewrite <- wb_pl_empty. unfold wb_pl, wb_payload.
      destruct (empty_facts (Some f)) as (_ & _ & _ & ->). reflexivity. }
    rewrite Hpl in Hv1'. apply app_inv_tail in Hv1'. symmetry. exact Hv1'.
Qed.

(* ---- header sizes: the 64-byte array is never exceeded by what h3 itself builds ---- *)
Lemma len_simple_frame ty id : ty < 2 ^ 62 -> id < 2 ^ 62 -> len (rfc_frame ty (rfc_varint id)) <= 17.
Proof.
  intros Ht Hi. unfold rfc_frame. rewrite !len_app, !len_rfc_varint; auto.
  - pose proof (shortest_le_8 ty). pose proof (shortest_le_8 id).
    assert (rfc_vi_shortest (rfc_vi_shortest id) = 1).
    { unfold rfc_vi_shortest at 1. destruct (N.ltb_spec (rfc_vi_shortest id) (2 ^ 6)); [reflexivity|]. change (2 ^ 6) with 64 in *. lia. }
    lia.
  - rewrite len_rfc_varint by exact Hi.
    pose proof (shortest_le_8 id). change (2 ^ 62) with 4611686018427387904. lia.
Qed.

Lemma len_grease_payload : len grease_payload = 6.
Proof. reflexivity. Qed.

Lemma frame_header_small f :
  frame_args_ok f ->
  match f with FSettings _ | FPushPromise _ _ => True | _ => len (frame_header_bytes f) <= 17 end.
Proof.
  destruct f as [p|b|id|es|id e|id|id|sid|g]; cbn [frame_args_ok frame_header_bytes]; intros H; auto.
  - rewrite len_app, !len_rfc_varint by (exact H || reflexivity).
    pose proof (shortest_le_8 (len (concat p))). change (rfc_vi_shortest T_DATA) with 1. lia.
  - rewrite len_app, !len_rfc_varint by (exact H || reflexivity).
    pose proof (shortest_le_8 (len b)). change (rfc_vi_shortest T_HEADERS) with 1. lia.
  - apply len_simple_frame; [reflexivity|exact H].
  - apply len_simple_frame; [reflexivity|exact H].
  - apply len_simple_frame; [reflexivity|exact H].
  - rewrite len_app, !len_rfc_varint by (exact H || reflexivity).
    pose proof (shortest_le_8 sid). change (rfc_vi_shortest 65) with 2. lia.
  - unfold rfc_frame. rewrite !len_app, len_grease_payload.
    rewrite !len_rfc_varint by (apply grease_id_range; exact H) || reflexivity.
    pose proof (shortest_le_8 (grease_id g)). change (rfc_vi_shortest 6) with 1. lia.
Qed.
