(* C07: the per-request invariant (T1), the connection stays quiet (T3), non-interference (T2). *)
From Coq Require Import ZifyBool ZifyNat ZifyN.
From H3V Require Import Base.Bytes Base.BytesLemmas Gen.GenCodes Gen.GenStreamFaults Spec.StreamScoped
  Model.StreamFaults Proofs.StreamFaultsLemmas.
Ltac Zify.zify_post_hook ::= Z.div_mod_to_equations.

(* ------------------------------------------------------------------ the spec's scanner agrees with the grammar *)
Lemma body_ok_scan : forall r p d e, body_ok r p d e -> forall acc, scan_body r acc p = (acc ++ d, e).
Proof.
  intros r p d e H. induction H as [|r0 c0|c0|t part q d e Hl Hb IH|r0 bs q d e Hn Hl Hb IH|k q e Ht]; intros acc.
  - cbn. rewrite app_nil_r. reflexivity.
  - cbn. rewrite app_nil_r. reflexivity.
  - cbn. rewrite app_nil_r. reflexivity.
  - cbn [scan_body]. change (0 =? 0) with true. cbn [andb].
    assert (Hle : (len part <=? t) = true) by (apply N.leb_le; exact Hl). rewrite Hle.
    rewrite IH, app_assoc. reflexivity.
  - cbn [scan_body].
    assert (Hp : (0 <? len bs) = true) by (apply len_pos_iff; exact Hn).
    assert (Hle : (len bs <=? r0) = true) by (apply N.leb_le; exact Hl).
    rewrite Hp, Hle. cbn [andb]. rewrite IH, app_assoc. reflexivity.
  - destruct Ht as [[Hq He]|[[c [Hq He]]|[c [Hq He]]]]; subst q e; cbn; rewrite app_nil_r; reflexivity.
Qed.

Lemma body_ok_not_bad : forall r p d e, body_ok r p d e -> e <> EndBad.
Proof.
  intros r p d e H. induction H; try discriminate; try assumption.
  match goal with Ht : tail_ok _ _ _ |- _ => destruct Ht as [[_ He]|[[c [_ He]]|[c [_ He]]]]; subst; discriminate end.
Qed.

(* ------------------------------------------------------------------ reflexivity of the spec's comparisons *)
Lemma bytes_eqb_refl : forall a, bytes_eqb a a = true.
Proof. induction a as [|x a IH]; [reflexivity|]. cbn [bytes_eqb]. rewrite N.eqb_refl, IH. reflexivity. Qed.
Lemma prefixb_app : forall a b, prefixb a (a ++ b) = true.
Proof. induction a as [|x a IH]; intros b; [reflexivity|]. cbn [prefixb app]. rewrite N.eqb_refl, IH. reflexivity. Qed.
Lemma prefixb_nil : forall b, prefixb [] b = true.
Proof. reflexivity. Qed.
Lemma prefixb_refl : forall a, prefixb a a = true.
Proof. intros a. rewrite <- (app_nil_r a) at 2. apply prefixb_app. Qed.
Lemma witem_eqb_refl : forall w, witem_eqb w w = true.
Proof. intros [t|b| |]; cbn; [apply N.eqb_refl | apply bytes_eqb_refl | reflexivity | reflexivity]. Qed.
Lemma call_eqb_refl : forall c, call_eqb c c = true.
Proof. intros [c|c|]; cbn; try apply N.eqb_refl; reflexivity. Qed.
Lemma list_eqb_refl : forall A (eqb : A -> A -> bool), (forall x, eqb x x = true) -> forall l, list_eqb eqb l l = true.
Proof. intros A eqb H l. induction l as [|x l IH]; [reflexivity|]. cbn [list_eqb]. rewrite H, IH. reflexivity. Qed.
Lemma optN_eqb_refl : forall o, optN_eqb o o = true.
Proof. intros [x|]; cbn; [apply N.eqb_refl | reflexivity]. Qed.


Lemma sat_intro : forall o a l, In a l -> sat1 o a = true -> sat o l = true.
Proof. intros o a l Hin Hs. unfold sat. apply existsb_exists. exists a. split; assumption. Qed.

(* an error outcome meets an AErr allowance *)
Lemma calls_present : forall cs : list call, forallb (fun a => existsb (call_eqb a) cs) (filter is_abort cs) = true.
Proof.
  intros cs. apply forallb_forall. intros a Ha. apply filter_In in Ha. destruct Ha as [Hin _].
  apply existsb_exists. exists a. split; [exact Hin | apply call_eqb_refl].
Qed.

Lemma sat1_err : forall k code aborts upto tx data g calls0 txs,
  filter is_abort calls0 = aborts -> prefixb data upto = true ->
  (match tx with Some t => txs = t | None => True end) ->
  sat1 {| ob_out := OStreamErr k code; ob_data := data; ob_trl := g; ob_calls := calls0; ob_tx := txs |}
       (AErr k code aborts upto tx) = true.
Proof.
  intros k code aborts upto tx data g calls0 txs Hc Hp Ht. cbn [sat1 ob_out ob_data ob_calls ob_tx].
  rewrite <- Hc, calls_present, Hp, optN_eqb_refl.
  assert (Hk : errclass_eqb k k = true) by (destruct k; reflexivity). rewrite Hk.
  destruct tx as [t|]; [subst txs; rewrite (list_eqb_refl _ _ witem_eqb_refl)|]; reflexivity.
Qed.

Lemma sat1_reset : forall o upto data g cs txs a,
  filter is_abort cs = [] -> prefixb data upto = true ->
  sat1 {| ob_out := outcome_of (Some (RErr a (quic_serr o))); ob_data := data; ob_trl := g; ob_calls := cs; ob_tx := txs |}
       (reset_allowance o upto) = true.
Proof.
  intros o upto data g cs txs a Hc Hp. destruct o; cbn [quic_serr reset_allowance outcome_of];
    (apply sat1_err; [exact Hc | exact Hp | exact I]).
Qed.

(* ------------------------------------------------------------------ before the headers *)
(* an undecodable trailer section is a connection error: not in the class *)
Definition good_end (e : ending) : Prop := e <> EndFinT HBadQpack.

Inductive pre_good (ro : role) : list ev -> Prop :=
| pg_msg : forall body d e, body_ok 0 body d e -> good_end e -> pre_good ro (EHeaders HOk :: body)
| pg_fin : ro = Server -> pre_good ro [EFin]
| pg_reset : forall c, pre_good ro [EReset c]
| pg_partial : forall c, pre_good ro [EPartial; EReset c].

Definition pre_fs (f : fstream) : Prop :=
  remaining f = 0 /\ eos f = false /\ (buf f = [] \/ buf f = [EPartial]).

Definition pn_pre_post (ro : role) (f : fstream) (T S : list ev) (res : pn * fstream) : Prop :=
  match res with
  | (PnPending, f') => pre_fs f' /\ pend f' = pend f /\ rx f' = []
  | (PnHeaders k, f') =>
      k = HOk /\ exists body d e, S = EHeaders HOk :: body /\ body_ok 0 body d e /\ good_end e /\
      fs_ok f' /\ remaining f' = 0 /\ pend f' ++ T = body /\ (msr f' < msr f)%nat
  | (PnEnd, _) => S = [EFin] /\ ro = Server
  | (PnErrQuic c, _) => S = [EReset c] \/ S = [EPartial; EReset c]
  | _ => False
  end.

Lemma pn_pre : forall ro f T S,
  pre_good ro S -> pre_fs f -> pend f ++ T = S -> pn_pre_post ro f T S (poll_next f).
Proof.
  intros ro f T S Hg (Hr & He & Hb) Hp. unfold poll_next. rewrite Hr, He.
  change (negb (0 =? 0)) with false. cbn iota.
  unfold pend in Hp.
  destruct Hb as [Hb|Hb]; rewrite Hb in *; cbn [app] in Hp.
  - (* nothing buffered *)
    destruct (rx f) as [|x q] eqn:Hrx.
    + cbn. unfold pre_fs, pend. cbn. rewrite Hb, Hrx. repeat split; try reflexivity. left; reflexivity.
    + cbn [app] in Hp.
      destruct Hg as [body d e Hbody Hge|Hro|c|c]; injection Hp as Hx Hq; subst x.
      * subst body. cbn. split; [reflexivity|]. exists (q ++ T), d, e.
        split; [reflexivity|]. split; [exact Hbody|]. split; [exact Hge|]. split; [|split; [reflexivity|split; [reflexivity|]]].
        -- split; cbn; [constructor | intros Hf; discriminate Hf].
        -- unfold msr. rewrite Hb, Hrx. cbn. lia.
      * cbn. split; [reflexivity | assumption].
      * cbn. left; reflexivity.
      * (* partial frame: keep reading *)
        destruct q as [|y q'].
        -- cbn. unfold pre_fs, pend. cbn. rewrite Hb, Hrx. repeat split; try reflexivity. right; reflexivity.
        -- cbn [app] in Hq. injection Hq as Hy Hq. subst y. cbn. right; reflexivity.
  - (* a partial frame is buffered *)
    destruct Hg as [body d e Hbody Hge|Hro|c|c]; try discriminate Hp. injection Hp as Hq.
    destruct (rx f) as [|y q'] eqn:Hrx.
    + cbn. unfold pre_fs, pend. cbn. rewrite Hb, Hrx. repeat split; try reflexivity. right; reflexivity.
    + cbn [app] in Hq. injection Hq as Hy Hq. subst y. cbn. right; reflexivity.
Qed.

Lemma pre_good_terminal_last : forall ro S, pre_good ro S ->
  forall a x b, S = a ++ x :: b -> b <> [] -> is_chunk x.
Proof.
  intros ro S Hg a x b Heq Hb. destruct Hg as [body d e Hbody Hge|Hro|c|c].
  - destruct a as [|y a']; cbn in Heq; injection Heq as Hy Hrest.
    + subst x. exact I.
    + eapply body_ok_terminal_last; [exact Hbody | exact Hrest | exact Hb].
  - destruct a as [|y a']; cbn in Heq; injection Heq as Hy Hrest.
    + subst b. contradiction Hb; reflexivity.
    + destruct a'; discriminate Hrest.
  - destruct a as [|y a']; cbn in Heq; injection Heq as Hy Hrest.
    + subst b. contradiction Hb; reflexivity.
    + destruct a'; discriminate Hrest.
  - destruct a as [|y a']; cbn in Heq; injection Heq as Hy Hrest.
    + subst x. exact I.
    + destruct a' as [|z a'']; cbn in Hrest; injection Hrest as Hz Hrest.
      * subst b. contradiction Hb; reflexivity.
      * destruct a''; discriminate Hrest.
Qed.

(* ------------------------------------------------------------------ codes: the model's (from the source) are the RFC's *)
Lemma code_facts :
  srv_incomplete_code = RFC_H3_REQUEST_INCOMPLETE /\ srv_incomplete_reset = Some RFC_H3_REQUEST_INCOMPLETE /\
  srv_malformed_code = RFC_H3_MESSAGE_ERROR /\ cli_malformed_code = RFC_H3_MESSAGE_ERROR /\
  cli_malformed_stop = Some RFC_H3_MESSAGE_ERROR /\ cli_toobig_stop = Some RFC_H3_REQUEST_CANCELLED /\
  srv_toobig_status = STATUS_HEADER_FIELDS_TOO_LARGE.
Proof. repeat split; reflexivity. Qed.
Lemma store_facts :
  srv_incomplete_stores = false /\ srv_malformed_stores = false /\ srv_toobig_stores = false /\
  cli_malformed_stores = false /\ cli_toobig_stores = false /\
  srv_malformed_resets = true /\ srv_malformed_stops = true /\ srv_toobig_sends_response = true /\
  srv_toobig_variant = VHeaderTooBig /\ cli_toobig_variant = VHeaderTooBig /\ send_data_err_via_hq = true.
Proof. repeat split; reflexivity. Qed.

(* ------------------------------------------------------------------ the invariant of one request *)
Definition pre_pc (ro : role) (p : pc) : Prop :=
  match ro, p with
  | Server, SWait | Server, SResolve => True
  | Client, CSendReq | Client, CSendData | Client, CSendTrl | Client, CFinish | Client, CRecvResp => True
  | _, _ => False
  end.
Definition recv_pc (ro : role) : pc := match ro with Server => SRecv | Client => CRecv end.
Definition trl_pc (ro : role) : pc := match ro with Server => SRecvTrl | Client => CRecvTrl end.
Definition send_pc (p : pc) : Prop := p = SSendResp \/ p = SSendData \/ p = SSendTrl \/ p = SFinish.

Definition trl_items (c : rcfg) : list witem := match c_trl c with Some _ => [WTrailers] | None => [] end.
Definition grease_items (c : rcfg) : list witem := if c_grease c then [WGrease] else [].
Definition sent (p : pc) (c : rcfg) : list witem * list call :=
  match p with
  | SSendData => ([WHeaders STATUS_OK], [])
  | SSendTrl => ([WHeaders STATUS_OK; WData (c_body c)], [])
  | SFinish => ([WHeaders STATUS_OK; WData (c_body c)] ++ trl_items c, [])
  | CSendData => ([WHeaders 0], [])
  | CSendTrl => ([WHeaders 0; WData (c_body c)], [])
  | CFinish => ([WHeaders 0; WData (c_body c)] ++ trl_items c, [])
  | CRecvResp | CRecv | CRecvTrl => ([WHeaders 0; WData (c_body c)] ++ trl_items c ++ grease_items c, [CFin])
  | _ => ([], [])
  end.
Definition sent_ok (r : req) : Prop :=
  tx r = fst (sent (pcr r) (cfg r)) /\ calls r = snd (sent (pcr r) (cfg r)).
(* nothing of a trailer section has been seen yet *)
Definition no_trl (r : req) : Prop := trl r = None /\ gottrl r = false.

Definition pre_stream (ro : role) (S : list ev) (f : fstream) (t : list ev) : Prop :=
  (pre_good ro S /\ pre_fs f /\ pend f ++ t = S) \/
  (exists k rest, S = EHeaders k :: rest /\ (k = HMalformed \/ k = HOversized) /\
     buf f = [] /\ remaining f = 0 /\ eos f = false /\
     ((rx f = [] /\ t = S) \/ (exists q, rx f = EHeaders k :: q))).

(* the state between the end of the body and the answer of recv_trailers *)
Definition trl_state (r : req) (e : ending) : Prop :=
  (trl r = None /\ e = EndFin /\ eos (fs r) = true /\ buf (fs r) = []) \/
  (exists k, trl r = Some k /\ tail_ok (pend (fs r) ++ todo r) e k).

Inductive phase (E : renv) (S : list ev) (r : req) : Prop :=
| ph_pre :
    res r = None -> acc r = [] -> pre_pc (c_role (cfg r)) (pcr r) -> sent_ok r -> no_trl r ->
    pre_stream (c_role (cfg r)) S (fs r) (todo r) -> phase E S r
| ph_body : forall body D e d',
    S = EHeaders HOk :: body -> body_ok 0 body D e -> good_end e ->
    res r = None -> pcr r = recv_pc (c_role (cfg r)) -> sent_ok r -> no_trl r -> fs_ok (fs r) ->
    body_ok (remaining (fs r)) (pend (fs r) ++ todo r) d' e -> acc r ++ d' = D -> phase E S r
| ph_trl : forall body D e,
    S = EHeaders HOk :: body -> body_ok 0 body D e -> good_end e ->
    res r = None -> pcr r = trl_pc (c_role (cfg r)) -> sent_ok r -> gottrl r = false ->
    fs_ok (fs r) -> remaining (fs r) = 0 -> trl_state r e -> acc r = D -> phase E S r
| ph_send : forall body D e,
    S = EHeaders HOk :: body -> body_ok 0 body D e ->
    (e = EndFin /\ gottrl r = false) \/ (e = EndFinT HOk /\ gottrl r = true) ->
    res r = None -> c_role (cfg r) = Server -> send_pc (pcr r) -> sent_ok r -> acc r = D -> phase E S r
| ph_done : forall al x,
    res r = Some x -> pcr r = Done -> classify (cfg r) E S = Some al -> sat (observe r) al = true -> phase E S r.

Definition env_ok (E : renv) (s : shared) : Prop :=
  (forall v, peer_max s = Some v -> e_limit E = Some v) /\ (closing s = true -> e_goaway E = true).
Definition stop_ok (E : renv) (r : req) : Prop := forall x, stopped r = Some x -> e_stop E = Some x.

(* what the table says for scripts of the two pre-header shapes *)
Definition msg_allowances (c : rcfg) (D : bytes) (e : ending) : option (list allowance) :=
  match e with
  | EndFin => Some [AOk D (healthy_tx c) false]
  | EndFinT HOk => Some [AOk D (healthy_tx c) true]
  | EndFinT HMalformed =>
      Some [AErr KStreamError (Some RFC_H3_MESSAGE_ERROR) [CStop RFC_H3_MESSAGE_ERROR] D
                 (match c_role c with Server => Some [] | Client => None end)]
  | EndFinT HOversized =>
      match c_role c with
      | Server => Some [AErr KHeaderTooBig None [] D (Some [])]
      | Client => Some [AErr KHeaderTooBig None [CStop RFC_H3_REQUEST_CANCELLED] D None]
      end
  | EndFinT HBadQpack => None
  | EndReset code => Some [reset_allowance code D]
  | EndBad => None
  end.

Lemma classify_msg : forall c body D e, body_ok 0 body D e ->
  all_data (EHeaders HOk :: body) = D /\
  classify_script c (EHeaders HOk :: body) = msg_allowances c D e.
Proof.
  intros c body D e Hb. pose proof (body_ok_scan _ _ _ _ Hb []) as Hs. cbn [app] in Hs.
  unfold all_data, classify_script, msg_allowances. rewrite Hs. cbn [fst]. split; [reflexivity|].
  destruct e as [|k|code|]; try reflexivity.
Qed.

Lemma msg_allowances_some : forall c D e, good_end e -> e <> EndBad -> exists l, msg_allowances c D e = Some l.
Proof.
  intros c D e Hg Hb. destruct e as [|k|code|]; cbn; try (eexists; reflexivity).
  - destruct k; try (eexists; reflexivity); [destruct (c_role c); eexists; reflexivity | contradiction Hg; reflexivity].
  - contradiction Hb; reflexivity.
Qed.

Lemma pre_good_classified : forall c S, pre_good (c_role c) S -> exists l, classify_script c S = Some l.
Proof.
  intros c S Hg. destruct Hg as [body d e Hbody Hge|Hro|code|code].
  - destruct (classify_msg c body d e Hbody) as [_ Hc]. rewrite Hc.
    apply msg_allowances_some; [exact Hge | eapply body_ok_not_bad; exact Hbody].
  - cbn. rewrite Hro. eexists; reflexivity.
  - cbn. eexists; reflexivity.
  - cbn. eexists; reflexivity.
Qed.

(* outcomes that the environment adds are always allowed once the script is in the class *)
Lemma env_stop_allowed : forall c E S l x data g cs txs,
  classify_script c S = Some l -> e_stop E = Some x ->
  prefixb data (all_data S) = true -> filter is_abort cs = [] ->
  exists al, classify c E S = Some al /\
    sat {| ob_out := OStreamErr KRemoteTerminate (Some x); ob_data := data; ob_trl := g; ob_calls := cs; ob_tx := txs |} al = true.
Proof.
  intros c E S l x data g cs txs Hl Hs Hp Hc. unfold classify. rewrite Hl. eexists. split; [reflexivity|].
  eapply sat_intro.
  - apply in_or_app; right. unfold classify_env. rewrite Hs. left; reflexivity.
  - apply sat1_err; [exact Hc | exact Hp | exact I].
Qed.

Lemma env_unk_allowed : forall c E S l x data g cs txs,
  classify_script c S = Some l -> e_stop E = Some x -> c_unk c = true ->
  prefixb data (all_data S) = true -> filter is_abort cs = [] ->
  exists al, classify c E S = Some al /\
    sat {| ob_out := OStreamErr KUndefined None; ob_data := data; ob_trl := g; ob_calls := cs; ob_tx := txs |} al = true.
Proof.
  intros c E S l x data g cs txs Hl Hs Hu Hp Hc. unfold classify. rewrite Hl. eexists. split; [reflexivity|].
  eapply sat_intro.
  - apply in_or_app; right. unfold classify_env. rewrite Hs, Hu. right; left; reflexivity.
  - apply sat1_err; [exact Hc | exact Hp | exact I].
Qed.

Lemma env_limit_allowed : forall c E S l data g cs txs,
  classify_script c S = Some l ->
  over (c_hsize c) (e_limit E) = true \/ (exists z, c_trl c = Some z /\ over z (e_limit E) = true) \/
    (c_role c = Server /\ (exists rest, S = EHeaders HOversized :: rest) /\ over SIZE_OF_431_SECTION (e_limit E) = true) ->
  prefixb data (all_data S) = true -> filter is_abort cs = [] ->
  exists al, classify c E S = Some al /\
    sat {| ob_out := OStreamErr KHeaderTooBig None; ob_data := data; ob_trl := g; ob_calls := cs; ob_tx := txs |} al = true.
Proof.
  intros c E S l data g cs txs Hl Hov Hp Hc. unfold classify. rewrite Hl. eexists. split; [reflexivity|].
  eapply sat_intro.
  - apply in_or_app; right. unfold classify_env. apply in_or_app; right. apply in_or_app; left.
    assert (Hcond : over (c_hsize c) (e_limit E)
             || match c_trl c with Some z => over z (e_limit E) | None => false end
             || match c_role c, S with
                | Server, EHeaders HOversized :: _ => over SIZE_OF_431_SECTION (e_limit E)
                | _, _ => false
                end = true).
    { destruct Hov as [Ho|[[z [Hz Ho]]|[Hr [[rest Hrest] Ho]]]]; [rewrite Ho; reflexivity | |].
      - rewrite Hz, Ho. rewrite orb_true_r. reflexivity.
      - rewrite Hr, Hrest, Ho. apply orb_true_r. }
    rewrite Hcond. left; reflexivity.
  - apply sat1_err; [exact Hc | exact Hp | exact I].
Qed.

Lemma env_goaway_allowed : forall c E S l,
  classify_script c S = Some l -> c_role c = Client -> e_goaway E = true ->
  exists al, classify c E S = Some al /\
    sat {| ob_out := OStreamErr KRemoteClosing None; ob_data := []; ob_trl := false; ob_calls := []; ob_tx := [] |} al = true.
Proof.
  intros c E S l Hl Hr Hg. unfold classify. rewrite Hl. eexists. split; [reflexivity|].
  eapply sat_intro.
  - apply in_or_app; right. unfold classify_env. apply in_or_app; right. apply in_or_app; right.
    rewrite Hr, Hg. left; reflexivity.
  - apply sat1_err; [reflexivity | reflexivity | reflexivity].
Qed.

Lemma script_allowed : forall c E S l a o,
  classify_script c S = Some l -> In a l -> sat1 o a = true ->
  exists al, classify c E S = Some al /\ sat o al = true.
Proof.
  intros c E S l a o Hl Hin Hs. unfold classify. rewrite Hl. eexists. split; [reflexivity|].
  eapply sat_intro; [apply in_or_app; left; exact Hin | exact Hs].
Qed.

Lemma pre_stream_classified : forall c S f t, pre_stream (c_role c) S f t -> exists l, classify_script c S = Some l.
Proof.
  intros c S f t [[Hg _]|[k [rest [HS [Hk _]]]]].
  - apply pre_good_classified. exact Hg.
  - subst S. destruct Hk as [Hk|Hk]; subst k; cbn; destruct (c_role c); eexists; reflexivity.
Qed.

(* ------------------------------------------------------------------ one step of the task program *)
Definition rank (p : pc) : nat :=
  match p with CFinish => 3 | CRecvResp | SResolve => 2 | CRecv | SRecv => 1 | _ => 0 end%nat.
Definition pot (r : req) : nat := (msr (fs r) + rank (pcr r))%nat.

Definition step_post (E : renv) (S : list ev) (s : shared) (r : req) (out : shared * req * status) : Prop :=
  let '(s', r', st) := out in
  s' = s /\ cfg r' = cfg r /\ stopped r' = stopped r /\ todo r' = todo r /\ phase E S r' /\
  (st = Continue -> (pot r' < pot r)%nat).

Lemma write_err_cases : forall r s,
  (stopped r = None /\ write_err r s = None) \/
  (exists c, stopped r = Some c /\ write_err r s = Some (s, SRemoteTerminate c)).
Proof.
  intros r s. unfold write_err. destruct (stopped r) as [c|].
  - right. exists c. split; [reflexivity|]. rewrite on_stream_terminated_eq. reflexivity.
  - left. split; reflexivity.
Qed.

Lemma done_intro : forall E S r f rs t cs al,
  classify (cfg r) E S = Some al ->
  sat {| ob_out := outcome_of (Some rs); ob_data := acc r; ob_trl := gottrl r; ob_calls := cs; ob_tx := t |} al = true ->
  phase E S (finish_with r f rs t cs).
Proof. intros E S r f rs t cs al Hc Hs. eapply ph_done; [reflexivity | reflexivity | exact Hc | exact Hs]. Qed.

Ltac stop_goal := let Hstq := fresh "Hstq" in intros Hstq; discriminate Hstq.

(* finishing with one of the environment's errors, with nothing but a prefix of the data delivered *)
Lemma finish_stop : forall E S s r f a x t cs l,
  classify_script (cfg r) S = Some l -> stop_ok E r -> stopped r = Some x ->
  prefixb (acc r) (all_data S) = true -> filter is_abort cs = [] ->
  step_post E S s r (s, finish_with r f (RErr a (SRemoteTerminate x)) t cs, Stop).
Proof.
  intros E S s r f a x t cs l Hl Hso Hst Hp Hc. unfold step_post.
  repeat split; try reflexivity; [|stop_goal].
  destruct (env_stop_allowed (cfg r) E S l x (acc r) (gottrl r) cs t Hl (Hso _ Hst) Hp Hc) as [al [Hal Hsat]].
  eapply done_intro; [exact Hal | exact Hsat].
Qed.

Lemma finish_unk : forall E S s r f a x t cs l,
  classify_script (cfg r) S = Some l -> stop_ok E r -> stopped r = Some x -> c_unk (cfg r) = true ->
  prefixb (acc r) (all_data S) = true -> filter is_abort cs = [] ->
  step_post E S s r (s, finish_with r f (RErr a SUndefined) t cs, Stop).
Proof.
  intros E S s r f a x t cs l Hl Hso Hst Hu Hp Hc. unfold step_post.
  repeat split; try reflexivity; [|stop_goal].
  destruct (env_unk_allowed (cfg r) E S l x (acc r) (gottrl r) cs t Hl (Hso _ Hst) Hu Hp Hc) as [al [Hal Hsat]].
  eapply done_intro; [exact Hal | exact Hsat].
Qed.

Lemma finish_limit : forall E S s r f a t cs l,
  classify_script (cfg r) S = Some l ->
  over (c_hsize (cfg r)) (e_limit E) = true \/ (exists z, c_trl (cfg r) = Some z /\ over z (e_limit E) = true) \/
    (c_role (cfg r) = Server /\ (exists rest, S = EHeaders HOversized :: rest) /\ over SIZE_OF_431_SECTION (e_limit E) = true) ->
  prefixb (acc r) (all_data S) = true -> filter is_abort cs = [] ->
  step_post E S s r (s, finish_with r f (RErr a SHeaderTooBig) t cs, Stop).
Proof.
  intros E S s r f a t cs l Hl Hov Hp Hc. unfold step_post.
  repeat split; try reflexivity; [|stop_goal].
  destruct (env_limit_allowed (cfg r) E S l (acc r) (gottrl r) cs t Hl Hov Hp Hc) as [al [Hal Hsat]].
  eapply done_intro; [exact Hal | exact Hsat].
Qed.

Lemma over_env : forall E s z, env_ok E s -> over z (peer_max s) = true -> over z (e_limit E) = true.
Proof.
  intros E s z [Hl _] Ho. unfold over in *. destruct (peer_max s) as [v|] eqn:Hv; [|discriminate Ho].
  rewrite (Hl v eq_refl). exact Ho.
Qed.

Lemma exec_client_send : forall E S s r,
  env_ok E s -> stop_ok E r -> res r = None -> acc r = [] -> c_role (cfg r) = Client ->
  pcr r = CSendReq \/ pcr r = CSendData \/ pcr r = CSendTrl \/ pcr r = CFinish -> sent_ok r -> no_trl r ->
  pre_stream Client S (fs r) (todo r) ->
  step_post E S s r (exec_pc s r).
Proof.
  intros E S s r Henv Hso Hres Hacc Hro Hpc [Htx Hcs] Hnt Hpre.
  assert (Hcl : exists l, classify_script (cfg r) S = Some l).
  { eapply pre_stream_classified. rewrite Hro. exact Hpre. }
  destruct Hcl as [l Hl].
  assert (Hpfx : prefixb (acc r) (all_data S) = true) by (rewrite Hacc; reflexivity).
  assert (Hnext : forall p t cs, pre_pc Client p -> t = fst (sent p (cfg r)) -> cs = snd (sent p (cfg r)) ->
            phase E S (upd r (fs r) p (acc r) t cs None)).
  { intros p t cs Hp Ht Hc. apply ph_pre; cbn; try assumption; try reflexivity.
    - rewrite Hro. exact Hp.
    - split; cbn; assumption.
    - rewrite Hro. exact Hpre. }
  unfold exec_pc. destruct Hpc as [Hpc|[Hpc|[Hpc|Hpc]]]; rewrite Hpc in *; cbn [sent fst snd] in Htx, Hcs.
  - (* send_request *)
    destruct (closing s) eqn:Hclo.
    + unfold step_post. repeat split; try reflexivity; [|stop_goal].
      destruct (env_goaway_allowed (cfg r) E S l Hl Hro (proj2 Henv Hclo)) as [al [Hal Hsat]].
      eapply done_intro; [exact Hal|]. rewrite Hacc, Htx, Hcs, (proj2 Hnt). exact Hsat.
    + destruct (over (c_hsize (cfg r)) (peer_max s)) eqn:Hov.
      * eapply finish_limit; [exact Hl | left; eapply over_env; eassumption | exact Hpfx | rewrite Hcs; reflexivity].
      * destruct (write_err_cases r s) as [[Hst Hw]|[c [Hst Hw]]]; rewrite Hw.
        -- unfold step_post. repeat split; try reflexivity; [|stop_goal].
           apply Hnext; [exact I | cbn; rewrite Htx; reflexivity | exact Hcs].
        -- eapply finish_stop; [exact Hl | exact Hso | exact Hst | exact Hpfx | rewrite Hcs; reflexivity].
  - (* send_data *)
    destruct (write_err_cases r s) as [[Hst Hw]|[c [Hst Hw]]]; rewrite Hw.
    + unfold step_post. repeat split; try reflexivity; [|stop_goal].
      unfold trl_items in *. destruct (c_trl (cfg r)) eqn:Hct; apply Hnext; try exact I; cbn; unfold trl_items;
        rewrite ?Hct, ?Htx, ?app_nil_r; try reflexivity; exact Hcs.
    + change send_data_err_via_hq with true. cbn iota.
      eapply finish_stop; [exact Hl | exact Hso | exact Hst | exact Hpfx | rewrite Hcs; reflexivity].
  - (* send_trailers *)
    destruct (c_trl (cfg r)) as [z|] eqn:Hct.
    + change send_trailers_limit_cmp with true. cbn [andb].
      destruct (over z (peer_max s)) eqn:Hov.
      * eapply finish_limit; [exact Hl | right; left; exists z; split; [exact Hct | eapply over_env; eassumption]
                             | exact Hpfx | rewrite Hcs; reflexivity].
      * destruct (write_err_cases r s) as [[Hst Hw]|[c [Hst Hw]]]; rewrite Hw.
        -- unfold step_post. repeat split; try reflexivity; [|stop_goal].
           apply Hnext; [exact I | cbn; unfold trl_items; rewrite Hct, Htx; reflexivity | exact Hcs].
        -- change send_trailers_err_via_hq with true. cbn iota.
           eapply finish_stop; [exact Hl | exact Hso | exact Hst | exact Hpfx | rewrite Hcs; reflexivity].
    + unfold step_post. repeat split; try reflexivity; [|stop_goal].
      apply (Hnext CFinish (tx r) (calls r)); [exact I | cbn; unfold trl_items; rewrite Hct, Htx; reflexivity | exact Hcs].
  - (* finish *)
    assert (Hfin : forall t0, t0 = tx r ++ grease_items (cfg r) ->
       step_post E S s r
         (match stopped r with
          | Some c =>
              let '(sh', e) := if c_unk (cfg r) then on_stream_unknown s else on_stream_terminated c s in
              if finish_err_via_hq then (sh', finish_with r (fs r) (RErr AFinish e) t0 (calls r), Stop)
              else let '(sh2, e2) := conn_error_on_stream H3_INTERNAL_ERROR s in
                   (sh2, finish_with r (fs r) (RErr AFinish e2) t0 (calls r), Stop)
          | None => (s, upd r (fs r) CRecvResp (acc r) t0 (calls r ++ [CFin]) None, Continue)
          end)).
    { intros t0 Ht0. destruct (stopped r) as [c|] eqn:Hst.
      - rewrite on_stream_unknown_eq, on_stream_terminated_eq. change finish_err_via_hq with true.
        destruct (c_unk (cfg r)) eqn:Hu; cbn iota.
        + eapply finish_unk; [exact Hl | exact Hso | exact Hst | exact Hu | exact Hpfx | rewrite Hcs; reflexivity].
        + eapply finish_stop; [exact Hl | exact Hso | exact Hst | exact Hpfx | rewrite Hcs; reflexivity].
      - unfold step_post. repeat split; try reflexivity.
        + apply Hnext; [exact I | cbn; rewrite Ht0, Htx, <- app_assoc; reflexivity | cbn; rewrite Hcs; reflexivity].
        + intros _. unfold pot. cbn. rewrite Hpc. cbn. lia. }
    destruct (c_grease (cfg r)) eqn:Hg.
    + destruct (write_err_cases r s) as [[Hst Hw]|[c [Hst Hw]]]; rewrite Hw.
      * apply Hfin. unfold grease_items. rewrite Hg. reflexivity.
      * change finish_err_via_hq with true. cbn iota.
        eapply finish_stop; [exact Hl | exact Hso | exact Hst | exact Hpfx | rewrite Hcs; reflexivity].
    + apply Hfin. unfold grease_items. rewrite Hg, app_nil_r. reflexivity.
Qed.

Lemma finish_script : forall E S s r f rs t cs l a,
  classify_script (cfg r) S = Some l -> In a l ->
  sat1 {| ob_out := outcome_of (Some rs); ob_data := acc r; ob_trl := gottrl r; ob_calls := cs; ob_tx := t |} a = true ->
  step_post E S s r (s, finish_with r f rs t cs, Stop).
Proof.
  intros E S s r f rs t cs l a Hl Hin Hs. unfold step_post.
  repeat split; try reflexivity; [|stop_goal].
  destruct (script_allowed (cfg r) E S l a _ Hl Hin Hs) as [al [Hal Hsat]].
  eapply done_intro; [exact Hal | exact Hsat].
Qed.

Lemma poll_next_bad_pre : forall f k,
  buf f = [] -> remaining f = 0 -> eos f = false ->
  (rx f = [] -> poll_next f = (PnPending, f)) /\
  (forall q, rx f = EHeaders k :: q ->
     poll_next f = (PnHeaders k, {| buf := []; remaining := 0; eos := false; rx := q |})).
Proof.
  intros f k Hb Hr He. unfold poll_next. rewrite Hr, He, Hb.
  change (negb (0 =? 0)) with false. cbn iota. split.
  - intros Hrx. rewrite Hrx. cbn. destruct f; cbn in *; subst; reflexivity.
  - intros q Hrx. rewrite Hrx. reflexivity.
Qed.

(* server: resolve_request while nothing of the message has been consumed *)
Lemma exec_server_resolve : forall E S s r,
  env_ok E s -> stop_ok E r -> res r = None -> acc r = [] -> c_role (cfg r) = Server ->
  pcr r = SResolve -> sent_ok r -> no_trl r -> pre_stream Server S (fs r) (todo r) ->
  step_post E S s r (exec_pc s r).
Proof.
  intros E S s r Henv Hso Hres Hacc Hro Hpc [Htx Hcs] Hnt Hpre.
  assert (Hcl : exists l, classify_script (cfg r) S = Some l).
  { eapply pre_stream_classified. rewrite Hro. exact Hpre. }
  destruct Hcl as [l Hl].
  assert (Hpfx : prefixb (acc r) (all_data S) = true) by (rewrite Hacc; reflexivity).
  unfold exec_pc. rewrite Hpc in *. cbn [sent fst snd] in Htx, Hcs.
  destruct Hpre as [(Hg & Hfs & Hpend)|(k & rest & HS & Hk & Hb & Hr & He & Hrx)].
  - (* a script whose terminal event is last *)
    pose proof (pn_pre Server (fs r) (todo r) S Hg Hfs Hpend) as Hpn.
    destruct (poll_next (fs r)) as [[| |k|t|c| | |n] f'] eqn:Hpoll; cbn [pn_pre_post] in Hpn; try contradiction.
    + destruct Hpn as (Hfs' & Hp' & Hrx').
      unfold step_post. repeat split; try reflexivity; [|stop_goal].
      apply ph_pre; cbn; try assumption; try reflexivity.
      * rewrite Hro. exact I.
      * split; cbn; assumption.
      * rewrite Hro. left. repeat split; try assumption; try apply Hfs'. rewrite Hp'. exact Hpend.
    + (* FIN before HEADERS *)
      destruct Hpn as [HS _]. rewrite HS in Hl |- *.
      change srv_incomplete_stores with false. cbn iota.
      cbn in Hl. rewrite Hro in Hl. injection Hl as Hl. subst l.
      eapply finish_script with (l := [_]); [cbn; rewrite Hro; reflexivity | left; reflexivity|].
      apply sat1_err; [rewrite Hcs; reflexivity | rewrite Hacc; reflexivity | exact Htx].
    + (* HEADERS *)
      destruct Hpn as (Hk & body & d & e & HS & Hbody & Hge & Hok & Hrem & Hp' & Hm). subst k.
      unfold step_post. repeat split; try reflexivity.
      * eapply (ph_body E S _ body d e d); cbn; try assumption; try reflexivity.
        -- rewrite Hro. reflexivity.
        -- split; cbn; assumption.
        -- rewrite Hrem, Hp'. exact Hbody.
        -- rewrite Hacc. reflexivity.
      * intros _. unfold pot. cbn. rewrite Hpc. cbn. lia.
    + (* RESET before the HEADERS frame is complete *)
      rewrite fse_quic_eq.
      assert (Hlc : l = [reset_allowance c []]).
      { destruct Hpn as [HS|HS]; rewrite HS in Hl; cbn in Hl; injection Hl as Hl; subst l; reflexivity. }
      subst l.
      eapply finish_script; [exact Hl | left; reflexivity|].
      apply sat1_reset; [rewrite Hcs; reflexivity | rewrite Hacc; reflexivity].
  - (* malformed or oversized HEADERS first *)
    destruct (poll_next_bad_pre (fs r) k Hb Hr He) as [Hnil Hcons].
    destruct Hrx as [[Hrx Htodo]|[q Hrx]].
    + rewrite (Hnil Hrx).
      unfold step_post. repeat split; try reflexivity; [|stop_goal].
      apply ph_pre; cbn; try assumption; try reflexivity.
      * rewrite Hro. exact I.
      * split; cbn; assumption.
      * rewrite Hro. right. exists k, rest. repeat split; try assumption. left. split; assumption.
    + rewrite (Hcons q Hrx). subst S.
      destruct Hk as [Hk|Hk]; subst k.
      * (* malformed *)
        change srv_malformed_stores with false. change srv_malformed_resets with true.
        change srv_malformed_stops with true. cbn iota.
        cbn in Hl. rewrite Hro in Hl.
        eapply finish_script; [cbn; rewrite Hro; reflexivity | left; reflexivity|].
        apply sat1_err; [rewrite Hcs; reflexivity | rewrite Hacc; reflexivity | exact Htx].
      * (* oversized: the 431 path *)
        change srv_toobig_sends_response with true. cbn iota.
        destruct (over SIZE_OF_431_SECTION (peer_max s)) eqn:Hov.
        -- eapply finish_limit; [exact Hl | | exact Hpfx | rewrite Hcs; reflexivity].
           right; right. split; [exact Hro|]. split; [eexists; reflexivity|]. eapply over_env; eassumption.
        -- destruct (write_err_cases r s) as [[Hst Hw]|[c [Hst Hw]]]; rewrite Hw.
           ++ change srv_toobig_stores with false. cbn iota.
              eapply finish_script; [cbn; rewrite Hro; reflexivity | left; reflexivity|].
              apply sat1_err; [rewrite Hcs; reflexivity | rewrite Hacc; reflexivity | rewrite Htx; reflexivity].
           ++ eapply finish_stop; [exact Hl | exact Hso | exact Hst | exact Hpfx | rewrite Hcs; reflexivity].
Qed.

(* client: recv_response while nothing of the response has been consumed *)
Lemma exec_client_recv_response : forall E S s r,
  env_ok E s -> stop_ok E r -> res r = None -> acc r = [] -> c_role (cfg r) = Client ->
  pcr r = CRecvResp -> sent_ok r -> no_trl r -> pre_stream Client S (fs r) (todo r) ->
  step_post E S s r (exec_pc s r).
Proof.
  intros E S s r Henv Hso Hres Hacc Hro Hpc [Htx Hcs] Hnt Hpre.
  assert (Hcl : exists l, classify_script (cfg r) S = Some l).
  { eapply pre_stream_classified. rewrite Hro. exact Hpre. }
  destruct Hcl as [l Hl].
  unfold exec_pc. rewrite Hpc in *. cbn [sent fst snd] in Htx, Hcs.
  destruct Hpre as [(Hg & Hfs & Hpend)|(k & rest & HS & Hk & Hb & Hr & He & Hrx)].
  - pose proof (pn_pre Client (fs r) (todo r) S Hg Hfs Hpend) as Hpn.
    destruct (poll_next (fs r)) as [[| |k|t|c| | |n] f'] eqn:Hpoll; cbn [pn_pre_post] in Hpn; try contradiction.
    + destruct Hpn as (Hfs' & Hp' & Hrx').
      unfold step_post. repeat split; try reflexivity; [|stop_goal].
      apply ph_pre; cbn; try assumption; try reflexivity.
      * rewrite Hro. exact I.
      * split; cbn; assumption.
      * rewrite Hro. left. repeat split; try assumption; try apply Hfs'. rewrite Hp'. exact Hpend.
    + destruct Hpn as [_ Hf]. discriminate Hf.
    + destruct Hpn as (Hk & body & d & e & HS & Hbody & Hge & Hok & Hrem & Hp' & Hm). subst k.
      unfold step_post. repeat split; try reflexivity.
      * eapply (ph_body E S _ body d e d); cbn; try assumption; try reflexivity.
        -- rewrite Hro. reflexivity.
        -- split; cbn; assumption.
        -- rewrite Hrem, Hp'. exact Hbody.
        -- rewrite Hacc. reflexivity.
      * intros _. unfold pot. cbn. rewrite Hpc. cbn. lia.
    + rewrite fse_quic_eq.
      assert (Hlc : l = [reset_allowance c []]).
      { destruct Hpn as [HS|HS]; rewrite HS in Hl; cbn in Hl; injection Hl as Hl; subst l; reflexivity. }
      subst l.
      eapply finish_script; [exact Hl | left; reflexivity|].
      apply sat1_reset; [rewrite Hcs; reflexivity | rewrite Hacc; reflexivity].
  - destruct (poll_next_bad_pre (fs r) k Hb Hr He) as [Hnil Hcons].
    destruct Hrx as [[Hrx Htodo]|[q Hrx]].
    + rewrite (Hnil Hrx).
      unfold step_post. repeat split; try reflexivity; [|stop_goal].
      apply ph_pre; cbn; try assumption; try reflexivity.
      * rewrite Hro. exact I.
      * split; cbn; assumption.
      * rewrite Hro. right. exists k, rest. repeat split; try assumption. left. split; assumption.
    + rewrite (Hcons q Hrx). rewrite HS in Hl |- *.
      destruct Hk as [Hk|Hk]; subst k.
      * change cli_malformed_stores with false. cbn iota.
        eapply finish_script; [cbn; rewrite Hro; reflexivity | left; reflexivity|].
        apply sat1_err; [rewrite Hcs; reflexivity | rewrite Hacc; reflexivity | exact I].
      * change cli_toobig_stores with false. cbn iota.
        eapply finish_script; [cbn; rewrite Hro; reflexivity | left; reflexivity|].
        apply sat1_err; [rewrite Hcs; reflexivity | rewrite Hacc; reflexivity | exact I].
Qed.

(* both roles: recv_data inside the body *)
Lemma exec_recv_body : forall E S s r body D e d',
  env_ok E s -> stop_ok E r ->
  S = EHeaders HOk :: body -> body_ok 0 body D e -> good_end e ->
  res r = None -> pcr r = recv_pc (c_role (cfg r)) -> sent_ok r -> no_trl r -> fs_ok (fs r) ->
  body_ok (remaining (fs r)) (pend (fs r) ++ todo r) d' e -> acc r ++ d' = D ->
  step_post E S s r (exec_pc s r).
Proof.
  intros E S s r body D e d' Henv Hso HS Hbody Hge Hres Hpc [Htx Hcs] [Hnt1 Hnt2] Hok Hb Hacc.
  destruct (classify_msg (cfg r) body D e Hbody) as [Hall Hcl]. rewrite <- HS in Hall, Hcl.
  pose proof (poll_recv_data_body s (fs r) (todo r) d' e Hok Hb) as Hrd.
  set (tp := trl_pc (c_role (cfg r))).
  assert (Hexec : exec_pc s r =
    match poll_recv_data s (fs r) with
    | (RdPending, sh', f) => (sh', goto r f (pcr r), Stop)
    | (RdSome d, sh', f) => (sh', upd r f (pcr r) (acc r ++ d) (tx r) (calls r) None, Continue)
    | (RdNone, sh', f) => (sh', goto r f tp, Continue)
    | (RdTrailers k, sh', f) => (sh', set_trl (goto r f tp) (Some k) (gottrl r), Continue)
    | (RdErr e, sh', f) => (sh', finish_with r f (RErr ARecv e) (tx r) (calls r), Stop)
    | (RdPanic n, sh', f) => (sh', finish_with r f (RPanic n) (tx r) (calls r), Stop)
    | (RdUnmodelled, sh', f) => (sh', finish_with r f RUnmodelled (tx r) (calls r), Stop)
    end).
  { unfold exec_pc, tp. rewrite Hpc. destruct (c_role (cfg r)); reflexivity. }
  rewrite Hexec. clear Hexec.
  assert (Hab : filter is_abort (calls r) = []).
  { rewrite Hcs, Hpc. destruct (c_role (cfg r)); reflexivity. }
  assert (Hsent_tp : fst (sent tp (cfg r)) = tx r /\ snd (sent tp (cfg r)) = calls r).
  { rewrite Htx, Hcs, Hpc. unfold tp. destruct (c_role (cfg r)); split; reflexivity. }
  assert (Hrank : forall f1, (msr f1 <= msr (fs r))%nat -> (msr f1 + rank tp < pot r)%nat).
  { intros f1 Hm. unfold pot. rewrite Hpc. unfold tp. destruct (c_role (cfg r)); cbn; lia. }
  destruct (poll_recv_data s (fs r)) as [[[|bs| |k|er|n|] s'] f']; cbn [rd_post] in Hrd; try contradiction.
  - (* pending *)
    destruct Hrd as (Hs & Hok' & Hb' & Hm & Hrx). subst s'.
    unfold step_post. repeat split; try reflexivity; [|stop_goal].
    eapply (ph_body E S _ body D e d'); cbn; try assumption; try reflexivity; split; cbn; assumption.
  - (* some bytes *)
    destruct Hrd as (Hs & Hok' & Hm & d'' & Hd & Hb'). subst s'.
    unfold step_post. repeat split; try reflexivity.
    + eapply (ph_body E S _ body D e d''); cbn; try assumption; try reflexivity.
      * split; cbn; assumption.
      * split; cbn; assumption.
      * rewrite <- app_assoc, <- Hd. exact Hacc.
    + intros _. unfold pot. cbn. lia.
  - (* end of the body, no trailers *)
    destruct Hrd as (Hs & He & Hd & Hok' & Heos & Hbuf & Hrem & Hm). subst s' e d'. rewrite app_nil_r in Hacc.
    unfold step_post. repeat split; try reflexivity.
    + eapply (ph_trl E S _ body D EndFin); cbn; try assumption; try reflexivity.
      * split; cbn; symmetry; apply Hsent_tp.
      * left. repeat split; assumption.
    + intros _. unfold pot at 1. cbn. apply Hrank. exact Hm.
  - (* a trailer section ends the body *)
    destruct Hrd as (Hs & Hd & Hok' & Hrem & Htail & Hm). subst s' d'. rewrite app_nil_r in Hacc.
    unfold step_post. repeat split; try reflexivity.
    + eapply (ph_trl E S _ body D e); cbn; try assumption; try reflexivity.
      * split; cbn; symmetry; apply Hsent_tp.
      * right. exists k. split; [reflexivity | exact Htail].
    + intros _. unfold pot at 1. cbn. apply Hrank. lia.
  - (* reset *)
    destruct Hrd as (Hs & c & He & Her). subst s' e er.
    eapply finish_script; [exact Hcl | left; reflexivity|].
    apply sat1_reset; [exact Hab | rewrite <- Hacc; apply prefixb_app].
Qed.

(* ---- recv_trailers *)
Lemma gen_trl_facts :
  trl_waits_for_end = true /\ trl_malformed_stores = false /\ trl_toobig_stores = false /\
  trl_malformed_variant = VStreamError /\ trl_toobig_variant = VHeaderTooBig /\
  trl_malformed_code = RFC_H3_MESSAGE_ERROR /\ trl_malformed_stop = Some RFC_H3_MESSAGE_ERROR /\
  cli_trl_toobig_stop = Some RFC_H3_REQUEST_CANCELLED /\
  send_trailers_limit_cmp = true /\ send_trailers_err_via_hq = true.
Proof. repeat split; reflexivity. Qed.

(* what happens once the stream has ended behind a trailer section k *)
Lemma exec_trl_decode : forall E S s r body D k f1,
  S = EHeaders HOk :: body -> body_ok 0 body D (EndFinT k) -> good_end (EndFinT k) ->
  res r = None -> pcr r = trl_pc (c_role (cfg r)) -> sent_ok r -> gottrl r = false -> acc r = D ->
  step_post E S s r
    (match trailers_decode (pcr r) k s f1 with
     | (TrPending o, sh', f) => (sh', set_trl (goto r f (pcr r)) o (gottrl r), Stop)
     | (TrDone got, sh', f) =>
         match pcr r with
         | SRecvTrl => (sh', set_trl (goto r f SSendResp) None got, Stop)
         | _ => (sh', set_trl (finish_with r f ROk (tx r) (calls r)) None got, Stop)
         end
     | (TrErr e cs, sh', f) => (sh', finish_with r f (RErr ARecvTrl e) (tx r) (calls r ++ cs), Stop)
     | (TrPanic n, sh', f) => (sh', finish_with r f (RPanic n) (tx r) (calls r), Stop)
     | (TrUnmodelled, sh', f) => (sh', finish_with r f RUnmodelled (tx r) (calls r), Stop)
     end).
Proof.
  intros E S s r body D k f1 HS Hbody Hge Hres Hpc [Htx Hcs] Hgot Hacc.
  destruct (classify_msg (cfg r) body D _ Hbody) as [Hall Hcl]. rewrite <- HS in Hall, Hcl.
  unfold trailers_decode.
  destruct k.
  - (* a good trailer section *)
    destruct (c_role (cfg r)) eqn:Hro; cbn [trl_pc] in Hpc; rewrite Hpc in *; cbn [sent fst snd] in Htx, Hcs.
    + unfold step_post. repeat split; try reflexivity; [|stop_goal].
      eapply (ph_send E S _ body D (EndFinT HOk)); cbn; try assumption; try reflexivity.
      * right. split; reflexivity.
      * left; reflexivity.
      * split; cbn; assumption.
    + unfold step_post. repeat split; try reflexivity; [|stop_goal].
      eapply ph_done; cbn; try reflexivity.
      * unfold classify. rewrite Hcl. cbn [msg_allowances]. reflexivity.
      * eapply sat_intro; [left; reflexivity|].
        cbn [sat1 observe outcome_of ob_out ob_data ob_tx ob_calls ob_trl set_trl finish_with upd acc tx calls res gottrl].
        rewrite Hacc, Htx, Hcs. unfold healthy_tx, trl_items. rewrite Hro.
        rewrite bytes_eqb_refl, (list_eqb_refl _ _ witem_eqb_refl), (list_eqb_refl _ _ call_eqb_refl). reflexivity.
  - (* malformed *)
    change trl_malformed_stores with false. cbn iota.
    eapply finish_script; [exact Hcl | left; reflexivity|].
    destruct (c_role (cfg r)) eqn:Hro; cbn [trl_pc] in Hpc; rewrite Hpc in *; cbn [sent fst snd] in Htx, Hcs;
      (apply sat1_err; [rewrite Hcs; reflexivity | rewrite Hacc; apply prefixb_refl | try exact Htx; try exact I]).
  - (* oversized *)
    change trl_toobig_stores with false. cbn iota.
    destruct (c_role (cfg r)) eqn:Hro; cbn [trl_pc] in Hpc; rewrite Hpc in *; cbn [sent fst snd] in Htx, Hcs.
    + cbn [msg_allowances] in Hcl. rewrite Hro in Hcl.
      eapply finish_script; [exact Hcl | left; reflexivity|].
      apply sat1_err; [rewrite Hcs; reflexivity | rewrite Hacc; apply prefixb_refl | exact Htx].
    + cbn [msg_allowances] in Hcl. rewrite Hro in Hcl.
      eapply finish_script; [exact Hcl | left; reflexivity|].
      apply sat1_err; [rewrite Hcs; reflexivity | rewrite Hacc; apply prefixb_refl | exact I].
  - contradiction Hge; reflexivity.
Qed.

Lemma exec_recv_trl : forall E S s r body D e,
  env_ok E s -> stop_ok E r ->
  S = EHeaders HOk :: body -> body_ok 0 body D e -> good_end e ->
  res r = None -> pcr r = trl_pc (c_role (cfg r)) -> sent_ok r -> gottrl r = false ->
  fs_ok (fs r) -> remaining (fs r) = 0 -> trl_state r e -> acc r = D ->
  step_post E S s r (exec_pc s r).
Proof.
  intros E S s r body D e Henv Hso HS Hbody Hge Hres Hpc Hsent Hgot Hok Hrem Hst Hacc.
  destruct (classify_msg (cfg r) body D e Hbody) as [Hall Hcl]. rewrite <- HS in Hall, Hcl.
  assert (Hexec : exec_pc s r =
    match recv_trailers s (pcr r) (trl r) (fs r) with
    | (TrPending o, sh', f) => (sh', set_trl (goto r f (pcr r)) o (gottrl r), Stop)
    | (TrDone got, sh', f) =>
        match pcr r with
        | SRecvTrl => (sh', set_trl (goto r f SSendResp) None got, Stop)
        | _ => (sh', set_trl (finish_with r f ROk (tx r) (calls r)) None got, Stop)
        end
    | (TrErr e cs, sh', f) => (sh', finish_with r f (RErr ARecvTrl e) (tx r) (calls r ++ cs), Stop)
    | (TrPanic n, sh', f) => (sh', finish_with r f (RPanic n) (tx r) (calls r), Stop)
    | (TrUnmodelled, sh', f) => (sh', finish_with r f RUnmodelled (tx r) (calls r), Stop)
    end).
  { unfold exec_pc. rewrite Hpc. destruct (c_role (cfg r)); reflexivity. }
  rewrite Hexec. clear Hexec.
  destruct Hst as [(Htrl & He & Heos & Hbuf)|(k & Htrl & Htail)]; rewrite Htrl.
  - (* the body ended with FIN: there are no trailers *)
    subst e. cbn [recv_trailers]. rewrite (poll_next_at_end _ Heos Hbuf Hrem).
    destruct Hsent as [Htx Hcs].
    destruct (c_role (cfg r)) eqn:Hro; cbn [trl_pc] in Hpc; rewrite Hpc in *; cbn [sent fst snd] in Htx, Hcs.
    + unfold step_post. repeat split; try reflexivity; [|stop_goal].
      eapply (ph_send E S _ body D EndFin); cbn; try assumption; try reflexivity.
      * left. split; reflexivity.
      * left; reflexivity.
      * split; cbn; assumption.
    + unfold step_post. repeat split; try reflexivity; [|stop_goal].
      eapply ph_done; cbn; try reflexivity.
      * unfold classify. rewrite Hcl. cbn [msg_allowances]. reflexivity.
      * eapply sat_intro; [left; reflexivity|].
        cbn [sat1 observe outcome_of ob_out ob_data ob_tx ob_calls ob_trl set_trl finish_with upd acc tx calls res gottrl].
        rewrite Hacc, Htx, Hcs. unfold healthy_tx, trl_items. rewrite Hro.
        rewrite bytes_eqb_refl, (list_eqb_refl _ _ witem_eqb_refl), (list_eqb_refl _ _ call_eqb_refl). reflexivity.
  - (* a trailer frame is held: wait for the end of the stream *)
    cbn [recv_trailers]. unfold trailers_tail. change trl_waits_for_end with true. cbn [andb].
    destruct (eos (fs r) && match buf (fs r) with [] => true | _ => false end) eqn:Hend; cbn [negb].
    + (* the end was already seen *)
      apply andb_true_iff in Hend. destruct Hend as [Heos Hbuf].
      assert (Hb0 : buf (fs r) = []) by (destruct (buf (fs r)); [reflexivity | discriminate Hbuf]).
      destruct Hok as [_ He]. destruct (He Heos) as [q Hq].
      assert (He' : e = EndFinT k).
      { unfold pend in Htail. rewrite Hb0, Hq in Htail. cbn [app] in Htail.
        destruct Htail as [[_ H]|[[c [H _]]|[c [H _]]]]; [exact H | discriminate H | discriminate H]. }
      subst e. eapply exec_trl_decode; eassumption.
    + pose proof (pn_tail (fs r) (todo r) e k Hok Hrem Htail) as Hpn.
      destruct (poll_next (fs r)) as [[| |k'|t|c| | |n] f1]; cbn [pn_tail_post] in Hpn; try contradiction.
      * (* still open *)
        destruct Hpn as (Hok1 & Hrem1 & Hp1 & Hrx1).
        unfold step_post. repeat split; try reflexivity; [|stop_goal].
        eapply (ph_trl E S _ body D e); cbn; try assumption; try reflexivity.
        right. exists k. split; [reflexivity|]. cbn. rewrite Hp1. exact Htail.
      * subst e. eapply exec_trl_decode; eassumption.
      * (* reset behind the trailers *)
        subst e. rewrite fse_quic_eq.
        destruct Hsent as [Htx Hcs].
        eapply finish_script; [exact Hcl | left; reflexivity|].
        apply sat1_reset; [|rewrite Hacc; apply prefixb_refl].
        rewrite app_nil_r, Hcs, Hpc. destruct (c_role (cfg r)); reflexivity.
Qed.

(* server: answering after a complete request *)
Lemma exec_server_send : forall E S s r body D e,
  env_ok E s -> stop_ok E r ->
  S = EHeaders HOk :: body -> body_ok 0 body D e ->
  (e = EndFin /\ gottrl r = false) \/ (e = EndFinT HOk /\ gottrl r = true) ->
  res r = None -> c_role (cfg r) = Server -> send_pc (pcr r) -> sent_ok r -> acc r = D ->
  step_post E S s r (exec_pc s r).
Proof.
  intros E S s r body D e Henv Hso HS Hbody Hend Hres Hro Hpc [Htx Hcs] Hacc.
  destruct (classify_msg (cfg r) body D e Hbody) as [Hall Hcl]. rewrite <- HS in Hall, Hcl.
  assert (Hcl' : classify_script (cfg r) S = Some [AOk D (healthy_tx (cfg r)) (gottrl r)]).
  { rewrite Hcl. destruct Hend as [[He Hg]|[He Hg]]; subst e; rewrite Hg; reflexivity. }
  assert (Hpfx : prefixb (acc r) (all_data S) = true) by (rewrite Hall, Hacc; apply prefixb_refl).
  assert (Hcalls : calls r = []) by (destruct Hpc as [H|[H|[H|H]]]; rewrite H in Hcs; exact Hcs).
  assert (Hnext : forall p t, send_pc p -> t = fst (sent p (cfg r)) -> snd (sent p (cfg r)) = [] ->
            phase E S (upd r (fs r) p (acc r) t (calls r) None)).
  { intros p t Hp Ht Hc. eapply (ph_send E S _ body D e); cbn; try assumption; try reflexivity.
    split; cbn; [exact Ht | rewrite Hc; exact Hcalls]. }
  unfold exec_pc. destruct Hpc as [Hpc|[Hpc|[Hpc|Hpc]]]; rewrite Hpc in *; cbn [sent fst snd] in Htx, Hcs.
  - destruct (over (c_hsize (cfg r)) (peer_max s)) eqn:Hov.
    + eapply finish_limit; [exact Hcl' | left; eapply over_env; eassumption | exact Hpfx | rewrite Hcs; reflexivity].
    + destruct (write_err_cases r s) as [[Hst Hw]|[c [Hst Hw]]]; rewrite Hw.
      * unfold step_post. repeat split; try reflexivity; [|stop_goal].
        apply Hnext; [right; left; reflexivity | cbn; rewrite Htx; reflexivity | reflexivity].
      * eapply finish_stop; [exact Hcl' | exact Hso | exact Hst | exact Hpfx | rewrite Hcs; reflexivity].
  - destruct (write_err_cases r s) as [[Hst Hw]|[c [Hst Hw]]]; rewrite Hw.
    + unfold step_post. repeat split; try reflexivity; [|stop_goal].
      unfold trl_items in *. destruct (c_trl (cfg r)) eqn:Hct; apply Hnext;
        try (right; right; left; reflexivity); try (right; right; right; reflexivity);
        cbn; unfold trl_items; rewrite ?Hct, ?Htx, ?app_nil_r; reflexivity.
    + change send_data_err_via_hq with true. cbn iota.
      eapply finish_stop; [exact Hcl' | exact Hso | exact Hst | exact Hpfx | rewrite Hcs; reflexivity].
  - (* send_trailers *)
    destruct (c_trl (cfg r)) as [z|] eqn:Hct.
    + change send_trailers_limit_cmp with true. cbn [andb].
      destruct (over z (peer_max s)) eqn:Hov.
      * eapply finish_limit; [exact Hcl' | right; left; exists z; split; [exact Hct | eapply over_env; eassumption]
                             | exact Hpfx | rewrite Hcs; reflexivity].
      * destruct (write_err_cases r s) as [[Hst Hw]|[c [Hst Hw]]]; rewrite Hw.
        -- unfold step_post. repeat split; try reflexivity; [|stop_goal].
           apply Hnext; [right; right; right; reflexivity | cbn; unfold trl_items; rewrite Hct, Htx; reflexivity | reflexivity].
        -- change send_trailers_err_via_hq with true. cbn iota.
           eapply finish_stop; [exact Hcl' | exact Hso | exact Hst | exact Hpfx | rewrite Hcs; reflexivity].
    + unfold step_post. repeat split; try reflexivity; [|stop_goal].
      apply (Hnext SFinish (tx r)); [right; right; right; reflexivity | cbn; unfold trl_items; rewrite Hct, Htx; reflexivity | reflexivity].
  - (* finish *)
    assert (Hfin : forall t0, t0 = tx r ++ grease_items (cfg r) ->
       step_post E S s r
         (match stopped r with
          | Some c =>
              let '(sh', e) := if c_unk (cfg r) then on_stream_unknown s else on_stream_terminated c s in
              if finish_err_via_hq then (sh', finish_with r (fs r) (RErr AFinish e) t0 (calls r), Stop)
              else let '(sh2, e2) := conn_error_on_stream H3_INTERNAL_ERROR s in
                   (sh2, finish_with r (fs r) (RErr AFinish e2) t0 (calls r), Stop)
          | None => (s, finish_with r (fs r) ROk t0 (calls r ++ [CFin]), Stop)
          end)).
    { intros t0 Ht0. destruct (stopped r) as [c|] eqn:Hst.
      - rewrite on_stream_unknown_eq, on_stream_terminated_eq. change finish_err_via_hq with true.
        destruct (c_unk (cfg r)) eqn:Hu; cbn iota.
        + eapply finish_unk; [exact Hcl' | exact Hso | exact Hst | exact Hu | exact Hpfx | rewrite Hcs; reflexivity].
        + eapply finish_stop; [exact Hcl' | exact Hso | exact Hst | exact Hpfx | rewrite Hcs; reflexivity].
      - eapply finish_script; [exact Hcl' | left; reflexivity|].
        cbn [sat1 outcome_of ob_out ob_data ob_tx ob_calls ob_trl]. rewrite Hacc, Ht0, Htx, Hcs.
        unfold healthy_tx, trl_items, grease_items. rewrite Hro. cbn [app].
        rewrite bytes_eqb_refl, (list_eqb_refl _ _ witem_eqb_refl), (list_eqb_refl _ _ call_eqb_refl), Bool.eqb_reflx. reflexivity. }
    destruct (c_grease (cfg r)) eqn:Hg.
    + destruct (write_err_cases r s) as [[Hst Hw]|[c [Hst Hw]]]; rewrite Hw.
      * apply Hfin. unfold grease_items. rewrite Hg. reflexivity.
      * change finish_err_via_hq with true. cbn iota.
        eapply finish_stop; [exact Hcl' | exact Hso | exact Hst | exact Hpfx | rewrite Hcs; reflexivity].
    + apply Hfin. unfold grease_items. rewrite Hg, app_nil_r. reflexivity.
Qed.

Lemma step_post_idle : forall E S s r, phase E S r -> step_post E S s r (s, r, Stop).
Proof. intros E S s r Hph. unfold step_post. repeat split; try reflexivity; [exact Hph | stop_goal]. Qed.

Theorem exec_pc_inv : forall E S s r,
  env_ok E s -> stop_ok E r -> phase E S r -> step_post E S s r (exec_pc s r).
Proof.
  intros E S s r Henv Hso Hph.
  destruct Hph as [Hres Hacc Hpre Hsent Hnt Hstream|body D e d' HS Hbody Hge Hres Hpc Hsent Hnt Hok Hb Hacc
                  |body D e HS Hbody Hge Hres Hpc Hsent Hgot Hok Hrem Hst Hacc
                  |body D e HS Hbody Hend Hres Hro Hpc Hsent Hacc|al x Hres Hpc Hcl Hsat].
  - destruct (c_role (cfg r)) eqn:Hro; destruct (pcr r) eqn:Hpc; cbn [pre_pc] in Hpre; try contradiction.
    + (* SWait *)
      assert (Hex : exec_pc s r = (s, r, Stop)) by (unfold exec_pc; rewrite Hpc; reflexivity).
      rewrite Hex. apply step_post_idle. apply ph_pre; try assumption; rewrite ?Hro, ?Hpc; try assumption; try exact I.
    + apply exec_server_resolve; try assumption.
    + apply exec_client_send; try assumption. left; exact Hpc.
    + apply exec_client_send; try assumption. right; left; exact Hpc.
    + apply exec_client_send; try assumption. right; right; left; exact Hpc.
    + apply exec_client_send; try assumption. right; right; right; exact Hpc.
    + apply exec_client_recv_response; try assumption.
  - eapply exec_recv_body; eassumption.
  - eapply exec_recv_trl; eassumption.
  - eapply exec_server_send; eassumption.
  - assert (Hex : exec_pc s r = (s, r, Stop)) by (unfold exec_pc; rewrite Hpc; reflexivity).
    rewrite Hex. apply step_post_idle. eapply ph_done; eassumption.
Qed.

(* ------------------------------------------------------------------ one poll of the task *)
Lemma poll_task_inv : forall fuel E S s r,
  env_ok E s -> stop_ok E r -> phase E S r -> (pot r < fuel)%nat ->
  let '(s', r') := poll_task fuel s r in
  s' = s /\ cfg r' = cfg r /\ stopped r' = stopped r /\ todo r' = todo r /\ phase E S r'.
Proof.
  induction fuel as [|n IH]; intros E S s r Henv Hso Hph Hpot; [lia|].
  cbn [poll_task].
  pose proof (exec_pc_inv E S s r Henv Hso Hph) as Hstep.
  destruct (exec_pc s r) as [[s1 r1] st]. unfold step_post in Hstep.
  destruct Hstep as (Hs & Hcfg & Hstop & Htodo & Hph1 & Hpot1). subst s1.
  destruct st.
  - assert (Hso1 : stop_ok E r1) by (unfold stop_ok; rewrite Hstop; exact Hso).
    specialize (Hpot1 eq_refl).
    pose proof (IH E S s r1 Henv Hso1 Hph1 ltac:(lia)) as Hrec.
    destruct (poll_task n s r1) as [s2 r2].
    destruct Hrec as (H1 & H2 & H3 & H4 & H5).
    repeat split; try assumption; congruence.
  - repeat split; assumption.
Qed.

(* ------------------------------------------------------------------ deliveries *)
Lemma last_is_chunk : forall l : list ev,
  (forall a x, l = a ++ [x] -> is_chunk x) -> is_chunk (last l EPartial).
Proof.
  intros l H. destruct l as [|y l']; [exact I|].
  destruct (exists_last (l := y :: l')) as [a [x Hax]]; [discriminate|].
  rewrite Hax, last_last. eapply H. exact Hax.
Qed.

Lemma push_rx_chunk : forall e f, is_chunk (last (rx f) EPartial) ->
  push_rx e f = {| buf := buf f; remaining := remaining f; eos := eos f; rx := rx f ++ [e] |}.
Proof. intros e f H. unfold push_rx. destruct (last (rx f) EPartial); try reflexivity; destruct H. Qed.

Lemma push_rx_cases : forall e f,
  push_rx e f = f \/ push_rx e f = {| buf := buf f; remaining := remaining f; eos := eos f; rx := rx f ++ [e] |}.
Proof. intros e f. unfold push_rx. destruct (last (rx f) EPartial); auto. Qed.

Lemma tail_ok_terminal_last : forall q e k, tail_ok q e k ->
  forall a x b, q = a ++ x :: b -> b <> [] -> is_chunk x.
Proof.
  intros q e k [[Hq _]|[[c [Hq _]]|[c [Hq _]]]] a x b Heq Hb; subst q.
  - destruct a as [|y a']; cbn in Heq; injection Heq as Hy Hr; [subst b; contradiction Hb; reflexivity | destruct a'; discriminate Hr].
  - destruct a as [|y a']; cbn in Heq; injection Heq as Hy Hr; [subst b; contradiction Hb; reflexivity | destruct a'; discriminate Hr].
  - destruct a as [|y a']; cbn in Heq; injection Heq as Hy Hr; [subst x; exact I|].
    destruct a' as [|z a'']; cbn in Hr; injection Hr as Hz Hr; [subst b; contradiction Hb; reflexivity | destruct a''; discriminate Hr].
Qed.

Lemma deliver_phase : forall E S r e t,
  todo r = e :: t -> phase E S r -> phase E S (with_fs r (push_rx e (fs r)) t).
Proof.
  intros E S r e t Htodo Hph.
  destruct Hph as [Hres Hacc Hpre Hsent Hnt Hstream|body D e0 d' HS Hbody Hge Hres Hpc Hsent Hnt Hok Hb Hacc
                  |body D e0 HS Hbody Hge Hres Hpc Hsent Hgot Hok Hrem Hst Hacc
                  |body D e0 HS Hbody Hend Hres Hro Hpc Hsent Hacc|al x Hres Hpc Hcl Hsat].
  - apply ph_pre; cbn; try assumption.
    destruct Hstream as [(Hg & Hfs & Hpend)|(k & rest & HS & Hk & Hbuf & Hr & He & Hrx)].
    + left. rewrite Htodo in Hpend.
      assert (Hlast : is_chunk (last (rx (fs r)) EPartial)).
      { apply last_is_chunk. intros a x Hax.
        eapply (pre_good_terminal_last _ _ Hg (buf (fs r) ++ a) x (e :: t)); [|discriminate].
        rewrite <- Hpend. unfold pend. rewrite Hax, <- !app_assoc. reflexivity. }
      rewrite (push_rx_chunk e _ Hlast).
      split; [exact Hg|]. split.
      * destruct Hfs as (H1 & H2 & H3). repeat split; assumption.
      * rewrite <- Hpend. unfold pend. cbn [buf rx]. rewrite <- !app_assoc. reflexivity.
    + right. exists k, rest.
      destruct (push_rx_cases e (fs r)) as [Hp|Hp]; rewrite Hp; cbn [buf remaining eos rx].
      * repeat split; try assumption.
        destruct Hrx as [[Hrx Ht]|[q Hq]]; [|right; exists q; exact Hq].
        exfalso. unfold push_rx in Hp. rewrite Hrx in Hp. cbn in Hp.
        apply (f_equal rx) in Hp. cbn in Hp. rewrite Hrx in Hp. discriminate Hp.
      * repeat split; try assumption. right.
        destruct Hrx as [[Hrx Ht]|[q Hq]].
        -- rewrite Hrx. cbn [app]. rewrite Ht, HS in Htodo. injection Htodo as He' _. subst e. exists []. reflexivity.
        -- rewrite Hq. cbn [app]. eexists; reflexivity.
  - rewrite Htodo in Hb.
    assert (Hlast : is_chunk (last (rx (fs r)) EPartial)).
    { apply last_is_chunk. intros a x Hax.
      eapply (body_ok_terminal_last _ _ _ _ Hb (buf (fs r) ++ a) x (e :: t)); [|discriminate].
      unfold pend. rewrite Hax, <- !app_assoc. reflexivity. }
    rewrite (push_rx_chunk e _ Hlast).
    eapply (ph_body E S _ body D e0 d'); cbn; try assumption.
    + destruct Hok as [Hc He]. split; cbn; [exact Hc|].
      intros Heos. destruct (He Heos) as [q Hq]. rewrite Hq. cbn [app]. eexists; reflexivity.
    + unfold pend in *. cbn [buf rx]. rewrite <- !app_assoc in *. exact Hb.
  - (* between the body and the trailers' verdict *)
    destruct Hst as [(Htrl & He0 & Heos & Hbuf)|(k & Htrl & Htail)].
    + eapply (ph_trl E S _ body D e0); cbn; try assumption.
      * destruct (push_rx_cases e (fs r)) as [Hp|Hp]; rewrite Hp; [exact Hok|].
        destruct Hok as [Hc He]. split; cbn; [exact Hc|].
        intros Hx. destruct (He Hx) as [q Hq]. rewrite Hq. cbn [app]. eexists; reflexivity.
      * destruct (push_rx_cases e (fs r)) as [Hp|Hp]; rewrite Hp; [exact Hrem | exact Hrem].
      * left. destruct (push_rx_cases e (fs r)) as [Hp|Hp]; rewrite Hp; cbn; repeat split; assumption.
    + rewrite Htodo in Htail.
      assert (Hlast : is_chunk (last (rx (fs r)) EPartial)).
      { apply last_is_chunk. intros a x Hax.
        eapply (tail_ok_terminal_last _ _ _ Htail (buf (fs r) ++ a) x (e :: t)); [|discriminate].
        unfold pend. rewrite Hax, <- !app_assoc. reflexivity. }
      rewrite (push_rx_chunk e _ Hlast).
      eapply (ph_trl E S _ body D e0); cbn; try assumption.
      * destruct Hok as [Hc He]. split; cbn; [exact Hc|].
        intros Hx. destruct (He Hx) as [q Hq]. rewrite Hq. cbn [app]. eexists; reflexivity.
      * right. exists k. split; [exact Htrl|]. cbn. unfold pend in *. cbn [buf rx]. rewrite <- !app_assoc in *. exact Htail.
  - eapply (ph_send E S _ body D e0); cbn; eassumption.
  - eapply ph_done; cbn; eassumption.
Qed.


Lemma req_step_inv : forall a E S s r,
  env_ok E s -> stop_ok E r -> phase E S r ->
  (forall i c, a = PeerStop i c -> e_stop E = Some c) ->
  let '(s', r') := req_step a s r in
  s' = s /\ cfg r' = cfg r /\ stop_ok E r' /\ phase E S r'.
Proof.
  intros a E S s r Henv Hso Hph Hact. destruct a as [i|i|i c|i| |v|]; cbn [req_step].
  - (* Open *)
    destruct (pcr r) eqn:Hpc; try (repeat split; assumption).
    destruct (drv s); [repeat split; assumption|].
    repeat split; try assumption.
    destruct Hph as [Hres Hacc Hpre Hsent Hnt Hstream|body D e0 d' HS Hbody Hge Hres Hpc' Hsent Hnt Hok Hb Hacc
                    |body D e0 HS Hbody Hge Hres Hpc' Hsent Hgot Hok Hrem Hst Hacc
                    |body D e0 HS Hbody Hend Hres Hro Hpc' Hsent Hacc|al x Hres Hpc' Hcl Hsat].
    + apply ph_pre; cbn; try assumption.
      * rewrite Hpc in Hpre. destruct (c_role (cfg r)); [exact I | contradiction].
      * destruct Hsent as [H1 H2]. rewrite Hpc in H1, H2. split; cbn; assumption.
    + rewrite Hpc in Hpc'. destruct (c_role (cfg r)); discriminate Hpc'.
    + rewrite Hpc in Hpc'. destruct (c_role (cfg r)); discriminate Hpc'.
    + rewrite Hpc in Hpc'. destruct Hpc' as [H|[H|[H|H]]]; discriminate H.
    + rewrite Hpc in Hpc'. discriminate Hpc'.
  - (* Deliver *)
    destruct (todo r) as [|e t] eqn:Htodo; [repeat split; assumption|].
    repeat split; try assumption. apply deliver_phase; assumption.
  - (* PeerStop *)
    repeat split; try reflexivity.
    + intros x. cbn. destruct (stopped r) as [c0|] eqn:Hst.
      * intros Hx. apply Hso. rewrite Hst. exact Hx.
      * intros Hx. injection Hx as Hx. subst x. eapply Hact. reflexivity.
    + destruct Hph as [Hres Hacc Hpre Hsent Hnt Hstream|body D e0 d' HS Hbody Hge Hres Hpc' Hsent Hnt Hok Hb Hacc
                      |body D e0 HS Hbody Hge Hres Hpc' Hsent Hgot Hok Hrem Hst Hacc
                      |body D e0 HS Hbody Hend Hres Hro Hpc' Hsent Hacc|al x Hres Hpc' Hcl Hsat].
      * apply ph_pre; cbn; assumption.
      * eapply (ph_body E S _ body D e0 d'); cbn; assumption.
      * eapply (ph_trl E S _ body D e0); cbn; assumption.
      * eapply (ph_send E S _ body D e0); cbn; assumption.
      * eapply ph_done; cbn; eassumption.
  - (* Poll *)
    pose proof (poll_task_inv (task_fuel r) E S s r Henv Hso Hph) as Hp.
    assert (Hpot : (pot r < task_fuel r)%nat).
    { unfold pot, task_fuel, msr. destruct (pcr r); cbn; lia. }
    specialize (Hp Hpot). destruct (poll_task (task_fuel r) s r) as [s' r'].
    destruct Hp as (H1 & H2 & H3 & H4 & H5). repeat split; try assumption.
    unfold stop_ok. rewrite H3. exact Hso.
  - repeat split; assumption.
  - repeat split; assumption.
  - repeat split; assumption.
Qed.

(* ------------------------------------------------------------------ every script of the class starts in the invariant *)
Lemma class_pre_stream : forall c S l,
  classify_script c S = Some l -> pre_stream (c_role c) S fs0 S.
Proof.
  intros c S l Hl.
  assert (Hfs0 : pre_fs fs0) by (repeat split; left; reflexivity).
  destruct S as [|x S']; [discriminate Hl|].
  destruct x as [k|t part|bs| | |code].
  - destruct k.
    + (* a message *)
      cbn [classify_script] in Hl.
      destruct (scan_body 0 [] S') as [d e] eqn:Hscan.
      assert (Hne : e <> EndBad) by (intros He; subst e; discriminate Hl).
      destruct (scan_body_ok _ _ _ _ _ Hscan Hne) as [d0 [Hd Hb]].
      assert (Hge : good_end e) by (intros He; subst e; discriminate Hl).
      left. split; [eapply pg_msg; [exact Hb | exact Hge]|]. split; [exact Hfs0 | reflexivity].
    + right. exists HMalformed, S'. repeat split; try reflexivity. left; reflexivity. left; split; reflexivity.
    + right. exists HOversized, S'. repeat split; try reflexivity. right; reflexivity. left; split; reflexivity.
    + discriminate Hl.
  - discriminate Hl.
  - discriminate Hl.
  - destruct S' as [|y S'']; [discriminate Hl|].
    destruct y; try discriminate Hl. destruct S''; [|discriminate Hl].
    left. split; [apply pg_partial|]. split; [exact Hfs0 | reflexivity].
  - destruct S'; [|discriminate Hl].
    cbn in Hl. destruct (c_role c) eqn:Hro; [|discriminate Hl].
    left. split; [apply pg_fin; reflexivity|]. split; [exact Hfs0 | reflexivity].
  - destruct S'; [|discriminate Hl].
    left. split; [apply pg_reset|]. split; [exact Hfs0 | reflexivity].
Qed.

(* ------------------------------------------------------------------ the world invariant *)

Definition winv (l : list (rcfg * list ev)) (stops : nat -> option N) (L : option N) (G : bool) (w : world) : Prop :=
  cell (sh w) = None /\ drv (sh w) = None /\ closes (sh w) = [] /\
  (forall v, peer_max (sh w) = Some v -> L = Some v) /\ (closing (sh w) = true -> G = true) /\
  length (reqs w) = length l /\
  forall i c S r, nth_error l i = Some (c, S) -> nth_error (reqs w) i = Some r ->
     cfg r = c /\ stop_ok (env_of stops L G i) r /\ phase (env_of stops L G i) S r.


Lemma winv_init : forall l stops L G, in_class l -> winv l stops L G (init_world l).
Proof.
  intros l stops L G Hcl. unfold winv, init_world. cbn [sh reqs sh0 cell drv closes peer_max closing].
  split; [reflexivity|]. split; [reflexivity|]. split; [reflexivity|].
  split; [intros v Hv; discriminate Hv|]. split; [intros Hf; discriminate Hf|].
  split; [apply map_length|].
  intros i c S r Hl Hr.
  pose proof (map_nth_error (fun p => init_req (fst p) (snd p)) _ _ Hl) as Hm.
  rewrite Hm in Hr. cbn in Hr. injection Hr as Hr. subst r.
  split; [reflexivity|]. split; [intros x Hx; discriminate Hx|].
  pose proof (Hcl _ _ _ Hl) as Hne.
  destruct (classify_script c S) as [al|] eqn:Hal; [|contradiction Hne; reflexivity].
  apply ph_pre; cbn; try reflexivity.
  - destruct (c_role c); exact I.
  - unfold sent_ok. cbn. destruct (c_role c); split; reflexivity.
  - split; reflexivity.
  - eapply class_pre_stream. exact Hal.
Qed.

Lemma nth_error_set_nth_eq : forall A (l : list A) i x y, nth_error l i = Some y -> nth_error (set_nth i x l) i = Some x.
Proof.
  intros A l. induction l as [|h t IH]; intros i x y H; destruct i; cbn in *; try discriminate; [reflexivity|].
  eapply IH; exact H.
Qed.
Lemma nth_error_set_nth_neq : forall A (l : list A) i j x, i <> j -> nth_error (set_nth i x l) j = nth_error l j.
Proof.
  intros A l. induction l as [|h t IH]; intros i j x Hne; destruct i; destruct j; cbn; try reflexivity; try lia.
  apply IH. lia.
Qed.

Lemma set_nth_length : forall A (l : list A) i x, length (set_nth i x l) = length l.
Proof. intros A l. induction l as [|h t IH]; intros i x; destruct i; cbn; try reflexivity. rewrite IH. reflexivity. Qed.

Lemma driver_poll_quiet : forall s, cell s = None -> drv s = None -> driver_poll s = s.
Proof. intros s Hc Hd. unfold driver_poll. rewrite Hd, Hc. reflexivity. Qed.

Lemma global_step_inv : forall stops L G a s,
  action_ok stops L G a ->
  cell s = None -> drv s = None -> closes s = [] ->
  (forall v, peer_max s = Some v -> L = Some v) -> (closing s = true -> G = true) ->
  let s' := global_step a s in
  cell s' = None /\ drv s' = None /\ closes s' = [] /\
  (forall v, peer_max s' = Some v -> L = Some v) /\ (closing s' = true -> G = true).
Proof.
  intros stops L G a s Ha Hc Hd Hcl Hpm Hclo.
  destruct a as [i|i|i c|i| |v|]; cbn [global_step]; rewrite ?(driver_poll_quiet s Hc Hd);
    try (repeat split; assumption).
  - rewrite Hd. destruct (peer_max s) as [v0|] eqn:Hv; [repeat split; try assumption; rewrite Hv; exact Hpm|].
    cbn. repeat split; try assumption. intros v1 Hv1. injection Hv1 as Hv1. subst v1. exact Ha.
  - rewrite Hd. cbn. repeat split; try assumption. intros _. exact Ha.
Qed.

Lemma step_inv : forall l stops L G w a,
  action_ok stops L G a -> winv l stops L G w -> winv l stops L G (step w a).
Proof.
  intros l stops L G w a Ha (Hc & Hd & Hcl & Hpm & Hclo & Hlen & Hreqs).
  pose proof (global_step_inv stops L G a (sh w) Ha Hc Hd Hcl Hpm Hclo) as Hg.
  cbn zeta in Hg. destruct Hg as (Hc1 & Hd1 & Hcl1 & Hpm1 & Hclo1).
  unfold step.
  destruct (target a) as [i|] eqn:Htg.
  2:{ unfold winv. cbn [sh reqs]. repeat split; try assumption; eapply Hreqs; eassumption. }
  destruct (nth_error (reqs w) i) as [r|] eqn:Hri.
  2:{ unfold winv. cbn [sh reqs]. repeat split; try assumption; eapply Hreqs; eassumption. }
  destruct (nth_error l i) as [[c S]|] eqn:Hli.
  - destruct (Hreqs i c S r Hli Hri) as (Hcfg & Hso & Hph).
    assert (Henv : env_ok (env_of stops L G i) (global_step a (sh w))) by (split; cbn; assumption).
    assert (Hact : forall i0 c0, a = PeerStop i0 c0 -> e_stop (env_of stops L G i) = Some c0).
    { intros i0 c0 Heq. subst a. cbn in Htg. injection Htg as Htg. subst i0. exact Ha. }
    pose proof (req_step_inv a _ S _ r Henv Hso Hph Hact) as Hrs.
    destruct (req_step a (global_step a (sh w)) r) as [s2 r'].
    destruct Hrs as (Hs2 & Hcfg' & Hso' & Hph'). subst s2.
    unfold winv. cbn [sh reqs]. repeat split; try assumption.
    + rewrite set_nth_length. exact Hlen.
    + destruct (Nat.eq_dec i i0) as [Heq|Hne].
      * subst i0. rewrite (nth_error_set_nth_eq _ _ _ _ _ Hri) in H0. injection H0 as H0. subst r0.
        rewrite Hli in H. injection H as H1 H2. subst c0 S0. congruence.
      * rewrite (nth_error_set_nth_neq _ _ _ _ _ Hne) in H0. eapply Hreqs; eassumption.
    + destruct (Nat.eq_dec i i0) as [Heq|Hne].
      * subst i0. rewrite (nth_error_set_nth_eq _ _ _ _ _ Hri) in H0. injection H0 as H0. subst r0. exact Hso'.
      * rewrite (nth_error_set_nth_neq _ _ _ _ _ Hne) in H0. eapply Hreqs; eassumption.
    + destruct (Nat.eq_dec i i0) as [Heq|Hne].
      * subst i0. rewrite (nth_error_set_nth_eq _ _ _ _ _ Hri) in H0. injection H0 as H0. subst r0.
        rewrite Hli in H. injection H as H1 H2. subst c0 S0. exact Hph'.
      * rewrite (nth_error_set_nth_neq _ _ _ _ _ Hne) in H0. eapply Hreqs; eassumption.
  - exfalso. apply nth_error_None in Hli.
    assert (Hlt : (i < length (reqs w))%nat) by (apply nth_error_Some; rewrite Hri; discriminate). lia.
Qed.

Theorem run_inv : forall l stops L G sched w,
  Forall (action_ok stops L G) sched -> winv l stops L G w -> winv l stops L G (run sched w).
Proof.
  intros l stops L G sched. induction sched as [|a sched IH]; intros w Hok Hw; [exact Hw|].
  inversion Hok as [|? ? Ha Hrest]; subst. cbn [run fold_left].
  apply IH; [exact Hrest | apply step_inv; assumption].
Qed.


(* ------------------------------------------------------------------ T1 + T3 *)

Lemma phase_request_ok : forall E S r, phase E S r -> request_ok E (cfg r) S r.
Proof.
  intros E S r Hph.
  assert (Hmsg : forall body D e, S = EHeaders HOk :: body -> body_ok 0 body D e -> good_end e ->
            res r = None -> prefixb (acc r) D = true -> request_ok E (cfg r) S r).
  { intros body D e HS Hbody Hge Hres Hp.
    destruct (classify_msg (cfg r) body D e Hbody) as [Hall Hcl]. rewrite <- HS in Hall, Hcl.
    destruct (msg_allowances_some (cfg r) D e Hge (body_ok_not_bad _ _ _ _ Hbody)) as [l Hl].
    unfold request_ok, classify. rewrite Hcl, Hl, Hres, Hall. eexists. split; [reflexivity | exact Hp]. }
  destruct Hph as [Hres Hacc Hpre Hsent Hnt Hstream|body D e d' HS Hbody Hge Hres Hpc Hsent Hnt Hok Hb Hacc
                  |body D e HS Hbody Hge Hres Hpc Hsent Hgot Hok Hrem Hst Hacc
                  |body D e HS Hbody Hend Hres Hro Hpc Hsent Hacc|al x Hres Hpc Hcl Hsat].
  - destruct (pre_stream_classified (cfg r) S _ _ Hstream) as [l Hl].
    unfold request_ok, classify. rewrite Hl, Hres, Hacc. eexists. split; reflexivity.
  - eapply Hmsg; try eassumption. rewrite <- Hacc. apply prefixb_app.
  - eapply Hmsg; try eassumption. rewrite Hacc. apply prefixb_refl.
  - eapply Hmsg; try eassumption.
    + destruct Hend as [[He _]|[He _]]; subst e; discriminate.
    + rewrite Hacc. apply prefixb_refl.
  - unfold request_ok. rewrite Hres. exists al. split; assumption.
Qed.

Theorem confined : forall l stops L G sched,
  in_class l -> Forall (action_ok stops L G) sched ->
  let w := run sched (init_world l) in
  conn_quiet (observe_conn (sh w)) = true /\
  length (reqs w) = length l /\
  forall i c S r, nth_error l i = Some (c, S) -> nth_error (reqs w) i = Some r ->
    cfg r = c /\ request_ok (env_of stops L G i) c S r.
Proof.
  intros l stops L G sched Hcl Hok w.
  pose proof (run_inv l stops L G sched _ Hok (winv_init l stops L G Hcl)) as Hw.
  fold w in Hw. destruct Hw as (Hc & Hd & Hcls & Hpm & Hclo & Hlen & Hreqs).
  split; [unfold conn_quiet, observe_conn; cbn; rewrite Hc, Hcls, Hd; reflexivity|].
  split; [exact Hlen|].
  intros i c S r Hl Hr. destruct (Hreqs i c S r Hl Hr) as (Hcfg & _ & Hph).
  split; [exact Hcfg|]. rewrite <- Hcfg. apply phase_request_ok. exact Hph.
Qed.

(* a healthy, undisturbed request that completes has delivered exactly its bytes, written its answer and finished *)
Lemma bytes_eqb_true : forall a b, bytes_eqb a b = true -> a = b.
Proof.
  induction a as [|x a IH]; intros [|y b] H; cbn in H; try discriminate; [reflexivity|].
  apply andb_true_iff in H. destruct H as [H1 H2]. apply N.eqb_eq in H1. subst y. rewrite (IH _ H2). reflexivity.
Qed.
Lemma witems_eqb_true : forall a b, list_eqb witem_eqb a b = true -> a = b.
Proof.
  induction a as [|x a IH]; intros [|y b] H; cbn in H; try discriminate; [reflexivity|].
  apply andb_true_iff in H. destruct H as [H1 H2]. rewrite (IH _ H2). f_equal.
  destruct x, y; cbn in H1; try discriminate; try reflexivity; [apply N.eqb_eq in H1 | apply bytes_eqb_true in H1]; subst; reflexivity.
Qed.
Lemma calls_eqb_true : forall a b, list_eqb call_eqb a b = true -> a = b.
Proof.
  induction a as [|x a IH]; intros [|y b] H; cbn in H; try discriminate; [reflexivity|].
  apply andb_true_iff in H. destruct H as [H1 H2]. rewrite (IH _ H2). f_equal.
  destruct x, y; cbn in H1; try discriminate; try reflexivity; apply N.eqb_eq in H1; subst; reflexivity.
Qed.


Lemma healthy_exact : forall E c S r d t,
  healthy c S = Some (d, t) -> undisturbed E c -> request_ok E c S r -> res r <> None ->
  observe r = {| ob_out := OOk; ob_data := d; ob_trl := t; ob_calls := [CFin]; ob_tx := healthy_tx c |}.
Proof.
  intros E c S r d t Hh (Hs & Ho & Hz & Hg) [al [Hal Hres]] Hne.
  unfold healthy in Hh. unfold classify in Hal.
  destruct (classify_script c S) as [l|] eqn:Hl; [|discriminate Hh].
  destruct l as [|a l']; [discriminate Hh|]. destruct a as [d0 tx0 t0|]; [|discriminate Hh].
  destruct l'; [|discriminate Hh]. injection Hh as Hh Ht. subst d0 t0.
  assert (Htx : tx0 = healthy_tx c /\ exists body, S = EHeaders HOk :: body).
  { destruct S as [|x S']; [discriminate Hl|]. destruct x as [k| | | | |code]; try discriminate Hl.
    - destruct k; cbn in Hl.
      + destruct (scan_body 0 [] S') as [d1 e1]. destruct e1 as [|k1|c1|]; try discriminate Hl; try (destruct c1; discriminate Hl).
        * injection Hl as H1 H2 H3. split; [symmetry; exact H2 | eexists; reflexivity].
        * destruct k1; try discriminate Hl; try (destruct (c_role c); discriminate Hl).
          injection Hl as H1 H2 H3. split; [symmetry; exact H2 | eexists; reflexivity].
      + destruct (c_role c); discriminate Hl.
      + destruct (c_role c); discriminate Hl.
      + discriminate Hl.
    - cbn in Hl. destruct S' as [|y S'']; [discriminate Hl|]. destruct y as [| | | | |o]; try discriminate Hl. destruct S''; [destruct o|]; discriminate Hl.
    - cbn in Hl. destruct S'; [|discriminate Hl]. destruct (c_role c); discriminate Hl.
    - cbn in Hl. destruct S'; [destruct code|]; discriminate Hl. }
  destruct Htx as [Htx [body HS]]. subst tx0.
  assert (Henv : classify_env c E S = []).
  { unfold classify_env. rewrite Hs, Ho, HS. cbn [app].
    assert (Hzz : match c_trl c with Some z => over z (e_limit E) | None => false end = false).
    { destruct (c_trl c) as [z|]; [apply Hz; reflexivity | reflexivity]. }
    rewrite Hzz.
    destruct (c_role c) eqn:Hro; cbn; [reflexivity|]. rewrite (Hg eq_refl). reflexivity. }
  rewrite Henv in Hal. cbn [app] in Hal. injection Hal as Hal. subst al.
  destruct (res r) as [x|] eqn:Hr; [|contradiction Hne; reflexivity].
  unfold sat in Hres. cbn [existsb] in Hres. rewrite orb_false_r in Hres.
  unfold sat1 in Hres. destruct (observe r) as [out data g cs txs] eqn:Hobs. cbn [ob_out ob_data ob_calls ob_tx ob_trl] in Hres.
  destruct out; try discriminate Hres.
  apply andb_true_iff in Hres. destruct Hres as [Hres H4].
  apply andb_true_iff in Hres. destruct Hres as [Hres H3]. apply andb_true_iff in Hres. destruct Hres as [H1 H2].
  apply bytes_eqb_true in H1. apply witems_eqb_true in H2. apply calls_eqb_true in H3. apply Bool.eqb_prop in H4.
  subst. reflexivity.
Qed.

(* ------------------------------------------------------------------ T2: requests interact only through the cell *)
(* whatever a request task does to the shared state is: nothing, or the first store to the error cell *)

Lemma sh_mono_refl : forall s, sh_mono s s.
Proof. intros s. left; reflexivity. Qed.
Lemma sh_mono_trans : forall a b c, sh_mono a b -> sh_mono b c -> sh_mono a c.
Proof.
  intros a b c [Hab|Hab] [Hbc|Hbc]; subst; try (left; reflexivity); try (right; assumption).
  destruct Hab as (_ & Hb & _). destruct Hbc as (Hb' & _). contradiction.
Qed.

Lemma store_mono : forall c s, sh_mono s (fst (store c s)).
Proof.
  intros c s. unfold store. destruct (cell s) eqn:Hc; cbn; [left; reflexivity|].
  right. cbn. repeat split; try assumption; try reflexivity. discriminate.
Qed.
Lemma ces_mono : forall c s, sh_mono s (fst (conn_error_on_stream c s)).
Proof.
  intros c s. unfold conn_error_on_stream. destruct hcs_stores; [|left; reflexivity].
  pose proof (store_mono c s) as H. destruct (store c s). exact H.
Qed.
Lemma ost_mono : forall c s, sh_mono s (fst (on_stream_terminated c s)).
Proof.
  intros c s. unfold on_stream_terminated. destruct hq_term_stores; [|left; reflexivity].
  match goal with |- context[store ?x s] => pose proof (store_mono x s) as H; destruct (store x s) end. exact H.
Qed.
Lemma osu_mono : forall s, sh_mono s (fst (on_stream_unknown s)).
Proof.
  intros s. unfold on_stream_unknown. destruct hq_unknown_stores; [|left; reflexivity].
  match goal with |- context[store ?x s] => pose proof (store_mono x s) as H; destruct (store x s) end. exact H.
Qed.
Lemma fse_quic_mono : forall c s, sh_mono s (fst (fse_quic c s)).
Proof. intros c s. unfold fse_quic. destruct fse_quic_via_hq; [destruct c; [apply ost_mono | apply osu_mono] | apply ces_mono]. Qed.
Lemma fse_end_mono : forall s, sh_mono s (fst (fse_end s)).
Proof. intros s. unfold fse_end. destruct fse_end_stores; [apply ces_mono | left; reflexivity]. Qed.
Lemma write_err_mono : forall r s, match write_err r s with Some (s', _) => sh_mono s s' | None => True end.
Proof.
  intros r s. unfold write_err. destruct (stopped r) as [c|]; [|exact I].
  pose proof (ost_mono c s) as H. destruct (on_stream_terminated c s). exact H.
Qed.

Ltac mono_cases :=
  repeat match goal with
  | |- context[match conn_error_on_stream ?c ?s with _ => _ end] =>
      let H := fresh "Hm" in pose proof (ces_mono c s) as H; destruct (conn_error_on_stream c s)
  | |- context[match fse_quic ?c ?s with _ => _ end] =>
      let H := fresh "Hm" in pose proof (fse_quic_mono c s) as H; destruct (fse_quic c s)
  | |- context[match fse_end ?s with _ => _ end] =>
      let H := fresh "Hm" in pose proof (fse_end_mono s) as H; destruct (fse_end s)
  | |- context[match write_err ?r ?s with _ => _ end] =>
      let H := fresh "Hm" in pose proof (write_err_mono r s) as H; destruct (write_err r s) as [[? ?]|]
  | |- context[match on_stream_unknown ?s with _ => _ end] =>
      let H := fresh "Hm" in pose proof (osu_mono s) as H; destruct (on_stream_unknown s)
  | |- context[match on_stream_terminated ?c ?s with _ => _ end] =>
      let H := fresh "Hm" in pose proof (ost_mono c s) as H; destruct (on_stream_terminated c s)
  | |- context[match (if ?b then _ else _) with _ => _ end] => destruct b
  | |- context[match ?x with _ => _ end] => destruct x
  end.

Lemma recv_data_loop_mono : forall fuel s f, sh_mono s (snd (fst (recv_data_loop fuel s f))).
Proof.
  induction fuel as [|n IH]; intros s f; cbn [recv_data_loop].
  - destruct (remaining f =? 0); [left; reflexivity|]. mono_cases; cbn in *; try assumption; left; reflexivity.
  - destruct (remaining f =? 0).
    + destruct (poll_next f) as [[| |k|t|c| | |m] f1]; try (left; reflexivity); mono_cases; cbn in *; try assumption.
      apply IH.
    + mono_cases; cbn in *; try assumption; left; reflexivity.
Qed.

Lemma recv_trailers_mono : forall s p kept f, sh_mono s (snd (fst (recv_trailers s p kept f))).
Proof.
  intros s p kept f. unfold recv_trailers, trailers_tail, trailers_decode.
  mono_cases; cbn in *; try assumption; left; reflexivity.
Qed.

Ltac mono_pc s r :=
  match goal with
  | |- context[poll_recv_data s (fs r)] =>
      let H := fresh "H" in
      pose proof (recv_data_loop_mono (Datatypes.S (length (buf (fs r)) + length (rx (fs r)))) s (fs r)) as H;
      unfold poll_recv_data; destruct (recv_data_loop _ s (fs r)) as [[? ?] ?]; cbn in H;
      mono_cases; cbn; exact H
  | |- context[recv_trailers s ?p ?k (fs r)] =>
      let H := fresh "H" in
      pose proof (recv_trailers_mono s p k (fs r)) as H;
      destruct (recv_trailers s p k (fs r)) as [[? ?] ?]; cbn in H;
      mono_cases; cbn; exact H
  | _ => mono_cases; cbn in *; try assumption; left; reflexivity
  end.

Lemma exec_pc_mono : forall s r, sh_mono s (fst (fst (exec_pc s r))).
Proof.
  intros s r. unfold exec_pc.
  destruct (pcr r); try (left; reflexivity); mono_pc s r.
Qed.

Lemma poll_task_mono : forall fuel s r, sh_mono s (fst (poll_task fuel s r)).
Proof.
  induction fuel as [|n IH]; intros s r; cbn [poll_task]; [left; reflexivity|].
  pose proof (exec_pc_mono s r) as H. destruct (exec_pc s r) as [[s1 r1] st]. cbn in H.
  destruct st; [|exact H]. eapply sh_mono_trans; [exact H | apply IH].
Qed.

Lemma req_step_mono : forall a s r, sh_mono s (fst (req_step a s r)).
Proof.
  intros a s r. destruct a; cbn [req_step]; try (left; reflexivity).
  - destruct (pcr r); try (left; reflexivity). destruct (drv s); left; reflexivity.
  - destruct (todo r); left; reflexivity.
  - apply poll_task_mono.
Qed.

Lemma global_step_cell : forall a s, cell (global_step a s) = cell s.
Proof.
  intros a s. assert (Hd : cell (driver_poll s) = cell s).
  { unfold driver_poll. destruct (drv s); [reflexivity|]. destruct (cell s) eqn:Hc; cbn; try rewrite Hc; reflexivity. }
  destruct a; cbn [global_step]; try reflexivity; try exact Hd.
  - destruct (drv (driver_poll s)); [exact Hd|]. destruct (peer_max (driver_poll s)); exact Hd.
  - destruct (drv (driver_poll s)); exact Hd.
Qed.

(* the cell is write-once: if it is empty after a step it was empty before, and the request part of the
   step did not touch the shared state at all *)
Lemma step_cell_none : forall w a, cell (sh (step w a)) = None ->
  cell (sh w) = None /\ sh (step w a) = global_step a (sh w).
Proof.
  intros w a H. unfold step in *.
  destruct (target a) as [i|]; [|cbn in *; rewrite global_step_cell in H; split; [exact H | reflexivity]].
  destruct (nth_error (reqs w) i) as [r|]; [|cbn in *; rewrite global_step_cell in H; split; [exact H | reflexivity]].
  pose proof (req_step_mono a (global_step a (sh w)) r) as Hm.
  destruct (req_step a (global_step a (sh w)) r) as [s2 r']. cbn in *.
  destruct Hm as [Hm|(_ & Hne & _)]; [|contradiction].
  subst s2. rewrite global_step_cell in H. split; [exact H | reflexivity].
Qed.

Lemma run_cell_none : forall sched w, cell (sh (run sched w)) = None -> cell (sh w) = None.
Proof.
  induction sched as [|a sched IH]; intros w H; [exact H|].
  cbn [run fold_left] in H. apply IH in H. apply step_cell_none in H. apply H.
Qed.

Lemma global_step_quiet : forall a s, target a <> None -> cell s = None -> global_step a s = s.
Proof.
  intros a s Ht Hc. destruct a; cbn [global_step target] in *; try reflexivity; try (contradiction Ht; reflexivity).
  unfold driver_poll. destruct (drv s); [reflexivity|]. rewrite Hc. reflexivity.
Qed.

Lemma step_touch : forall w1 w2 a j,
  touches j a = true -> sh w1 = sh w2 -> nth_error (reqs w1) j = nth_error (reqs w2) j ->
  sh (step w1 a) = sh (step w2 a) /\ nth_error (reqs (step w1 a)) j = nth_error (reqs (step w2 a)) j.
Proof.
  intros w1 w2 a j Ht Hs Hr. unfold step, touches in *. rewrite <- Hs.
  destruct (target a) as [i|]; [|cbn; split; [reflexivity | exact Hr]].
  apply Nat.eqb_eq in Ht. subst i. rewrite <- Hr.
  destruct (nth_error (reqs w1) j) as [r|] eqn:Hj; [|cbn; split; [reflexivity | congruence]].
  destruct (req_step a (global_step a (sh w1)) r) as [s2 r']. cbn.
  split; [reflexivity|].
  rewrite (nth_error_set_nth_eq _ _ _ _ _ Hj). symmetry in Hr. rewrite (nth_error_set_nth_eq _ _ _ _ _ Hr). reflexivity.
Qed.

Lemma step_other : forall w a j,
  touches j a = false -> cell (sh (step w a)) = None ->
  sh (step w a) = sh w /\ nth_error (reqs (step w a)) j = nth_error (reqs w) j.
Proof.
  intros w a j Ht Hc. destruct (step_cell_none w a Hc) as [Hc0 Hsh].
  unfold touches in Ht. destruct (target a) as [i|] eqn:Htg; [|discriminate Ht].
  apply Nat.eqb_neq in Ht.
  split.
  - rewrite Hsh. apply global_step_quiet; [rewrite Htg; discriminate | exact Hc0].
  - unfold step. rewrite Htg. destruct (nth_error (reqs w) i) as [r|]; [|reflexivity].
    destruct (req_step a (global_step a (sh w)) r) as [s2 r']. cbn.
    apply nth_error_set_nth_neq. exact Ht.
Qed.

(* T2: as long as nobody stores a connection error, request j cannot tell whether the others exist *)
Theorem noninterference : forall sched w1 w2 j,
  sh w1 = sh w2 -> nth_error (reqs w1) j = nth_error (reqs w2) j ->
  cell (sh (run sched w1)) = None ->
  sh (run sched w1) = sh (run (filter (touches j) sched) w2) /\
  nth_error (reqs (run sched w1)) j = nth_error (reqs (run (filter (touches j) sched) w2)) j.
Proof.
  induction sched as [|a sched IH]; intros w1 w2 j Hs Hr Hc; [split; assumption|].
  cbn [run fold_left filter] in *.
  pose proof (run_cell_none _ _ Hc) as Hc1.
  destruct (touches j a) eqn:Ht.
  - cbn [fold_left]. destruct (step_touch w1 w2 a j Ht Hs Hr) as [Hs' Hr'].
    apply IH; assumption.
  - destruct (step_other w1 a j Ht Hc1) as [Hs' Hr'].
    apply IH; [congruence | congruence | exact Hc].
Qed.

(* T1 + T2 + T3 together: in every interleaving of in-class requests, each request ends exactly as in its
   solo run, and a healthy undisturbed one that completes has shown exactly its own bytes *)
Theorem solo_equal : forall l stops L G sched j,
  in_class l -> Forall (action_ok stops L G) sched ->
  nth_error (reqs (run sched (init_world l))) j =
  nth_error (reqs (run (filter (touches j) sched) (init_world l))) j.
Proof.
  intros l stops L G sched j Hcl Hok.
  destruct (confined l stops L G sched Hcl Hok) as [Hq _].
  apply noninterference; try reflexivity.
  unfold conn_quiet, observe_conn in Hq. cbn in Hq.
  destruct (cell (sh (run sched (init_world l)))); [discriminate Hq | reflexivity].
Qed.

Theorem healthy_unharmed : forall l stops L G sched j c S d t r,
  in_class l -> Forall (action_ok stops L G) sched ->
  nth_error l j = Some (c, S) -> healthy c S = Some (d, t) -> undisturbed (env_of stops L G j) c ->
  nth_error (reqs (run sched (init_world l))) j = Some r -> res r <> None ->
  observe r = {| ob_out := OOk; ob_data := d; ob_trl := t; ob_calls := [CFin]; ob_tx := healthy_tx c |}.
Proof.
  intros l stops L G sched j c S d t r Hcl Hok Hl Hh Hu Hr Hne.
  destruct (confined l stops L G sched Hcl Hok) as (_ & _ & Hreq).
  destruct (Hreq j c S r Hl Hr) as [_ Hrok].
  eapply healthy_exact; eassumption.
Qed.

(* ------------------------------------------------------------------ commutation of task steps *)
(* a task step that leaves the shared state as it found it behaves the same in any shared state that
   agrees on what tasks read (closing, peer settings) and on an already stored error *)
Definition sh_rel (s s2 : shared) : Prop :=
  closing s2 = closing s /\ peer_max s2 = peer_max s /\ (forall c, cell s = Some c -> cell s2 = Some c).

Lemma set_cell_neq : forall c s, cell s = None -> set_cell (Some c) s <> s.
Proof. intros c s Hc Heq. apply (f_equal cell) in Heq. cbn in Heq. congruence. Qed.

Lemma store_indep : forall c s s2 c', store c s = (s, c') -> sh_rel s s2 -> store c s2 = (s2, c').
Proof.
  intros c s s2 c' H (_ & _ & Hc). unfold store in *. destruct (cell s) as [c0|] eqn:Hcs.
  - injection H as H. subst c'. rewrite (Hc c0 eq_refl). reflexivity.
  - injection H as H1 H2. exfalso. eapply set_cell_neq; eassumption.
Qed.
Lemma ces_indep : forall c s s2 e, conn_error_on_stream c s = (s, e) -> sh_rel s s2 -> conn_error_on_stream c s2 = (s2, e).
Proof.
  intros c s s2 e H Hrel. unfold conn_error_on_stream in *. destruct hcs_stores.
  - destruct (store c s) as [s' c'] eqn:Hst. injection H as H1 H2. subst s' e.
    rewrite (store_indep _ _ _ _ Hst Hrel). reflexivity.
  - injection H as H. subst e. reflexivity.
Qed.
Lemma fse_end_indep : forall s s2 e, fse_end s = (s, e) -> sh_rel s s2 -> fse_end s2 = (s2, e).
Proof.
  intros s s2 e H Hrel. unfold fse_end in *. destruct fse_end_stores; [eapply ces_indep; eassumption|].
  injection H as H. subst e. reflexivity.
Qed.

Lemma sh_mono_back : forall s s1, sh_mono s s1 -> sh_mono s1 s -> s1 = s.
Proof.
  intros s s1 [H|(Hc & Hn & _)] [H'|(Hc' & _)]; try congruence.
Qed.

Lemma recv_data_loop_indep : forall fuel s s2 f x f',
  recv_data_loop fuel s f = (x, s, f') -> sh_rel s s2 -> recv_data_loop fuel s2 f = (x, s2, f').
Proof.
  induction fuel as [|n IH]; intros s s2 f x f' H Hrel; cbn [recv_data_loop] in *.
  - destruct (remaining f =? 0); [injection H as H1 H2; subst; reflexivity|].
    destruct (poll_data f) as [[|d| |c| |] f1]; rewrite ?fse_quic_eq in *; try (injection H as H1 H2; subst; reflexivity).
    destruct (fse_end s) as [s' e] eqn:He. injection H as H1 H2 H3. subst.
    rewrite (fse_end_indep _ _ _ He Hrel). reflexivity.
  - destruct (remaining f =? 0).
    + destruct (poll_next f) as [[| |k|t|c| | |m] f1]; rewrite ?fse_quic_eq in *; try (injection H as H1 H2; subst; reflexivity).
      * eapply IH; eassumption.
      * destruct (fse_end s) as [s' e] eqn:He. injection H as H1 H2 H3. subst.
        rewrite (fse_end_indep _ _ _ He Hrel). reflexivity.
    + destruct (poll_data f) as [[|d| |c| |] f1]; rewrite ?fse_quic_eq in *; try (injection H as H1 H2; subst; reflexivity).
      destruct (fse_end s) as [s' e] eqn:He. injection H as H1 H2 H3. subst.
      rewrite (fse_end_indep _ _ _ He Hrel). reflexivity.
Qed.

Lemma write_err_eq : forall r s,
  write_err r s = match stopped r with Some c => Some (s, SRemoteTerminate c) | None => None end.
Proof. intros r s. unfold write_err. destruct (stopped r); reflexivity. Qed.

Ltac indep_split :=
  repeat match goal with
  | H : context[fse_quic ?c ?s] |- _ => rewrite !fse_quic_eq in *
  | H : context[on_stream_terminated ?c ?s] |- _ => rewrite !on_stream_terminated_eq in *
  | H : context[on_stream_unknown ?s] |- _ => rewrite !on_stream_unknown_eq in *
  | H : context[match conn_error_on_stream ?c ?s with _ => _ end] |- _ =>
      let E := fresh "E" in destruct (conn_error_on_stream c s) eqn:E
  | H : context[match fse_end ?s with _ => _ end] |- _ =>
      let E := fresh "E" in destruct (fse_end s) eqn:E
  | H : context[match (if ?b then _ else _) with _ => _ end] |- _ => destruct b
  | H : context[match (match ?y with _ => _ end) with _ => _ end] |- _ => destruct y
  | H : context[match ?x with _ => _ end] |- _ => destruct x
  end.

Ltac indep_close Hrel :=
  match goal with
  | H : (_, _, _) = (_, _, _) |- _ => inversion H; subst; clear H
  end;
  repeat match goal with
  | E : conn_error_on_stream _ _ = (_, _) |- _ => rewrite (ces_indep _ _ _ _ E Hrel); clear E
  | E : fse_end _ = (_, _) |- _ => rewrite (fse_end_indep _ _ _ E Hrel); clear E
  end;
  reflexivity.

Lemma recv_trailers_indep : forall s s2 p kept f x f',
  recv_trailers s p kept f = (x, s, f') -> sh_rel s s2 -> recv_trailers s2 p kept f = (x, s2, f').
Proof.
  intros s s2 p kept f x f' H Hrel.
  unfold recv_trailers, trailers_tail, trailers_decode in *.
  destruct kept as [k|].
  - destruct (trl_waits_for_end && negb (eos f && match buf f with [] => true | _ => false end)).
    + destruct (poll_next f) as [[| |k'|t|c| | |m] f1]; indep_split; indep_close Hrel.
    + indep_split; indep_close Hrel.
  - destruct (poll_next f) as [[| |k'|t|c| | |m] f1]; indep_split; indep_close Hrel.
Qed.

Ltac indep_pc s r H Hrel :=
  match type of H with
  | context[poll_recv_data s (fs r)] =>
      let E := fresh "E" in
      unfold poll_recv_data in *;
      destruct (recv_data_loop _ s (fs r)) as [[?x ?s1] ?f1] eqn:E;
      match type of E with recv_data_loop _ _ _ = (?x, ?s1, ?f1) =>
        assert (s1 = s) by (destruct x; inversion H; reflexivity); subst s1;
        rewrite (recv_data_loop_indep _ _ _ _ _ _ E Hrel);
        destruct x; indep_close Hrel
      end
  | context[recv_trailers s ?p ?k (fs r)] =>
      let E := fresh "E" in
      destruct (recv_trailers s p k (fs r)) as [[?x ?s1] ?f1] eqn:E;
      match type of E with recv_trailers _ _ _ _ = (?x, ?s1, ?f1) =>
        assert (s1 = s) by (destruct x; indep_split; inversion H; reflexivity); subst s1;
        rewrite (recv_trailers_indep _ _ _ _ _ _ _ E Hrel);
        destruct x; indep_split; indep_close Hrel
      end
  | context[poll_next (fs r)] =>
      destruct (poll_next (fs r)) as [[| |?k|?t|?c| | |?m] ?f1]; indep_split; indep_close Hrel
  | _ => indep_split; indep_close Hrel
  end.

Lemma exec_pc_indep : forall s s2 r r' st,
  exec_pc s r = (s, r', st) -> sh_rel s s2 -> exec_pc s2 r = (s2, r', st).
Proof.
  intros s s2 r r' st H Hrel.
  pose proof Hrel as (Hcl & Hpm & Hcell).
  unfold exec_pc in *. rewrite ?write_err_eq, ?fse_quic_eq, ?on_stream_unknown_eq in *. rewrite Hcl, Hpm.
  destruct (pcr r); indep_pc s r H Hrel.
Qed.

Lemma poll_task_indep : forall fuel s s2 r r',
  poll_task fuel s r = (s, r') -> sh_rel s s2 -> poll_task fuel s2 r = (s2, r').
Proof.
  induction fuel as [|n IH]; intros s s2 r r' H Hrel; cbn [poll_task] in *.
  - injection H as H. subst r'. reflexivity.
  - destruct (exec_pc s r) as [[s1 r1] st] eqn:E.
    assert (Hs1 : s1 = s).
    { pose proof (exec_pc_mono s r) as Hm. rewrite E in Hm. cbn in Hm.
      destruct st; [|injection H as H1 H2; exact H1].
      pose proof (poll_task_mono n s1 r1) as Hm2. rewrite H in Hm2. cbn in Hm2.
      apply sh_mono_back; assumption. }
    subst s1. rewrite (exec_pc_indep _ _ _ _ _ E Hrel).
    destruct st; [eapply IH; eassumption|]. injection H as H. subst r1. reflexivity.
Qed.


Lemma req_step_indep : forall a s s2 r r',
  task_action a = true -> req_step a s r = (s, r') -> sh_rel s s2 -> req_step a s2 r = (s2, r').
Proof.
  intros a s s2 r r' Ht H Hrel. destruct a; try discriminate Ht; cbn [req_step] in *.
  - destruct (todo r); injection H as H; subst; reflexivity.
  - injection H as H; subst; reflexivity.
  - eapply poll_task_indep; eassumption.
Qed.

Lemma set_nth_comm : forall A (l : list A) i j x y, i <> j ->
  set_nth j y (set_nth i x l) = set_nth i x (set_nth j y l).
Proof.
  intros A l. induction l as [|h t IH]; intros i j x y Hne; destruct i; destruct j; cbn; try reflexivity; try lia.
  rewrite IH by lia. reflexivity.
Qed.

Lemma global_step_task : forall a s, task_action a = true -> global_step a s = s.
Proof. intros a s H. destruct a; try discriminate H; reflexivity. Qed.

Lemma global_step_rel : forall b s, target b <> None -> sh_rel s (global_step b s).
Proof.
  intros b s Ht.
  assert (Hd : sh_rel s (driver_poll s)).
  { unfold driver_poll. destruct (drv s); [repeat split; auto|].
    destruct (cell s) eqn:Hc; repeat split; cbn; auto. intros c Hx. congruence. }
  destruct b; cbn [global_step target] in *; try (contradiction Ht; reflexivity); try exact Hd; repeat split; auto.
Qed.

Lemma sh_rel_trans : forall a b c, sh_rel a b -> sh_rel b c -> sh_rel a c.
Proof.
  intros a b c (H1 & H2 & H3) (H4 & H5 & H6). repeat split; try congruence. intros x Hx. apply H6, H3, Hx.
Qed.

Lemma sh_mono_rel : forall s s', sh_mono s s' -> sh_rel s s'.
Proof.
  intros s s' [H|(Hc & _ & H2 & H3 & _)]; [subst; repeat split; auto|].
  repeat split; try assumption. intros c Hx. congruence.
Qed.

(* T2 (commutation): a step of task i that does not store to the cell commutes with any step of another request *)
Theorem commute : forall w a b i j,
  task_action a = true -> target a = Some i -> target b = Some j -> i <> j ->
  sh (step w a) = sh w ->
  step (step w a) b = step (step w b) a.
Proof.
  intros w a b i j Hta Hia Hjb Hne Hsh.
  unfold step in *. rewrite Hia, Hjb in *. rewrite (global_step_task a _ Hta) in *.
  destruct (nth_error (reqs w) i) as [ri|] eqn:Hi.
  - destruct (req_step a (sh w) ri) as [sa ri'] eqn:Ea. cbn [sh reqs] in *. subst sa.
    rewrite (nth_error_set_nth_neq _ _ _ _ _ Hne).
    destruct (nth_error (reqs w) j) as [rj|] eqn:Hj.
    + destruct (req_step b (global_step b (sh w)) rj) as [sb rj'] eqn:Eb. cbn [sh reqs].
      rewrite (global_step_task a _ Hta).
      rewrite (nth_error_set_nth_neq _ _ _ _ _ (not_eq_sym Hne)), Hi.
      assert (Hrel : sh_rel (sh w) sb).
      { eapply sh_rel_trans; [apply global_step_rel; rewrite Hjb; discriminate|].
        apply sh_mono_rel. pose proof (req_step_mono b (global_step b (sh w)) rj) as Hm. rewrite Eb in Hm. exact Hm. }
      rewrite (req_step_indep _ _ _ _ _ Hta Ea Hrel). cbn [sh reqs].
      rewrite (set_nth_comm _ _ _ _ _ _ Hne). reflexivity.
    + cbn [sh reqs]. rewrite (global_step_task a _ Hta). rewrite Hi.
      assert (Hrel : sh_rel (sh w) (global_step b (sh w))) by (apply global_step_rel; rewrite Hjb; discriminate).
      rewrite (req_step_indep _ _ _ _ _ Hta Ea Hrel). reflexivity.
  - cbn [sh reqs] in *.
    destruct (nth_error (reqs w) j) as [rj|] eqn:Hj.
    + destruct (req_step b (global_step b (sh w)) rj) as [sb rj'] eqn:Eb. cbn [sh reqs].
      rewrite (global_step_task a _ Hta).
      rewrite (nth_error_set_nth_neq _ _ _ _ _ (not_eq_sym Hne)), Hi. reflexivity.
    + cbn [sh reqs]. rewrite (global_step_task a _ Hta), Hi. reflexivity.
Qed.

(* ------------------------------------------------------------------ progress: a request whose events have all arrived completes *)
Definition stage (p : pc) : nat :=
  match p with
  | SWait => 6 | SResolve | SRecv | SRecvTrl => 5 | SSendResp => 4 | SSendData => 3 | SSendTrl => 2 | SFinish => 1
  | CSendReq => 4 | CSendData => 3 | CSendTrl => 2 | CFinish | CRecvResp | CRecv | CRecvTrl => 1
  | Done => 0
  end%nat.
Definition recv_wait (p : pc) : Prop :=
  p = SResolve \/ p = SRecv \/ p = SRecvTrl \/ p = CRecvResp \/ p = CRecv \/ p = CRecvTrl.

Definition stop_class (r r1 : req) : Prop :=
  pcr r1 = Done \/ (stage (pcr r1) < stage (pcr r))%nat \/ (pcr r1 = pcr r /\ pcr r = SWait) \/
  (pcr r1 = pcr r /\ recv_wait (pcr r) /\ res r1 = None /\ rx (fs r1) = [] /\ eos (fs r1) = false).

Ltac class_split :=
  repeat match goal with
  | |- context[match (if ?b then _ else _) with _ => _ end] => destruct b
  | |- context[match (match ?y with _ => _ end) with _ => _ end] => destruct y
  | |- context[match ?x with _ => _ end] => destruct x
  end.

Lemma recv_trailers_pending : forall s p kept f o s' f',
  recv_trailers s p kept f = (TrPending o, s', f') -> rx f' = [] /\ eos f' = false.
Proof.
  intros s p kept f o s' f' H. unfold recv_trailers, trailers_tail, trailers_decode in H.
  destruct kept as [k|].
  - destruct (trl_waits_for_end && negb (eos f && match buf f with [] => true | _ => false end)).
    + destruct (poll_next f) as [[| |k'|t|c| | |m] f1] eqn:Hp;
        try (inversion H; subst; eapply poll_next_pending; exact Hp);
        repeat match type of H with context[match ?x with _ => _ end] => destruct x end; discriminate H.
    + repeat match type of H with context[match ?x with _ => _ end] => destruct x end; discriminate H.
  - destruct (poll_next f) as [[| |k'|t|c| | |m] f1] eqn:Hp;
      try (inversion H; subst; eapply poll_next_pending; exact Hp);
      try (repeat match type of H with context[match ?x with _ => _ end] => destruct x end; discriminate H).
    destruct (trl_waits_for_end && negb (eos f1 && match buf f1 with [] => true | _ => false end)).
    + destruct (poll_next f1) as [[| |k2|t|c| | |m] f2] eqn:Hp2;
        try (inversion H; subst; eapply poll_next_pending; exact Hp2);
        repeat match type of H with context[match ?x with _ => _ end] => destruct x end; discriminate H.
    + repeat match type of H with context[match ?x with _ => _ end] => destruct x end; discriminate H.
Qed.

Ltac cls_finish :=
  cbn; (split; [reflexivity|]);
  first [ left; reflexivity | right; left; cbn; lia | (repeat split; try (cbn; lia); discriminate) ].

Lemma exec_pc_classify : forall s r,
  let '(s', r1, st) := exec_pc s r in
  todo r1 = todo r /\
  match st with
  | Stop => stop_class r r1
  | Continue => (stage (pcr r1) <= stage (pcr r))%nat /\ pcr r <> Done /\ pcr r <> SWait
  end.
Proof.
  intros s r. unfold exec_pc, stop_class, recv_wait.
  destruct (pcr r) eqn:Hpc.
  - (* SWait *) cbn. split; [reflexivity|]. right; right; left. split; [exact Hpc | reflexivity].
  - (* SResolve *)
    destruct (poll_next (fs r)) as [[| |k|t|c| | |m] f1] eqn:Hp.
    + cbn. split; [reflexivity|]. right; right; right.
      destruct (poll_next_pending _ _ Hp) as [H1 H2]. repeat split; auto.
    + class_split; cls_finish.
    + destruct k; class_split; cls_finish.
    + class_split; cls_finish.
    + class_split; cls_finish.
    + class_split; cls_finish.
    + cls_finish.
    + cls_finish.
  - (* SRecv *)
    unfold poll_recv_data. destruct (recv_data_loop _ s (fs r)) as [[x s1] f1] eqn:Hp.
    destruct x; try cls_finish.
    cbn. split; [reflexivity|]. right; right; right.
    destruct (recv_data_loop_pending _ _ _ _ _ Hp) as [H1 H2]. repeat split; auto.
  - (* SRecvTrl *)
    destruct (recv_trailers s SRecvTrl (trl r) (fs r)) as [[x s1] f1] eqn:Hp.
    destruct x; try cls_finish.
    cbn. split; [reflexivity|]. right; right; right.
    destruct (recv_trailers_pending _ _ _ _ _ _ _ Hp) as [H1 H2]. repeat split; auto.
  - class_split; cls_finish.
  - class_split; cls_finish.
  - class_split; cls_finish.
  - class_split; cls_finish.
  - class_split; cls_finish.
  - class_split; cls_finish.
  - class_split; cls_finish.
  - class_split; cls_finish.
  - (* CRecvResp *)
    destruct (poll_next (fs r)) as [[| |k|t|c| | |m] f1] eqn:Hp.
    + cbn. split; [reflexivity|]. right; right; right.
      destruct (poll_next_pending _ _ Hp) as [H1 H2]. repeat split; auto 6.
    + class_split; cls_finish.
    + destruct k; class_split; cls_finish.
    + class_split; cls_finish.
    + class_split; cls_finish.
    + class_split; cls_finish.
    + cls_finish.
    + cls_finish.
  - (* CRecv *)
    unfold poll_recv_data. destruct (recv_data_loop _ s (fs r)) as [[x s1] f1] eqn:Hp.
    destruct x; try cls_finish.
    cbn. split; [reflexivity|]. right; right; right.
    destruct (recv_data_loop_pending _ _ _ _ _ Hp) as [H1 H2]. repeat split; auto 7.
  - (* CRecvTrl *)
    destruct (recv_trailers s CRecvTrl (trl r) (fs r)) as [[x s1] f1] eqn:Hp.
    destruct x; try cls_finish.
    cbn. split; [reflexivity|]. right; right; right.
    destruct (recv_trailers_pending _ _ _ _ _ _ _ Hp) as [H1 H2]. repeat split; auto 8.
  - (* Done *) cbn. split; [reflexivity|]. left. exact Hpc.
Qed.

Lemma pending_impossible : forall E S r,
  phase E S r -> todo r = [] -> res r = None -> recv_wait (pcr r) ->
  rx (fs r) = [] -> eos (fs r) = false -> False.
Proof.
  intros E S r Hph Htodo Hres Hw Hrx Heos.
  destruct Hph as [_ Hacc Hpre Hsent Hnt Hstream|body D e d' HS Hbody Hge _ Hpc Hsent Hnt Hok Hb Hacc
                  |body D e HS Hbody Hge _ Hpc Hsent Hgot Hok Hrem Hst Hacc
                  |body D e HS Hbody Hend _ Hro Hpc Hsent Hacc|al x Hres' Hpc Hcl Hsat].
  - destruct Hstream as [(Hg & Hfs & Hpend)|(k & rest & HS & Hk & Hbuf & Hr & He & Hrx')].
    + unfold pend in Hpend. rewrite Hrx, Htodo, !app_nil_r in Hpend.
      destruct Hfs as (_ & _ & [Hb|Hb]); rewrite Hb in Hpend; subst S; inversion Hg.
    + destruct Hrx' as [[_ Ht]|[q Hq]]; [rewrite Htodo in Ht; subst S; discriminate Ht | rewrite Hrx in Hq; discriminate Hq].
  - unfold pend in Hb. rewrite Hrx, Htodo, !app_nil_r in Hb.
    eapply body_ok_not_chunks; [exact Hb | apply Hok].
  - destruct Hst as [(_ & _ & He' & _)|(k & _ & Htail)]; [congruence|].
    unfold pend in Htail. rewrite Hrx, Htodo, !app_nil_r in Htail.
    eapply tail_ok_not_chunks; [exact Htail | apply Hok].
  - destruct Hpc as [H|[H|[H|H]]]; destruct Hw as [H'|[H'|[H'|[H'|[H'|H']]]]]; congruence.
  - congruence.
Qed.

Lemma poll_task_progress : forall fuel E S s r,
  env_ok E s -> stop_ok E r -> phase E S r -> todo r = [] -> pcr r <> SWait ->
  let r' := snd (poll_task fuel s r) in
  pcr r' = Done \/ (stage (pcr r') < stage (pcr r))%nat.
Proof.
  induction fuel as [|n IH]; intros E S s r Henv Hso Hph Htodo Hsw; cbn [poll_task]; [left; reflexivity|].
  pose proof (exec_pc_inv E S s r Henv Hso Hph) as Hstep.
  pose proof (exec_pc_classify s r) as Hcls.
  destruct (exec_pc s r) as [[s1 r1] st]. unfold step_post in Hstep.
  destruct Hstep as (Hs & Hcfg & Hstop & Htodo1 & Hph1 & _). subst s1.
  destruct Hcls as [_ Hcls].
  destruct st.
  - destruct Hcls as (Hle & Hnd & _).
    assert (Hso1 : stop_ok E r1) by (unfold stop_ok; rewrite Hstop; exact Hso).
    assert (Hsw1 : pcr r1 <> SWait).
    { intros Heq. rewrite Heq in Hle. cbn in Hle. destruct (pcr r); cbn in Hle; try lia. contradiction Hsw; reflexivity. }
    pose proof (IH E S s r1 Henv Hso1 Hph1 ltac:(congruence) Hsw1) as Hrec. cbn zeta in Hrec.
    destruct Hrec as [Hd|Hlt]; [left; exact Hd | right; lia].
  - cbn [snd]. destruct Hcls as [Hd|[Hlt|[[_ Hsw']|(Hsame & Hw & Hres & Hrx & Heos)]]].
    + left; exact Hd.
    + right; exact Hlt.
    + contradiction.
    + exfalso. rewrite <- Hsame in Hw.
      eapply (pending_impossible E S r1); try eassumption. congruence.
Qed.

(* the part of a run that concerns one request, seen from that request *)
Definition req_run (acts : list action) (s : shared) (r : req) : req :=
  fold_left (fun r a => snd (req_step a s r)) acts r.

Definition local_action (j : nat) (a : action) : Prop :=
  a = Open j \/ a = Deliver j \/ a = Poll j.

Lemma local_run : forall l stops L G j c S acts w r,
  Forall (local_action j) acts -> winv l stops L G w ->
  nth_error l j = Some (c, S) -> nth_error (reqs w) j = Some r ->
  winv l stops L G (run acts w) /\ sh (run acts w) = sh w /\
  nth_error (reqs (run acts w)) j = Some (req_run acts (sh w) r).
Proof.
  intros l stops L G j c S acts. induction acts as [|a acts IH]; intros w r Hloc Hw Hl Hr.
  - cbn. auto.
  - inversion Hloc as [|? ? Ha Hrest]; subst.
    assert (Hok : action_ok stops L G a) by (destruct Ha as [H|[H|H]]; subst a; exact I).
    assert (Htg : target a = Some j) by (destruct Ha as [H|[H|H]]; subst a; reflexivity).
    pose proof (step_inv l stops L G w a Hok Hw) as Hw'.
    destruct Hw as (Hc & Hd & Hcl & Hpm & Hclo & Hlen & Hreqs).
    assert (Hg : global_step a (sh w) = sh w).
    { apply global_step_quiet; [rewrite Htg; discriminate | exact Hc]. }
    destruct (Hreqs j c S r Hl Hr) as (Hcfg & Hso & Hph).
    assert (Henv : env_ok (env_of stops L G j) (sh w)) by (split; cbn; assumption).
    assert (Hact : forall i0 c0, a = PeerStop i0 c0 -> e_stop (env_of stops L G j) = Some c0).
    { intros i0 c0 Heq. destruct Ha as [H|[H|H]]; subst a; discriminate Heq. }
    pose proof (req_step_inv a _ S _ r Henv Hso Hph Hact) as Hrs.
    assert (Hstep : sh (step w a) = sh w /\ nth_error (reqs (step w a)) j = Some (snd (req_step a (sh w) r))).
    { unfold step. rewrite Htg, Hr, Hg. destruct (req_step a (sh w) r) as [s2 r'].
      destruct Hrs as (Hs2 & _). subst s2. cbn. split; [reflexivity|].
      eapply nth_error_set_nth_eq. exact Hr. }
    destruct Hstep as [Hsh Hnth].
    change (run (a :: acts) w) with (run acts (step w a)).
    destruct (IH (step w a) _ Hrest Hw' Hl Hnth) as (H1 & H2 & H3).
    split; [exact H1|]. split; [congruence|]. rewrite H3, Hsh. reflexivity.
Qed.


Lemma req_run_cons : forall a acts s r, req_run (a :: acts) s r = req_run acts s (snd (req_step a s r)).
Proof. reflexivity. Qed.

Lemma deliver_n : forall j n s r,
  todo (req_run (repeat (Deliver j) n) s r) = skipn n (todo r) /\
  pcr (req_run (repeat (Deliver j) n) s r) = pcr r.
Proof.
  intros j. induction n as [|n IH]; intros s r; [split; reflexivity|].
  cbn [repeat]. rewrite req_run_cons. cbn [req_step]. destruct (todo r) as [|e t] eqn:Ht.
  - cbn [snd]. destruct (IH s r) as [H1 H2]. rewrite H1, H2, Ht. destruct n; split; reflexivity.
  - cbn [snd]. destruct (IH s (with_fs r (push_rx e (fs r)) t)) as [H1 H2]. rewrite H1, H2. cbn. split; reflexivity.
Qed.

Lemma poll_task_todo : forall fuel s r, todo (snd (poll_task fuel s r)) = todo r.
Proof.
  induction fuel as [|n IH]; intros s r; cbn [poll_task]; [reflexivity|].
  pose proof (exec_pc_classify s r) as H. destruct (exec_pc s r) as [[s1 r1] st]. destruct H as [Ht _].
  destruct st; [rewrite IH; exact Ht | exact Ht].
Qed.

Lemma req_step_todo_suffix : forall a s r, exists pre, todo r = pre ++ todo (snd (req_step a s r)).
Proof.
  intros a s r. destruct a; cbn [req_step]; try (exists []; reflexivity).
  - destruct (pcr r); try (exists []; reflexivity). destruct (drv s); exists []; reflexivity.
  - destruct (todo r) as [|e t] eqn:Ht; cbn [snd]; [exists []; rewrite Ht; reflexivity | exists [e]; reflexivity].
  - exists []. rewrite poll_task_todo. reflexivity.
Qed.

Definition suffix_inv (l : list (rcfg * list ev)) (w : world) : Prop :=
  forall j c S r, nth_error l j = Some (c, S) -> nth_error (reqs w) j = Some r -> exists pre, S = pre ++ todo r.

Lemma run_suffix : forall l sched w, suffix_inv l w -> suffix_inv l (run sched w).
Proof.
  intros l sched. induction sched as [|a sched IH]; intros w Hw; [exact Hw|].
  change (run (a :: sched) w) with (run sched (step w a)). apply IH.
  intros j c S r Hl Hr. unfold step in Hr.
  destruct (target a) as [i|]; [|eapply Hw; eassumption].
  destruct (nth_error (reqs w) i) as [ri|] eqn:Hi; [|eapply Hw; eassumption].
  pose proof (req_step_todo_suffix a (global_step a (sh w)) ri) as Hsuf.
  destruct (req_step a (global_step a (sh w)) ri) as [s2 ri']. cbn [reqs snd] in *.
  destruct (Nat.eq_dec i j) as [Heq|Hne].
  - subst i. rewrite (nth_error_set_nth_eq _ _ _ _ _ Hi) in Hr. injection Hr as Hr. subst ri'.
    destruct (Hw j c S ri Hl Hi) as [pre Hpre]. destruct Hsuf as [pre2 Hpre2].
    exists (pre ++ pre2). rewrite Hpre, Hpre2, app_assoc. reflexivity.
  - rewrite (nth_error_set_nth_neq _ _ _ _ _ Hne) in Hr. eapply Hw; eassumption.
Qed.

Lemma suffix_init : forall l, suffix_inv l (init_world l).
Proof.
  intros l j c S r Hl Hr. unfold init_world in Hr. cbn [reqs] in Hr.
  rewrite (map_nth_error (fun p => init_req (fst p) (snd p)) _ _ Hl) in Hr. injection Hr as Hr. subst r.
  exists []. reflexivity.
Qed.

Lemma stage_zero : forall p, stage p = 0%nat -> p = Done.
Proof. intros p H. destruct p; cbn in H; try discriminate H; reflexivity. Qed.

Lemma polls_complete : forall j k E S s r,
  env_ok E s -> stop_ok E r -> phase E S r -> todo r = [] -> pcr r <> SWait ->
  (stage (pcr r) <= k)%nat ->
  pcr (req_run (repeat (Poll j) k) s r) = Done.
Proof.
  intros j. induction k as [|k IH]; intros E S s r Henv Hso Hph Htodo Hsw Hk.
  - cbn. apply stage_zero. lia.
  - cbn [repeat]. rewrite req_run_cons. cbn [req_step].
    pose proof (poll_task_progress (task_fuel r) E S s r Henv Hso Hph Htodo Hsw) as Hprog. cbn zeta in Hprog.
    pose proof (poll_task_inv (task_fuel r) E S s r Henv Hso Hph) as Hinv.
    assert (Hpot : (pot r < task_fuel r)%nat) by (unfold pot, task_fuel, msr; destruct (pcr r); cbn; lia).
    specialize (Hinv Hpot).
    pose proof (poll_task_todo (task_fuel r) s r) as Htd.
    destruct (poll_task (task_fuel r) s r) as [s' r']. cbn [snd] in *.
    destruct Hinv as (_ & _ & Hstop & _ & Hph').
    assert (Hso' : stop_ok E r') by (unfold stop_ok; rewrite Hstop; exact Hso).
    assert (Hst : (stage (pcr r') <= k)%nat).
    { destruct Hprog as [Hd|Hlt]; [rewrite Hd; cbn; lia | lia]. }
    apply (IH E S s r' Henv Hso' Hph'); try assumption; try congruence.
    intros Heq. rewrite Heq in Hst. cbn in Hst.
    destruct Hprog as [Hd|Hlt]; [congruence|]. rewrite Heq in Hlt. cbn in Hlt.
    destruct (pcr r); cbn in Hlt; lia.
Qed.

Lemma done_has_result : forall E S r, phase E S r -> pcr r = Done -> res r <> None.
Proof.
  intros E S r Hph Hd.
  destruct Hph as [_ _ Hpre _ _ _|body D e d' _ _ _ _ Hpc _ _ _ _ _|body D e _ _ _ _ Hpc _ _ _ _ _ _
                  |body D e _ _ _ _ _ Hpc _ _|al x Hres _ _ _].
  - rewrite Hd in Hpre. destruct (c_role (cfg r)); contradiction.
  - rewrite Hd in Hpc. destruct (c_role (cfg r)); discriminate Hpc.
  - rewrite Hd in Hpc. destruct (c_role (cfg r)); discriminate Hpc.
  - rewrite Hd in Hpc. destruct Hpc as [H|[H|[H|H]]]; discriminate H.
  - rewrite Hres. discriminate.
Qed.

Lemma req_run_app : forall a b s r, req_run (a ++ b) s r = req_run b s (req_run a s r).
Proof. intros a b s r. unfold req_run. apply fold_left_app. Qed.
Lemma run_app : forall a b w, run (a ++ b) w = run b (run a w).
Proof. intros a b w. unfold run. apply fold_left_app. Qed.

(* every in-class request completes once the peer's events have all arrived and its task is polled *)
Theorem completes : forall l stops L G sched j c S,
  in_class l -> Forall (action_ok stops L G) sched -> nth_error l j = Some (c, S) ->
  exists r, nth_error (reqs (run (sched ++ completion j (length S)) (init_world l))) j = Some r /\ res r <> None.
Proof.
  intros l stops L G sched j c S Hcl Hok Hl.
  pose proof (run_inv l stops L G sched _ Hok (winv_init l stops L G Hcl)) as Hw1.
  pose proof (run_suffix l sched _ (suffix_init l)) as Hsuf.
  set (w1 := run sched (init_world l)) in *.
  assert (Hr1 : exists r1, nth_error (reqs w1) j = Some r1).
  { destruct Hw1 as (_ & _ & _ & _ & _ & Hlen & _).
    destruct (nth_error (reqs w1) j) eqn:He; [eexists; reflexivity|].
    apply nth_error_None in He. assert (j < length l)%nat by (apply nth_error_Some; rewrite Hl; discriminate). lia. }
  destruct Hr1 as [r1 Hr1].
  rewrite run_app. fold w1.
  assert (Hloc : Forall (local_action j) (completion j (length S))).
  { unfold completion. constructor; [left; reflexivity|]. apply Forall_app. split; apply Forall_forall; intros x Hx;
      apply repeat_spec in Hx; subst x; [right; left; reflexivity | right; right; reflexivity]. }
  destruct (local_run l stops L G j c S _ w1 r1 Hloc Hw1 Hl Hr1) as (Hw4 & Hsh4 & Hn4).
  eexists. split; [exact Hn4|].
  (* follow the request through Open, the deliveries and the polls *)
  set (s := sh w1) in *.
  unfold completion. change (Open j :: ?x) with ([Open j] ++ x). rewrite !req_run_app.
  set (r2 := req_run [Open j] s r1).
  set (r3 := req_run (repeat (Deliver j) (length S)) s r2).
  (* invariants along the way, from the world invariant of the corresponding prefixes *)
  assert (Hloc2 : Forall (local_action j) [Open j]) by (constructor; [left; reflexivity | constructor]).
  destruct (local_run l stops L G j c S _ w1 r1 Hloc2 Hw1 Hl Hr1) as (Hw2 & Hsh2 & Hn2). fold s r2 in Hn2.
  assert (Hloc3 : Forall (local_action j) (repeat (Deliver j) (length S))).
  { apply Forall_forall; intros x Hx; apply repeat_spec in Hx; subst x; right; left; reflexivity. }
  destruct (local_run l stops L G j c S _ _ r2 Hloc3 Hw2 Hl Hn2) as (Hw3 & Hsh3 & Hn3).
  rewrite Hsh2 in Hn3. fold s r3 in Hn3.
  destruct Hw3 as (Hc3 & Hd3 & Hcl3 & Hpm3 & Hclo3 & Hlen3 & Hreqs3).
  destruct (Hreqs3 j c S r3 Hl Hn3) as (Hcfg3 & Hso3 & Hph3).
  rewrite Hsh3, Hsh2 in Hpm3, Hclo3. fold s in Hpm3, Hclo3.
  assert (Henv : env_ok (env_of stops L G j) s) by (split; cbn; assumption).
  (* after Open the task exists *)
  assert (Hsw2 : pcr r2 <> SWait).
  { unfold r2, req_run. cbn [fold_left req_step]. destruct Hw1 as (_ & Hd1 & _). fold s in Hd1.
    destruct (pcr r1) eqn:Hp; rewrite ?Hd1; cbn; rewrite ?Hp; discriminate. }
  destruct (deliver_n j (length S) s r2) as [Htodo3 Hpc3]. fold r3 in Htodo3, Hpc3.
  assert (Htodo : todo r3 = []).
  { rewrite Htodo3. apply skipn_all2.
    assert (Ht2 : todo r2 = todo r1).
    { unfold r2, req_run. cbn [fold_left req_step]. destruct (pcr r1); try reflexivity. destruct (drv s); reflexivity. }
    rewrite Ht2. destruct (Hsuf j c S r1 Hl Hr1) as [pre Hpre]. rewrite Hpre, app_length. lia. }
  eapply done_has_result.
  - destruct Hw4 as (_ & _ & _ & _ & _ & _ & Hreqs4).
    destruct (Hreqs4 j c S _ Hl Hn4) as (_ & _ & Hph4).
    unfold completion in Hph4. change (Open j :: ?x) with ([Open j] ++ x) in Hph4. rewrite !req_run_app in Hph4.
    exact Hph4.
  - apply (polls_complete j 5 (env_of stops L G j) S s r3 Henv Hso3 Hph3 Htodo); [congruence|].
    destruct (pcr r3) eqn:Hp3; cbn; try lia. exfalso. apply Hsw2. congruence.
Qed.
