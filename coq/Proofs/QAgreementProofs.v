(* T4: agreement of the connected pair.  System invariant (the decoder follows the encoder; every emitted section
   denotes its field list against the insertion history) and the decoding theorem. *)
From H3V Require Import Base.Bytes Base.BytesLemmas Gen.GenQpack Gen.GenStatic Model.Vas Model.DynTable Model.QInstr Model.QEncoder
  Model.QDecoder Model.QSystem Proofs.VasProofs Proofs.QPrefixProofs Proofs.AMapLemmas Proofs.DynTableProofs Proofs.QEncoderProofs
  Proofs.QSystemProofs Proofs.QSimulationProofs Proofs.QDenotationProofs.
From Coq Require Import ZifyBool ZifyN ZifyNat.
Ltac Zify.zify_post_hook ::= Z.div_mod_to_equations.

Definition no_su (i : einstr) : Prop := match i with ISizeUpdate _ => False | _ => True end.

(* Encoder::encode emits insertions and duplications only *)
Lemma encode_field_no_su e f e' em : encode_field e f = Ok (e', em) -> match fe_instr em with Some i => no_su i | None => True end.
Proof.
  unfold encode_field. destruct (static_find f); [intros H; inversion H; exact I|].
  destruct (te_find e f) as [e1 l].
  destruct l; try (intros H; inversion H; exact I);
    destruct (te_insert e1 f) as [[e2 r]| |]; try discriminate; intros H; inversion H; subst;
    destruct r as [pb ab|rel pb ab|pb rel ab|pb si ab|[si|ix ab|ix ab|]]; exact I.
Qed.

Lemma encode_fields_no_su fs : forall e required reps ins e' required' reps' ins',
  Forall no_su ins -> encode_fields e fs required reps ins = (e', Ok (required', reps', ins')) -> Forall no_su ins'.
Proof.
  induction fs as [|f r IH]; intros e required reps ins e' required' reps' ins' Hf; cbn [encode_fields].
  - intros H; inversion H; subst; assumption.
  - destruct (encode_field e f) as [[e1 em]| |] eqn:Ef; try discriminate.
    pose proof (encode_field_no_su _ _ _ _ Ef) as K. apply IH.
    destruct (fe_instr em); [apply Forall_app; split; [assumption | constructor; [assumption | constructor]] | assumption].
Qed.

Lemma enc_encode_no_su t sid fs t' e : enc_encode t sid fs = (t', Ok e) -> Forall no_su (en_instrs e).
Proof.
  unfold enc_encode. destruct (dt_encoder t sid) as [e0| |]; try discriminate.
  destruct (encode_fields e0 fs 0 [] []) as [e1 [[[required reps] ins]| |]] eqn:Ef; try discriminate.
  destruct (hp_new required (te_base e1) (dt_total_inserted (te_t e1)) (dt_max (te_t e1))); try discriminate.
  intros H; inversion H; subst. cbn [en_instrs]. eapply encode_fields_no_su; [|eassumption]. constructor.
Qed.

(* the decoder's capacity only moves with a Set Dynamic Table Capacity instruction *)
Lemma dt_put_max d f d' : dt_ok d -> dt_put d f = Ok d' -> dt_max d' = dt_max d.
Proof.
  intros Hok. unfold dt_put.
  destruct (dt_insert_spec d f Hok) as [(t1 & n & Ei & _ & _ & _ & _ & _ & G2 & _) | [Ei | [Ei _]]]; rewrite Ei; [| |discriminate].
  - destruct (static_find_name (fst f)); intros H; inversion H; subst; cbn [with_maps dt_max pushed with_store]; assumption.
  - intros H; inversion H; subst; reflexivity.
Qed.

Lemma dec_step_max d i d' : dt_ok d -> no_su i -> dec_step d i = Ok d' -> dt_max d' = dt_max d.
Proof.
  intros Hok Hn. unfold dec_step. destruct (dec_resolve d i) as [[f|n]| |] eqn:Er; try discriminate.
  - destruct (dt_put d f) as [d1| |] eqn:Ep; try discriminate. intros H; inversion H; subst. eapply dt_put_max; eassumption.
  - destruct i; cbn [dec_resolve] in Er; try contradiction;
      repeat match type of Er with context [match ?x with _ => _ end] => destruct x end; discriminate.
Qed.

Lemma dec_apply_max q : forall d d', dt_ok d -> dt_track d = [] -> Forall no_su q -> dec_apply d q = (d', Ok tt) -> dt_max d' = dt_max d.
Proof.
  induction q as [|i r IH]; intros d d' Hok Hu Hf; [cbn [dec_apply]; intros H; inversion H; reflexivity|].
  inversion Hf as [|? ? Hi Hr]; subst. rewrite dec_apply_cons. destruct (dec_step d i) as [d1| |] eqn:Es; try discriminate.
  intros H. pose proof (dec_apply_ok [i] d Hok Hu) as K. rewrite dec_apply_cons, Es in K. cbn [dec_apply fst] in K. destruct K as [K1 K2].
  rewrite (IH d1 d' K1 K2 Hr H). eapply dec_step_max; eassumption.
Qed.

Definition follows (d : dt) (q : list einstr) (tE : dt) : Prop :=
  exists d', dec_apply d q = (d', Ok tt) /\ dt_ok d' /\ dt_track d' = [] /\ store_eq tE d'.

Definition sec_ok (H : list field) (cap : N) (sec : section) (rs : refs) : Prop :=
  sec_den H cap (sec_required sec) (sec_block sec) (sec_fields sec) rs.

Record sys_inv (cap : N) (H : list field) (G : list refs) (s : sys) : Prop := mk_sys_inv {
  si_enc : dt_ok (s_enc s);
  si_dec : dt_ok (s_dec s);
  si_untracked : dt_track (s_dec s) = [];
  si_hist : hist_ok H (s_enc s);
  si_cap : dt_max (s_enc s) = cap;
  si_follows : follows (s_dec s) (s_eq s) (s_enc s);
  si_nosu : Forall no_su (s_eq s);
  si_secs : Forall2 (sec_ok H cap) (s_secs s) G
}.

Lemma dec_apply_split a : forall d b d', dec_apply d (a ++ b) = (d', Ok tt) ->
  exists d1, dec_apply d a = (d1, Ok tt) /\ dec_apply d1 b = (d', Ok tt).
Proof.
  intros d b d' H. rewrite dec_apply_app in H. destruct (dec_apply d a) as [d1 [[]| |]]; try discriminate.
  exists d1. auto.
Qed.

Lemma sys_init_inv cap blocked s : sys_init cap blocked = Some s -> sys_inv cap [] [] s.
Proof.
  intros Hi. destruct (sys_init_ok _ _ _ Hi) as ((He & Hd & Hu) & Hm1 & Hm2).
  unfold sys_init in Hi. destruct (dt_set_max_size dt_new cap) as [t| |] eqn:E; try discriminate.
  unfold dt_set_max_blocked in Hi. destruct (cmp_eval q_set_max_blocked_cmp blocked q_blocked_streams_max); [discriminate|].
  inversion Hi; subst s. cbn [s_enc s_dec s_eq s_secs] in *.
  assert (Hv : dt_vas t = vas0 /\ dt_fields t = []).
  { unfold dt_set_max_size in E. destruct (cmp_eval q_set_max_size_cmp cap q_cap_max); [discriminate|].
    cbn [dt_new dt_max] in E. destruct (0 <=? cap) eqn:E0; [|lia]. inversion E; subst. split; reflexivity. }
  destruct Hv as [Hv Hf].
  constructor; cbn [s_enc s_dec s_eq s_secs]; try assumption.
  - unfold hist_ok; cbn [with_bmax dt_vas dt_fields]. rewrite Hv, Hf. split; reflexivity.
  - exists (with_bmax t blocked). cbn [dec_apply]. split; [reflexivity|]. split; [assumption|]. split; [assumption | apply store_eq_refl].
  - constructor.
  - constructor.
Qed.

(* acknowledgements leave the store alone *)
Lemma dt_untrack_block_store t sid t' : dt_untrack_block t sid = Ok t' -> same_store t t'.
Proof.
  unfold dt_untrack_block. destruct (aget N.eqb sid (dt_blocks t)) as [q|]; [|discriminate].
  destruct q as [|b [|b2 rest]].
  - intros H; inversion H; repeat split.
  - destruct (dt_track_cancel b _); try discriminate. intros H; inversion H; repeat split.
  - destruct (dt_track_cancel b _); try discriminate. intros H; inversion H; repeat split.
Qed.

Lemma dt_update_largest_received_store t n t' : dt_update_largest_received t n = Ok t' -> same_store t t'.
Proof.
  unfold dt_update_largest_received. destruct (dt_bcount t =? 0); [intros H; inversion H; repeat split|].
  match goal with |- context [if ?c then _ else _] => destruct c end; [discriminate|]. intros H; inversion H; repeat split.
Qed.

Lemma enc_on_decoder_recv_store is : forall t, same_store t (fst (enc_on_decoder_recv t is)).
Proof.
  induction is as [|i r IH]; intros t; cbn [enc_on_decoder_recv]; [apply same_store_refl|].
  destruct i as [sid|sid|n].
  - destruct (dt_untrack_block t sid) as [t1| |] eqn:E; cbn [fst]; try apply same_store_refl.
    eapply same_store_trans; [eapply dt_untrack_block_store; eassumption | apply IH].
  - destruct (dt_untrack_block t sid) as [t1| |] eqn:E; cbn [fst]; try apply same_store_refl; [|apply IH].
    pose proof (dt_untrack_block_store _ _ _ E) as S1.
    destruct (dt_untrack_block t1 sid) as [t2| |] eqn:E2; cbn [fst]; try assumption.
    + eapply same_store_trans; [eassumption|]. eapply same_store_trans; [eapply dt_untrack_block_store; eassumption | apply IH].
    + eapply same_store_trans; [eassumption | apply IH].
  - destruct (q_increment_limit <? n); cbn [fst]; [apply same_store_refl|].
    destruct (dt_update_largest_received t n) as [t1| |] eqn:E; cbn [fst]; try apply same_store_refl.
    eapply same_store_trans; [eapply dt_update_largest_received_store; eassumption | apply IH].
Qed.

Lemma store_eq_of_same t t' d : same_store t t' -> store_eq t d -> store_eq t' d.
Proof. apply same_store_eq. Qed.

(* marking sections done does not change what they denote *)
Lemma mark_done_secs H cap G l : forall j, Forall2 (sec_ok H cap) l G -> Forall2 (sec_ok H cap) (mark_done l j) G.
Proof.
  intros j F. revert j. induction F as [|x rs l G Hx F IH]; intros j; cbn [mark_done]; [constructor|].
  destruct (j =? 0); constructor; auto.
Qed.

Lemma cancel_stream_secs H cap G l sid : Forall2 (sec_ok H cap) l G -> Forall2 (sec_ok H cap) (cancel_stream l sid) G.
Proof.
  intros F. induction F as [|x rs l G Hx F IH]; cbn [cancel_stream map]; [constructor|].
  constructor; [|assumption]. destruct (sec_sid x =? sid); assumption.
Qed.

(* one step keeps the invariant (with a longer history and one more ghost entry after an encode) *)
Lemma sys_step_inv cap H G s o :
  sys_inv cap H G s -> is_resize o = false ->
  exists H' G', sys_inv cap H' G' (fst (sys_step s o)) /\ (exists x, H' = H ++ x).
Proof.
  intros I Hr. pose proof I as I0. destruct I as [He Hd Hu Hh Hc (d' & Ea & Hd' & Hu' & Hs') Hnosu Hsecs].
  destruct o as [sid fs|k|j honest|k|sid|n]; cbn [sys_step]; [| | | | |discriminate].
  - (* encode *)
    destruct (enc_encode_spec (s_enc s) sid fs H d' He Hh Hd' Hu' Hs') as
      (t' & e & H' & d'' & Ee & (x & Hx) & Hok' & Hh' & Hm' & Ea' & Hd'' & Hu'' & Hs'' & (rs & Hden & _)).
    rewrite Ee. cbn [fst]. exists H', (G ++ [rs]). split; [|exists x; assumption].
    constructor; cbn [s_enc s_dec s_eq s_secs]; try assumption.
    + congruence.
    + exists d''. rewrite dec_apply_app, Ea. auto.
    + apply Forall_app. split; [assumption | eapply enc_encode_no_su; eassumption].
    + apply Forall2_app.
      * subst H'. eapply Forall2_impl; [|eassumption]. intros sec r0 Hs0. apply sec_den_app. assumption.
      * constructor; [|constructor]. unfold sec_ok; cbn [sec_required sec_block sec_fields]. rewrite <- Hc. assumption.
  - (* deliver *)
    exists H, G. split; [|exists []; rewrite app_nil_r; reflexivity].
    rewrite <- (firstn_skipn (N.to_nat k) (s_eq s)) in Ea. apply dec_apply_split in Ea. destruct Ea as (d1 & E1 & E2).
    destruct (dec_apply_ok (firstn (N.to_nat k) (s_eq s)) (s_dec s) Hd Hu) as [Hd1 Hu1]. rewrite E1 in Hd1, Hu1. cbn [fst] in Hd1, Hu1.
    assert (K : forall res, sys_inv cap H G (mkSys (s_enc s) d1 (skipn (N.to_nat k) (s_eq s)) res (s_secs s))).
    { intros res. constructor; cbn [s_enc s_dec s_eq s_secs]; try assumption; [exists d'; auto|].
      rewrite <- (firstn_skipn (N.to_nat k) (s_eq s)) in Hnosu. apply Forall_app in Hnosu. tauto. }
    unfold dec_on_encoder_recv. rewrite E1.
    destruct (dt_total_inserted d1 =? dt_total_inserted (s_dec s)); cbn [fst]; [apply K|].
    destruct (dt_total_inserted d1 <? dt_total_inserted (s_dec s)); cbn [fst]; [apply K|].
    destruct (255 <? dt_total_inserted d1 - dt_total_inserted (s_dec s)); cbn [fst]; apply K.
  - (* decode *)
    exists H, G. split; [|exists []; rewrite app_nil_r; reflexivity].
    destruct (nth_opt (s_secs s) j) as [sec|]; cbn [fst]; [|assumption].
    destruct (honest && sec_done sec); cbn [fst]; [assumption|].
    destruct (honest && earlier_pending (s_secs s) j (sec_sid sec)); cbn [fst]; [assumption|].
    destruct (dec_decode_header (s_dec s) (sec_block sec)) as [[fs dr]| |]; cbn [fst]; try assumption.
    destruct honest; cbn [fst]; [|assumption].
    constructor; cbn [s_enc s_dec s_eq s_secs]; try assumption; [exists d'; auto | apply mark_done_secs; assumption].
  - (* feedback *)
    exists H, G. split; [|exists []; rewrite app_nil_r; reflexivity].
    pose proof (enc_on_decoder_recv_ok (firstn (N.to_nat k) (s_dq s)) (s_enc s) He) as Hok'.
    pose proof (enc_on_decoder_recv_store (firstn (N.to_nat k) (s_dq s)) (s_enc s)) as St.
    destruct (enc_on_decoder_recv (s_enc s) (firstn (N.to_nat k) (s_dq s))) as [t [u| |]]; cbn [fst] in *;
      (constructor; cbn [s_enc s_dec s_eq s_secs]; try assumption;
       [eapply hist_same_store; eassumption | destruct St as (_ & B & _); congruence |
        exists d'; repeat (split; [assumption|]); eapply same_store_eq; eassumption]).
  - (* cancel *)
    exists H, G. split; [|exists []; rewrite app_nil_r; reflexivity]. cbn [fst].
    constructor; cbn [s_enc s_dec s_eq s_secs]; try assumption; [exists d'; auto | apply cancel_stream_secs; assumption].
Qed.

Theorem sys_run_inv cap os : forall H G s,
  sys_inv cap H G s -> existsb is_resize os = false ->
  exists H' G', sys_inv cap H' G' (fst (sys_run s os)).
Proof.
  induction os as [|o r IH]; intros H G s I Hnr; [exists H, G; assumption|].
  cbn [existsb] in Hnr. apply orb_false_iff in Hnr. destruct Hnr as [H1 H2].
  rewrite sys_run_fst. destruct (sys_step_inv cap H G s o I H1) as (H' & G' & I' & _). eapply IH; eassumption.
Qed.

(* ---------------------------------------------------------------- the decoder's table is a past state of the encoder's *)
Definition ext (d d' : dt) : Prop :=
  v_inserted (dt_vas d) <= v_inserted (dt_vas d') /\ v_dropped (dt_vas d) <= v_dropped (dt_vas d') /\
  forall a, v_dropped (dt_vas d') < a -> a <= v_inserted (dt_vas d) -> field_at d' a = field_at d a.

Lemma ext_refl d : ext d d. Proof. repeat split; try lia. Qed.
Lemma ext_trans a b c : ext a b -> ext b c -> ext a c.
Proof.
  intros (A1 & A2 & A3) (B1 & B2 & B3). repeat split; try lia. intros x H1 H2. rewrite B3 by lia. apply A3; lia.
Qed.

Lemma nth_opt_app_lt {A} (l r : list A) n : n < N.of_nat (length l) -> nth_opt (l ++ r) n = nth_opt l n.
Proof.
  intros H. destruct (nth_opt_lt_some l n H) as [x Hx]. rewrite Hx. apply nth_opt_app_l. assumption.
Qed.

Lemma dt_put_ext d f d' : dt_ok d -> dt_put d f = Ok d' -> ext d d'.
Proof.
  intros Hok. unfold dt_put.
  destruct (dt_insert_spec d f Hok) as [(t1 & n & Ei & _ & _ & Hok1 & _ & G1 & _ & _ & _ & _ & _ & _ & _ & G9 & G10 & _) | [Ei | [Ei _]]];
    rewrite Ei; [| |discriminate].
  2:{ intros H; inversion H; subst. apply ext_refl. }
  assert (K : ext d (pushed t1 f)).
  { unfold ext, pushed, vas_add; cbn [with_store dt_vas v_inserted v_dropped]. repeat split; try lia.
    intros a H1 H2. unfold field_at, vas_pos; cbn [with_store dt_vas dt_fields v_dropped].
    pose proof (ok_vas t1 Hok1) as Hv. pose proof (ok_delta t1 Hok1) as Hdl. unfold vas_inv in Hv.
    rewrite nth_opt_app_lt by lia. change (nth_opt (dt_fields t1) (a - v_dropped (dt_vas t1) - 1)) with (field_at t1 a).
    apply (field_at_skip d t1 n); assumption. }
  destruct (static_find_name (fst f)); intros H; inversion H; subst; exact K.
Qed.

Lemma dec_step_ext d i d' : dt_ok d -> no_su i -> dec_step d i = Ok d' -> ext d d'.
Proof.
  intros Hok Hn. unfold dec_step. destruct (dec_resolve d i) as [[f|n]| |] eqn:Er; try discriminate.
  - destruct (dt_put d f) as [d1| |] eqn:Ep; try discriminate. intros H; inversion H; subst. eapply dt_put_ext; eassumption.
  - destruct i; cbn [dec_resolve] in Er; try contradiction;
      repeat match type of Er with context [match ?x with _ => _ end] => destruct x end; discriminate.
Qed.

Lemma dec_apply_ext q : forall d d', dt_ok d -> dt_track d = [] -> Forall no_su q -> dec_apply d q = (d', Ok tt) -> ext d d'.
Proof.
  induction q as [|i r IH]; intros d d' Hok Hu Hf; [cbn [dec_apply]; intros H; inversion H; apply ext_refl|].
  inversion Hf as [|? ? Hi Hr]; subst. rewrite dec_apply_cons. destruct (dec_step d i) as [d1| |] eqn:Es; try discriminate.
  intros H. pose proof (dec_apply_ok [i] d Hok Hu) as K. rewrite dec_apply_cons, Es in K. cbn [dec_apply fst] in K. destruct K as [K1 K2].
  eapply ext_trans; [eapply dec_step_ext; eassumption | eapply IH; eassumption].
Qed.

(* what the decoder holds below its insert count is what the encoder holds *)
Lemma past_of_follows d q tE :
  dt_ok d -> dt_ok tE -> dt_track d = [] -> Forall no_su q -> follows d q tE ->
  dt_max d = dt_max tE /\ v_inserted (dt_vas d) <= v_inserted (dt_vas tE) /\ v_dropped (dt_vas d) <= v_dropped (dt_vas tE) /\
  forall a, v_dropped (dt_vas tE) < a -> a <= v_inserted (dt_vas d) -> vas_live (dt_vas d) a /\ field_at d a = field_at tE a.
Proof.
  intros Hd He Hu Hf (d' & Ea & Hd' & Hu' & Hs).
  pose proof (dec_apply_ext q d d' Hd Hu Hf Ea) as (X1 & X2 & X3).
  pose proof (dec_apply_max q d d' Hd Hu Hf Ea) as Hm.
  pose proof (fun a => store_eq_field_at tE d' a He Hd' Hs) as Hfa. destruct Hs as (A & B & C & D).
  split; [congruence|]. split; [lia|]. split; [lia|]. intros a H1 H2.
  split; [unfold vas_live; lia|]. rewrite Hfa. symmetry. apply X3; lia.
Qed.

(* ---------------------------------------------------------------- decoding a section *)
Lemma delta_le_entries t : dt_ok t -> v_delta (dt_vas t) <= max_entries (dt_max t).
Proof.
  intros Hok. pose proof (ok_cap t Hok). pose proof (ok_curr t Hok) as Hc. pose proof (sum_sizes_ge (dt_fields t)).
  pose proof (ok_delta t Hok). unfold max_entries. lia.
Qed.

Lemma dec_field_den d tE H base rep f required :
  dt_ok d -> dt_ok tE -> hist_ok H tE ->
  (forall a, v_dropped (dt_vas tE) < a -> a <= v_inserted (dt_vas d) -> vas_live (dt_vas d) a /\ field_at d a = field_at tE a) ->
  rep_den H base rep f ->
  (forall a, rep_idx base rep = Some a -> 1 <= a /\ a <= required /\ vas_live (dt_vas tE) a) ->
  required <= v_inserted (dt_vas d) -> v_inserted (dt_vas tE) < usize_lim ->
  dec_field d base rep = Ok f.
Proof.
  intros Hd He Hh Hpast Hden Hidx Hreq Hlim.
  assert (Hget : forall a, 1 <= a -> a <= required -> vas_live (dt_vas tE) a ->
                 vas_live (dt_vas d) a /\ nth_opt (dt_fields d) (vas_pos (dt_vas d) a) = nth_opt H (a - 1)).
  { intros a H1 H2 Hl. destruct (Hpast a) as [L F]; [apply Hl | lia|]. split; [assumption|].
    change (nth_opt (dt_fields d) (vas_pos (dt_vas d) a)) with (field_at d a). rewrite F. apply hist_field_at; [assumption | apply Hl]. }
  pose proof (ok_vas d Hd) as Hv.
  destruct rep as [i|i|i|i v|i v|i v|n v]; cbn [dec_field rep_den rep_idx] in *.
  - rewrite Hden. reflexivity.
  - destruct Hden as [Hi Hn]. destruct (Hidx _ eq_refl) as (A & B & C). destruct (Hget _ A B C) as [L F].
    unfold dt_get_relative_base. replace i with (base - (base - i)) at 1 by lia.
    rewrite (vas_relative_base_live _ base (base - i) Hv L) by lia. rewrite F.
    replace (base - i - 1) with (base - i - 1) by lia. rewrite Hn. reflexivity.
  - destruct (Hidx _ eq_refl) as (A & B & C). destruct (Hget _ A B C) as [L F].
    unfold dt_get_postbase. replace i with (base + i + 1 - base - 1) at 1 by lia.
    rewrite (vas_post_base_live _ base (base + i + 1) Hv L) by (unfold vas_live in C; lia). rewrite F.
    replace (base + i + 1 - 1) with (base + i) by lia. rewrite Hden. reflexivity.
  - destruct Hden as (g & Hg & ->). rewrite Hg. reflexivity.
  - destruct Hden as [Hi (g & Hn & ->)]. destruct (Hidx _ eq_refl) as (A & B & C). destruct (Hget _ A B C) as [L F].
    unfold dt_get_relative_base. replace i with (base - (base - i)) at 1 by lia.
    rewrite (vas_relative_base_live _ base (base - i) Hv L) by lia. rewrite F, Hn. reflexivity.
  - destruct Hden as (g & Hn & ->). destruct (Hidx _ eq_refl) as (A & B & C). destruct (Hget _ A B C) as [L F].
    unfold dt_get_postbase. replace i with (base + i + 1 - base - 1) at 1 by lia.
    rewrite (vas_post_base_live _ base (base + i + 1) Hv L) by (unfold vas_live in C; lia). rewrite F.
    replace (base + i + 1 - 1) with (base + i) by lia. rewrite Hn. reflexivity.
  - subst f. reflexivity.
Qed.

Lemma dec_fields_den d tE H base required : forall reps fs,
  dt_ok d -> dt_ok tE -> hist_ok H tE ->
  (forall a, v_dropped (dt_vas tE) < a -> a <= v_inserted (dt_vas d) -> vas_live (dt_vas d) a /\ field_at d a = field_at tE a) ->
  Forall2 (rep_den H base) reps fs ->
  (forall rep a, In rep reps -> rep_idx base rep = Some a -> 1 <= a /\ a <= required /\ vas_live (dt_vas tE) a) ->
  required <= v_inserted (dt_vas d) -> v_inserted (dt_vas tE) < usize_lim ->
  dec_fields d base reps = Ok fs.
Proof.
  intros reps fs Hd He Hh Hpast F2. induction F2 as [|rep f reps fs Hden F2 IH]; intros Hidx Hreq Hlim; cbn [dec_fields]; [reflexivity|].
  rewrite (dec_field_den d tE H base rep f required Hd He Hh Hpast Hden); try assumption.
  - rewrite IH; [reflexivity | | assumption | assumption]. intros r a Hin. apply Hidx. right. assumption.
  - intros a. apply Hidx. left. reflexivity.
Qed.

Lemma Forall2_impl_in {A B} (P Q : A -> B -> Prop) l1 l2 :
  (forall x y, In x l1 -> P x y -> Q x y) -> Forall2 P l1 l2 -> Forall2 Q l1 l2.
Proof.
  intros Hi H. induction H as [|x y l1 l2 Hxy H IH]; constructor.
  - apply Hi; [left; reflexivity | assumption].
  - apply IH. intros a b Hin. apply Hi. right. assumption.
Qed.

(* the absolute indices a section refers to, read off its wire form: the Base is recovered from the prefix *)
Definition sec_indices (cap : N) (sec : section) : list N :=
  match hp_get (fst (sec_block sec)) (sec_required sec) cap with
  | Ok (_, base) =>
      flat_map (fun rep => match rep_idx base rep with Some a => [a] | None => [] end) (snd (sec_block sec)) ++
      (if 0 <? sec_required sec then [sec_required sec] else [])
  | _ => []
  end.

Lemma sec_indices_spec cap sec base total :
  hp_new (sec_required sec) base total cap = Ok (fst (sec_block sec)) -> sec_required sec <= total -> total < 2 ^ 62 -> cap < 2 ^ 62 ->
  base <= total -> (0 < sec_required sec -> 32 <= cap) -> 0 < sec_required sec ->
  (forall rep a, In rep (snd (sec_block sec)) -> rep_idx base rep = Some a -> In a (sec_indices cap sec)) /\
  In (sec_required sec) (sec_indices cap sec).
Proof.
  intros Hnew Hrt Hlim Hcl Hbt Hcap Hpos. set (r := sec_required sec) in *.
  assert (P1 : 32 <= cap) by (apply Hcap; lia).
  assert (Q0 : 0 < max_entries cap) by (unfold max_entries; lia).
  assert (P4 : r + 4 * max_entries cap + r < usize_lim) by (unfold usize_lim, max_entries in *; lia).
  assert (P5 : base < usize_lim) by (unfold usize_lim; lia).
  destruct (hp_roundtrip r base total r cap P1 Hpos Hrt ltac:(lia) ltac:(lia) P4 P5) as (p & Hp1 & Hp2 & _).
  assert (Hp : fst (sec_block sec) = p) by congruence.
  unfold sec_indices. fold r. rewrite Hp, Hp2. split.
  - intros rep a Hin Hr. apply in_or_app. left. apply in_flat_map. exists rep. split; [assumption|]. rewrite Hr. left. reflexivity.
  - apply in_or_app. right. destruct (0 <? r) eqn:E; [left; reflexivity | lia].
Qed.

(* the decoding theorem: a section whose referenced entries are still in the encoder's table *)
Theorem decode_agrees cap H G s j sec :
  sys_inv cap H G s ->
  nth_error (s_secs s) j = Some sec ->
  (forall a, In a (sec_indices cap sec) -> vas_live (dt_vas (s_enc s)) a) ->
  v_dropped (dt_vas (s_enc s)) <= v_inserted (dt_vas (s_dec s)) ->
  v_inserted (dt_vas (s_enc s)) < 2 ^ 62 -> cap < 2 ^ 62 ->
  dec_decode_header (s_dec s) (sec_block sec) =
    if v_inserted (dt_vas (s_dec s)) <? sec_required sec then Err (DEMissingRefs (sec_required sec))
    else Ok (sec_fields sec, 0 <? sec_required sec).
Proof.
  intros I Hsec HTI HOI Hlim Hcaplim.
  destruct I as [He Hd Hu Hh Hc Hfol Hnosu Hsecs].
  destruct (past_of_follows _ _ _ Hd He Hu Hnosu Hfol) as (Hmax & Hins & Hdrop & Hpast).
  assert (Hso : exists rs, sec_ok H cap sec rs).
  { clear - Hsecs Hsec. revert j Hsec. induction Hsecs as [|x r l G0 Hx F IH]; intros [|j] H1; cbn [nth_error] in *; try discriminate.
    - inversion H1; subst. exists r. assumption.
    - eapply IH; eassumption. }
  destruct Hso as (rs & base & total & Hnew & Hrt & Htot & Hbt & Hcap32 & F2 & Hidx & Hreq).
  set (r := sec_required sec) in *.
  destruct Hh as [Hlen Hflds]. assert (Hh : hist_ok H (s_enc s)) by (split; assumption).
  assert (HdE : v_delta (dt_vas (s_enc s)) <= max_entries cap) by (rewrite <- Hc; apply delta_le_entries; assumption).
  assert (HdD : v_delta (dt_vas (s_dec s)) <= max_entries cap) by (rewrite <- Hc, <- Hmax; apply delta_le_entries; assumption).
  pose proof (ok_vas _ He) as HvE. pose proof (ok_vas _ Hd) as HvD. unfold vas_inv in HvE, HvD.
  unfold dec_decode_header, dt_total_inserted, vas_total_inserted, dt_max_mem_size. rewrite Hmax, Hc.
  destruct (N.eq_dec r 0) as [Hr0 | Hrpos].
  - (* no dynamic references *)
    rewrite Hr0 in *. pose proof (hp_roundtrip_zero base total (v_inserted (dt_vas (s_dec s))) cap) as [Z1 Z2].
    assert (Hp : fst (sec_block sec) = hp_zero) by congruence. rewrite Hp, Z2.
    destruct (v_inserted (dt_vas (s_dec s)) <? 0) eqn:E; [lia|].
    rewrite (dec_fields_den (s_dec s) (s_enc s) H 0 0 (snd (sec_block sec)) (sec_fields sec)); try assumption; [reflexivity | | | lia | unfold usize_lim; lia].
    + (* the representations do not depend on the base when nothing dynamic is referenced *)
      eapply Forall2_impl_in; [|exact F2]. intros rep f Hin Hden.
      destruct rep; cbn [rep_den] in *; try assumption; exfalso;
        match goal with |- _ => let K := fresh in pose proof (Hidx _ _ Hin eq_refl) as K; cbn [rep_idx] in K; lia end.
    + intros rep a Hin Hr. exfalso. destruct rep; cbn [rep_idx] in Hr; try discriminate;
        match goal with |- _ => let K := fresh in pose proof (Hidx _ _ Hin eq_refl) as K; cbn [rep_idx] in K; lia end.
  - destruct (sec_indices_spec cap sec base total Hnew Hrt ltac:(lia) Hcaplim Hbt Hcap32 ltac:(fold r; lia)) as [Hin1 Hin2].
    assert (Hrl : vas_live (dt_vas (s_enc s)) r) by (apply HTI; assumption).
    unfold vas_live in Hrl.
    assert (P1 : 32 <= cap) by (apply Hcap32; lia).
    assert (P2 : v_inserted (dt_vas (s_dec s)) < r + max_entries cap) by lia.
    assert (P3 : r <= v_inserted (dt_vas (s_dec s)) + max_entries cap).
    { destruct (N.le_gt_cases r (v_inserted (dt_vas (s_dec s)))); lia. }
    assert (P4 : r + 4 * max_entries cap + v_inserted (dt_vas (s_dec s)) < usize_lim) by (unfold usize_lim, max_entries in *; lia).
    assert (P5 : base < usize_lim) by (unfold usize_lim; lia).
    destruct (hp_roundtrip r base total (v_inserted (dt_vas (s_dec s))) cap P1 ltac:(lia) Hrt P2 P3 P4 P5) as (p & Hp1 & Hp2 & _).
    assert (Hp : fst (sec_block sec) = p) by congruence. rewrite Hp, Hp2.
    destruct (v_inserted (dt_vas (s_dec s)) <? r) eqn:E; [reflexivity|].
    rewrite (dec_fields_den (s_dec s) (s_enc s) H base r (snd (sec_block sec)) (sec_fields sec)); try assumption.
    + destruct (0 <? r) eqn:E0; [reflexivity | lia].
    + intros rep a Hin Hr. destruct (Hidx rep a Hin Hr) as (A & B & C). repeat split; try assumption; apply HTI; eapply Hin1; eassumption.
    + lia.
    + unfold usize_lim; lia.
Qed.

(* ---------------------------------------------------------------- the statements pinned in Properties/C20.v *)
Lemma sys_init_cap cap blocked s : sys_init cap blocked = Some s -> cap <= q_cap_max.
Proof.
  unfold sys_init, dt_set_max_size. rewrite cmp_setsize. destruct (q_cap_max <? cap) eqn:E; [discriminate | lia].
Qed.

Theorem sys_follows :
  forall cap blocked s os s', sys_init cap blocked = Some s -> existsb is_resize os = false -> fst (sys_run s os) = s' ->
    exists d', dec_apply (s_dec s') (s_eq s') = (d', Ok tt) /\
               dt_fields d' = dt_fields (s_enc s') /\ dt_curr d' = dt_curr (s_enc s') /\ dt_max d' = dt_max (s_enc s') /\
               dt_vas d' = dt_vas (s_enc s').
Proof.
  intros cap blocked s os s' Hi Hnr <-.
  destruct (sys_run_inv cap os [] [] s (sys_init_inv _ _ _ Hi) Hnr) as (H' & G' & I).
  destruct (si_follows _ _ _ _ I) as (d' & Ea & Hd' & _ & Hs).
  destruct (store_eq_vas _ _ (si_enc _ _ _ _ I) Hd' Hs) as [V C]. destruct Hs as (A & B & _).
  exists d'. repeat split; congruence.
Qed.

Theorem sys_encode_total :
  forall cap blocked s os s' sid fs, sys_init cap blocked = Some s -> existsb is_resize os = false -> fst (sys_run s os) = s' ->
    exists t' e, enc_encode (s_enc s') sid fs = (t', Ok e).
Proof.
  intros cap blocked s os s' sid fs Hi Hnr <-.
  destruct (sys_run_inv cap os [] [] s (sys_init_inv _ _ _ Hi) Hnr) as (H' & G' & I).
  destruct (si_follows _ _ _ _ I) as (d' & Ea & Hd' & Hu' & Hs).
  destruct (enc_encode_spec _ sid fs H' d' (si_enc _ _ _ _ I) (si_hist _ _ _ _ I) Hd' Hu' Hs) as (t' & e & _ & _ & Ee & _).
  exists t', e. assumption.
Qed.

Theorem sys_agreement_partial :
  forall cap blocked s os s' j sec,
    sys_init cap blocked = Some s -> existsb is_resize os = false -> fst (sys_run s os) = s' ->
    nth_error (s_secs s') j = Some sec ->
    (forall a, In a (sec_indices cap sec) -> vas_live (dt_vas (s_enc s')) a) ->
    v_dropped (dt_vas (s_enc s')) <= v_inserted (dt_vas (s_dec s')) ->
    v_inserted (dt_vas (s_enc s')) < 2 ^ 62 ->
    dec_decode_header (s_dec s') (sec_block sec) =
      if v_inserted (dt_vas (s_dec s')) <? sec_required sec then Err (DEMissingRefs (sec_required sec))
      else Ok (sec_fields sec, 0 <? sec_required sec).
Proof.
  intros cap blocked s os s' j sec Hi Hnr <- Hsec HTI HOI Hlim.
  destruct (sys_run_inv cap os [] [] s (sys_init_inv _ _ _ Hi) Hnr) as (H' & G' & I).
  eapply decode_agrees; try eassumption. pose proof (sys_init_cap _ _ _ Hi). unfold q_cap_max in *. lia.
Qed.
