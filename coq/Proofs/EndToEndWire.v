(* C01: the write side over the C14 model: whatever the acceptance script, the bytes the transport has taken
   when every stream::write completed are the RFC 9114 7.1 layouts of the frames, back to back.
   Uses the three Buf laws of WriteBuf and the constructor theorems of C14. *)
From H3V Require Import Base.Bytes Base.BytesLemmas Spec.RFC9000 Spec.RFC9114Wire Model.Varint Model.FrameEnc Model.WriteBuf
  Proofs.DatagramProofs Proofs.WriteBufProofs Proofs.FrameEncProofs Model.EndToEnd Model.EndToEndLayers.
From Coq Require Import ZifyBool ZifyNat ZifyN.
Ltac Zify.zify_post_hook ::= Z.div_mod_to_equations.

(* RFC 9114 7.1 / 7.2.8 layout of the frames of a request stream *)
Definition rfc_frame_bytes (f : sframe) : bytes :=
  match f with
  | SHeaders b => rfc_frame T_HEADERS b
  | SData p => rfc_frame T_DATA p
  | SGrease g => rfc_frame (31 * g + 33) [103; 114; 101; 97; 115; 101]
  end.

Lemma c14_drain_exact ks : forall w out rest,
  wb_inv w -> c14_drain ks w = Ok (out, rest) -> out = wb_view w.
Proof.
  induction ks as [|k ks IH]; intros w out rest Hinv H.
  - cbn [c14_drain] in H. rewrite (wb_remaining_law w Hinv) in H.
    destruct (len (wb_view w)) eqn:E; [|discriminate]. inversion H; subst.
    destruct (wb_view w); [reflexivity|]. unfold len in E. cbn in E. lia.
  - cbn [c14_drain] in H. rewrite (wb_remaining_law w Hinv) in H.
    destruct (len (wb_view w)) eqn:E.
    + inversion H; subst. destruct (wb_view w); [reflexivity|]. unfold len in E. cbn in E. lia.
    + destruct (wb_chunk_law w Hinv) as (c & r & Hc & Hv & _). rewrite Hc in H.
      assert (Hle : N.min k (len c) <= len (wb_view w)).
      { rewrite Hv, len_app. lia. }
      destruct (wb_advance_law (N.min k (len c)) w Hinv Hle) as (w' & Ha & Hv' & Hinv'). rewrite Ha in H.
      destruct (c14_drain ks w') as [[o rs]|e|s] eqn:D; try discriminate. inversion H; subst out rest.
      rewrite (IH w' o rs Hinv' D), Hv'. rewrite Hv at 2.
      assert (Hn : (N.to_nat (N.min k (len c)) <= length c)%nat) by (unfold len; lia).
      rewrite Hv. rewrite skipn_app. replace (N.to_nat (N.min k (len c)) - length c)%nat with O by lia.
      cbn [skipn]. rewrite app_assoc, firstn_skipn. reflexivity.
Qed.

Definition payload_ok (b : bytes) : Prop := len b < 2 ^ 62.
Definition sframe_ok (f : sframe) : Prop :=
  match f with SHeaders b => payload_ok b | SData p => payload_ok p | SGrease g => g < 148764065110560899 end.

Lemma concat_bytes_chunks' p : concat (bytes_chunks p) = p.
Proof. destruct p; [reflexivity|]. cbn. now rewrite app_nil_r. Qed.

Lemma nonempty_bytes_chunks p : nonempty_chunks (bytes_chunks p).
Proof. destruct p; cbn; repeat constructor. discriminate. Qed.

Lemma c14_from_frame_view f : sframe_ok f ->
  exists w, wb_from_frame (c14_frame f) = Ok w /\ wb_inv w /\ wb_view w = rfc_frame_bytes f.
Proof.
  intros Hok.
  assert (Hargs : frame_args_ok (c14_frame f)).
  { destruct f; cbn [c14_frame frame_args_ok sframe_ok] in *; try exact Hok. rewrite concat_bytes_chunks'. exact Hok. }
  assert (Hch : frame_chunks_ok (Some (c14_frame f))).
  { destruct f; cbn [c14_frame frame_chunks_ok]; try exact I. apply nonempty_bytes_chunks. }
  assert (Hfit : len (frame_header_bytes (c14_frame f)) <= 64).
  { pose proof (frame_header_small (c14_frame f) Hargs) as Hs. destruct f; cbn [c14_frame] in *; lia. }
  destruct (wb_from_frame_ok (c14_frame f) Hargs Hch Hfit) as (w & E & Hi & Hv).
  exists w. split; [exact E|]. split; [exact Hi|]. rewrite Hv.
  destruct f; cbn [c14_frame frame_header_bytes frame_payload_bytes rfc_frame_bytes].
  - unfold rfc_frame. rewrite <- app_assoc. reflexivity.
  - rewrite concat_bytes_chunks'. unfold rfc_frame. rewrite <- app_assoc. reflexivity.
  - rewrite app_nil_r. unfold grease_id. reflexivity.
Qed.

Theorem c14_write_exact fs : forall ks b,
  Forall sframe_ok fs -> c14_wire_write fs ks = Some b -> b = concat (map rfc_frame_bytes fs).
Proof.
  unfold c14_wire_write. induction fs as [|f fs IH]; intros ks b Hok H.
  - cbn in H. inversion H. reflexivity.
  - inversion Hok as [|? ? Hf Hfs]; subst. cbn [c14_write_frames] in H.
    destruct (c14_from_frame_view f Hf) as (w & E & Hi & Hv). rewrite E in H.
    destruct (c14_drain ks w) as [[out ks']|e|s] eqn:D; try discriminate.
    destruct (c14_write_frames fs ks') as [rest|e|s] eqn:R; try discriminate.
    cbn [ok_opt] in H. inversion H; subst b.
    rewrite (c14_drain_exact ks w out ks' Hi D), Hv. cbn [map concat]. f_equal.
    apply (IH ks'); [exact Hfs|]. rewrite R. reflexivity.
Qed.
