(* C07 - faults confined to one request never harm the connection or other requests.

   World: one shared connection state (error cell, closing flag, peer settings; plus the driver's view:
   close calls, returned error) and n request tasks, each with its own stream state, its peer script
   and its observations.  `run sched w` executes ANY list of actions (deliveries, STOP_SENDING, task
   polls, driver polls, SETTINGS / GOAWAY arrival) - i.e. any interleaving.  `in_class l` says every
   request's peer script is a healthy message or a healthy prefix hit by one stream-scoped fault
   (Spec.StreamScoped.classify_script); `action_ok` only ties the STOP_SENDING codes / SETTINGS limit /
   GOAWAY that occur in the schedule to the environment the specification table is evaluated in. *)
From H3V Require Import Base.Bytes Gen.GenCodes Gen.GenStreamFaults Spec.StreamScoped Model.StreamFaults
  Proofs.StreamFaultsLemmas Proofs.StreamFaultsProofs.

(* T1 + T3.  For any number of requests and every interleaving: the connection stays quiet (error cell empty,
   close never called, the driver returns no error), and every request meets the specification table:
   once finished it shows one of the allowed stream-level outcomes (RemoteTerminate with the peer's code
   for RESET at any offset / STOP_SENDING, Undefined for a transport-specific failure of the receive half at any
   offset, H3_MESSAGE_ERROR with reset+stop_sending, HeaderTooBig with the
   431 answer / the cancel, H3_REQUEST_INCOMPLETE with the reset; for a malformed TRAILER section
   H3_MESSAGE_ERROR with stop_sending(H3_MESSAGE_ERROR), for an oversized one HeaderTooBig, both only once the
   stream has ended behind the trailers), while running it has delivered a prefix of its own data. *)
Theorem C07_confined :
  forall (l : list (rcfg * list ev)) (stops : nat -> option N) (L : option N) (G : bool) (sched : list action),
    in_class l -> Forall (action_ok stops L G) sched ->
    let w := run sched (init_world l) in
    conn_quiet (observe_conn (sh w)) = true /\
    length (reqs w) = length l /\
    forall i c S r, nth_error l i = Some (c, S) -> nth_error (reqs w) i = Some r ->
      cfg r = c /\ request_ok (env_of stops L G i) c S r.
Proof. exact confined. Qed.

(* T2, general form (no assumption on the scripts): along any schedule that ends with the error cell still
   empty, the complete final state of request j (bytes delivered in order, result, frames written, transport
   calls) and the shared state equal those of the run from which all actions of the other requests are erased. *)
Theorem C07_noninterference :
  forall (sched : list action) (w1 w2 : world) (j : nat),
    sh w1 = sh w2 -> nth_error (reqs w1) j = nth_error (reqs w2) j ->
    cell (sh (run sched w1)) = None ->
    sh (run sched w1) = sh (run (filter (touches j) sched) w2) /\
    nth_error (reqs (run sched w1)) j = nth_error (reqs (run (filter (touches j) sched) w2)) j.
Proof. exact noninterference. Qed.

(* the step-level facts T2 rests on: a request's step leaves the shared state alone or is the first store
   to the cell; steps of other requests do not touch request j *)
Theorem C07_request_steps_only_store :
  forall a s r, sh_mono s (fst (req_step a s r)).
Proof. exact req_step_mono. Qed.
Theorem C07_step_frame :
  forall w a j, touches j a = false -> cell (sh (step w a)) = None ->
    sh (step w a) = sh w /\ nth_error (reqs (step w a)) j = nth_error (reqs w) j.
Proof. exact step_other. Qed.

(* T2, commutation form: a step of request i's task that leaves the shared state as it found it (no store)
   commutes with any step of another request j - so any two interleavings that differ by such swaps end in
   the same world *)
Theorem C07_commute :
  forall w a b i j,
    task_action a = true -> target a = Some i -> target b = Some j -> i <> j ->
    sh (step w a) = sh w ->
    step (step w a) b = step (step w b) a.
Proof. exact commute. Qed.

(* T1 + T2 + T3 combined: with in-class scripts every request ends, in every interleaving, exactly as
   when run alone ... *)
Theorem C07_solo_equal :
  forall l stops L G sched j,
    in_class l -> Forall (action_ok stops L G) sched ->
    nth_error (reqs (run sched (init_world l))) j =
    nth_error (reqs (run (filter (touches j) sched) (init_world l))) j.
Proof. exact solo_equal. Qed.

(* ... and a healthy, undisturbed request that completes has delivered exactly its own bytes, in order, and
   its trailers iff the peer sent some, written exactly its own answer (with its own trailers when it has
   any) and finished its stream, whatever happened to its neighbours *)
Theorem C07_healthy_unharmed :
  forall l stops L G sched j c S d t r,
    in_class l -> Forall (action_ok stops L G) sched ->
    nth_error l j = Some (c, S) -> healthy c S = Some (d, t) -> undisturbed (env_of stops L G j) c ->
    nth_error (reqs (run sched (init_world l))) j = Some r -> res r <> None ->
    observe r = {| ob_out := OOk; ob_data := d; ob_trl := t; ob_calls := [CFin]; ob_tx := healthy_tx c |}.
Proof. exact healthy_unharmed. Qed.

(* ... and every in-class request does complete once the peer's events have all arrived and its task is
   polled (a handful of polls: the tasks yield between their sending calls), whatever the others did before *)
Theorem C07_completes :
  forall l stops L G sched j c S,
    in_class l -> Forall (action_ok stops L G) sched -> nth_error l j = Some (c, S) ->
    exists r, nth_error (reqs (run (sched ++ completion j (length S)) (init_world l))) j = Some r /\ res r <> None.
Proof. exact completes. Qed.

(* the facts read from the source on this run that the proofs rest on *)
Theorem C07_source_facts :
  hq_term_stores = false /\ hq_term_variant = VRemoteTerminate /\ hq_term_code_is_peers = true /\
  srv_incomplete_code = RFC_H3_REQUEST_INCOMPLETE /\ srv_incomplete_reset = Some RFC_H3_REQUEST_INCOMPLETE /\
  srv_incomplete_stores = false /\
  srv_malformed_code = RFC_H3_MESSAGE_ERROR /\ srv_malformed_stores = false /\
  srv_malformed_resets = true /\ srv_malformed_stops = true /\
  srv_toobig_status = STATUS_HEADER_FIELDS_TOO_LARGE /\ srv_toobig_stores = false /\
  cli_malformed_code = RFC_H3_MESSAGE_ERROR /\ cli_malformed_stores = false /\ cli_toobig_stores = false /\
  cli_malformed_stop = Some RFC_H3_MESSAGE_ERROR /\ cli_toobig_stop = Some RFC_H3_REQUEST_CANCELLED /\
  fse_quic_via_hq = true /\ recv_err_via_fse = true /\ send_data_err_via_hq = true /\ finish_err_via_hq = true /\
  hq_unknown_stores = false /\ srv_toobig_sends_response = true /\
  srv_toobig_variant = VHeaderTooBig /\ cli_toobig_variant = VHeaderTooBig /\
  (* poll_recv_trailers / send_trailers *)
  trl_malformed_stores = false /\ trl_malformed_variant = VStreamError /\
  trl_malformed_code = RFC_H3_MESSAGE_ERROR /\ trl_malformed_stop = Some RFC_H3_MESSAGE_ERROR /\
  trl_toobig_stores = false /\ trl_toobig_variant = VHeaderTooBig /\
  cli_trl_toobig_stop = Some RFC_H3_REQUEST_CANCELLED /\ trl_err_via_fse = true /\ trl_waits_for_end = true /\
  send_trailers_err_via_hq = true /\ send_trailers_limit_cmp = true /\ send_trailers_maps = true /\
  (* the StreamTerminated / Unknown arms are one expression each (no branch, no other call); finish(): grease
     write first, then poll_finish, both error mappings pass-through *)
  hq_term_pure = true /\ hq_unknown_pure = true /\ hq_unknown_variant = VUndefined /\ finish_grease_first = true.
Proof. repeat split; reflexivity. Qed.

(* whole-body anchors: the number of call sites that can store to the shared cell / set closing in each
   request-path file, and a digest of every function the model mirrors (comments, whitespace, code and
   status names masked): an edit anywhere in them - also in regions no per-arm fact reads - breaks this theorem *)
Theorem C07_source_anchors :
  site_counts = [2; 3; 1; 6; 5; 2] /\
  body_hashes = [205141527681455;
                 144042052786395;
                 40565591688418;
                 134107591409352;
                 228009720797230;
                 86527091560433;
                 59300326317649;
                 6538117779337;
                 239204694070767;
                 110534404041604;
                 53872201513830;
                 245849883045463;
                 265499565455351].
Proof. split; reflexivity. Qed.

(* non-vacuity: a faulted and a healthy request interleaved *)
Example C07_confined_inhabited :
  let l := [({| c_role := Server; c_hsize := 42; c_body := [9]; c_trl := Some 36; c_grease := true; c_unk := false |},
             [EHeaders HOk; EData 2 [1]; EMore [2]; EHeaders HOk; EFin]);
            ({| c_role := Server; c_hsize := 42; c_body := []; c_trl := None; c_grease := false; c_unk := false |}, [EHeaders HOk; EData 3 [7]; EReset (Some 77)]);
            ({| c_role := Server; c_hsize := 42; c_body := []; c_trl := None; c_grease := false; c_unk := false |},
             [EHeaders HOk; EData 1 [5]; EHeaders HMalformed; EFin]);
            ({| c_role := Server; c_hsize := 42; c_body := []; c_trl := None; c_grease := false; c_unk := false |},
             [EHeaders HOk; EData 4 [6]; EReset None])] in
  let sched := [Open 0; Open 1; Open 2; Open 3; Deliver 3; Deliver 3; Poll 3; Deliver 3; Poll 3; Deliver 1; Deliver 0; Poll 1; Deliver 1; Deliver 0; Deliver 1; Poll 0; Poll 1;
                Deliver 2; Deliver 2; Poll 2; Deliver 2; Deliver 2; Poll 2;
                Deliver 0; Deliver 0; Deliver 0; Poll 0; Poll 0; Poll 0; Poll 0; Poll 0; DriverPoll] in
  in_class l /\ Forall (action_ok (fun _ => None) None false) sched /\
  map observe (reqs (run sched (init_world l))) =
    [{| ob_out := OOk; ob_data := [1; 2]; ob_trl := true; ob_calls := [CFin]; ob_tx := [WHeaders 200; WData [9]; WTrailers; WGrease] |};
     {| ob_out := OStreamErr KRemoteTerminate (Some 77); ob_data := []; ob_trl := false; ob_calls := []; ob_tx := [] |};
     {| ob_out := OStreamErr KStreamError (Some 270); ob_data := [5]; ob_trl := false; ob_calls := [CStop 270]; ob_tx := [] |};
     {| ob_out := OStreamErr KUndefined None; ob_data := [6]; ob_trl := false; ob_calls := []; ob_tx := [] |}].
Proof.
  cbv zeta. split; [|split].
  - intros i c S H. destruct i as [|[|[|[|i]]]]; cbn in H; try (destruct i; discriminate H);
      injection H as H1 H2; subst; vm_compute; discriminate.
  - repeat constructor.
  - vm_compute. reflexivity.
Qed.
Example C07_store_is_visible_inhabited :
  (* the model does distinguish: a connection-level fault (DATA before HEADERS) stores, the driver closes *)
  let w := run [Open 0; Deliver 0; Poll 0; DriverPoll]
               (init_world [({| c_role := Server; c_hsize := 42; c_body := []; c_trl := None; c_grease := false; c_unk := false |}, [EData 1 [1]; EFin])]) in
  conn_quiet (observe_conn (sh w)) = false /\ closes (sh w) = [H3_FRAME_UNEXPECTED].
Proof. vm_compute. split; reflexivity. Qed.

Print Assumptions C07_confined.
Print Assumptions C07_noninterference.
Print Assumptions C07_request_steps_only_store.
Print Assumptions C07_step_frame.
Print Assumptions C07_commute.
Print Assumptions C07_solo_equal.
Print Assumptions C07_healthy_unharmed.
Print Assumptions C07_completes.
Print Assumptions C07_source_facts.
Print Assumptions C07_source_anchors.
