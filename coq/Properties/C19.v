(* C19 - WebTransport streams stay attached to their session, bytes intact.
   Model: Model/WebTransport.v (session id conversion, stream headers, AcceptRecvStream / FrameStream poll models,
   routing gate, an application task that accepts one stream and reads it to the end).
   Spec: Spec/WTSpec.v (flat bytes: stream = varint signal ++ varint session ++ payload; reference parser).
   A history [h] is any list of arrivals (non-empty chunks, then at most one FIN / RESET) and polls, in any order
   ([h_ok]); [arrived_bytes h] is the concatenation of the chunks, whatever their boundaries.  Quantifying over
   all [h] with given [arrived_bytes] is quantifying over all chunkings and all arrival / poll interleavings. *)
From H3V Require Import Base.Bytes Gen.GenCodes Gen.GenWebTransport Gen.GenBufList Spec.RFC9000 Spec.WTSpec Model.Varint Model.WebTransport
  Proofs.WebTransportProofs.

(* T1: the session id derived from the CONNECT stream IS that stream's id (every id, multi-byte ones included) *)
Theorem C19_session_id_is_connect_stream_id :
  forall sid, session_of_stream sid = wt_session_of_connect sid.
Proof. exact session_is_connect_stream. Qed.

(* T2a: the header h3 writes at the start of a stream it opens is varint(0x54 | 0x41) ++ varint(session) *)
Theorem C19_header_bytes :
  forall s, s < 2 ^ 62 ->
    uni_header s = Ok (wt_stream_header WT_UNI_TYPE s) /\
    bidi_header s = Ok (wt_stream_header WT_BIDI_SIGNAL s).
Proof. exact headers_spec. Qed.

(* T2b: whatever byte counts the transport accepts per poll_send, exactly the header bytes go out, in order,
   and len(header) grants of at least one byte are enough *)
Theorem C19_header_written_exactly :
  forall ks w, wb_inv w ->
    let (out, w') := wb_send ks w in out ++ wb_chunk w' = wb_chunk w /\ wb_inv w'.
Proof. exact wb_send_exact. Qed.
Theorem C19_header_write_completes :
  forall ks w, wb_inv w -> Forall (fun k => 1 <= k) ks -> wb_remaining w <= N.of_nat (length ks) ->
    wb_chunk (snd (wb_send ks w)) = [].
Proof. exact wb_send_complete. Qed.

(* T2c: the receive side parses those bytes back, for every session id (1, 2, 4 and 8 byte forms) *)
Theorem C19_header_parses_back :
  forall s payload, s < 2 ^ 62 -> wf_bytes payload ->
    frame_decode_head (wt_stream_bytes WT_BIDI_SIGNAL s payload) =
      FdWt s (len (wt_stream_header WT_BIDI_SIGNAL s)) /\
    type_parse None (wt_stream_bytes WT_UNI_TYPE s payload) = TReady WT_UNI_TYPE (Some s) payload.
Proof. exact header_parses_back. Qed.

(* T3 (bytes intact): for ALL chunkings of header ++ payload - the header in any form a receiver must accept,
   split anywhere, or in one chunk with the payload -, all interleavings of arrivals and polls, poll_data or
   futures / tokio AsyncRead with any buffer of at least one byte ([mode_ok m]), for bidirectional streams read
   directly or through the receive half of split() ([split]): after a final poll the application has seen exactly
   [payload], in order, attached to session [s], then the stream's own ending (FIN, RESET code, or still open) *)
Theorem C19_uni_bytes_intact :
  forall m h tl sl s payload, mode_ok m -> h_ok h ->
    valid_form tl WT_UNI_TYPE -> valid_form sl s ->
    arrived_bytes h = rfc_vi_enc tl WT_UNI_TYPE ++ rfc_vi_enc sl s ++ payload ->
    uni_seen (uni_run true m (h ++ [Poll])) = SeenStream s payload (end_of (arrived_term h)).
Proof. exact uni_bytes_intact. Qed.
Theorem C19_bidi_bytes_intact :
  forall split m h tl sl s payload, mode_ok m -> h_ok h ->
    valid_form tl WT_BIDI_SIGNAL -> valid_form sl s ->
    arrived_bytes h = rfc_vi_enc tl WT_BIDI_SIGNAL ++ rfc_vi_enc sl s ++ payload ->
    bidi_seen (bidi_run split m (h ++ [Poll])) = SeenStream s payload (end_of (arrived_term h)).
Proof. exact bidi_bytes_intact. Qed.

(* T3': at EVERY moment of EVERY history (no final poll needed) what has been delivered is a prefix of the
   payload that follows the stream's own header, attached to that header's session - nothing lost in the
   middle, nothing duplicated, nothing invented - and the model never reaches a connection error or panic *)
Theorem C19_uni_prefix_safe :
  forall en m h, mode_ok m -> h_ok h ->
    match uni_seen (uni_run en m h) with
    | SeenStream i d _ => en = true /\ exists rest, wt_parse WT_UNI_TYPE (arrived_bytes h) = WtStream i (d ++ rest)
    | SeenBad => False
    | _ => True
    end.
Proof. exact uni_prefix_safe. Qed.
Theorem C19_bidi_prefix_safe :
  forall split m h, mode_ok m -> h_ok h ->
    match bidi_seen (bidi_run split m h) with
    | SeenStream i d _ => exists rest, wt_parse WT_BIDI_SIGNAL (arrived_bytes h) = WtStream i (d ++ rest)
    | SeenBad => False
    | _ => True
    end.
Proof. exact bidi_prefix_safe. Qed.

(* the model refines the flat-bytes specification on EVERY history, malformed and truncated streams included *)
Theorem C19_uni_refines_spec :
  forall en m h, mode_ok m -> h_ok h ->
    let st := uni_run en m (h ++ [Poll]) in
    match wt_expect_uni en (arrived_bytes h) (end_of (arrived_term h)) with
    | ObsStream s p e => uni_seen st = SeenStream s p e
    | ObsNothing => not_surfaced_no_error (uni_seen st)
    | ObsUnconstrained =>
        uni_seen st = SeenStopped H3_STREAM_CREATION_ERROR \/ uni_seen st = SeenOther \/ uni_seen st = SeenNothing
    end.
Proof. exact uni_run_spec. Qed.
Theorem C19_bidi_refines_spec :
  forall split m h, mode_ok m -> h_ok h ->
    let st := bidi_run split m (h ++ [Poll]) in
    match wt_expect_bidi (arrived_bytes h) (end_of (arrived_term h)) with
    | ObsStream s p e => bidi_seen st = SeenStream s p e
    | ObsNothing => bidi_seen st = SeenNothing
    | ObsUnconstrained => bidi_seen st = SeenOther
    end.
Proof. exact bidi_run_spec. Qed.

(* T4: a stream of type 0x54 whose header is complete is surfaced iff enable_webtransport is set in the local
   configuration; when it is not set the stream is not surfaced and there is no connection error
   ([not_surfaced_no_error s := s = SeenNothing \/ exists c, s = SeenStopped c]: whether h3 merely drops the handle -
   what it does today - or also answers STOP_SENDING is not part of the property) *)
Theorem C19_uni_surfaced_iff_enabled :
  forall en m h s p, mode_ok m -> h_ok h ->
    wt_parse WT_UNI_TYPE (arrived_bytes h) = WtStream s p ->
    let seen := uni_seen (uni_run en m (h ++ [Poll])) in
    (en = true -> seen = SeenStream s p (end_of (arrived_term h))) /\
    (en = false -> not_surfaced_no_error seen) /\
    ((exists i d e, seen = SeenStream i d e) <-> en = true).
Proof. exact uni_gate. Qed.

(* T5 (liveness): once the complete header has arrived, the next poll surfaces the stream, even if nothing
   else ever arrives (histories with no further arrival are histories) *)
Theorem C19_uni_surfaced_at_next_poll :
  forall m h s p, mode_ok m -> h_ok h ->
    wt_parse WT_UNI_TYPE (arrived_bytes h) = WtStream s p ->
    exists e, uni_seen (uni_run true m (h ++ [Poll])) = SeenStream s p e.
Proof. exact uni_liveness. Qed.
Theorem C19_bidi_surfaced_at_next_poll :
  forall split m h s p, mode_ok m -> h_ok h ->
    wt_parse WT_BIDI_SIGNAL (arrived_bytes h) = WtStream s p ->
    exists e, bidi_seen (bidi_run split m (h ++ [Poll])) = SeenStream s p e.
Proof. exact bidi_liveness. Qed.

(* split(): the receive half keeps every buffered byte (payload that arrived with the header lives there), the
   send half starts with an empty buffer; both keep the end-of-stream flag *)
Theorem C19_split_keeps_payload :
  forall s, r_buf (snd (brs_split s)) = r_buf s /\ r_buf (fst (brs_split s)) = [] /\
            r_eos (snd (brs_split s)) = r_eos s /\ r_eos (fst (brs_split s)) = r_eos s.
Proof. exact split_keeps_payload. Qed.

(* the two hand-written AsyncRead impls (futures, tokio) are the same function of (capacity, queue, stream):
   buffered bytes are handed out before the transport is polled, at most `capacity` bytes per call *)
Theorem C19_tokio_read_is_async_read :
  forall l q s, brs_tokio_read l q s = brs_async_read l q s.
Proof. exact brs_tokio_is_async. Qed.

(* the generated facts every proof above rests on (a changed decision point breaks this first) *)
Theorem C19_generated_facts :
  wt_from_stream_into_inner = true /\ wt_encode_divisor = 1 /\
  wt_frame_checked = WT_BIDI_SIGNAL /\ wt_frame_bidi = WT_BIDI_SIGNAL /\ wt_frame_before_length = true /\
  wt_uni_hdr_type = WT_UNI_TYPE /\ wt_uni_hdr_type_first = true /\
  wt_bidi_hdr_type = WT_BIDI_SIGNAL /\ wt_bidi_hdr_type_first = true /\
  wt_into_stream_type = WT_UNI_TYPE /\ wt_st_uni = WT_UNI_TYPE /\ wt_st_bidi = WT_BIDI_SIGNAL /\
  wt_buffer_first = true /\ wt_memo_reset = true /\ wt_memo_min = 1 /\
  wt_second_varint_types = [wt_st_push; WT_UNI_TYPE] /\
  wt_into_inner_keeps_buffer = true /\ wt_gate = 1 /\
  wt_fallthrough_is_noop = true /\ wt_end_of_stream_removes = true /\ wt_session_from_connect_stream = true /\
  wt_fut_guard = 1 /\ wt_tokio_guard = 1 /\ wt_fut_take_capacity = true /\ wt_tokio_take_capacity = true /\
  wt_split_buf_to_recv = true /\ push_bytes_copies_whole_buffer = true.
Proof. exact gen_facts. Qed.

(* non-vacuity *)
Example C19_session_inhabited : session_of_stream 8 = 8 /\ session_of_stream 65536 = 65536.
Proof. vm_compute. split; reflexivity. Qed.
Example C19_header_inhabited : uni_header 65536 = Ok [64; 84; 128; 1; 0; 0] /\ bidi_header 8 = Ok [64; 65; 8].
Proof. vm_compute. split; reflexivity. Qed.
(* the past failure: type `40 54`, session `40 08` each split over two chunks, payload partly in the last
   header chunk, polls in between, RESET at the end *)
Example C19_uni_inhabited :
  let h := [Arrive (Chunk [64]); Poll; Arrive (Chunk [84]); Poll; Arrive (Chunk [64]); Poll;
            Arrive (Chunk [8; 170]); Arrive (Chunk [187; 204]); Poll; Arrive (Reset 7)] in
  h_ok h /\ valid_form 2 WT_UNI_TYPE /\ valid_form 2 8 /\
  arrived_bytes h = rfc_vi_enc 2 WT_UNI_TYPE ++ rfc_vi_enc 2 8 ++ [170; 187; 204] /\
  uni_seen (uni_run true (ModeRead 2) (h ++ [Poll])) = SeenStream 8 [170; 187; 204] (WtReset 7).
Proof.
  cbv zeta. split; [|split; [|split; [|split]]].
  - cbn. repeat split; try discriminate; repeat constructor.
  - split; [auto|vm_compute; reflexivity].
  - split; [auto|vm_compute; reflexivity].
  - vm_compute. reflexivity.
  - vm_compute. reflexivity.
Qed.
Example C19_bidi_inhabited :
  let h := [Arrive (Chunk [64; 65; 8; 1; 2]); Arrive Fin] in
  h_ok h /\ bidi_seen (bidi_run false ModeData (h ++ [Poll])) = SeenStream 8 [1; 2] WtFin /\
  bidi_seen (bidi_run true (ModeTokio 4) (h ++ [Poll])) = SeenStream 8 [1; 2] WtFin.
Proof.
  cbv zeta. split; [cbn; repeat split; try discriminate; repeat constructor|split; vm_compute; reflexivity].
Qed.
Example C19_tokio_inhabited :
  uni_seen (uni_run true (ModeTokio 8) [Arrive (Chunk [64; 84; 8; 170; 187; 204]); Arrive Fin; Poll])
    = SeenStream 8 [170; 187; 204] WtFin.
Proof. vm_compute. reflexivity. Qed.
Example C19_disabled_inhabited :
  not_surfaced_no_error (uni_seen (uni_run false ModeData [Arrive (Chunk [64; 84; 8; 1; 2]); Arrive Fin; Poll])).
Proof. first [left; vm_compute; reflexivity | right; eexists; vm_compute; reflexivity]. Qed.
(* header complete, then silence *)
Example C19_liveness_inhabited :
  uni_seen (uni_run true ModeData [Arrive (Chunk [64; 84; 8]); Poll]) = SeenStream 8 [] WtOpen.
Proof. vm_compute. reflexivity. Qed.

Print Assumptions C19_session_id_is_connect_stream_id.
Print Assumptions C19_header_bytes.
Print Assumptions C19_header_written_exactly.
Print Assumptions C19_header_write_completes.
Print Assumptions C19_header_parses_back.
Print Assumptions C19_uni_bytes_intact.
Print Assumptions C19_bidi_bytes_intact.
Print Assumptions C19_uni_prefix_safe.
Print Assumptions C19_bidi_prefix_safe.
Print Assumptions C19_uni_refines_spec.
Print Assumptions C19_bidi_refines_spec.
Print Assumptions C19_uni_surfaced_iff_enabled.
Print Assumptions C19_uni_surfaced_at_next_poll.
Print Assumptions C19_bidi_surfaced_at_next_poll.
Print Assumptions C19_split_keeps_payload.
Print Assumptions C19_tokio_read_is_async_read.
Print Assumptions C19_generated_facts.
