(* C13 - SETTINGS are sent, parsed and applied exactly, for every configuration.
   Only pinned statements: each is closed by [exact] of a lemma of Proofs/SettingsProofs.v. *)
From H3V Require Import Base.Bytes Gen.GenSettings Spec.RFC9000 Spec.RFC9114Settings Model.Varint Model.Settings
  Proofs.SettingsLemmas Proofs.SettingsProofs.

(* the tables and constants read from the source are the RFC ones *)
Theorem C13_tables_match_rfc :
  forbidden_ids = rfc_reserved_ids /\
  (forall id, In id supported_ids <-> In id rfc_known_ids) /\
  N.of_nat (length supported_ids) < settings_len /\
  (frame_type_settings = rfc_frame_type_SETTINGS /\ stream_type_control = rfc_stream_type_control /\
   write_buf_encode_size = 64) /\
  (code_settings_error = rfc_H3_SETTINGS_ERROR /\ code_setup_error = rfc_H3_INTERNAL_ERROR /\
   code_second_settings = rfc_H3_FRAME_UNEXPECTED).
Proof. exact (conj gen_forbidden (conj gen_supported_perm (conj gen_capacity (conj gen_frame_consts gen_codes)))). Qed.

(* T1: for EVERY configuration (all booleans, grease on/off, every grease draw g) whose two integer fields
   are below 2^62, setup hands the transport exactly `00`, then one SETTINGS frame whose payload the RFC
   parser reads as the configured pairs (preceded by the grease pair 31g+33 when grease is on); no identifier
   twice, none reserved; 42 bytes at most, so the 64-byte header array is never overrun (no panic) *)
Theorem C13_setup_sends_configured_settings :
  forall g c, g < grease_bound -> c_mfs c < 2 ^ 62 -> c_wtmax c < 2 ^ 62 ->
    let pairs := config_pairs g c in
    let payload := rfc_settings_payload pairs in
    setup_control g c = Ok {| wb_hdr := 0 :: 4 :: len payload :: payload; wb_pos := 0 |} /\
    0 :: 4 :: len payload :: payload = rfc_control_stream_start pairs /\
    len (0 :: 4 :: len payload :: payload) <= 42 /\
    wf_bytes payload /\
    rfc_settings payload = Some pairs /\ NoDup (rfc_ids pairs) /\ rfc_has_reserved pairs = false.
Proof. exact setup_control_ok. Qed.

(* the grease identifier has the reserved form and is neither a defined nor an HTTP/2-reserved one *)
Theorem C13_grease_identifier :
  forall g, rfc_is_grease (31 * g + 33) = true /\
            rfc_in (31 * g + 33) rfc_known_ids = false /\ rfc_in (31 * g + 33) rfc_reserved_ids = false.
Proof. exact (fun g => conj (grease_is_grease g) (grease_not_known_or_reserved _ (grease_is_grease g))). Qed.

(* T2: a field of 2^62 or more (any u64): a clean H3_INTERNAL_ERROR, no panic *)
Theorem C13_setup_unencodable_field_is_an_error :
  forall g c, g < grease_bound -> 2 ^ 62 <= c_mfs c \/ 2 ^ 62 <= c_wtmax c ->
    setup_control g c = Err rfc_H3_INTERNAL_ERROR.
Proof. exact setup_control_err. Qed.

(* T1+T2: total, for every configuration whatsoever *)
Theorem C13_setup_never_panics :
  forall g c, g < grease_bound ->
    match setup_control g c with
    | Ok _ => c_mfs c < 2 ^ 62 /\ c_wtmax c < 2 ^ 62
    | Err code => code = rfc_H3_INTERNAL_ERROR /\ (2 ^ 62 <= c_mfs c \/ 2 ^ 62 <= c_wtmax c)
    | Panic _ => False
    end.
Proof. exact setup_control_total. Qed.

(* whatever pattern of chunk()/advance() the transport uses to drain the WriteBuf, it sees those bytes *)
Theorem C13_writebuf_any_consumption :
  forall ks b, wb_inv b ->
    exists out b', wb_consume ks b = Ok (out, b') /\ out ++ wb_view b' = wb_view b /\ wb_inv b' /\
                   wb_remaining b = Ok (len (wb_view b)).
Proof. exact wb_consume_exact. Qed.

(* Settings::encode for ANY settings value of encodable pairs = the RFC layout, when the buffer is big enough *)
Theorem C13_encode_any_settings :
  forall cap s, Forall pair_ok s -> len (rfc_settings_payload s) < 2 ^ 62 ->
    len (rfc_control_stream_start s) <= cap ->
    control_header_encode cap s [] = Ok (rfc_control_stream_start s).
Proof. exact control_header_encode_ok. Qed.

(* the reference serialiser and the reference parser agree (the spec is not vacuous) *)
Theorem C13_reference_roundtrip :
  forall l, Forall pair_ok l -> rfc_settings (rfc_settings_payload l) = Some l.
Proof. exact rfc_settings_payload_parses. Qed.

(* T3: on EVERY payload, Settings::decode is the RFC parser followed by the receive rules: a cut-short
   entry, an HTTP/2-reserved identifier or a repeated known identifier is an error (never a panic, never
   Exceeded-by-running-out-of-fuel); otherwise exactly the known pairs are kept, unknown ones dropped, and the
   values put in force are the RFC ones field by field *)
Theorem C13_decode_is_rfc :
  forall payload, wf_bytes payload ->
    match rfc_receive payload with
    | RxTruncated | RxSettingsError => clean_err (st_decode payload)
    | RxApply known a => st_decode payload = Ok known /\ applied_ok (apply_settings known) a
    end.
Proof. exact st_decode_spec. Qed.

Theorem C13_decode_never_panics :
  forall payload, wf_bytes payload -> is_panic (st_decode payload) = false.
Proof. exact st_decode_no_panic. Qed.

(* Frame::decode hands exactly the payload to it, whatever form the length has and whatever follows *)
Theorem C13_frame_decode_settings :
  forall lenenc payload rest, wf_bytes lenenc -> wf_bytes payload -> wf_bytes rest ->
    rfc_varint (lenenc ++ payload ++ rest) = Some (len payload, payload ++ rest) ->
    frame_decode (rfc_frame_type_SETTINGS :: lenenc ++ payload ++ rest) =
      match st_decode payload with
      | Ok s => FrSettings s rest
      | Err e => FrSettingsError e
      | Panic p => FrPanic p
      end.
Proof. exact frame_decode_settings. Qed.

(* the first SETTINGS frame on the control stream: every decode error is the connection error
   H3_SETTINGS_ERROR (a cut-short entry included); otherwise the values in force afterwards are the RFC ones,
   and a second SETTINGS frame is H3_FRAME_UNEXPECTED *)
Theorem C13_first_settings_applied :
  forall lenenc payload rest, wf_bytes lenenc -> wf_bytes payload -> wf_bytes rest ->
    rfc_varint (lenenc ++ payload ++ rest) = Some (len payload, payload ++ rest) ->
    let fr := frame_decode (rfc_frame_type_SETTINGS :: lenenc ++ payload ++ rest) in
    match rfc_receive payload with
    | RxTruncated | RxSettingsError => on_control_frame fr init_peer = Err rfc_H3_SETTINGS_ERROR
    | RxApply _ a =>
        exists st, on_control_frame fr init_peer = Ok st /\ got_peer_settings st = true /\
                   applied_ok (settings_view st) a /\
                   (forall s r, on_control_frame (FrSettings s r) st = Err rfc_H3_FRAME_UNEXPECTED)
    end.
Proof. exact recv_first_settings. Qed.

(* protocol defaults are in force until then *)
Theorem C13_defaults_until_settings : applied_ok (settings_view init_peer) rfc_defaults.
Proof. exact defaults_until_settings. Qed.

(* composition: an h3 peer that receives what setup sent puts exactly the configured values in force *)
Theorem C13_sent_settings_are_applied_by_peer :
  forall g c, g < grease_bound -> c_mfs c < 2 ^ 62 -> c_wtmax c < 2 ^ 62 ->
    let payload := rfc_settings_payload (config_pairs g c) in
    exists s, st_decode payload = Ok s /\
      apply_settings s = {| a_mfs := c_mfs c; a_wt := b2n (c_wt c); a_ec := b2n (c_ec c);
                            a_dg := b2n (c_dg c); a_wtmax := c_wtmax c |}.
Proof. exact setup_roundtrip. Qed.

(* the builders: every setter sets exactly its own option, in any order and any number of calls; options never
   set keep the protocol defaults.  So every theorem above, stated for all [config] values, covers every
   configuration either builder can produce *)
Theorem C13_builder_setters_set_exactly_their_option :
  forall r calls o, Forall (call_ok r) calls ->
    cfg_opt (builder_config r calls) o = opt_value (map opt_call calls) o.
Proof. exact builder_config_spec. Qed.

(* build() hands its configuration over and leaves the builder untouched: building twice (with further setter calls in
   between) gives the second connection the first configuration plus the later calls *)
Theorem C13_build_leaves_the_builder_untouched :
  forall r calls1 calls2 o, Forall (call_ok r) calls1 -> Forall (call_ok r) calls2 ->
    cfg_opt (fst (build_twice r calls1 calls2)) o = opt_value (map opt_call calls1) o /\
    cfg_opt (snd (build_twice r calls1 calls2)) o = opt_value (map opt_call (calls1 ++ calls2)) o.
Proof. exact build_twice_spec. Qed.

(* HONEST LIMIT of the clause "for every configuration the builders accept, setup completes and the peer sees one
   SETTINGS frame": if "accept" means "the setter takes the value" it is FALSE - the u64 setters take 2^62 and more,
   which no SETTINGS frame can carry (varint range), and setup then answers H3_INTERNAL_ERROR (since the repair of F4;
   a panic before).  With "accept" = "build() succeeds" the clause is C13_setup_never_panics above. *)
Theorem C13_setup_completes_for_every_accepted_config_refuted :
  exists r calls g, g < grease_bound /\ Forall (call_ok r) calls /\
    setup_control g (builder_config r calls) = Err rfc_H3_INTERNAL_ERROR.
Proof. exact setup_completes_refuted. Qed.

(* a second SETTINGS frame, even in the same delivery as the first, is H3_FRAME_UNEXPECTED *)
Theorem C13_second_settings_frame_is_refused :
  forall lenenc1 payload1 lenenc2 payload2 rest known a s2,
    wf_bytes lenenc1 -> wf_bytes payload1 -> wf_bytes lenenc2 -> wf_bytes payload2 -> wf_bytes rest ->
    let frame2 := rfc_frame_type_SETTINGS :: lenenc2 ++ payload2 ++ rest in
    rfc_varint (lenenc1 ++ payload1 ++ frame2) = Some (len payload1, payload1 ++ frame2) ->
    rfc_varint (lenenc2 ++ payload2 ++ rest) = Some (len payload2, payload2 ++ rest) ->
    rfc_receive payload1 = RxApply known a -> st_decode payload2 = Ok s2 ->
    forall fuel, recv_control (S (S fuel)) (rfc_frame_type_SETTINGS :: lenenc1 ++ payload1 ++ frame2) init_peer
                 = Err rfc_H3_FRAME_UNEXPECTED.
Proof. exact recv_second_settings. Qed.

(* the code returned to the application is the code the connection is closed with (what the peer sees) *)
Theorem C13_peer_sees_the_error_code :
  forall code, handle_connection_error code None = (code, Some code).
Proof. exact (fun code => eq_refl). Qed.

(* non-vacuity *)
Example C13_builder_inhabited :
  builder_config RServer [(S_ec, 1); (S_wt, 0); (S_mfs, 5); (S_mfs, 9); (S_grease, 0)] =
    {| c_grease := false; c_mfs := 9; c_wt := false; c_ec := true; c_dg := false; c_wtmax := 0 |}.
Proof. vm_compute. reflexivity. Qed.
Example C13_setup_inhabited :
  setup_control 1337 (server_builder true 8192 true true true 16384) =
    Ok {| wb_hdr := [0; 4; 25; 128; 0; 162; 8; 0; 6; 96; 0; 8; 1; 171; 96; 55; 66; 1; 51; 1;
                     171; 96; 55; 67; 128; 0; 64; 0]; wb_pos := 0 |}.
Proof. vm_compute. reflexivity. Qed.
Example C13_setup_error_inhabited :
  setup_control 0 (client_builder false (2 ^ 62) false false) = Err 258 /\
  setup_control 5 (server_builder true 0 false false false (2 ^ 64 - 1)) = Err 258.
Proof. vm_compute. split; reflexivity. Qed.
Example C13_decode_inhabited :
  rfc_receive [6; 64; 100; 33; 9; 51; 1; 64; 77; 128; 0; 0; 5] =
    RxApply [(6, 100); (51, 1)]
      {| r_max_field_section_size := 100; r_enable_webtransport := Some 0; r_enable_connect_protocol := Some 0;
         r_h3_datagram := Some 1; r_webtransport_max_sessions := 0 |} /\
  st_decode [6; 64; 100; 33; 9; 51; 1; 64; 77; 128; 0; 0; 5] = Ok [(6, 100); (51, 1)].
Proof. vm_compute. split; reflexivity. Qed.
Example C13_decode_errors_inhabited :
  rfc_receive [6; 1; 2; 0] = RxSettingsError /\ st_decode [6; 1; 2; 0] = Err (InvalidSettingId 2) /\
  rfc_receive [6; 1; 64; 6; 2] = RxSettingsError /\ st_decode [6; 1; 64; 6; 2] = Err (Repeated 6) /\
  rfc_receive [6; 1; 8] = RxTruncated /\ st_decode [6; 1; 8] = Err Malformed /\
  rfc_receive [6; 128; 0; 0] = RxTruncated /\ st_decode [6; 128; 0; 0] = Err Malformed /\
  rfc_receive [33; 1; 33; 2] = RxApply [] rfc_defaults.
Proof. vm_compute. repeat split; reflexivity. Qed.
Example C13_writebuf_overrun_inhabited :
  (* the panic is modelled: eight long pairs do not fit the 64-byte header array *)
  is_panic (writebuf_control (map (fun i => (2 ^ 40 + i, 2 ^ 40)) [1; 2; 3; 4; 5; 6; 7; 8])) = true.
Proof. vm_compute. reflexivity. Qed.

Print Assumptions C13_tables_match_rfc.
Print Assumptions C13_setup_sends_configured_settings.
Print Assumptions C13_grease_identifier.
Print Assumptions C13_setup_unencodable_field_is_an_error.
Print Assumptions C13_setup_never_panics.
Print Assumptions C13_writebuf_any_consumption.
Print Assumptions C13_encode_any_settings.
Print Assumptions C13_reference_roundtrip.
Print Assumptions C13_decode_is_rfc.
Print Assumptions C13_decode_never_panics.
Print Assumptions C13_frame_decode_settings.
Print Assumptions C13_first_settings_applied.
Print Assumptions C13_defaults_until_settings.
Print Assumptions C13_sent_settings_are_applied_by_peer.
Print Assumptions C13_builder_setters_set_exactly_their_option.
Print Assumptions C13_build_leaves_the_builder_untouched.
Print Assumptions C13_setup_completes_for_every_accepted_config_refuted.
Print Assumptions C13_second_settings_frame_is_refused.
Print Assumptions C13_peer_sees_the_error_code.
