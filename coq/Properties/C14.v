(* C14 - Everything h3 writes is valid HTTP/3, however the transport takes it. *)
From H3V Require Import Base.Bytes Gen.GenWriters Spec.RFC9000 Spec.RFC9114Wire Model.Varint Model.Datagram Model.FrameEnc
  Model.WriteBuf Model.Writers Proofs.DatagramProofs Proofs.WriteBufProofs Proofs.FrameEncProofs
  Proofs.WireParseProofs Proofs.WritersProofs.

(* ---------------- T1: the Buf implementation of WriteBuf ---------------- *)

(* T1a: whatever acceptance script the transport follows (k bytes of the current chunk at a time), the bytes it
   has been given followed by what is still in the buffer are the buffer's bytes; no panic; invariant kept *)
Theorem C14_any_acceptance_script :
  forall ks w, wb_inv w ->
    exists out w', wb_consume ks w = Ok (out, w') /\ out ++ wb_view w' = wb_view w /\ wb_inv w'.
Proof. exact wb_consume_exact. Qed.

(* T1b: a transport that takes at least one byte per step is done after at most |view| steps, has then been
   given exactly header ++ payload whatever the step sizes were, and remaining() is 0 *)
Theorem C14_script_independent :
  forall ks w, wb_inv w -> Forall (fun k => 1 <= k) ks -> len (wb_view w) <= N.of_nat (length ks) ->
    exists w', wb_consume ks w = Ok (wb_view w, w') /\ wb_view w' = [] /\ wb_remaining w' = Ok 0.
Proof. exact wb_consume_complete. Qed.

(* T1c: the same for consumers mixing chunk-bounded reads and raw advance(k) calls *)
Theorem C14_any_consumer :
  forall steps w, wb_inv w -> skips_within steps (len (wb_view w)) ->
    exists evs w', wb_run steps w = Ok (evs, w') /\ replay evs (wb_view w) = Some (wb_view w') /\ wb_inv w'.
Proof. exact wb_run_exact. Qed.

(* T1d: the three Buf laws: remaining() exact, chunk() a non-empty prefix while bytes remain, advance(k) = skip k *)
Theorem C14_remaining_exact : forall w, wb_inv w -> wb_remaining w = Ok (len (wb_view w)).
Proof. exact wb_remaining_law. Qed.
Theorem C14_chunk_nonempty_prefix :
  forall w, wb_inv w ->
    exists c rest, wb_chunk w = Ok c /\ wb_view w = c ++ rest /\ (wb_view w <> [] -> c <> []).
Proof. exact wb_chunk_law. Qed.
Theorem C14_advance_exact :
  forall k w, wb_inv w -> k <= len (wb_view w) ->
    exists w', wb_advance k w = Ok w' /\ wb_view w' = skipn (N.to_nat k) (wb_view w) /\ wb_inv w'.
Proof. exact wb_advance_law. Qed.
(* advancing past the end is the payload Buf's panic when there is a payload, and silently absorbed otherwise *)
Theorem C14_advance_past_end :
  forall k w, wb_inv w -> len (wb_view w) < k ->
    match wb_payload w with
    | Some _ => wb_advance k w = Panic 35
    | None => exists w', wb_advance k w = Ok w' /\ wb_view w' = [] /\ wb_inv w'
    end.
Proof. exact wb_advance_past_end. Qed.

(* T1e: the provided Buf methods a transport may call instead.  `impl Buf for WriteBuf` defines exactly remaining, chunk
   and advance (pinned by the translator: any further method is AnchorLost), so chunks_vectored and copy_to_bytes are the
   defaults of the bytes crate, modelled on top of the three: a vectored reader is shown one non-empty slice, a prefix of
   the bytes; copy_to_bytes(k) hands out exactly the next k bytes *)
Theorem C14_chunks_vectored_default :
  forall w, wb_inv w ->
    exists sl, wb_chunks_vectored w = Ok sl /\
      match sl with
      | [] => wb_view w = []
      | [c] => c <> [] /\ exists rest, wb_view w = c ++ rest
      | _ => False
      end.
Proof. exact wb_chunks_vectored_law. Qed.
Theorem C14_copy_to_bytes_exact :
  forall k w, wb_inv w -> k <= len (wb_view w) ->
    exists w', wb_copy_to_bytes k w = Ok (firstn (N.to_nat k) (wb_view w), w') /\
               wb_view w' = skipn (N.to_nat k) (wb_view w) /\ wb_inv w'.
Proof. exact wb_copy_to_bytes_exact. Qed.

(* ---------------- T2: what each constructor puts in the buffer ---------------- *)
(* no panic, the invariant, and the RFC 9114 bytes: varint type, varint length of the payload as it is at encode
   time, fixed fields; the payload follows from the frame's own Buf *)
Theorem C14_from_frame :
  forall f, frame_args_ok f -> frame_chunks_ok (Some f) -> len (frame_header_bytes f) <= 64 ->
    exists w, wb_from_frame f = Ok w /\ wb_inv w /\
              wb_view w = frame_header_bytes f ++ frame_payload_bytes (Some f).
Proof. exact wb_from_frame_ok. Qed.
Theorem C14_data_frame_length_field :
  forall p, nonempty_chunks p -> len (concat p) < 2 ^ 62 ->
    exists w, wb_from_frame (FData p) = Ok w /\ wb_inv w /\ wb_view w = rfc_frame T_DATA (concat p).
Proof.
  intros p Hne Hlen. destruct (data_out p Hne Hlen) as (w & E & _ & Hi & ty & q & Hv & _ & _).
  destruct (wb_from_frame_ok (FData p) Hlen Hne) as (w' & E' & Hi' & Hv').
  { pose proof (frame_header_small (FData p) Hlen) as Hs. cbn beta iota in Hs. apply N.le_trans with 17; [exact Hs|discriminate]. }
  exists w'. split; [exact E'|]. split; [exact Hi'|]. rewrite Hv'. cbn [frame_header_bytes frame_payload_bytes].
  unfold rfc_frame. rewrite <- app_assoc. reflexivity.
Qed.
Theorem C14_headers_frame_length_field :
  forall b, len b < 2 ^ 62 ->
    exists w, wb_from_frame (FHeaders b) = Ok w /\ wb_inv w /\ wb_view w = rfc_frame T_HEADERS b.
Proof.
  intros b Hlen. destruct (wb_from_frame_ok (FHeaders b) Hlen I) as (w' & E' & Hi' & Hv').
  { pose proof (frame_header_small (FHeaders b) Hlen) as Hs. cbn beta iota in Hs. apply N.le_trans with 17; [exact Hs|discriminate]. }
  exists w'. split; [exact E'|]. split; [exact Hi'|]. rewrite Hv'. cbn [frame_header_bytes frame_payload_bytes].
  unfold rfc_frame. rewrite <- app_assoc. reflexivity.
Qed.
Theorem C14_from_pair :
  forall ty f, ty < 2 ^ 62 -> frame_args_ok f -> frame_chunks_ok (Some f) -> len (frame_header_bytes f) <= 56 ->
    exists w, wb_from_pair ty f = Ok w /\ wb_inv w /\
              wb_view w = rfc_varint ty ++ frame_header_bytes f ++ frame_payload_bytes (Some f).
Proof. exact wb_from_pair_ok. Qed.
Theorem C14_from_uni_header :
  forall u, uni_args_ok u -> len (uni_header_bytes u) <= 64 ->
    exists w, wb_from_uni u = Ok w /\ wb_inv w /\ wb_view w = uni_header_bytes u.
Proof. exact wb_from_uni_ok. Qed.
Theorem C14_from_stream_type :
  forall ty, ty < 2 ^ 62 -> exists w, wb_from_stream_type ty = Ok w /\ wb_inv w /\ wb_view w = rfc_varint ty.
Proof. exact wb_from_stream_type_ok. Qed.
Theorem C14_from_bidi_header :
  forall sid, sid < 2 ^ 62 ->
    exists w, wb_from_bidi sid = Ok w /\ wb_inv w /\ wb_view w = rfc_varint 65 ++ rfc_varint sid.
Proof. exact wb_from_bidi_ok. Qed.
(* every frame h3 itself sends has a header of at most 17 bytes; the SETTINGS a Config yields make a control
   stream header of at most 64: the 64-byte array cannot overflow *)
Theorem C14_header_fits :
  forall f, frame_args_ok f ->
    match f with FSettings _ | FPushPromise _ _ => True | _ => len (frame_header_bytes f) <= 17 end.
Proof. exact frame_header_small. Qed.
Theorem C14_config_settings_fit :
  forall cfg g, g < grease_range ->
    exists r, config_settings cfg g = Ok r /\
      match r with Some es => settings_good es /\ len (pairs_bytes es) <= 61 | None => True end.
Proof. exact config_settings_good. Qed.

(* ---------------- T3: every API program, configuration, grease draw ---------------- *)
(* never a panic; every stream of the final state carries bytes the RFC 9114 reference parser accepts:
   control = type 0, SETTINGS (no identifier twice, none HTTP/2-only, each registered or 31N+33), then GOAWAY frames only;
   QPACK streams = their type; the grease stream = a prefix of (31N+33 type, 31N+33 frame, "grease"), judged
   reserved as soon as the type is out; request streams = complete DATA / HEADERS / 31N+33-type frames only.
   Premise of the model (DESIGN): API write futures are polled to completion; the only write h3 itself may stop
   polling is the grease stream's (kept as a cut in the model). *)
(* CLOSED-WORLD FACT the theorem rests on: the automaton `run` has a transition for every call site of the census
   C14_write_site_census and for nothing else.  Programs are sequences over: a control frame of the peer met by
   poll_control (with the role handlers: SETTINGS, GOAWAY incl. H3_ID_ERROR and the client's request-id test,
   MAX_PUSH_ID / CANCEL_PUSH, skipped unknown types, illegal frames = connection error; the grease stream advances only
   here), accept() idle (final GOAWAY once a GOAWAY was received and nothing is ongoing), accept + resolve with its
   outcomes (handle, 431 answer, stream / connection error), send_request, send_response / send_trailers, send_data,
   finish, stop_stream, a peer STOP_SENDING, drop, shutdown(n).  NOT in the alphabet (premises): RequestStream::split(),
   SendRequest clones, and direct calls of the public plumbing `conn.inner.send_control_stream_headers()` /
   `conn.inner.shutdown::<T>()` - calling the former twice does put a second SETTINGS on the control stream. *)
Theorem C14_write_site_census : write_sites = expected_write_sites.
Proof. exact gen_write_sites. Qed.

Theorem C14_writer_call_graph : writer_calls = expected_writer_calls.
Proof. exact gen_writer_calls. Qed.

Theorem C14_program_output_valid :
  forall server cfg g prog, g < grease_range -> Forall op_ok prog ->
    exists r, run server cfg g prog = Ok r /\
      match r with
      | Some c => Forall wire_valid (c_streams c) /\
                  Forall (fun s => Forall (fun o => wb_inv (fst o)) (s_out s)) (c_streams c) /\
                  Forall (fun s => s_kind s <> KGrease -> Forall (fun o => snd o = None) (s_out s)) (c_streams c)
      | None => True
      end.
Proof. exact program_output_valid. Qed.

(* the wire bytes of a stream are what ANY per-buffer acceptance scripts deliver (complete ones; for the grease
   buffer whatever number of bytes the transport took) *)
Theorem C14_scripts_deliver_the_wire :
  forall os, Forall (fun o => wb_inv (fst o)) os ->
    forall kss outs, delivered os kss outs -> concat outs = concat (map out_bytes os).
Proof. exact delivered_is_wire. Qed.

(* both quantifiers at once: every program, every stream of its final state, every family of acceptance scripts *)
Theorem C14_any_program_any_scripts :
  forall server cfg g prog c, g < grease_range -> Forall op_ok prog -> run server cfg g prog = Ok (Some c) ->
    forall s, In s (c_streams c) ->
      wire_valid s /\
      forall kss outs, delivered (s_out s) kss outs -> concat outs = stream_wire s.
Proof. exact any_program_any_scripts. Qed.
Theorem C14_program_never_panics :
  forall server cfg g prog, g < grease_range -> Forall op_ok prog -> exists r, run server cfg g prog = Ok r.
Proof. exact program_never_panics. Qed.

(* the verdicts spelled out *)
Theorem C14_request_frames_allowed :
  forall fs, Forall req_frame_ok fs ->
    rfc_judge_request (frames_bytes fs) = VRequest fs /\
    Forall (fun f => rfc_h2_frame (fst f) = false /\
                     (fst f = T_DATA \/ fst f = T_HEADERS \/ (rfc_reserved (fst f) = true /\ fst f < 2 ^ 62))) fs.
Proof. intros fs H. split; [apply request_judged; exact H|apply req_frames_no_h2; exact H]. Qed.
Theorem C14_control_stream_shape :
  forall es ids,
    Forall (fun f => rfc_h2_frame (fst f) = false) (control_frames es ids) /\
    (exists p, control_frames es ids = (T_SETTINGS, p) :: map (fun id => (T_GOAWAY, rfc_varint id)) ids).
Proof. exact control_frames_no_h2. Qed.
Theorem C14_settings_identifiers :
  forall es, settings_good es ->
    NoDup (map fst es) /\
    Forall (fun e => rfc_h2_setting (fst e) = false /\ (rfc_known_setting (fst e) = true \/ rfc_reserved (fst e) = true) /\
                     fst e < 2 ^ 62 /\ snd e < 2 ^ 62) es.
Proof. exact settings_good_ids. Qed.
Theorem C14_grease_identifiers :
  forall g, g < grease_range -> rfc_reserved (grease_id g) = true /\ grease_id g < 2 ^ 62 /\ grease_id g = 31 * g + 33.
Proof. intros g H. split; [apply grease_id_reserved|split; [apply grease_id_range; exact H|reflexivity]]. Qed.

(* ---------------- examples ---------------- *)
Example C14_data_inhabited :
  exists w, wb_from_frame (FData [[1; 2]; [3]]) = Ok w /\ wb_view w = [0; 3; 1; 2; 3] /\
            wb_consume [1; 1; 5; 5] w = Ok ([0; 3; 1; 2; 3], {| w_buf := w_buf w; w_len := 2; w_pos := 2; w_frame := Some (FData []) |}).
Proof. eexists. repeat split; vm_compute; reflexivity. Qed.

Definition ex_cfg : config := {| cf_grease := true; cf_mfs := 1000; cf_ext := false; cf_wt := false; cf_dgram := true; cf_wtn := 0 |}.
Definition ex_prog : list op :=
  [OPeerControl PSettings 1 2 None; OAccept 0 (AHandle false); OHeaders 0 (Some [0; 0; 217]); OData 0 [[104; 105]]; OFinish 0 7; OShutdown 2].
Example C14_program_inhabited :
  Forall op_ok ex_prog /\
  match run true ex_cfg 5 ex_prog with
  | Ok (Some c) =>
      map (fun s => (s_id s, stream_wire s)) (c_streams c) =
        [ (3,  [0; 4; 20; 64; 188; 0; 6; 67; 232; 8; 0; 171; 96; 55; 66; 0; 51; 1; 171; 96; 55; 67; 0;  7; 1; 12]);
          (11, [3]); (7, [2]);
          (15, [64; 64; 64; 95; 6; 103; 114; 101; 97; 115; 101]);
          (0,  [1; 3; 0; 0; 217;  0; 2; 104; 105;  64; 250; 6; 103; 114; 101; 97; 115; 101]) ]
  | _ => False
  end.
Proof.
  split.
  - unfold ex_prog. repeat constructor; try (vm_compute; reflexivity); try discriminate.
  - vm_compute. reflexivity.
Qed.

(* a peer GOAWAY: the server finishes its grease stream on the next returned frame, and once the request is dropped an
   idle accept() sends the final GOAWAY (id 4 = last accepted + 4) *)
Example C14_peer_goaway_inhabited :
  match run true ex_cfg 5 [OPeerControl PSettings 1 2 (Some 3); OAccept 0 (AHandle false); OPeerControl (PGoaway 0) 9 9 None;
                           OPoll; ODrop 0; OPoll; OPeerControl (PGoaway 4) 9 9 None; OAccept 4 (AHandle false)] with
  | Ok (Some c) =>
      map (fun s => (s_id s, s_fin s, stream_wire s)) (c_streams c) =
        [ (3, false, [0; 4; 20; 64; 188; 0; 6; 67; 232; 8; 0; 171; 96; 55; 66; 0; 51; 1; 171; 96; 55; 67; 0;  7; 1; 4]);
          (11, false, [3]); (7, false, [2]);
          (15, true, [64; 64; 64; 95; 6; 103; 114; 101; 97; 115; 101]);
          (0, false, []); (4, false, []) ] /\ c_conn_error c = true
  | _ => False
  end.
Proof. vm_compute. split; reflexivity. Qed.

(* observation: Frame::PushPromise encodes its field section into the header array AND exposes it as the payload,
   so a WriteBuf built from it would carry the section twice behind a length that covers it once (and panics
   above ~58 bytes).  h3 never builds one for sending (no server push; the fields are private and only
   Frame::decode creates the variant, as Frame<PayloadLen>), so no program of T3 reaches it. *)
Example C14_push_promise_observation :
  exists w, wb_from_frame (FPushPromise 1 [9; 8]) = Ok w /\ wb_view w = [5; 3; 1; 9; 8; 9; 8] /\
            rfc_judge_request (wb_view w) = VBad 3.
Proof. eexists. repeat split; vm_compute; reflexivity. Qed.

Print Assumptions C14_any_acceptance_script.
Print Assumptions C14_script_independent.
Print Assumptions C14_any_consumer.
Print Assumptions C14_remaining_exact.
Print Assumptions C14_chunk_nonempty_prefix.
Print Assumptions C14_advance_exact.
Print Assumptions C14_advance_past_end.
Print Assumptions C14_from_frame.
Print Assumptions C14_data_frame_length_field.
Print Assumptions C14_headers_frame_length_field.
Print Assumptions C14_from_pair.
Print Assumptions C14_from_uni_header.
Print Assumptions C14_from_stream_type.
Print Assumptions C14_from_bidi_header.
Print Assumptions C14_header_fits.
Print Assumptions C14_config_settings_fit.
Print Assumptions C14_chunks_vectored_default.
Print Assumptions C14_copy_to_bytes_exact.
Print Assumptions C14_write_site_census.
Print Assumptions C14_writer_call_graph.
Print Assumptions C14_program_output_valid.
Print Assumptions C14_scripts_deliver_the_wire.
Print Assumptions C14_any_program_any_scripts.
Print Assumptions C14_program_never_panics.
Print Assumptions C14_request_frames_allowed.
Print Assumptions C14_control_stream_shape.
Print Assumptions C14_settings_identifiers.
Print Assumptions C14_grease_identifiers.
