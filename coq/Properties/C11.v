(* C11 - QPACK field sections: what h3 writes and accepts is RFC 9204, exactly.
   Model: Model/QpackStateless.v + Model/Static.v (over Gen/GenStatic.v, Gen/GenQStateless.v and the C15 codecs).
   Specification: Spec/RFC9204Static.v (grammar [section], reference decoder [rfc_decode_static]) and
   Spec/RFC9204AppendixA.v (the static table as text). *)
From H3V Require Import Base.Bytes Gen.GenStatic Spec.PrefixInt Spec.RFC7541Huffman Spec.HuffmanKnown
  Spec.RFC9204AppendixA Spec.RFC9204Static Spec.FieldSize
  Model.PrefixInt Model.Huffman Model.PrefixString Model.Static Model.QpackStateless Model.SectionLimit
  Proofs.HuffmanDecodeProofs Proofs.StaticTableProofs Proofs.QpackSpecLemmas Proofs.QpackStatelessProofs Proofs.QpackEncodeProofs Proofs.QpackRoundtrip Proofs.SectionLimitProofs.

(* ================================================================ T1: h3 writes RFC 9204 *)

(* order and duplicates are preserved because [section] relates the LIST fs, line by line; the returned size is
   the RFC 9114 4.2.2 size.  [wf_field]: octets, strings shorter than 2^26 (h3's Huffman codec addresses bits with u32) *)
Theorem C11_encode_writes_rfc9204 :
  forall fs, Forall wf_field fs ->
    exists bs, encode_stateless fs = Ok (bs, section_size fs) /\ wf_bytes bs /\ section fs bs /\
               rfc_decode_static bs = Some fs.
Proof.
  intros fs Hwf. destruct (encode_writes_rfc fs Hwf) as (bs & He & Hwb & Hs).
  exists bs. repeat split; try assumption. apply rfc_decode_static_iff; assumption.
Qed.

(* the round trip through h3's OWN decoder: same list, same order, same size, and accepted under every limit the
   size fits.  [small_field]: octets, strings shorter than 2^26 (h3's Huffman decoder addresses bits with u32) *)
Theorem C11_roundtrip :
  forall fs, Forall small_field fs ->
    exists bs, encode_stateless fs = Ok (bs, section_size fs) /\ wf_bytes bs /\
               decode_stateless None bs = Ok (fs, section_size fs) /\
               forall L, section_size fs <= L -> decode_stateless (Some L) bs = Ok (fs, section_size fs).
Proof. exact stateless_roundtrip. Qed.

(* length of the block h3 writes, against the RFC 9114 size of the list *)
Theorem C11_encoded_block_length :
  forall fs bs size, Forall wf_field fs -> encode_stateless fs = Ok (bs, size) ->
    len bs + 106 * N.of_nat (length fs) <= 2 + 4 * section_size fs.
Proof. exact encode_stateless_length. Qed.

(* the executable oracle IS the grammar *)
Theorem C11_reference_decoder_decides_grammar :
  forall bs fs, wf_bytes bs -> (rfc_decode_static bs = Some fs <-> section fs bs).
Proof. exact rfc_decode_static_iff. Qed.

(* ================================================================ T2: h3 accepts only RFC 9204, and agrees *)

(* complete form: in the known class F15b too, nothing but the documented lax Huffman reading is accepted *)
Theorem C11_accepts_only_rfc9204_or_known_class :
  forall bs fs m, wf_bytes bs -> decode_stateless None bs = Ok (fs, m) ->
    section_g hs_lax fs bs /\ m = section_size fs.
Proof. exact decode_accepts_lax. Qed.

(* outside the known class: exactly the RFC grammar, and the result is the encoded list *)
Theorem C11_accepts_only_rfc9204_outside_known_class :
  forall bs fs m, wf_bytes bs -> no_known_huffman bs -> decode_stateless None bs = Ok (fs, m) -> section fs bs.
Proof. exact decode_accepts_only_rfc. Qed.

Theorem C11_agrees_with_reference_decoder :
  forall bs fs m, wf_bytes bs -> no_known_huffman bs -> decode_stateless None bs = Ok (fs, m) ->
    rfc_decode_static bs = Some fs.
Proof.
  intros bs fs m Hwf Hnk H. apply rfc_decode_static_iff; [exact Hwf|].
  exact (decode_accepts_only_rfc bs fs m Hwf Hnk H).
Qed.

(* the premise [no_known_huffman] is decidable by running two decoders *)
Theorem C11_known_class_premise_decidable :
  forall bs, wf_bytes bs -> fits_u32 bs ->
    (no_known_huffman bs <->
     forall fs, ref_section rfc_pi_decode hdec_model bs = Some fs -> rfc_decode_static bs = Some fs).
Proof. exact no_known_huffman_iff_oracles. Qed.

(* the strict statement is FALSE for h3 today (open known finding F15b seen through a string literal):
   00 00 51 81 ff = prefix, literal with name reference to static entry 1 (:path), Huffman value of one octet ff *)
Theorem C11_strictness_refuted :
  exists bs fs m, wf_bytes bs /\ decode_stateless None bs = Ok (fs, m) /\ rfc_decode_static bs = None /\
                  ~ (exists fs', section fs' bs).
Proof.
  exists [0; 0; 81; 129; 255], [([58; 112; 97; 116; 104], [])], 37.
  assert (Hwf : wf_bytes [0; 0; 81; 129; 255]) by (repeat constructor; reflexivity).
  split; [exact Hwf|]. split; [vm_compute; reflexivity|]. split; [vm_compute; reflexivity|].
  intros [fs' Hs]. apply rfc_decode_static_iff in Hs; [|exact Hwf]. vm_compute in Hs. discriminate.
Qed.

(* ================================================================ T3: rejections *)

Theorem C11_rejects_everything_else :
  forall bs, wf_bytes bs -> no_known_huffman bs -> ~ (exists fs, section fs bs) ->
    exists e, decode_stateless None bs = Err e /\ decompression_failed e = true.
Proof. exact decode_rejects_non_rfc. Qed.

Theorem C11_never_panics_on_any_input :
  forall max bs, wf_bytes bs -> is_panic (decode_stateless max bs) = false /\ decode_stateless max bs <> Err DOutOfFuel.
Proof.
  intros max bs Hwf. split.
  - exact (decode_stateless_no_panic max bs Hwf).
  - exact (decode_stateless_never_out_of_fuel max bs Hwf).
Qed.

Theorem C11_every_refusal_is_decompression_failed :
  forall bs e, wf_bytes bs -> decode_stateless None bs = Err e -> decompression_failed e = true.
Proof. exact decode_stateless_err_class. Qed.

(* named corollaries *)
Theorem C11_rejects_nonzero_required_insert_count :
  forall max bs f ric r, wf_bytes bs -> rfc_pi_decode 8 bs = Some (f, ric, r) -> ric <> 0 ->
    exists e, decode_stateless max bs = Err e /\ decompression_failed e = true.
Proof. exact reject_required_insert_count. Qed.

Theorem C11_rejects_negative_base :
  forall max bs f r1 delta r2, wf_bytes bs ->
    rfc_pi_decode 8 bs = Some (f, 0, r1) -> rfc_pi_decode 7 r1 = Some (1, delta, r2) ->
    exists e, decode_stateless max bs = Err e /\ decompression_failed e = true.
Proof. exact reject_negative_base. Qed.

Theorem C11_rejects_post_base_forms :
  forall first t, first < 32 -> field_decode (first :: t) = Err (DMissingRefs 0).
Proof. exact reject_post_base_forms. Qed.

Theorem C11_rejects_dynamic_indexed :
  forall first t, wf_bytes (first :: t) -> 128 <= first < 192 ->
    exists e, field_decode (first :: t) = Err e /\ decompression_failed e = true.
Proof. exact reject_dynamic_indexed. Qed.

Theorem C11_rejects_dynamic_name_reference :
  forall first t, wf_bytes (first :: t) -> 64 <= first < 128 -> (first / 16) mod 2 = 0 ->
    exists e, field_decode (first :: t) = Err e /\ decompression_failed e = true.
Proof. exact reject_dynamic_name_reference. Qed.

Theorem C11_rejects_static_index_out_of_range :
  forall bs fl i r, wf_bytes bs ->
    (rfc_pi_decode 6 bs = Some (fl, i, r) /\ (exists b t, bs = b :: t /\ 128 <= b) \/
     rfc_pi_decode 4 bs = Some (fl, i, r) /\ (exists b t, bs = b :: t /\ 64 <= b < 128)) ->
    99 <= i ->
    exists e, field_decode bs = Err e /\ decompression_failed e = true.
Proof. exact reject_static_index_out_of_range. Qed.

(* truncated / overflowing integers and bad strings, position by position (pi_decode / ps_decode failing is
   characterised against RFC 7541 5.1 / 5.2 by C15) *)
Theorem C11_rejects_bad_prefix_integers :
  forall max bs e, wf_bytes bs ->
    (pi_decode 8 bs = Err e \/ exists f ric r, pi_decode 8 bs = Ok (f, ric, r) /\ pi_decode 7 r = Err e) ->
    decode_stateless max bs = Err (DInvalidInteger e).
Proof. exact reject_bad_prefix_integers. Qed.

Theorem C11_rejects_indexed_bad_index :
  forall first t e, wf_bytes (first :: t) -> 128 <= first -> pi_decode 6 (first :: t) = Err e ->
    field_decode (first :: t) = Err (DInvalidInteger e).
Proof. exact reject_indexed_bad_index. Qed.

Theorem C11_rejects_name_reference_bad_index :
  forall first t e, wf_bytes (first :: t) -> 64 <= first < 128 -> pi_decode 4 (first :: t) = Err e ->
    field_decode (first :: t) = Err (DInvalidInteger e).
Proof. exact reject_name_reference_bad_index. Qed.

Theorem C11_rejects_name_reference_bad_value_string :
  forall first t fl i r e, wf_bytes (first :: t) -> 64 <= first < 128 ->
    pi_decode 4 (first :: t) = Ok (fl, i, r) -> ps_decode 8 r = Err e ->
    field_decode (first :: t) = Err (DInvalidString e) \/ field_decode (first :: t) = Err (DInvalidInteger PiOverflow).
Proof. exact reject_name_reference_bad_value. Qed.

Theorem C11_rejects_literal_bad_name_string :
  forall first t e, wf_bytes (first :: t) -> 32 <= first < 64 -> ps_decode 4 (first :: t) = Err e ->
    field_decode (first :: t) = Err (DInvalidString e).
Proof. exact reject_literal_bad_name. Qed.

Theorem C11_rejects_literal_bad_value_string :
  forall first t name r e, wf_bytes (first :: t) -> 32 <= first < 64 ->
    ps_decode 4 (first :: t) = Ok (name, r) -> ps_decode 8 r = Err e ->
    field_decode (first :: t) = Err (DInvalidString e).
Proof. exact reject_literal_bad_value. Qed.

(* ---- the call sites: production always passes a finite limit; acceptance under a limit is acceptance without one, so
        T2 covers every acceptance; and a refusal that is not header-too-big is a CONNECTION error carrying
        QPACK_DECOMPRESSION_FAILED = 0x200 at each of the three receive sites (codes read from the source) ---- *)
Theorem C11_acceptance_under_a_limit_is_acceptance :
  forall L bs r, decode_stateless (Some L) bs = Ok r -> decode_stateless None bs = Ok r.
Proof. exact decode_limit_ok_is_unlimited_ok. Qed.

Theorem C11_bad_section_is_connection_error_0x200_at_every_site :
  forall own ps bs e, wf_bytes bs -> decode_stateless None bs = Err e ->
    (forall site, In site [ro_result (server_recv_request own ps bs); ro_result (client_recv_response own ps bs);
                           ro_result (server_recv_trailers own ps bs); ro_result (client_recv_trailers own ps bs)] ->
       site = RecvConnError 512 \/ exists a m, site = RecvTooBig a m) /\
    (decode_stateless (Some own) bs = Err e ->
       ro_result (server_recv_request own ps bs) = RecvConnError 512 /\
       ro_result (client_recv_response own ps bs) = RecvConnError 512 /\
       ro_result (server_recv_trailers own ps bs) = RecvConnError 512 /\
       ro_result (client_recv_trailers own ps bs) = RecvConnError 512).
Proof.
  intros own ps bs e Hwf He. split.
  - exact (bad_section_at_receive_sites own ps bs e Hwf He).
  - exact (bad_section_is_connection_error_512 own ps bs e Hwf He).
Qed.

(* a refused line refuses the section: [reaches r t] = t is what is left of r after some complete field lines *)
Theorem C11_line_error_fails_section :
  forall bs delta r t e, wf_bytes bs -> hp_decode bs = Ok (0, false, delta, r) -> reaches r t -> t <> [] ->
    field_decode t = Err e -> decode_stateless None bs = Err e.
Proof. exact line_error_fails_section. Qed.

(* T3 without any premise on the known class, in executable form *)
Theorem C11_rejects_what_reference_rejects :
  forall bs, wf_bytes bs -> ref_section rfc_pi_decode hdec_model bs = None ->
    exists e, decode_stateless None bs = Err e /\ decompression_failed e = true.
Proof. exact decode_rejects_what_reference_rejects. Qed.

(* ================================================================ T4: table facts *)

Theorem C11_static_rows_are_rfc9204_appendix_a :
  static_rows = rfc9204_static_table /\ rfc9204_static_table = rfc9204_static_transcription.
Proof. split; [exact static_rows_are_rfc | exact rfc_table_is_transcription]. Qed.

Theorem C11_static_get_is_rfc : forall i, st_get i = rfc_static i.
Proof. exact st_get_is_rfc. Qed.

Theorem C11_find_arms_point_at_their_rows :
  forall n v i, In (n, v, i) static_find_arms -> st_get i = Some (n, v).
Proof. exact find_arms_point_at_rows. Qed.

Theorem C11_find_name_arms_point_at_their_rows :
  forall n i, In (n, i) static_find_name_arms -> exists v, st_get i = Some (n, v).
Proof. exact find_name_arms_point_at_rows. Qed.

Theorem C11_no_find_arm_shadowed :
  (forall n v i, In (n, v, i) static_find_arms -> st_find (n, v) = Some i) /\
  (forall n i, In (n, i) static_find_name_arms -> st_find_name n = Some i).
Proof. split; [exact find_arms_not_shadowed | exact find_name_arms_not_shadowed]. Qed.

Theorem C11_every_row_is_found : forall i f, st_get i = Some f -> st_find f = Some i.
Proof. exact every_row_is_found. Qed.

(* ================================================================ non-vacuity *)

Example C11_corpus_inhabited :
  decode_stateless None [0; 0; 209] = Ok ([([58; 109; 101; 116; 104; 111; 100], [71; 69; 84])], 42) /\
  decode_stateless None [5; 0; 209] = Err (DMissingRefs 5) /\
  decode_stateless None [0; 128; 209] = Err (DBadBaseIndex 0).
Proof. vm_compute. repeat split. Qed.

(* three fields, one per representation (indexed, name reference, literal name), read back by the oracle *)
Example C11_encode_inhabited :
  exists bs, encode_stateless [([58; 112; 97; 116; 104], [47]); ([58; 112; 97; 116; 104], [47; 97]); ([102; 111; 111], [98; 97; 114])]
             = Ok (bs, 115) /\
             rfc_decode_static bs = Some [([58; 112; 97; 116; 104], [47]); ([58; 112; 97; 116; 104], [47; 97]); ([102; 111; 111], [98; 97; 114])].
Proof. eexists. split; vm_compute; reflexivity. Qed.

(* the premise of T2/T3 holds for ordinary inputs (here: an input with a Huffman-coded literal name and value) *)
Example C11_no_known_huffman_inhabited :
  no_known_huffman [0; 0; 42; 148; 231; 3; 98; 97; 114] /\
  exists fs m, decode_stateless None [0; 0; 42; 148; 231; 3; 98; 97; 114] = Ok (fs, m).
Proof.
  split.
  - apply no_known_huffman_iff_oracles; [repeat constructor; reflexivity|vm_compute; reflexivity|].
    intros fs Hr. vm_compute in Hr. inversion Hr; subst. vm_compute. reflexivity.
  - eexists. eexists. vm_compute. reflexivity.
Qed.

Print Assumptions C11_encode_writes_rfc9204.
Print Assumptions C11_roundtrip.
Print Assumptions C11_encoded_block_length.
Print Assumptions C11_reference_decoder_decides_grammar.
Print Assumptions C11_accepts_only_rfc9204_or_known_class.
Print Assumptions C11_accepts_only_rfc9204_outside_known_class.
Print Assumptions C11_agrees_with_reference_decoder.
Print Assumptions C11_known_class_premise_decidable.
Print Assumptions C11_strictness_refuted.
Print Assumptions C11_rejects_everything_else.
Print Assumptions C11_never_panics_on_any_input.
Print Assumptions C11_every_refusal_is_decompression_failed.
Print Assumptions C11_rejects_nonzero_required_insert_count.
Print Assumptions C11_rejects_negative_base.
Print Assumptions C11_rejects_post_base_forms.
Print Assumptions C11_rejects_dynamic_indexed.
Print Assumptions C11_rejects_dynamic_name_reference.
Print Assumptions C11_rejects_static_index_out_of_range.
Print Assumptions C11_rejects_bad_prefix_integers.
Print Assumptions C11_rejects_indexed_bad_index.
Print Assumptions C11_rejects_name_reference_bad_index.
Print Assumptions C11_rejects_name_reference_bad_value_string.
Print Assumptions C11_rejects_literal_bad_name_string.
Print Assumptions C11_rejects_literal_bad_value_string.
Print Assumptions C11_acceptance_under_a_limit_is_acceptance.
Print Assumptions C11_bad_section_is_connection_error_0x200_at_every_site.
Print Assumptions C11_line_error_fails_section.
Print Assumptions C11_rejects_what_reference_rejects.
Print Assumptions C11_static_rows_are_rfc9204_appendix_a.
Print Assumptions C11_static_get_is_rfc.
Print Assumptions C11_find_arms_point_at_their_rows.
Print Assumptions C11_find_name_arms_point_at_their_rows.
Print Assumptions C11_no_find_arm_shadowed.
Print Assumptions C11_every_row_is_found.
