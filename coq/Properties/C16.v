(* C16 - Variable-length integers and stream-ID arithmetic match RFC 9000.
   Only pinned statements: each is closed by [exact] of a lemma of Proofs/VarintCore.v / Proofs/VarintExtraProofs.v. *)
From H3V Require Import Base.Bytes Spec.RFC9000 Model.Varint Model.VarintExtra Proofs.VarintCore Proofs.VarintExtraProofs.

(* T1: every value below 2^62 round-trips, whatever follows it in the buffer *)
Theorem C16_roundtrip :
  forall x r, x < 2 ^ 62 -> wf_bytes r ->
    exists e, vi_encode x = Some e /\ wf_bytes e /\ vi_decode (e ++ r) = (Ok x, r).
Proof. exact vi_roundtrip. Qed.

(* T2: it is written in the shortest of the four forms, as RFC 9000 lays the bytes out *)
Theorem C16_shortest_form :
  forall x, x < 2 ^ 62 -> vi_encode x = Some (rfc_vi_enc (rfc_vi_shortest x) x).
Proof. exact vi_encode_shortest. Qed.

Theorem C16_size_is_shortest :
  forall x, x < 2 ^ 62 -> vi_size x = Some (rfc_vi_shortest x).
Proof. exact vi_size_shortest. Qed.

(* T3: every complete encoding, minimal or not, decodes to its RFC value and consumes exactly its length *)
Theorem C16_decode_any_form :
  forall b0 r, wf_bytes (b0 :: r) -> rfc_vi_len b0 <= len (b0 :: r) ->
    let l := N.to_nat (rfc_vi_len b0) in
    vi_decode (b0 :: r) = (Ok (rfc_vi_value (firstn l (b0 :: r))), skipn l (b0 :: r)).
Proof. exact vi_decode_complete. Qed.

(* T4: a truncated encoding is reported as such: the result is the UnexpectedEnd error.  The integer it carries
   and where the reader stands afterwards are not constrained by the property (and not compared by the case run) *)
Theorem C16_truncated :
  forall b0 r, b0 < 256 -> len (b0 :: r) < rfc_vi_len b0 ->
    exists e rest, vi_decode (b0 :: r) = (Err e, rest).
Proof. exact vi_decode_truncated_reported. Qed.

Theorem C16_empty : exists e rest, vi_decode [] = (Err e, rest).
Proof. exact vi_decode_empty_reported. Qed.

Theorem C16_decode_never_panics :
  forall bs, wf_bytes bs -> is_panic (fst (vi_decode bs)) = false.
Proof. exact vi_decode_no_panic. Qed.

(* T5: values of 2^62 or more are refused by the checked constructors (and would be
   `unreachable!` in encode/size, which is why the constructors matter) *)
Theorem C16_from_u64 : forall x, vi_from_u64 x = if x <? 2 ^ 62 then Some x else None.
Proof. exact vi_from_u64_spec. Qed.

Theorem C16_stream_id_try_from : forall v, sid_try_from v = if v <? 2 ^ 62 then Some v else None.
Proof. exact sid_try_from_spec. Qed.

(* every checked constructor, not only from_u64: TryFrom<u64>, TryFrom<usize> (64-bit target) and PushId::try_from *)
Theorem C16_try_from_u64 : forall x, vi_try_from_u64 x = if x <? 2 ^ 62 then Some x else None.
Proof. exact vi_try_from_u64_spec. Qed.
Theorem C16_try_from_usize : forall x, vi_try_from_usize x = if x <? 2 ^ 62 then Some x else None.
Proof. exact vi_try_from_usize_spec. Qed.
Theorem C16_push_id_try_from : forall x, push_id_try_from x = if x <? 2 ^ 62 then Some x else None.
Proof. exact push_id_try_from_spec. Qed.

(* the wrappers h3's frame and stream code actually calls (BufMutExt::write_var, BufExt::get_var, both copies):
   write_var writes the RFC shortest form (and panics on >= 2^62: None), get_var is decode, and they round-trip *)
Theorem C16_write_var :
  forall x, vi_write_var x = if x <? 2 ^ 62 then Some (rfc_vi_enc (rfc_vi_shortest x) x) else None.
Proof. exact vi_write_var_spec. Qed.
Theorem C16_get_var_is_decode : forall bs, vi_get_var bs = vi_decode bs.
Proof. exact vi_get_var_is_decode. Qed.
Theorem C16_write_get_roundtrip :
  forall x r, x < 2 ^ 62 -> wf_bytes r ->
    exists e, vi_write_var x = Some e /\ vi_get_var (e ++ r) = (Ok x, r).
Proof. exact vi_write_get_roundtrip. Qed.

(* SessionId::try_from (webtransport/session_id.rs) has its own comparison: it refuses exactly the values >= 2^62;
   an accepted session id is written in the shortest form and read back *)
Theorem C16_session_id_try_from : forall v, sess_try_from v = if v <? 2 ^ 62 then Some v else None.
Proof. exact sess_try_from_spec. Qed.
Theorem C16_session_id_encode :
  forall v id, sess_try_from v = Some id ->
    id = v /\ sess_encode id = Some (rfc_vi_enc (rfc_vi_shortest id) id).
Proof. exact sess_encode_spec. Qed.
Theorem C16_session_id_roundtrip :
  forall v r, v < 2 ^ 62 -> wf_bytes r ->
    exists e, sess_try_from v = Some v /\ sess_encode v = Some e /\ sess_decode (e ++ r) = (Ok v, r).
Proof. exact sess_roundtrip. Qed.

(* the other varint writers / readers of proto/stream.rs: Encode for StreamId, StreamType::{encode,decode} *)
Theorem C16_stream_id_encode :
  forall id, sid_encode id = if id <? 2 ^ 62 then Some (rfc_vi_enc (rfc_vi_shortest id) id) else None.
Proof. exact sid_encode_spec. Qed.
Theorem C16_stream_id_encode_roundtrip :
  forall id r, id < 2 ^ 62 -> wf_bytes r ->
    exists e, sid_encode id = Some e /\ vi_decode (e ++ r) = (Ok id, r).
Proof. exact sid_encode_roundtrip. Qed.
Theorem C16_stream_type_encode :
  forall v, st_encode v = if v <? 2 ^ 62 then Some (rfc_vi_enc (rfc_vi_shortest v) v) else None.
Proof. exact st_encode_spec. Qed.
Theorem C16_stream_type_decode_any_form :
  forall b0 r, wf_bytes (b0 :: r) -> rfc_vi_len b0 <= len (b0 :: r) ->
    let l := N.to_nat (rfc_vi_len b0) in
    st_decode (b0 :: r) = (Ok (rfc_vi_value (firstn l (b0 :: r))), skipn l (b0 :: r)).
Proof. exact st_decode_complete. Qed.
Theorem C16_stream_type_truncated :
  forall b0 r, b0 < 256 -> len (b0 :: r) < rfc_vi_len b0 ->
    exists e rest, st_decode (b0 :: r) = (Err e, rest).
Proof. exact st_decode_truncated_reported. Qed.
Theorem C16_stream_type_roundtrip :
  forall v r, v < 2 ^ 62 -> wf_bytes r ->
    exists e, st_encode v = Some e /\ st_decode (e ++ r) = (Ok v, r).
Proof. exact st_roundtrip. Qed.

Theorem C16_encode_out_of_range : forall x, 2 ^ 62 <= x -> vi_encode x = None.
Proof. exact vi_encode_unreachable. Qed.

Theorem C16_encoded_size : forall b, vi_encoded_size b = rfc_vi_len b.
Proof. exact vi_encoded_size_spec. Qed.

(* T6: initiator, direction, index as RFC 9000 2.1 defines them *)
Theorem C16_initiator : forall id, sid_initiator id = if rfc_sid_client id then Client else Server.
Proof. exact sid_initiator_spec. Qed.
Theorem C16_direction : forall id, sid_dir id = if rfc_sid_bidi id then Bi else Uni.
Proof. exact sid_dir_spec. Qed.
Theorem C16_index : forall id, sid_index id = rfc_sid_index id.
Proof. exact sid_index_spec. Qed.
Theorem C16_is_request : forall id, sid_is_request id = rfc_sid_bidi id && rfc_sid_client id.
Proof. exact sid_is_request_spec. Qed.
Theorem C16_is_push : forall id, sid_is_push id = negb (rfc_sid_bidi id) && negb (rfc_sid_client id).
Proof. exact sid_is_push_spec. Qed.

(* Display for StreamId (the only public reporter of initiator and direction): the initiator word, the direction
   word and the number it prints are the RFC 9000 initiator, direction and index *)
Theorem C16_display :
  forall id, sid_display id = (if rfc_sid_client id then Client else Server,
                               if rfc_sid_bidi id then Bi else Uni,
                               rfc_sid_index id).
Proof. exact sid_display_spec. Qed.

(* T7: advancing by n saturates at the largest valid id of the same kind; never overflows *)
Theorem C16_add_saturates :
  forall id rhs, id < 2 ^ 62 -> rhs < 2 ^ 64 ->
    let id' := sid_add id rhs in
    id' < 2 ^ 62 /\
    rfc_sid_client id' = rfc_sid_client id /\
    rfc_sid_bidi id' = rfc_sid_bidi id /\
    rfc_sid_index id' = N.min (rfc_sid_index id + rhs) (2 ^ 60 - 1).
Proof. exact sid_add_valid. Qed.

(* non-vacuity *)
Example C16_roundtrip_inhabited :
  vi_encode 16384 = Some [128; 0; 64; 0] /\ vi_decode ([128; 0; 64; 0] ++ [7]) = (Ok 16384, [7]).
Proof. vm_compute. split; reflexivity. Qed.
Example C16_nonminimal_inhabited : vi_decode [64; 5; 9] = (Ok 5, [9]).
Proof. vm_compute. reflexivity. Qed.
Example C16_truncated_inhabited : vi_decode [192; 1; 2] = (Err 3, [1; 2]).
Proof. vm_compute. reflexivity. Qed.
Example C16_session_id_inhabited :
  sess_try_from 4611686018427387903 = Some 4611686018427387903 /\ sess_try_from 4611686018427387904 = None.
Proof. vm_compute. split; reflexivity. Qed.
Example C16_stream_id_encode_inhabited : sid_encode 0 = Some [0] /\ st_encode 84 = Some [64; 84].
Proof. vm_compute. split; reflexivity. Qed.
Example C16_display_inhabited : sid_display 7 = (Server, Uni, 1).
Proof. vm_compute. reflexivity. Qed.
Example C16_add_inhabited : sid_add 7 18446744073709551615 = 4611686018427387903.
Proof. vm_compute. reflexivity. Qed.

Print Assumptions C16_roundtrip.
Print Assumptions C16_shortest_form.
Print Assumptions C16_size_is_shortest.
Print Assumptions C16_decode_any_form.
Print Assumptions C16_truncated.
Print Assumptions C16_empty.
Print Assumptions C16_decode_never_panics.
Print Assumptions C16_from_u64.
Print Assumptions C16_stream_id_try_from.
Print Assumptions C16_try_from_u64.
Print Assumptions C16_try_from_usize.
Print Assumptions C16_push_id_try_from.
Print Assumptions C16_write_var.
Print Assumptions C16_get_var_is_decode.
Print Assumptions C16_write_get_roundtrip.
Print Assumptions C16_session_id_try_from.
Print Assumptions C16_session_id_encode.
Print Assumptions C16_session_id_roundtrip.
Print Assumptions C16_stream_id_encode.
Print Assumptions C16_stream_id_encode_roundtrip.
Print Assumptions C16_stream_type_encode.
Print Assumptions C16_stream_type_decode_any_form.
Print Assumptions C16_stream_type_truncated.
Print Assumptions C16_stream_type_roundtrip.
Print Assumptions C16_display.
Print Assumptions C16_encode_out_of_range.
Print Assumptions C16_encoded_size.
Print Assumptions C16_initiator.
Print Assumptions C16_direction.
Print Assumptions C16_index.
Print Assumptions C16_is_request.
Print Assumptions C16_is_push.
Print Assumptions C16_add_saturates.

(* ---------------- decoding from a NON-CONTIGUOUS `Buf` (round 3) ----------------
   Model/ChunkedBuf.v: a queue of non-empty chunks with the three required Buf methods; Model/ChunkedVarint.v:
   VarInt::decode written against has_remaining / get_u8 / remaining / copy_to_slice (the bytes-crate provided methods,
   themselves loops over chunk() / advance()).  [cb_wf cs]: no chunk is empty (the bytes::Buf contract). *)
From H3V Require Import Model.ChunkedBuf Model.ChunkedVarint Proofs.ChunkedBufProofs Proofs.ChunkedVarintProofs.

(* for EVERY chunking of the input the result (value or error) is that of the flat decoder on the concatenation, the
   buffer left behind holds exactly the flat decoder's rest, and still has no empty chunk *)
Theorem C16_decode_any_chunking :
  forall cs, cb_wf cs ->
    fst (vi_decode_buf cs) = fst (vi_decode (concat cs)) /\
    concat (snd (vi_decode_buf cs)) = snd (vi_decode (concat cs)) /\
    cb_wf (snd (vi_decode_buf cs)).
Proof. exact vi_decode_buf_flat. Qed.

(* hence RFC 9000 for every chunking: a complete encoding (minimal or not) cut anywhere decodes to its RFC value and
   exactly its length is consumed; a truncated one cut anywhere is an error *)
Theorem C16_decode_any_chunking_any_form :
  forall cs b0 r, cb_wf cs -> concat cs = b0 :: r -> wf_bytes (b0 :: r) -> rfc_vi_len b0 <= len (b0 :: r) ->
    let l := N.to_nat (rfc_vi_len b0) in
    fst (vi_decode_buf cs) = Ok (rfc_vi_value (firstn l (b0 :: r))) /\
    concat (snd (vi_decode_buf cs)) = skipn l (b0 :: r).
Proof. exact vi_decode_buf_complete. Qed.
Theorem C16_truncated_any_chunking :
  forall cs b0 r, cb_wf cs -> concat cs = b0 :: r -> b0 < 256 -> len (b0 :: r) < rfc_vi_len b0 ->
    exists e, fst (vi_decode_buf cs) = Err e.
Proof. exact vi_decode_buf_truncated. Qed.

(* the wrappers: BufExt::get_var (both copies), StreamType::decode, SessionId::decode *)
Theorem C16_get_var_any_chunking :
  forall cs, cb_wf cs ->
    fst (vi_get_var_buf cs) = fst (vi_get_var (concat cs)) /\
    concat (snd (vi_get_var_buf cs)) = snd (vi_get_var (concat cs)) /\
    cb_wf (snd (vi_get_var_buf cs)).
Proof. exact vi_get_var_buf_flat. Qed.
Theorem C16_stream_type_decode_any_chunking :
  forall cs, cb_wf cs ->
    fst (st_decode_buf cs) = fst (st_decode (concat cs)) /\
    concat (snd (st_decode_buf cs)) = snd (st_decode (concat cs)) /\
    cb_wf (snd (st_decode_buf cs)).
Proof. exact st_decode_buf_flat. Qed.
Theorem C16_session_id_decode_any_chunking :
  forall cs, cb_wf cs ->
    fst (sess_decode_buf cs) = fst (sess_decode (concat cs)) /\
    concat (snd (sess_decode_buf cs)) = snd (sess_decode (concat cs)) /\
    cb_wf (snd (sess_decode_buf cs)).
Proof. exact sess_decode_buf_flat. Qed.

(* what the code does on a failed decode (a description of the code that exists; the property text demands only "an
   error"): UnexpectedEnd carries the two-bit length tag of the first byte - 0 on an empty buffer, else 1, 2 or 3 for a
   2-, 4-, 8-byte form - not a byte count; an empty buffer is left untouched, otherwise exactly the first byte has been
   consumed (get_u8 runs before the length check) and the truncated tail stays unread, for every chunking *)
Theorem C16_failed_decode_position :
  forall cs e cs', cb_wf cs -> vi_decode_buf cs = (Err e, cs') ->
    (concat cs = [] /\ e = 0 /\ cs' = cs) \/
    (exists b0 r, concat cs = b0 :: r /\ concat cs' = r /\ e = N.shiftr b0 6 /\ 1 <= e <= 3 /\ len (b0 :: r) < 2 ^ e).
Proof. exact vi_decode_buf_failed. Qed.

Example C16_decode_any_chunking_inhabited :
  vi_decode_buf [[128]; [0; 64]; [0; 7]] = (Ok 16384, [[7]]) /\ vi_decode_buf [[64]; [5]; [9]] = (Ok 5, [[9]]).
Proof. vm_compute. split; reflexivity. Qed.
Example C16_failed_decode_position_inhabited :
  vi_decode_buf [[192]; [1]; [2]] = (Err 3, [[1]; [2]]) /\ vi_decode_buf [] = (Err 0, []) /\
  vi_decode_buf [[128; 1]; [2]] = (Err 2, [[1]; [2]]).
Proof. vm_compute. repeat split; reflexivity. Qed.

Print Assumptions C16_decode_any_chunking.
Print Assumptions C16_decode_any_chunking_any_form.
Print Assumptions C16_truncated_any_chunking.
Print Assumptions C16_get_var_any_chunking.
Print Assumptions C16_stream_type_decode_any_chunking.
Print Assumptions C16_session_id_decode_any_chunking.
Print Assumptions C16_failed_decode_position.
