(* C20 - stateful QPACK encoder and decoder stay in agreement.
   Statement: every field section the encoder emits decodes to exactly the original field list once the decoder has
   received the instructions it depends on, and is reported as blocked, not mis-decoded, before that - for every table
   capacity, blocked-stream limit, workload and delivery schedule; the table never exceeds its capacity and an entry
   still referenced by an unacknowledged section is never evicted. *)
From H3V Require Import Base.Bytes Gen.GenQpack Gen.GenStatic Model.Vas Model.DynTable Model.QInstr Model.QEncoder Model.QDecoder Model.QSystem
  Proofs.VasProofs Proofs.QPrefixProofs Proofs.AMapLemmas Proofs.DynTableProofs Proofs.QEncoderProofs Proofs.QSystemProofs
  Proofs.QSimulationProofs Proofs.QDenotationProofs Proofs.QAgreementProofs Proofs.QAccountingProofs
  Model.QWire Model.QBytes Proofs.QBytesProofs.

(* ------------------------------------------------------------------ the source facts the model is built from *)
(* every constant and comparison operator that translate/gen_qpack.py reads from field.rs / dynamic.rs / block.rs / stream.rs
   and that Model/*.v uses: a changed value in the source breaks this proof (all other source text of the seven QPACK files
   is compared whole with the recorded text by the translators) *)
Theorem C20_source_facts :
  (q_overhead, q_cap_max, q_blocked_streams_max, q_max_entries_div_new, q_eic_mul, q_eic_add, q_max_entries_div_get, q_increment_limit)
    = (32, 1073741823, 65535, 32, 2, 1, 32, 64) /\
  (q_set_max_blocked_cmp, q_set_max_size_cmp, q_blocked_gate_cmp, q_can_free_toolarge_cmp, q_can_free_room_cmp,
   q_can_free_loop_cmp, q_can_free_final_cmp, q_register_blocked_cmp)
    = (CGe, CGt, CGe, CGt, CGe, CLe, CLe, CLe) /\
  GenStatic.static_declared_len = 99 /\ length GenStatic.static_rows = 99%nat /\
  length GenStatic.static_find_arms = 99%nat /\ length GenStatic.static_find_name_arms = 52%nat.
Proof. repeat split; reflexivity. Qed.

(* ------------------------------------------------------------------ T1: capacity *)
(* the table invariant dt_ok (size accounting curr_size = sum of entry sizes <= max_size, index space, both look-up maps
   valid, every reference count positive and on a live entry) holds initially and is kept by every operation: *)
Theorem C20_table_invariant_initial : dt_ok dt_new.
Proof. exact dt_new_ok. Qed.
(* ... Encoder::encode, for every stream id and field list *)
Theorem C20_table_invariant_encode : forall t sid fs, dt_ok t -> dt_ok (fst (enc_encode t sid fs)).
Proof. exact enc_encode_ok. Qed.
(* ... Encoder::on_decoder_recv, for ANY decoder-stream input (unknown streams, repeated acks, cancellations, increments) *)
Theorem C20_table_invariant_feedback : forall is t, dt_ok t -> dt_ok (fst (enc_on_decoder_recv t is)).
Proof. exact enc_on_decoder_recv_ok. Qed.
(* ... Decoder::on_encoder_recv, for ANY encoder-stream input (bad indices, capacity updates, oversized entries) *)
Theorem C20_table_invariant_decoder : forall is t, dt_ok t -> dt_track t = [] ->
  dt_ok (fst (dec_apply t is)) /\ dt_track (fst (dec_apply t is)) = [].
Proof. exact dec_apply_ok. Qed.

(* for the connected pair: after every history without a capacity change, on both tables *)
Theorem C20_capacity :
  forall cap blocked s os s', sys_init cap blocked = Some s -> existsb is_resize os = false -> fst (sys_run s os) = s' ->
    dt_curr (s_enc s') = sum_sizes (dt_fields (s_enc s')) /\ dt_curr (s_enc s') <= dt_max (s_enc s') /\
    dt_curr (s_dec s') = sum_sizes (dt_fields (s_dec s')) /\ dt_curr (s_dec s') <= dt_max (s_dec s').
Proof. exact sys_capacity. Qed.

(* a finding outside the quantifier (capacity changes): set_dynamic_table_size to a smaller capacity while entries are
   referenced keeps the entries, curr_size ends above max_size and the next encode panics (subtraction underflow) *)
Theorem C20_capacity_with_resize_refuted :
  exists s os, sys_init 128 10 = Some s /\ os = firstn 2 resize_witness /\
    dt_max (s_enc (fst (sys_run s os))) < dt_curr (s_enc (fst (sys_run s os))) /\
    exists p, nth 2 (snd (sys_run s resize_witness)) RQueued = RPanic p.
Proof. exact sys_capacity_resize_refuted. Qed.

(* ------------------------------------------------------------------ T2: no eviction of referenced entries *)
(* whatever DynamicTable::can_free allows evict() to remove has reference count zero, fits, and exists *)
Theorem C20_evicted_entries_unreferenced :
  forall t required n, dt_ok t -> dt_can_free t required = Ok (Some n) ->
    (N.to_nat n <= length (dt_fields t))%nat /\
    sum_sizes (skipn (N.to_nat n) (dt_fields t)) + required <= dt_max t /\
    (forall i, i < n -> dt_is_tracked t (v_dropped (dt_vas t) + 1 + i) = false).
Proof. exact dt_can_free_spec. Qed.

(* in every reachable state of the pair an entry with a positive reference count is still in the encoder's table *)
Theorem C20_referenced_entries_live :
  forall cap blocked s os s', sys_init cap blocked = Some s -> existsb is_resize os = false -> fst (sys_run s os) = s' ->
    forall r, dt_is_tracked (s_enc s') r = true ->
      vas_live (dt_vas (s_enc s')) r /\ exists f, field_at (s_enc s') r = Some f.
Proof. exact sys_referenced_live. Qed.

(* ------------------------------------------------------------------ T3: index maps *)
Theorem C20_index_maps :
  forall v a, vas_inv v -> vas_live v a -> a < usize_lim ->
    vas_index v (vas_pos v a) = Ok a /\
    vas_relative v (v_inserted v - a) = Ok (vas_pos v a) /\
    (forall base, a <= base -> vas_relative_base v base (base - a) = Ok (vas_pos v a)) /\
    (forall base, base < a -> vas_post_base v base (a - base - 1) = Ok (vas_pos v a)) /\
    vas_evicted v a = false.
Proof. exact vas_index_maps. Qed.

Theorem C20_index_maps_sound :
  forall v, vas_inv v ->
    (forall p a, vas_index v p = Ok a -> vas_live v a /\ vas_pos v a = p) /\
    (forall i p, vas_relative v i = Ok p -> vas_live v (v_inserted v - i) /\ p = vas_pos v (v_inserted v - i)) /\
    (forall base i p, vas_post_base v base i = Ok p -> vas_live v (base + i + 1) /\ p = vas_pos v (base + i + 1)).
Proof. exact vas_maps_sound. Qed.

(* Required Insert Count / Base wrap encoding: get (new r b t m) t' m = (r, b) whenever the decoder's insert count t'
   is within max_entries = m/32 of r (t' - max_entries < r <= t' + max_entries) *)
Theorem C20_prefix_roundtrip :
  forall r b t t' m,
    32 <= m -> 0 < r -> r <= t ->
    t' < r + max_entries m -> r <= t' + max_entries m ->
    r + 4 * max_entries m + t' < usize_lim -> b < usize_lim ->
    exists p, hp_new r b t m = Ok p /\ hp_get p t' m = Ok (r, b) /\ 0 < hp_eic p /\ hp_eic p <= 2 * max_entries m.
Proof. exact hp_roundtrip. Qed.

Theorem C20_prefix_roundtrip_no_refs : forall b t t' m, hp_new 0 b t m = Ok hp_zero /\ hp_get hp_zero t' m = Ok (0, 0).
Proof. exact hp_roundtrip_zero. Qed.

(* the division by max_entries = max_size/32 (zero for capacities 1..31) and the assert are reached only with a non-zero
   Required Insert Count, which needs an inserted entry, which needs a capacity of at least 32 *)
Theorem C20_prefix_panic_sites :
  forall r b t m s, hp_new r b t m = Panic s -> 0 < r /\ 0 < m /\ (t < r \/ m < 32).
Proof. exact hp_new_panics_only_when. Qed.

(* ------------------------------------------------------------------ T4: agreement *)
(* simulation, for every history and every delivery schedule (acknowledgements, cancellations, bare decodes included):
   applying the encoder-stream instructions that are still in flight to the decoder's table succeeds and yields exactly the
   encoder's table (entries, size, capacity, index space) - the decoder's table is the encoder's table "as of instruction k" *)
Theorem C20_decoder_follows_encoder :
  forall cap blocked s os s', sys_init cap blocked = Some s -> existsb is_resize os = false -> fst (sys_run s os) = s' ->
    exists d', dec_apply (s_dec s') (s_eq s') = (d', Ok tt) /\
               dt_fields d' = dt_fields (s_enc s') /\ dt_curr d' = dt_curr (s_enc s') /\ dt_max d' = dt_max (s_enc s') /\
               dt_vas d' = dt_vas (s_enc s').
Proof. exact sys_follows. Qed.

(* Encoder::encode never fails and never panics in a reachable state (this covers the division by max_entries = 0
   for capacities 1..31, the assert in HeaderPrefix::new and every index subtraction of DynamicTableEncoder::insert) *)
Theorem C20_encode_total :
  forall cap blocked s os s' sid fs, sys_init cap blocked = Some s -> existsb is_resize os = false -> fst (sys_run s os) = s' ->
    exists t' e, enc_encode (s_enc s') sid fs = (t', Ok e).
Proof. exact sys_encode_total. Qed.

(* AGREEMENT, full strength.  For every capacity, blocked-stream limit, workload and schedule - any history made of
   Encoder::encode calls, deliveries of any number of encoder-stream instructions, decode attempts (honest: stream order
   respected, acknowledged once; or bare decode_header calls) and deliveries of any number of decoder-stream instructions
   (acknowledgements arbitrarily late) - every emitted section that the decoder has not yet decoded and acknowledged
   decodes to exactly its original field list when the decoder's insert count has reached its Required Insert Count, and
   is reported as MissingRefs(Required Insert Count) before.  (Assumes fewer than 2^62 insertions; no Stream Cancellation,
   no capacity change: see the two _refuted theorems.) *)
Theorem C20_agreement :
  forall cap blocked s os s' j sec,
    sys_init cap blocked = Some s -> forallb honest_op os = true -> fst (sys_run s os) = s' ->
    v_inserted (dt_vas (s_enc s')) < 2 ^ 62 ->
    nth_error (s_secs s') j = Some sec -> sec_done sec = false ->
    dec_decode_header (s_dec s') (sec_block sec) =
      if v_inserted (dt_vas (s_dec s')) <? sec_required sec then Err (DEMissingRefs (sec_required sec))
      else Ok (sec_fields sec, 0 <? sec_required sec).
Proof. exact sys_agreement. Qed.

(* the same as seen by the honest decoder at any point of such a history *)
Theorem C20_honest_decode_outcome :
  forall cap blocked s os s1 j,
    sys_init cap blocked = Some s -> forallb honest_op os = true -> fst (sys_run s os) = s1 ->
    v_inserted (dt_vas (s_enc s1)) < 2 ^ 62 ->
    snd (sys_step s1 (ODecode j true)) =
      match nth_opt (s_secs s1) j with
      | None => RNoSuchSection
      | Some sec =>
          if sec_done sec then RAlreadyDone
          else if earlier_pending (s_secs s1) j (sec_sid sec) then RHeld
          else if v_inserted (dt_vas (s_dec s1)) <? sec_required sec then RDecErr (DEMissingRefs (sec_required sec))
          else RDecoded (sec_fields sec) (0 <? sec_required sec)
      end.
Proof. exact sys_honest_decode_outcome. Qed.

(* byte-granular delivery: handing the two streams over a few BYTES at a time (the receiver keeps an incomplete
   instruction and sees it again, completed, on a later call) amounts to an instruction-granular schedule - the number of
   instructions complete within the bytes so far is computed from the wire lengths of Model/QWire.v - so agreement holds
   for byte-granular schedules too.  That the parsers (parse_instruction / Action::parse over prefix_int / prefix_string)
   return exactly those instructions and keep exactly that tail is proved at the end of this file (theorems C20_parser_...) for the
   parser model Model/QParse.v; that model is tied to the Rust parsers by the correspondence run (families qp.e / qp.d on
   valid, truncated and malformed instruction bytes with arbitrary cuts, and the ops i<n> / k<n> of the histories). *)
Theorem C20_byte_schedule_is_instruction_schedule :
  forall os b,
    b_sys (fst (brun b os)) = fst (sys_run (b_sys b) (bops_ops b os)) /\
    snd (brun b os) = snd (sys_run (b_sys b) (bops_ops b os)) /\
    (forallb honest_bop os = true -> forallb honest_op (bops_ops b os) = true).
Proof. exact brun_is_sys_run. Qed.

Theorem C20_agreement_byte_schedules :
  forall cap blocked s os b' j sec,
    sys_init cap blocked = Some s -> forallb honest_bop os = true -> fst (brun (mkBsys s 0 0) os) = b' ->
    v_inserted (dt_vas (s_enc (b_sys b'))) < 2 ^ 62 ->
    nth_error (s_secs (b_sys b')) j = Some sec -> sec_done sec = false ->
    dec_decode_header (s_dec (b_sys b')) (sec_block sec) =
      if v_inserted (dt_vas (s_dec (b_sys b'))) <? sec_required sec then Err (DEMissingRefs (sec_required sec))
      else Ok (sec_fields sec, 0 <? sec_required sec).
Proof. exact bsys_agreement. Qed.

Example C20_byte_schedule_inhabited :
  match sys_init 4096 100 with
  | Some s => snd (brun (mkBsys s 0 0) [BOp (OEncode 4 [([97], [98])]); BDeliverBytes 2; BOp (ODecode 0 true); BDeliverBytes 2; BOp (ODecode 0 true)])
  | None => []
  end = [REncoded (mkEncoded 1 (mkPrefix 2 true 0, [BIndexedPost 0]) [IInsertLit [97] [98]]);
         RDelivered 0 None; RDecErr (DEMissingRefs 1); RDelivered 1 (Some (DIncrement 1)); RDecoded [([97], [98])] true].
Proof. vm_compute. reflexivity. Qed.

(* T2, second form: in such histories the encoder never evicts an entry the decoder has not received, and every entry a
   not yet acknowledged section refers to is in the encoder's table with a positive reference count *)
Theorem C20_unacknowledged_entries_protected :
  forall cap blocked s os s',
    sys_init cap blocked = Some s -> forallb honest_op os = true -> fst (sys_run s os) = s' ->
    v_inserted (dt_vas (s_enc s')) < 2 ^ 62 ->
    v_dropped (dt_vas (s_enc s')) <= v_inserted (dt_vas (s_dec s')) /\
    (forall j sec a, nth_error (s_secs s') j = Some sec -> sec_done sec = false -> In a (sec_indices cap sec) ->
                     vas_live (dt_vas (s_enc s')) a /\ dt_is_tracked (s_enc s') a = true).
Proof. exact sys_no_early_eviction. Qed.

(* with Stream Cancellation in the history (or any other reachable state): the same conclusion under two premises
   about the state, which C20_unacknowledged_entries_protected establishes for cancellation-free histories:
   (1) the entries the section refers to (read off its wire form) are still in the encoder's table, and
   (2) the encoder has not evicted an entry the decoder has not received yet (dropped_enc <= inserted_dec).
   (2) is RFC 9204 2.1.1 ("an entry cannot be evicted before its insertion is acknowledged") and FAILS in h3 after
   Stream Cancellation, see C20_cancel_blocked_refuted.  What is missing for a full statement with cancellation:
   nothing can be proved, the statement is false there. *)
Theorem C20_agreement_any_state_partial :
  forall cap blocked s os s' j sec,
    sys_init cap blocked = Some s -> existsb is_resize os = false -> fst (sys_run s os) = s' ->
    nth_error (s_secs s') j = Some sec ->
    (forall a, In a (sec_indices cap sec) -> vas_live (dt_vas (s_enc s')) a) ->
    v_dropped (dt_vas (s_enc s')) <= v_inserted (dt_vas (s_dec s')) ->
    v_inserted (dt_vas (s_enc s')) < 2 ^ 62 ->
    dec_decode_header (s_dec s') (sec_block sec) =
      if v_inserted (dt_vas (s_dec s')) <? sec_required sec then Err (DEMissingRefs (sec_required sec))
      else Ok (sec_fields sec, 0 <? sec_required sec).
Proof. exact sys_agreement_partial. Qed.

(* a finding outside the statement (needs Stream Cancellation): cancelled sections release their entries although the
   decoder never received them; the insert count runs more than max_entries ahead and a section that should be reported
   blocked is answered with BadBaseIndex until every instruction has arrived *)
Definition cancel_witness : list op :=
  [OEncode 0 [([97], [49]); ([98], [49]); ([99], [49])]; OCancel 0; OFeedback 9;
   OEncode 4 [([100], [49]); ([101], [49]); ([102], [49])]; OCancel 4; OFeedback 9;
   OEncode 8 [([103], [49]); ([104], [49]); ([105], [49])]; ODecode 2 false; ODeliver 1; ODecode 2 false].
Theorem C20_cancel_blocked_refuted :
  exists s, sys_init 128 10 = Some s /\
    nth 7 (snd (sys_run s cancel_witness)) RQueued = RDecErr DEBadBaseIndex /\
    nth 9 (snd (sys_run s cancel_witness)) RQueued = RDecErr DEBadBaseIndex /\
    v_inserted (dt_vas (s_dec (fst (sys_run s cancel_witness)))) < v_dropped (dt_vas (s_enc (fst (sys_run s cancel_witness)))).
Proof.
  destruct (sys_init 128 10) as [s|] eqn:E; [|vm_compute in E; discriminate].
  exists s. split; [reflexivity|]. vm_compute in E. inversion E; subst. repeat split; vm_compute; reflexivity.
Qed.

(* ------------------------------------------------------------------ non-vacuity *)
Example C20_run_inhabited :
  match sys_init 4096 100 with
  | Some s => snd (sys_run s [OEncode 4 [([97], [98])]; ODecode 0 true; ODeliver 5; ODecode 0 true])
  | None => []
  end = [REncoded (mkEncoded 1 (mkPrefix 2 true 0, [BIndexedPost 0]) [IInsertLit [97] [98]]);
         RDecErr (DEMissingRefs 1); RDelivered 1 (Some (DIncrement 1)); RDecoded [([97], [98])] true].
Proof. vm_compute. reflexivity. Qed.

Example C20_agreement_inhabited :
  match sys_init 100 2 with
  | Some s =>
      let os := [OEncode 0 [([97], [49]); ([98], [50])]; ODecode 0 true; ODeliver 9; ODecode 0 true; OFeedback 9;
                 OEncode 4 [([99], [51])]; ODecode 1 true] in
      let s' := fst (sys_run s os) in
      (forallb honest_op os, map sec_done (s_secs s'), map sec_required (s_secs s'),
       v_inserted (dt_vas (s_dec s')), v_dropped (dt_vas (s_enc s')), nth 6 (snd (sys_run s os)) RQueued)
  | None => (false, [], [], 0, 0, RQueued)
  end = (true, [true; false], [2; 3], 2, 1, RDecErr (DEMissingRefs 3)).
Proof. vm_compute. reflexivity. Qed.

Example C20_prefix_wrap_inhabited :
  hp_new 9 3 9 128 = Ok (mkPrefix 2 true 5) /\ hp_get (mkPrefix 2 true 5) 7 128 = Ok (9, 3).
Proof. split; vm_compute; reflexivity. Qed.

Example C20_eviction_inhabited :
  match sys_init 64 10 with
  | Some s => let s' := fst (sys_run s [OEncode 0 [([97], [49])]; ODeliver 9; ODecode 0 true; OFeedback 9; OEncode 4 [([98], [49])]]) in
              (v_dropped (dt_vas (s_enc s')), dt_fields (s_enc s'))
  | None => (0, [])
  end = (1, [([98], [49])]).
Proof. vm_compute. reflexivity. Qed.

Print Assumptions C20_source_facts.
Print Assumptions C20_table_invariant_initial.
Print Assumptions C20_table_invariant_encode.
Print Assumptions C20_table_invariant_feedback.
Print Assumptions C20_table_invariant_decoder.
Print Assumptions C20_capacity.
Print Assumptions C20_capacity_with_resize_refuted.
Print Assumptions C20_evicted_entries_unreferenced.
Print Assumptions C20_referenced_entries_live.
Print Assumptions C20_index_maps.
Print Assumptions C20_index_maps_sound.
Print Assumptions C20_prefix_roundtrip.
Print Assumptions C20_prefix_roundtrip_no_refs.
Print Assumptions C20_prefix_panic_sites.
Print Assumptions C20_decoder_follows_encoder.
Print Assumptions C20_encode_total.
Print Assumptions C20_agreement.
Print Assumptions C20_honest_decode_outcome.
Print Assumptions C20_unacknowledged_entries_protected.
Print Assumptions C20_byte_schedule_is_instruction_schedule.
Print Assumptions C20_agreement_byte_schedules.
Print Assumptions C20_agreement_any_state_partial.
Print Assumptions C20_cancel_blocked_refuted.

(* ------------------------------------------------------------------ the instruction parsers (byte level) *)
From H3V Require Import Model.PrefixInt Model.PrefixString Model.QParse Proofs.QParseProofs.

(* ranges used below (Proofs/QParseProofs.v), those of the codecs themselves:
     int_ok size v := v < 2^63 + (2^size - 1)                      (C15_int_roundtrip_partial; beyond it the decoder answers Overflow)
     str_ok s      := wf_bytes s /\ len s < 2^26                   (C15_string_roundtrip: the Huffman encoder's u32 bit positions)
     einstr_ok: capacity / index of an encoder instruction int_ok for its prefix size (5, 6, 6, 5), its strings str_ok
     dinstr_ok: stream id int_ok for its prefix size (7, 6); increment <= 64 (InsertCountIncrement::decode)              *)

(* P0: the parsers are SELF-DELIMITING on every input whatsoever (no premise): when [used] bytes are consumed for an
   instruction, the same instruction is recognised from those bytes whatever follows them, and every strict prefix of those
   bytes is answered Incomplete - so nothing is consumed early and nothing is mis-parsed by an early call *)
Theorem C20_parser_self_delimiting_encoder_stream :
  forall bs i used, parse_einstr bs = PComplete i used ->
    exists a rest, bs = a ++ rest /\ used = len a /\ 0 < used /\
      (forall t, parse_einstr (a ++ t) = PComplete i used) /\
      (forall n, (n < length a)%nat -> parse_einstr (firstn n a) = PIncomplete).
Proof. exact parse_einstr_sd. Qed.
Theorem C20_parser_self_delimiting_decoder_stream :
  forall bs i used, parse_dinstr bs = PComplete i used ->
    exists a rest, bs = a ++ rest /\ used = len a /\ 0 < used /\
      (forall t, parse_dinstr (a ++ t) = PComplete i used) /\
      (forall n, (n < length a)%nat -> parse_dinstr (firstn n a) = PIncomplete).
Proof. exact parse_dinstr_sd. Qed.

(* P1: round trip with exact consumption: what InsertWithNameRef / InsertWithoutNameRef / Duplicate / DynamicTableSizeUpdate
   ::encode write is parsed back to the same instruction, consuming exactly the written bytes, whatever follows *)
Theorem C20_parser_roundtrip_encoder_stream :
  forall i w rest, einstr_ok i -> wf_bytes rest -> wire_einstr i = Ok w ->
    parse_einstr (w ++ rest) = PComplete i (len w) /\ wf_bytes w /\ w <> [].
Proof. exact parse_einstr_roundtrip. Qed.
(* ... HeaderAck / StreamCancel / InsertCountIncrement *)
Theorem C20_parser_roundtrip_decoder_stream :
  forall i w rest, dinstr_ok i -> wf_bytes rest -> wire_dinstr i = Ok w ->
    parse_dinstr (w ++ rest) = PComplete i (len w) /\ wf_bytes w /\ w <> [].
Proof. exact parse_dinstr_roundtrip. Qed.

(* P2: every strict prefix of an instruction's wire form is Incomplete (not an error, not another instruction) *)
Theorem C20_parser_strict_prefix_incomplete_encoder_stream :
  forall i w n, einstr_ok i -> wire_einstr i = Ok w -> (n < length w)%nat -> parse_einstr (firstn n w) = PIncomplete.
Proof. exact parse_einstr_prefix_incomplete. Qed.
Theorem C20_parser_strict_prefix_incomplete_decoder_stream :
  forall i w n, dinstr_ok i -> wire_dinstr i = Ok w -> (n < length w)%nat -> parse_dinstr (firstn n w) = PIncomplete.
Proof. exact parse_dinstr_prefix_incomplete. Qed.

(* P3: the receive loop on the first n bytes of a stream returns exactly the instructions Model/QBytes.complete_within counts
   from the wire lengths, and leaves exactly the bytes after them: the assumption of the byte-granular model is a theorem
   about the parser model *)
Theorem C20_parser_stream_prefix_encoder_stream :
  forall q W n, Forall einstr_ok q -> wire_einstrs q = Ok W -> n <= len W ->
    parse_all parse_einstr (firstn (N.to_nat n) W) =
      (firstn (N.to_nat (fst (complete_within wire_einstr n q))) q,
       skipn (N.to_nat (snd (complete_within wire_einstr n q))) (firstn (N.to_nat n) W), StopIncomplete).
Proof. exact parse_all_einstr_prefix. Qed.
Theorem C20_parser_stream_prefix_decoder_stream :
  forall q W n, Forall dinstr_ok q -> wire_list wire_dinstr q = Ok W -> n <= len W ->
    parse_all parse_dinstr (firstn (N.to_nat n) W) =
      (firstn (N.to_nat (fst (complete_within wire_dinstr n q))) q,
       skipn (N.to_nat (snd (complete_within wire_dinstr n q))) (firstn (N.to_nat n) W), StopIncomplete).
Proof. exact parse_all_dinstr_prefix. Qed.

(* ... stated on the step of Model/QBytes.v itself: the number of instructions `BDeliverBytes n` / `BFeedbackBytes n` hands
   over and the number of pending bytes it records are what the receive loop returns on the bytes held at that point *)
Theorem C20_parser_byte_step_deliver :
  forall b n W, Forall einstr_ok (s_eq (b_sys b)) -> wire_einstrs (s_eq (b_sys b)) = Ok W ->
    exists k tail,
      bop_op b (BDeliverBytes n) = (ODeliver k, len tail, b_dpend b) /\
      parse_all parse_einstr (firstn (N.to_nat (N.min (b_epend b + n) (len W))) W) =
        (firstn (N.to_nat k) (s_eq (b_sys b)), tail, StopIncomplete).
Proof. exact bop_deliver_bytes_is_parse_all. Qed.
Theorem C20_parser_byte_step_feedback :
  forall b n W, Forall dinstr_ok (s_dq (b_sys b)) -> wire_list wire_dinstr (s_dq (b_sys b)) = Ok W ->
    exists k tail,
      bop_op b (BFeedbackBytes n) = (OFeedback k, b_epend b, len tail) /\
      parse_all parse_dinstr (firstn (N.to_nat (N.min (b_dpend b + n) (len W))) W) =
        (firstn (N.to_nat k) (s_dq (b_sys b)), tail, StopIncomplete).
Proof. exact bop_feedback_bytes_is_parse_all. Qed.

(* P4: ANY chunking: however the stream is cut into pieces (empty pieces, cuts inside integers and strings included), a
   receiver that prepends its unconsumed tail to the next piece ends with exactly the instruction list, in order, nothing left *)
Theorem C20_parser_any_chunking_encoder_stream :
  forall q W chunks, Forall einstr_ok q -> wire_einstrs q = Ok W -> concat chunks = W ->
    feed parse_einstr [] chunks = (q, [], StopIncomplete).
Proof. exact feed_einstr_any_chunking. Qed.
Theorem C20_parser_any_chunking_decoder_stream :
  forall q W chunks, Forall dinstr_ok q -> wire_list wire_dinstr q = Ok W -> concat chunks = W ->
    feed parse_dinstr [] chunks = (q, [], StopIncomplete).
Proof. exact feed_dinstr_any_chunking. Qed.

(* P5: ANY input (malformed included): the parsers and the receive loop never panic; the loop's tail is a suffix of the
   input, it stops at the first instruction that is incomplete or in error, and that instruction is not consumed; the
   first-octet dispatch has no unassigned pattern (the Unknown arms are dead code) *)
Theorem C20_parser_no_panic :
  forall bs s, wf_bytes bs -> parse_einstr bs <> PPanic s /\ parse_dinstr bs <> PPanic s.
Proof. intros bs s H. split; [exact (parse_einstr_no_panic bs s H)|exact (parse_dinstr_no_panic bs s H)]. Qed.
Theorem C20_parser_loop_any_input_encoder_stream :
  forall bs xs tail st, wf_bytes bs -> parse_all parse_einstr bs = (xs, tail, st) ->
    (forall s, st <> StopPanic s) /\ (exists pre, bs = pre ++ tail) /\
    match st with
    | StopIncomplete => parse_einstr tail = PIncomplete
    | StopError e => parse_einstr tail = PError e
    | StopPanic _ => False
    end.
Proof. exact parse_all_einstr_any. Qed.
Theorem C20_parser_loop_any_input_decoder_stream :
  forall bs xs tail st, wf_bytes bs -> parse_all parse_dinstr bs = (xs, tail, st) ->
    (forall s, st <> StopPanic s) /\ (exists pre, bs = pre ++ tail) /\
    match st with
    | StopIncomplete => parse_dinstr tail = PIncomplete
    | StopError e => parse_dinstr tail = PError e
    | StopPanic _ => False
    end.
Proof. exact parse_all_dinstr_any. Qed.
Theorem C20_parser_dispatch_total :
  forall b, b < 256 -> ekind_of b <> KEUnknown /\ dkind_of b <> KDUnknown.
Proof. exact kinds_total. Qed.

(* P6: an answer other than Incomplete - a complete instruction with its byte count, or an error - is never changed by
   more bytes: only Incomplete is provisional *)
Theorem C20_parser_decided_answers_stable :
  forall bs t, (parse_einstr bs <> PIncomplete -> parse_einstr (bs ++ t) = parse_einstr bs) /\
               (parse_dinstr bs <> PIncomplete -> parse_dinstr (bs ++ t) = parse_dinstr bs).
Proof. intros bs t. split; [exact (parse_einstr_stable bs t)|exact (parse_dinstr_stable bs t)]. Qed.

(* P7: ANY byte stream (truncated and malformed ones included), ANY chunking: the receiver fed in pieces reports exactly the
   instructions and the verdict of the receive loop run once on the whole stream, and the same unconsumed tail when there is
   no error (after an error it holds the part of that tail it has been given so far) *)
Theorem C20_parser_chunking_invariant_encoder_stream :
  forall chunks, wf_bytes (concat chunks) ->
    match parse_all parse_einstr (concat chunks) with
    | (xs, tl, StopIncomplete) => feed parse_einstr [] chunks = (xs, tl, StopIncomplete)
    | (xs, tl, StopError e) => exists tl' rest, feed parse_einstr [] chunks = (xs, tl', StopError e) /\ tl = tl' ++ rest
    | (_, _, StopPanic _) => False
    end.
Proof. exact feed_einstr_chunking_invariant. Qed.
Theorem C20_parser_chunking_invariant_decoder_stream :
  forall chunks, wf_bytes (concat chunks) ->
    match parse_all parse_dinstr (concat chunks) with
    | (xs, tl, StopIncomplete) => feed parse_dinstr [] chunks = (xs, tl, StopIncomplete)
    | (xs, tl, StopError e) => exists tl' rest, feed parse_dinstr [] chunks = (xs, tl', StopError e) /\ tl = tl' ++ rest
    | (_, _, StopPanic _) => False
    end.
Proof. exact feed_dinstr_chunking_invariant. Qed.

(* outside the premise dinstr_ok (observation, replayed on the real code: corpus/C20/parser.case): on_encoder_recv writes
   InsertCountIncrement(n) for every n <= 255 (more than 64 insertions in one call), InsertCountIncrement::decode refuses
   n > 64 - the decoder-stream round trip P1 is FALSE without the premise `increment <= 64` *)
Theorem C20_parser_increment_above_64_refuted :
  exists i w, wire_dinstr i = Ok w /\ parse_dinstr w = PError (PEInteger PiOverflow).
Proof. exists (DIncrement 65), [63; 2]. exact increment_above_limit_rejected. Qed.

(* non-vacuity: five instructions (capacity 4096 and static index 70 and duplicate 40 need continuation octets, Huffman coded
   name and values) cut inside the first integer, inside the name, inside the value, inside the static index, with an empty
   piece, and before the last octet; and two malformed streams *)
Example C20_parser_inhabited :
  let q := [ISizeUpdate 4096; IInsertLit [120; 45; 97] [118; 97; 108; 117; 101; 49]; IInsertStatic 70 [119; 119; 119];
            IDuplicate 40; IInsertDyn 1 []] in
  let W := [63; 225; 31; 99; 242; 176; 255; 133; 238; 58; 45; 40; 127; 255; 7; 131; 241; 227; 199; 31; 9; 129; 128] in
  let chunks := [[63; 225]; [31; 99; 242]; [176; 255; 133; 238; 58]; [45; 40; 127; 255]; [];
                 [7; 131; 241; 227; 199; 31; 9; 129]; [128]] in
  wire_einstrs q = Ok W /\ concat chunks = W /\
  feed parse_einstr [] chunks = (q, [], StopIncomplete) /\
  parse_all parse_einstr [63; 225] = ([], [63; 225], StopIncomplete) /\
  parse_all parse_einstr [63; 225; 31; 99; 242] = ([ISizeUpdate 4096], [99; 242], StopIncomplete) /\
  parse_all parse_einstr [99; 242; 176; 255; 133; 238; 58] = ([], [99; 242; 176; 255; 133; 238; 58], StopIncomplete) /\
  complete_within wire_einstr 14 q = (2, 13) /\
  parse_all parse_einstr (firstn 14 W) = (firstn 2 q, [255], StopIncomplete) /\
  parse_all parse_einstr [31; 9; 97; 254; 0] = ([IDuplicate 40], [97; 254; 0], StopError (PEString (PsHuffman Huffman.MissingBits))) /\
  parse_all parse_dinstr [130; 63; 2; 5] = ([DAck 2], [63; 2; 5], StopError (PEInteger PiOverflow)) /\
  feed parse_dinstr [] [[130; 63]; [2]; [5]] = ([DAck 2], [63; 2], StopError (PEInteger PiOverflow)) /\
  parse_all parse_dinstr [255; 233; 6; 63; 1; 127; 7; 3; 127] = ([DAck 1000; DIncrement 64; DCancel 70; DIncrement 3], [127], StopIncomplete).
Proof. vm_compute. repeat split; reflexivity. Qed.

Print Assumptions C20_parser_self_delimiting_encoder_stream.
Print Assumptions C20_parser_self_delimiting_decoder_stream.
Print Assumptions C20_parser_roundtrip_encoder_stream.
Print Assumptions C20_parser_roundtrip_decoder_stream.
Print Assumptions C20_parser_strict_prefix_incomplete_encoder_stream.
Print Assumptions C20_parser_strict_prefix_incomplete_decoder_stream.
Print Assumptions C20_parser_stream_prefix_encoder_stream.
Print Assumptions C20_parser_stream_prefix_decoder_stream.
Print Assumptions C20_parser_byte_step_deliver.
Print Assumptions C20_parser_byte_step_feedback.
Print Assumptions C20_parser_any_chunking_encoder_stream.
Print Assumptions C20_parser_any_chunking_decoder_stream.
Print Assumptions C20_parser_no_panic.
Print Assumptions C20_parser_loop_any_input_encoder_stream.
Print Assumptions C20_parser_loop_any_input_decoder_stream.
Print Assumptions C20_parser_dispatch_total.
Print Assumptions C20_parser_increment_above_64_refuted.
Print Assumptions C20_parser_decided_answers_stable.
Print Assumptions C20_parser_chunking_invariant_encoder_stream.
Print Assumptions C20_parser_chunking_invariant_decoder_stream.
