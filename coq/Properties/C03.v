(* C03 - Request streams accept exactly the RFC 9114 4.1 frame sequences.

   Vocabulary: Spec/RequestSeq.v (`request_outcome`: the 4-state machine HEADERS DATA* HEADERS? run over the frame
   layer's reference outcome of the flat bytes - Spec/Frames.v), Spec/RequestTrace.v (`rrefines`: how the
   application's observations are compared with it), Model/RequestStream.v (h3's poll_recv_data, poll_recv_trailers,
   first-frame handling of server resolve_request / client recv_response over the FrameStream model; `rrun` is the
   documented application: first frame, recv_data until None, recv_trailers). *)
From H3V Require Import Base.Bytes Gen.GenFrameTypes Gen.GenReqStream Spec.FrameVocab Spec.Frames Spec.FrameTrace Spec.RequestSeq
  Spec.RequestTrace Model.FrameDec Model.FrameStream Model.RequestStream Proofs.FramesProofs Proofs.RequestProofs.

(* T1 + T2 + T3 (all interleavings, both roles): for EVERY history of chunk/FIN/reset arrivals (non-empty chunks)
   interleaved in any way with the application's calls, on a fresh request stream:
   (1) what the application is shown is always a prefix of `request_outcome (flat bytes) (ending)`: a header section
       only when the first known frame is HEADERS, every DATA payload byte exactly once and in order, end-of-body only
       where the body really ends (trailing HEADERS or clean FIN), trailers only when the stream has ended after them;
   (2) the final result is the prescribed one: complete message iff the frame sequence is in the language; a
       connection error whose code is among the prescribed ones (H3_FRAME_UNEXPECTED for a frame that does not belong,
       H3_FRAME_ERROR for a truncated or mis-sized frame) and no stream reset; FIN before any HEADERS at the server:
       stream error H3_REQUEST_INCOMPLETE, the stream is reset with that code, no connection error (a `RConnLocal`
       result is the only way this layer raises one); never a panic;
   (3) a call is left pending with nothing more to arrive only while the stream is open and everything was shown. *)
Theorem C03_refinement :
  forall r h, rhist_ok h ->
    rrefines (fst (rrun r h (rs_new []) PFirst)) (rs_reset (snd (rrun r h (rs_new []) PFirst)))
             (request_outcome settings_verdict (side_of r) (rflat_of h) (rending_of h)) (rending_of h) (rsettled h).
Proof. exact request_refinement. Qed.

(* T1, the language: on a stream that ended cleanly a complete message is prescribed exactly when the sequence of
   frames (unknown types already ignored) is HEADERS DATA* HEADERS? *)
Theorem C03_delivered_iff_language :
  forall sd toks st,
    snd (req_out sd st (toks, CleanEnd)) = RDone <-> in_language st (map kind_of_tok toks) = true.
Proof. exact delivered_iff_language. Qed.

(* T1, the content: for a complete message the bytes shown are the concatenation of the DATA payloads *)
Theorem C03_body_is_payload :
  forall sd toks st t,
    snd (req_out sd st (toks, t)) = RDone ->
    body_of_events (fst (req_out sd st (toks, t))) = payload_of_toks toks.
Proof. exact body_is_payload. Qed.

(* T2: every other sequence on a cleanly ended stream is a connection error that may be H3_FRAME_UNEXPECTED - except
   the server-side empty request (T3), and a WebTransport stream header which is not an HTTP message *)
Theorem C03_not_in_language_unexpected :
  forall sd toks st,
    in_language st (map kind_of_tok toks) = false ->
    match snd (req_out sd st (toks, CleanEnd)) with
    | RConnError l => In H3_FRAME_UNEXPECTED_rfc l
    | RIncomplete => st = DStart /\ sd = AtServer /\ Forall (fun t => exists b, t = TByte b) toks /\ toks = []
    | ROutOfScope => True
    | _ => False
    end.
Proof. exact not_in_language_unexpected. Qed.

(* the codes h3 uses at each decision point of the request-stream receive path are those of RFC 9114 4.1 *)
Theorem C03_codes :
  rd_other_code = H3_FRAME_UNEXPECTED_rfc /\ rt_first_other_code = H3_FRAME_UNEXPECTED_rfc /\
  rt_after_code = H3_FRAME_UNEXPECTED_rfc /\ srv_other_code = H3_FRAME_UNEXPECTED_rfc /\
  cli_other_code = H3_FRAME_UNEXPECTED_rfc /\ cli_none_code = H3_FRAME_UNEXPECTED_rfc /\
  srv_none_is_stream_error = true /\ srv_none_code = H3_REQUEST_INCOMPLETE_rfc /\
  srv_none_reset = Some H3_REQUEST_INCOMPLETE_rfc.
Proof. exact request_codes. Qed.

(* the SETTINGS identifier lists the frame decoder decides with (the reference reader is handed the model's verdict
   on SETTINGS contents, so these lists are pinned here): reserved = exactly RFC 9114 7.2.4.1's 0x00,0x02..0x05 *)
Theorem C03_settings_ids :
  fs_forbidden_ids = [0; 2; 3; 4; 5] /\
  fs_supported_ids = [6; 1; 7; 8; 727725890; 727725891; 51] /\
  fs_settings_len = 8 /\ fs_settings_min = 2.
Proof. exact settings_id_lists. Qed.

(* ---------- non-vacuity ---------- *)
(* HEADERS DATA(0) DATA(3) FIN, one frame per chunk: the zero-length DATA frame does not end the body *)
Definition ex_zero_data : list raction :=
  [RArrive (Chunk [1; 2; 170; 187]); RCall; RArrive (Chunk [0; 0]); RCall; RArrive (Chunk [0; 3; 97; 98; 99]); RCall;
   RArrive Fin; RCall; RCall].
Example C03_refinement_inhabited :
  rhist_ok ex_zero_data /\
  fst (rrun RServer ex_zero_data (rs_new []) PFirst) =
    [OHead (Ready (Ok [170; 187])); OBody Pending; OBody (Ready (Ok (Some [97; 98; 99])));
     OBody (Ready (Ok None)); OTrail (Ready (Ok None))] /\
  request_outcome settings_verdict AtServer (rflat_of ex_zero_data) (rending_of ex_zero_data) =
    ([EHead [170; 187]; EByte 97; EByte 98; EByte 99; EBodyEnd; ETrailers None], RDone).
Proof.
  split; [|split; vm_compute; reflexivity].
  repeat constructor; try discriminate.
Qed.

(* FIN before any HEADERS: refused as incomplete by the server, H3_FRAME_UNEXPECTED at the client *)
Example C03_incomplete_inhabited :
  rrun RServer [RArrive Fin; RCall] (rs_new []) PFirst =
    ([OHead (Ready (Err (RStream 269)))],
     {| rs_fs := {| st_buf := []; st_eos := true; st_memo := None; st_rem := 0; st_q := [Fin] |};
        rs_trailers := None; rs_reset := Some 269 |}) /\
  request_outcome settings_verdict AtServer [] Finished = ([], RIncomplete) /\
  request_outcome settings_verdict AtClient [] Finished = ([], RConnError [261]).
Proof. repeat split; vm_compute; reflexivity. Qed.

(* DATA after trailers *)
Example C03_after_trailers_inhabited :
  request_outcome settings_verdict AtServer [1; 1; 9; 1; 1; 8; 0; 1; 97] Finished =
    ([EHead [9]; EBodyEnd], RConnError [261]).
Proof. vm_compute. reflexivity. Qed.

Print Assumptions C03_refinement.
Print Assumptions C03_delivered_iff_language.
Print Assumptions C03_body_is_payload.
Print Assumptions C03_not_in_language_unexpected.
Print Assumptions C03_codes.
Print Assumptions C03_settings_ids.
