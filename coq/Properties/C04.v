(* C04 - Control and unidirectional stream rules are enforced with the right error. *)
From H3V Require Import Base.Bytes Gen.GenCodes Gen.GenStreamTypes Spec.RFC9000 Spec.FrameVocab Spec.Frames Spec.FrameTrace
  Spec.UniStreams Model.Varint Model.FrameDec Model.FrameStream Model.AcceptRecv Model.ConnInner
  Proofs.FramesProofs Proofs.AcceptRecvProofs Proofs.UniStreamsProofs Proofs.UniStreamsBytes.

(* ---- tie to the source: facts regenerated from /repo on every run ---- *)
(* the code used at every error site of poll_accept_recv / poll_control / process_goaway / the role filters is the
   RFC 9114 code the property names *)
Theorem C04_error_site_codes :
  code_par_two_control = E_STREAM_CREATION /\ code_par_two_encoder = E_STREAM_CREATION /\
  code_par_two_decoder = E_STREAM_CREATION /\ code_par_stop_unknown = E_STREAM_CREATION /\
  code_pc_reset = E_CLOSED_CRITICAL /\ code_pc_closed = E_CLOSED_CRITICAL /\
  code_pc_unexpected_end = E_FRAME_ERROR /\
  code_pc_second_settings = E_FRAME_UNEXPECTED /\ code_pc_missing_settings = E_MISSING_SETTINGS /\
  code_pc_unexpected_frame = E_FRAME_UNEXPECTED /\
  code_goaway_increase = E_ID_ERROR /\ code_cli_goaway_id = E_ID_ERROR /\
  code_cli_unexpected = E_FRAME_UNEXPECTED /\ code_srv_unexpected = E_FRAME_UNEXPECTED.
Proof. exact error_site_codes. Qed.

Theorem C04_remaining_codes :
  code_pc_quic_unknown = E_CLOSED_CRITICAL /\ code_pnv_internal = 258 /\ code_cli_bidi = E_STREAM_CREATION.
Proof. exact remaining_codes. Qed.

(* whole-body anchors: poll_accept_recv (accept loop, guards, `continue`s, retain), poll_control, process_goaway,
   poll_grease_stream, into_stream, poll_next_varint, poll_type, the server's accept / shutdown /
   poll_accept_request_stream_internal / poll_control (the `while` loop) / poll_next_control and the client's
   poll_close / wait_idle, the server's poll_accept_request_stream / poll_requests_completion /
   create_resolver_internal and the two PushId <-> VarInt conversions (identities in the model) are, statement for
   statement (comments, white space, trailing commas and string literals aside), the bodies the model was written
   against; the translator also checks that the `impl Connection` blocks of the two roles define exactly the functions
   it knows (anything else is an anchor loss); after a deliberate change the model is re-read and the constant updated *)
Theorem C04_source_shapes :
  shape_poll_accept_recv = 591983135190798518 /\
  shape_inner_poll_control = 890975112773524947 /\
  shape_process_goaway = 871731484758505634 /\
  shape_poll_grease_stream = 635301977400214042 /\
  shape_into_stream = 261516598973359362 /\
  shape_poll_next_varint = 120984297333425183 /\
  shape_poll_type = 607312072019453852 /\
  shape_server_accept = 1127531358984613172 /\
  shape_server_shutdown = 832965435934073669 /\
  shape_server_poll_accept_request = 17685302642143960 /\
  shape_server_poll_control = 1019207998921379069 /\
  shape_server_poll_next_control = 426661483519124924 /\
  shape_client_poll_close = 966646822472731881 /\
  shape_client_wait_idle = 549684088248201512 /\
  shape_server_poll_accept_request_stream = 818014197823978860 /\
  shape_server_poll_requests_completion = 214212503412079944 /\
  shape_server_create_resolver_internal = 928008039183429589 /\
  shape_pushid_to_varint = 290316249488136314 /\
  shape_varint_to_pushid = 1065242208624881100.
Proof. exact source_shapes. Qed.

(* stream type table, the types followed by a second varint, and the decision points of poll_next_varint /
   poll_control / process_goaway the proofs below rely on *)
Theorem C04_source_decisions :
  st_CONTROL = ST_CONTROL /\ st_PUSH = ST_PUSH /\ st_ENCODER = ST_QPACK_ENCODER /\ st_DECODER = ST_QPACK_DECODER /\
  st_WEBTRANSPORT_UNI = ST_WEBTRANSPORT_UNI /\
  into_stream_arms = [(ST_CONTROL, UControl); (ST_PUSH, UPush); (ST_QPACK_ENCODER, UEncoder); (ST_QPACK_DECODER, UDecoder);
                      (ST_WEBTRANSPORT_UNI, UWebTransportUni)] /\
  two_varint_types = [ST_PUSH; ST_WEBTRANSPORT_UNI] /\
  pnv_buffer_first = true /\ pnv_memo_reset = true /\ grease_pending_propagates = false /\
  goaway_reject_cmp = GLt /\ pc_pass_through = [KGoaway; KCancelPush; KMaxPushId] /\
  srv_ignored = [KMaxPushId; KCancelPush].
Proof. exact stream_type_facts. Qed.

(* ---- T-header: the stream-header reader (poll_next_varint / poll_type with its `expected` memo) ----
   For every history of one stream - chunks of any sizes (so: type and push/session-id varints of every length form
   split anywhere), FIN or RESET at any point, polls at any moments - the reader's status is that of the reference
   machine of Spec/UniStreams.v: resolved, with the RFC 9000 values, at the first poll made once the complete
   header has been delivered (memo safety and liveness: no traffic needed after that), silently dropped at the first
   poll after the stream ended with an incomplete header, waiting otherwise; it never reports H3_INTERNAL_ERROR and
   never panics; and what the next layer will read is exactly what follows the header. *)
Theorem C04_header_reader :
  forall h, Forall action_ok h ->
    let x := fold_left arun_step h arun_init in
    let r := fold_left href_step h href_init in
    match r_st r with
    | HWaiting => h_st x = ARWaiting
    | HResolved t i =>
        h_st x = ARResolved t i /\
        exists rest, uni_header (r_flat r) = Some (t, i, rest) /\ ar_buf (h_s x) ++ chunks (h_q x) = rest
    | HDropped => h_st x = ARDropped
    end.
Proof. exact header_reader_statement. Qed.

(* one call, any state met while a header is being read: complete header in what was delivered => Ready(Ok) with the
   RFC values; otherwise EndOfStream if the stream ended, else Pending with everything delivered kept *)
Theorem C04_poll_type_one_call :
  forall s q flat, hdr_inv s q flat ->
    match uni_header flat with
    | Some (ty, sid, rest) =>
        exists s' q', poll_type s q = (Ready (Ok tt), s', q') /\
          ar_ty s' = Some ty /\ ar_sid s' = sid /\ view s' q' = rest /\
          wf_bytes (ar_buf s') /\ rx_ok q' /\ terminated q' = terminated q
    | None =>
        if terminated q
        then exists s' q', poll_type s q = (Ready (Err PEnd), s', q')
        else exists s', poll_type s q = (Pending, s', []) /\ hdr_inv s' [] flat
    end.
Proof. exact poll_type_char. Qed.

(* ---- T-automaton: the control-stream rules, one frame at a time ----
   Whatever the role, the other pending streams, the grease stream's credit and write budget: one round of the
   driver's control loop either takes no frame out of the control stream and leaves the automaton alone, or takes
   exactly one and does what the rule table of the specification says - acts on it once (SETTINGS first; GOAWAY with
   non-increasing, role-appropriate ids; CANCEL_PUSH / MAX_PUSH_ID at a server), or fails with a code the table
   lists for it (H3_MISSING_SETTINGS, H3_FRAME_UNEXPECTED, H3_ID_ERROR). *)
Theorem C04_control_automaton :
  forall role wt c w wr res c' w' wr' st,
    c_err c = None -> st_match c st ->
    next_control role wt (c, w, wr) = (res, (c', w', wr')) ->
    step_outcome role st c c' res.
Proof. exact next_control_spec. Qed.

(* ---- T3 exactly once, over all histories ----
   FULL STATEMENT: the frames acted upon equal the classified frame list of the control stream's BYTES up to the
   first error.  It is proved in two halves that compose:
   (a) C04_exactly_once_partial - for every history (any arrival order and chunking of any number of streams,
       FIN/RESET anywhere, any credit grants and write budgets, polls anywhere), either role, grease on or off,
       the frames acted upon are - in order, each exactly once - the frames the rule table accepts among the
       frames FrameStream::poll_next handed out for the control stream (`c_taken`); if the table refuses one
       the connection failed with one of its codes; any other failure comes from a stream-level site with that
       site's code (second critical stream, control stream reset / closed / truncated, a frame-layer error);
   (b) C04_control_frames_are_bytes - those frames are, in order, the first frames of the RFC 9114 7.1
       segmentation (Spec/Frames.v, via C02's refinement theorem) of the bytes the peer sent on that stream after
       its type, with C02's guarantees on final results and on "nothing awaited forever".
   `_partial` because (a) excludes the runs in which the model's interval arithmetic for the fastrand-dependent
   write lengths is indeterminate (RIndet; the generators never go there) and because the two halves are not
   folded into one statement about `uni_spec`. *)
Theorem C04_exactly_once_partial :
  forall role grease wt credit dflt h,
    let d := run_history h (new_drv role grease wt credit dflt) in
    d_res d <> RIndet ->
    let c := conn_of d in
    match ctl_run (srole_of role) cs_init (c_taken c) with
    | (acts, _, None) =>
        map to_sact (c_acted c) = acts /\
        (forall e, d_res d = RErr e -> exists z, c_cause c = Some z /\ pc_cause_code z e)
    | (acts, _, Some codes) =>
        map to_sact (c_acted c) = acts /\ exists e, d_res d = RErr e /\ In e codes
    end.
Proof. exact exactly_once. Qed.

(* the step the exactly-once argument hinges on (the repaired defect): once a frame has left the control stream it
   is returned to the role's driver whatever the grease sub-machine does *)
Theorem C04_frame_survives_grease :
  forall f c w wr r c' w' wr',
    after_frame f (c, w, wr) = (r, (c', w', wr')) ->
    exists c1, grease_only c c1 /\ ((r = PReady f /\ c' = log_handed c1 f) \/ (r = PIndet /\ c' = c1)).
Proof. exact after_frame_spec. Qed.

(* (b) the control stream against the bytes: C02's refinement applied to the run of the FrameStream model that the
   driver performs on the claimed control stream (claimed with whatever was already buffered / queued) *)
Theorem C04_control_frames_are_bytes :
  forall role grease wt credit dflt h, whist_ok h ->
    let d := run_history h (new_drv role grease wt credit dflt) in
    let c := conn_of d in
    let x := sent_of h in
    match c_control c with
    | None => c_taken c = [] /\ (forall z, c_cause c = Some z -> ctl_cause z = false)
    | Some (id, _) =>
        exists rest obs,
          In id (sn_ann x) /\
          uni_header (sn_flat x id) = Some (ST_CONTROL, None, rest) /\
          toks_of obs = map TFrame (c_taken c) /\
          refines obs (frame_outcome settings_verdict rest (sn_end x id)) (sn_end x id) (settled (c_trace c)) /\
          (forall z, c_cause c = Some z -> cause_last z obs)
    end.
Proof. exact control_stream_bytes. Qed.

(* ---- T2 (and T1): every connection error is one the specification allows for what the peer sent ----
   For every well-formed history (no stream id announced twice; chunks non-empty; streams only ever FIN'd or
   reset), either role, grease on or off, any credit and write-budget script: if the driver returns an error, its
   code is in `allowed_errors` of the byte-level specification Spec/UniStreams.v, evaluated on the streams the peer
   announced, each with exactly the bytes it delivered and the way it ended (`sdescs (sent_of h)`).  The
   SETTINGS-contents rule used inside Spec/Frames.v's segmentation is C02's `settings_verdict` (the frame-layer
   model's verdict, which C13 / C02 tie to RFC 9114 7.2.4); premise `d_res d <> RIndet` as in T3(a).
   Not claimed: that the code is that of the FIRST violation in processing order when several streams violate. *)
Theorem C04_error_is_allowed :
  forall role grease wt credit dflt h e, whist_ok h ->
    let d := run_history h (new_drv role grease wt credit dflt) in
    d_res d <> RIndet -> d_res d = RErr e ->
    In e (allowed_errors_with settings_verdict (srole_of role) (sdescs (sent_of h))).
Proof. exact errors_allowed. Qed.

(* T1: when the specification allows no error for what the peer sent, the driver never returns one - for every
   arrival order, chunking and credit / back-pressure pattern *)
Theorem C04_no_error_unless_allowed :
  forall role grease wt credit dflt h, whist_ok h ->
    let d := run_history h (new_drv role grease wt credit dflt) in
    d_res d <> RIndet ->
    allowed_errors_with settings_verdict (srole_of role) (sdescs (sent_of h)) = [] ->
    forall e, d_res d <> RErr e.
Proof. exact no_error_unless_allowed. Qed.

(* ---- T1 / T2, the part about stream types, against the bytes ----
   For every history in which no stream id is announced twice: every STOP_SENDING h3 issued is
   STOP_SENDING(H3_STREAM_CREATION_ERROR) on an announced stream whose delivered bytes start with a complete type
   varint outside {control, push, encoder, decoder, WebTransport-uni}, at most one per stream; a failure "second
   control / encoder / decoder stream" happens only if two distinct announced streams carry that type; the stream
   header reader never fails the connection (no H3_INTERNAL_ERROR). *)
Theorem C04_stream_types :
  forall role grease wt credit dflt h, whist_ok h ->
    let d := run_history h (new_drv role grease wt credit dflt) in
    let x := sent_of h in
    let c := conn_of d in
    let w := world_of d in
    (forall id code, In (id, code) (l_stops (w_log w)) ->
       code = E_STREAM_CREATION /\ In id (sn_ann x) /\ exists ty, hdr_type x id = Some ty /\ unknown_type ty) /\
    NoDup (map fst (l_stops (w_log w))) /\
    (c_cause c = Some CzTwoControl -> two_of x ST_CONTROL) /\
    (c_cause c = Some CzTwoEncoder -> two_of x ST_QPACK_ENCODER) /\
    (c_cause c = Some CzTwoDecoder -> two_of x ST_QPACK_DECODER) /\
    c_cause c <> Some CzHeaderInternal.
Proof. exact stream_types_statement. Qed.

(* after poll_accept_recv has looked at the pending streams without failing, every stream still pending has an
   incomplete header and has not ended: streams with a complete header have been classified (unknown ones refused),
   streams closed or reset early have been dropped silently *)
Theorem C04_pending_streams_settled :
  forall wt x c w wr r c' w' wr',
    poll_accept_recv wt (c, w, wr) = (r, (c', w', wr')) -> good c w x -> c_err c' = None ->
    forall id a, In (id, a) (c_pending c') -> uni_header (sn_flat x id) = None /\ sn_end x id = Open.
Proof. exact polled_streams_settled. Qed.

(* Liveness of the running driver.  A poll that leaves the driver running (phase run, or "accept answered None"),
   and that was not spent waiting for the server's own last GOAWAY to be written, leaves nothing delivered unexamined:
   no stream is left unaccepted, every stream still pending has an incomplete header and is open, and the control
   stream has been read to the end of what was delivered - its RFC 7.1 segmentation is exactly the frames taken,
   followed by nothing complete, and the stream is open. *)
Theorem C04_poll_settles :
  forall role grease wt credit dflt h,
    whist_ok (h ++ [EPoll]) ->
    let d0 := run_history h (new_drv role grease wt credit dflt) in
    let d := run_history (h ++ [EPoll]) (new_drv role grease wt credit dflt) in
    let x := sent_of (h ++ [EPoll]) in
    d_ph d0 <> PhShutdown -> d_ph d = PhRun \/ d_ph d = PhNone ->
    (forall id a, In (id, a) (c_pending (conn_of d)) -> uni_header (sn_flat x id) = None /\ sn_end x id = Open) /\
    w_incoming (world_of d) = [] /\
    (forall id fs, c_control (conn_of d) = Some (id, fs) ->
       exists rest, In id (sn_ann x) /\ uni_header (sn_flat x id) = Some (ST_CONTROL, None, rest) /\
         frame_outcome settings_verdict rest (sn_end x id) = (map TFrame (c_taken (conn_of d)), Waiting) /\
         sn_end x id = Open).
Proof. exact poll_settles. Qed.

(* ... and nothing complete is left unanswered: under the same premises what the peer sent contains no complete
   violation of the statement (no second control / QPACK encoder / QPACK decoder stream with a complete header, every
   control-stream frame accepted by the rule table, SETTINGS-first included), and every announced stream whose
   complete header names an unknown type has been sent STOP_SENDING.  Contrapositive: once the delivered bytes
   contain a complete violation, a poll does not leave the driver running (it failed - C04_error_is_allowed says
   with which codes - or left the model's domain: panic / outside / indeterminate write size). *)
Theorem C04_poll_complete :
  forall role grease wt credit dflt h,
    whist_ok (h ++ [EPoll]) ->
    let d0 := run_history h (new_drv role grease wt credit dflt) in
    let d := run_history (h ++ [EPoll]) (new_drv role grease wt credit dflt) in
    let x := sent_of (h ++ [EPoll]) in
    d_ph d0 <> PhShutdown -> d_ph d = PhRun \/ d_ph d = PhNone ->
    hs_hard (uni_spec_with settings_verdict (srole_of role) (sdescs x)) = [] /\
    (forall id, In id (hs_stops (uni_spec_with settings_verdict (srole_of role) (sdescs x))) ->
       exists code, In (id, code) (l_stops (w_log (world_of d)))).
Proof. exact poll_complete. Qed.

(* ---- non-vacuity ---- *)
(* the premises of the two liveness theorems hold for a server that saw an unknown-type stream, and STOP_SENDING went out *)
Example C04_liveness_inhabited :
  let h := [EPoll; ENewUni 2; EArrive 2 (Chunk [0; 4; 0]); ENewUni 6; EArrive 6 (Chunk [33])] in
  let d0 := run_history h (new_drv RServer true false 4 None) in
  let d := run_history (h ++ [EPoll]) (new_drv RServer true false 4 None) in
  d_ph d0 <> PhShutdown /\ d_ph d = PhRun /\
  hs_stops (uni_spec_with settings_verdict SServer (sdescs (sent_of (h ++ [EPoll])))) = [6] /\
  l_stops (w_log (world_of d)) = [(6, 259)].
Proof. vm_compute. repeat split. discriminate. Qed.
(* push id 5 as a two-byte varint, one byte per chunk, a poll after each *)
Example C04_header_reader_inhabited :
  h_st (fold_left arun_step [HArrive (Chunk [1]); HPoll; HArrive (Chunk [64]); HPoll; HArrive (Chunk [5]); HPoll] arun_init)
  = ARResolved 1 (Some 5).
Proof. vm_compute. reflexivity. Qed.
(* a complete buffered header followed by silence *)
Example C04_header_buffered_inhabited :
  h_st (fold_left arun_step [HArrive (Chunk [64; 84; 8; 0]); HPoll] arun_init) = ARResolved 84 (Some 8).
Proof. vm_compute. reflexivity. Qed.
(* client, grease on, no credit for the grease stream: SETTINGS and GOAWAY(0) are both acted upon *)
Example C04_exactly_once_inhabited :
  let d := run_history [EPoll; ENewUni 3; EArrive 3 (Chunk [0; 4; 2; 51; 1; 7; 1; 0]); EPoll]
                       (new_drv RClient true false 3 None) in
  c_acted (conn_of d) = [ASettings [51; 1]; AGoaway 0] /\ c_closing (conn_of d) = true /\ d_res d = RPending.
Proof. vm_compute. repeat split; reflexivity. Qed.
(* that history is well formed, and the bytes-level theorem applies to it *)
Example C04_bytes_inhabited :
  whist_ok [EPoll; ENewUni 3; EArrive 3 (Chunk [0; 4; 2; 51; 1; 7; 1; 0]); EPoll].
Proof.
  split.
  - repeat constructor; try discriminate; vm_compute; intuition discriminate.
  - vm_compute. repeat constructor; intros [].
Qed.
(* ... and nothing is allowed to go wrong for it: SETTINGS then GOAWAY(0) on a control stream that stays open *)
Example C04_nothing_allowed_inhabited :
  allowed_errors_with settings_verdict SClient
    (sdescs (sent_of [EPoll; ENewUni 3; EArrive 3 (Chunk [0; 4; 2; 51; 1; 7; 1; 0]); EPoll])) = [].
Proof. vm_compute. reflexivity. Qed.
(* server: a second control stream *)
Example C04_second_control_inhabited :
  d_res (run_history [EPoll; ENewUni 2; EArrive 2 (Chunk [0; 4; 0]); ENewUni 6; EArrive 6 (Chunk [0]); EPoll]
                     (new_drv RServer true false 4 None)) = RErr 259.
Proof. vm_compute. reflexivity. Qed.

Print Assumptions C04_error_site_codes.
Print Assumptions C04_source_decisions.
Print Assumptions C04_remaining_codes.
Print Assumptions C04_source_shapes.
Print Assumptions C04_header_reader.
Print Assumptions C04_poll_type_one_call.
Print Assumptions C04_control_automaton.
Print Assumptions C04_exactly_once_partial.
Print Assumptions C04_frame_survives_grease.
Print Assumptions C04_control_frames_are_bytes.
Print Assumptions C04_error_is_allowed.
Print Assumptions C04_no_error_unless_allowed.
Print Assumptions C04_stream_types.
Print Assumptions C04_pending_streams_settled.
Print Assumptions C04_poll_settles.
Print Assumptions C04_poll_complete.
