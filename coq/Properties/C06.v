(* C06 - No peer behaviour makes h3 panic or leaves a call pending forever.
   Level: proof over the component models + generated panic-site inventory; PARTIAL (see the notes at the end).

   Full statement (property text): no sequence of bytes, stream openings, resets, stop-sendings or connection
   closes from the peer, in any fragmentation and order, makes any public h3 call panic, overflow or abort; every
   pending call completes once the peer has finished or aborted the stream, or closed the connection, that the
   call is waiting on.

   What is pinned here:
   (1) the inventory tie: every panic-capable construct of the receive-path Rust files (regenerated from the
       source on every run) has a reviewed classification;
   (2) the liveness specification used by the adversarial search is monotone (terminal events are sticky);
   (3) C06_no_panic_<component>: for every component model on the receive path that exists, the model function
       never returns Panic on any well-formed input;
   (4) C06_progress_<component>: once the terminal event is queued, one more poll is Ready. *)
From Coq Require Import String.
From H3V Require Import Base.Bytes.
From H3V Require Import Gen.GenPanicSites Spec.PanicReview Proofs.PanicSitesProofs.
From H3V Require Import Spec.C06Liveness Proofs.C06LivenessProofs.
From H3V Require Import Spec.RFC9000 Model.Varint Proofs.VarintProofs.
From H3V Require Import Spec.RFC9297 Model.Datagram Proofs.DatagramProofs Proofs.NoPanicCodecs.
From H3V Require Import Model.PrefixInt Proofs.PrefixIntProofs.
From H3V Require Import Model.Huffman Model.PrefixString Proofs.HuffmanDecodeProofs Proofs.PrefixStringProofs.
From H3V Require Import Model.QpackStateless Proofs.QpackStatelessProofs.
From H3V Require Import Model.Settings Proofs.SettingsProofs.
From H3V Require Import Model.Headers Proofs.HeadersProofs.
From H3V Require Import Spec.FrameVocab Model.FrameDec Model.FrameStream Proofs.ProgressFrameStream Proofs.NoPanicFrames.
From H3V Require Import Gen.GenStreamTypes Model.AcceptRecv Proofs.AcceptRecvProofs Proofs.UniStreamsProofs.
From H3V Require Import Spec.FrameTrace Proofs.FramesProofs.
From H3V Require Import Model.Cursor Proofs.CursorProofs.
From H3V Require Import Model.RecvPath Proofs.RecvPathProofs.
Local Open Scope N_scope.

(* ---------------------------------------------------------------- (1) panic-site inventory *)
Theorem C06_panic_sites_all_reviewed : forall s, In s GenPanicSites.sites -> reviewed s = true.
Proof. exact panic_sites_universal. Qed.

(* the reviewed verdicts (guards, bounds, "send path only") were read off the exact text of the owning functions:
   every function of the inventoried files, row owner or not (Gen.fn_prints: 60 bits of SHA-256 of its comment-free body), is unchanged since its review *)
Theorem C06_panic_owner_functions_unchanged : forall q, In q GenPanicSites.fn_prints -> print_reviewed q = true.
Proof. exact panic_owner_functions_universal. Qed.

(* the connection-level functions that the C04 models mirror by hand and that own no panic row of their own
   (ConnectionInner::poll_control / poll_accept_recv / process_goaway / poll_grease_stream, AcceptRecvStream::poll_type /
   poll_next_varint / into_stream, server accept / shutdown / poll_accept_request / poll_control / poll_next_control,
   client poll_close) still have the bodies the models were written against (shape hashes of Gen/GenStreamTypes.v,
   regenerated on every run); since round 2 they are ALSO in fn_prints above, like every function of the inventoried files *)
Theorem C06_source_shapes :
  (* the statement IS C04's `source_shapes` (one equation `shape_<fn> = <hash>` per function, see
     Proofs/UniStreamsProofs.v); it is re-stated by reference so that the two can never drift apart *)
  ltac:(let t := type of UniStreamsProofs.source_shapes in exact t).
Proof. exact UniStreamsProofs.source_shapes. Qed.

Theorem C06_panic_review_no_duplicate_rows : nodup_rows PanicReview.table = true.
Proof. exact panic_review_no_duplicate_rows. Qed.

Example C06_panic_sites_inhabited : N.of_nat (List.length GenPanicSites.sites) = n_sites /\ 300 <= n_sites.
Proof. exact panic_sites_counted. Qed.

(* ---------------------------------------------------------------- (2) liveness specification *)
Theorem C06_terminal_is_sticky : forall evs evs' id,
  rx_state evs id <> TOpen -> rx_state (evs ++ evs') id = rx_state evs id.
Proof. exact rx_terminal_sticky. Qed.

Theorem C06_must_complete_monotone : forall evs evs' t,
  must_complete evs t = true -> must_complete (evs ++ evs') t = true.
Proof. exact must_complete_monotone. Qed.

Theorem C06_close_completes_everything : forall evs t, must_complete (evs ++ [ELost]) t = true.
Proof. exact close_completes_everything. Qed.

(* with credit withheld (back-pressure): the oracle is still monotone, connection loss ends every wait, and the
   peer's STOP_SENDING ends the wait of a send call on that stream whatever the credit *)
Theorem C06_must_complete_backpressure_monotone : forall bp evs evs' t,
  must_complete_bp bp evs t = true -> must_complete_bp bp (evs ++ evs') t = true.
Proof. exact must_complete_bp_monotone. Qed.
Theorem C06_close_completes_everything_backpressure : forall bp evs t, must_complete_bp bp (evs ++ [ELost]) t = true.
Proof. exact close_completes_everything_bp. Qed.
Theorem C06_stop_sending_completes_send : forall bp evs evs' id,
  must_complete_bp bp (evs ++ EStop id :: evs') (WSend id) = true.
Proof. exact stop_sending_completes_send. Qed.

Example C06_must_complete_inhabited :
  must_complete [EOpen 0; EChunk 0; EFin 0; EChunk 0] (WStream 0) = true /\
  must_complete [EOpen 0; EChunk 0; EFin 0] (WStream 4) = false /\
  must_complete [EOpen 0; EChunk 0; EFin 0] WConn = false.
Proof. vm_compute. repeat split. Qed.

(* ---------------------------------------------------------------- (3) no Panic in the component models *)
(* QUIC variable-length integers: frame types, frame lengths, stream types, ids, settings (proto/varint.rs) *)
Theorem C06_no_panic_varint : forall bs, wf_bytes bs -> is_panic (fst (vi_decode bs)) = false.
Proof. exact vi_decode_no_panic. Qed.

(* HTTP Datagram header (h3-datagram/src/datagram.rs Datagram::decode) *)
Theorem C06_no_panic_datagram : forall bs, wf_bytes bs -> is_panic (dg_decode bs) = false.
Proof. exact dg_decode_no_panic. Qed.

(* QPACK prefixed integers (qpack/prefix_int.rs decode), every prefix size used by h3 (3..8) and beyond *)
Theorem C06_no_panic_prefix_int :
  forall size bs, 1 <= size <= 8 -> wf_bytes bs -> is_panic (pi_decode size bs) = false.
Proof. exact pi_decode_no_panic. Qed.

(* Huffman string payloads (prefix_string/decode.rs: read_bits indexing and shifts, check_eof, the decode loop),
   with the u32 bit positions of BitWindow modelled exactly: for every input whose bit length (+ 8 bits of
   look-ahead) fits in u32 - the bound prefix_string::decode enforces since the H1 / F18 repair, see
   notes/C06_findings.md; C06_no_panic_prefix_string below needs no such premise *)
Theorem C06_no_panic_huffman : forall input, wf_bytes input -> fits_u32 input -> is_panic (hpack_decode input) = false.
Proof. exact hpack_decode_no_panic. Qed.

(* string literals (prefix_string/mod.rs decode: length prefix, copy_to_bytes bound, the F18 size guard, Huffman or
   raw), for the sizes h3 passes (8 and 4) and every other size in 2..8; no size premise: the guard in front of the
   Huffman decoder discharges fits_u32 (proved by C15) *)
Theorem C06_no_panic_prefix_string :
  forall size bs, 2 <= size <= 8 -> wf_bytes bs -> is_panic (ps_decode size bs) = false.
Proof. exact ps_decode_no_panic. Qed.

(* a whole encoded field section (qpack/decoder.rs decode_stateless over block.rs, prefix_int, prefix_string,
   static_.rs), with or without a field-section size limit: never Panic, and the model's fuel is never exhausted
   (proved by C11 on top of C15) *)
Theorem C06_no_panic_qpack_stateless :
  forall max bs, wf_bytes bs -> is_panic (decode_stateless max bs) = false /\ decode_stateless max bs <> Err DOutOfFuel.
Proof.
  intros max bs H. split; [exact (decode_stateless_no_panic max bs H)|exact (decode_stateless_never_out_of_fuel max bs H)].
Qed.

(* SETTINGS payload (proto/frame.rs Settings::decode + Settings::insert) *)
Theorem C06_no_panic_settings : forall payload, wf_bytes payload -> is_panic (st_decode payload) = false.
Proof. exact st_decode_no_panic. Qed.

(* decoded field list -> Header -> Request / Response / trailers (proto/headers.rs Header::try_from,
   Field::parse, into_request_parts, into_response_parts), for EVERY field list and every behaviour
   [grow] of the HeaderMap growth (F13: the capacity panic is gone) *)
Theorem C06_no_panic_headers_request : forall grow fs s, resolve_request grow fs <> Panicked s.
Proof. exact resolve_request_no_panic. Qed.
Theorem C06_no_panic_headers_response : forall grow fs s, recv_response grow fs <> Panicked s.
Proof. exact recv_response_no_panic. Qed.
Theorem C06_no_panic_headers_trailers : forall grow fs s, recv_trailers grow fs <> Panicked s.
Proof. exact recv_trailers_no_panic. Qed.

(* one frame off the flat byte view (proto/frame.rs Frame::decode incl. the SETTINGS scan): not the
   copy_to_bytes site, not the unreachable!() arm, not a varint site, for EVERY byte string *)
Theorem C06_no_panic_frame_decode : forall v, wf_bytes v -> is_panic (fst (frame_decode v)) = false.
Proof. exact frame_decode_no_panic. Qed.

(* the frame reader as a whole (frame.rs FrameStream::poll_next / poll_data, FrameDecoder::decode, BufList advance /
   take_chunk / push_bytes, BufRecvStream::poll_read) for ALL histories of arrivals and calls that respect the
   transport contract (non-empty well-formed chunks) and the documented call pattern (poll_data while a DATA
   payload is owed): no call ever answers Panic - not the poll_next assert (67, F7 repaired), not the empty-chunk
   debug_assert (20), not BufList::advance out of bounds (50/51), not an unmapped error (52), not a fuel site
   (proved by C02) *)
Theorem C06_no_panic_frame_stream : forall h, hist_ok h ->
  forall o, In o (fst (run h (fs_new []) false)) -> obs_panic o = false.
Proof. intros h Hh. exact (run_no_panic h (fs_new []) fs_new_inv Hh). Qed.

(* buf.rs Cursor over a BufList (the reader handed to Frame::decode), fields pos_total / pos_front / index as in
   the Rust code.  In EVERY state reachable from BufList::cursor() over non-empty chunks by in-range advances:
   remaining() is the length of the unread flat view; chunk() is a non-empty prefix of it while bytes remain;
   advance(k), k <= remaining, skips exactly k bytes and adds k to position(); beyond remaining it is the assert
   and nothing else; the bytes default methods get_u8 / copy_to_slice read exactly the next bytes of the FLAT view,
   whatever the chunk boundaries are.  No index, slice or subtraction site of buf.rs:133-158 is reachable. *)
Theorem C06_no_panic_cursor_new : forall bufs, nonempty_chunks bufs ->
  cur_inv (cur_new bufs) /\ cur_view (cur_new bufs) = concat bufs.
Proof. intros bufs H. split; [exact (cur_new_inv bufs H)|reflexivity]. Qed.

Theorem C06_no_panic_cursor_remaining : forall c, cur_inv c -> cur_remaining c = Ok (len (cur_view c)).
Proof. exact cur_remaining_law. Qed.

Theorem C06_no_panic_cursor_chunk : forall c, cur_inv c -> cur_view c <> [] ->
  exists ch tl, cur_chunk c = Ok ch /\ ch <> [] /\ cur_view c = ch ++ tl.
Proof. exact cur_chunk_law. Qed.

Theorem C06_no_panic_cursor_advance : forall k c, cur_inv c -> k <= len (cur_view c) ->
  exists c', cur_advance k c = Ok c' /\ cur_inv c' /\ cur_view c' = skipn (N.to_nat k) (cur_view c) /\
             cur_position c' = cur_position c + k /\ c_bufs c' = c_bufs c.
Proof. exact cur_advance_law. Qed.

Theorem C06_cursor_advance_past_end_is_the_assert : forall k c, cur_inv c -> len (cur_view c) < k ->
  cur_advance k c = Panic 143.
Proof. exact cur_advance_past_end. Qed.

Theorem C06_no_panic_cursor_get_u8 : forall c b tl, cur_inv c -> cur_view c = b :: tl ->
  exists c', cur_get_u8 c = Ok (b, c') /\ cur_inv c' /\ cur_view c' = tl /\ cur_position c' = cur_position c + 1.
Proof. exact cur_get_u8_law. Qed.

Theorem C06_no_panic_cursor_copy_to_slice : forall k c, cur_inv c -> k <= len (cur_view c) ->
  exists c', cur_copy_to_slice k c = Ok (firstn (N.to_nat k) (cur_view c), c') /\ cur_inv c' /\
             cur_view c' = skipn (N.to_nat k) (cur_view c) /\ cur_position c' = cur_position c + k.
Proof. exact cur_copy_to_slice_law. Qed.

(* chunking independence of the varint reader as a THEOREM about the cursor: VarInt::decode run on a Cursor
   (has_remaining / get_u8 / remaining / copy_to_slice) gives the result of VarInt::decode on the flat unread
   bytes, leaves the flat rest as the cursor's view and moves position() by the bytes consumed - for every
   chunking of the BufList; together with C06_no_panic_varint it never panics *)
Theorem C06_cursor_varint_is_flat_varint : forall c, cur_inv c -> wf_bytes (cur_view c) ->
  fst (cur_vi_decode c) = fst (vi_decode (cur_view c)) /\
  cur_inv (snd (cur_vi_decode c)) /\
  cur_view (snd (cur_vi_decode c)) = snd (vi_decode (cur_view c)) /\
  cur_position (snd (cur_vi_decode c)) = cur_position c + (len (cur_view c) - len (snd (vi_decode (cur_view c)))).
Proof. exact cur_vi_decode_flat. Qed.

Example C06_cursor_varint_inhabited :
  fst (cur_vi_decode (cur_new [[64]; [5; 9]])) = Ok 5 /\ fst (cur_vi_decode (cur_new [[64]])) = Err 1.
Proof. vm_compute. split; reflexivity. Qed.

Example C06_cursor_inhabited :
  exists c', cur_copy_to_slice 3 (cur_new [[1]; [2; 3]; [4]]) = Ok ([1; 2; 3], c') /\ cur_chunk c' = Ok [4] /\ cur_position c' = 3.
Proof. eexists. vm_compute. repeat split. Qed.
Example C06_cursor_chunk_at_end_panics_inhabited : cur_chunk {| c_bufs := [[1]]; c_total := 1; c_front := 0; c_index := 1 |} = Panic 138.
Proof. reflexivity. Qed.

(* unidirectional stream header (stream.rs AcceptRecvStream::poll_type: chunk()[0], VarInt::decode, push_bytes
   debug_assert under the no-empty-chunk contract): never Panic and never the H3_INTERNAL_ERROR / transport
   error answers, in every reachable state [hdr_inv] of the reader (proved by C04) *)
Theorem C06_no_panic_accept_recv : forall s q flat, hdr_inv s q flat ->
  match poll_type s q with
  | (Ready (Panic _), _, _) => False
  | (Ready (Err (PInternal _)), _, _) => False
  | (Ready (Err (PIncoming _)), _, _) => False
  | _ => True
  end.
Proof. exact poll_type_no_panic. Qed.

Example C06_no_panic_varint_inhabited : fst (vi_decode [64]) = Err 1 /\ fst (vi_decode [64; 5]) = Ok 5.
Proof. vm_compute. split; reflexivity. Qed.

(* the COMPOSITION for the bytes of one frame (Model/RecvPath.v: Frame::decode, then for HEADERS decode_stateless
   and Header::try_from + the role's message constructor, for SETTINGS Settings::decode - the call order of
   resolve_request / recv_response / poll_recv_trailers / poll_control): no stage panics, for every byte string,
   role, HeaderMap growth behaviour and field-section limit *)
Theorem C06_no_panic_receive_path_composed :
  forall role grow max v s, wf_bytes v -> recv_path role grow max v <> RpPanic s.
Proof. exact recv_path_no_panic. Qed.

Example C06_receive_path_inhabited :
  (exists r, recv_path RpServerRequest (fun _ => false) None [1; 8; 0; 0; 209; 215; 80; 1; 97; 193] = RpMessage (RpReq (Delivered r))) /\
  (exists e, recv_path RpServerRequest (fun _ => false) None [1; 3; 0; 0; 255] = RpQpackRefused e) /\
  (exists e, recv_path RpClientResponse (fun _ => false) None [7; 0] = RpFrameRefused e).
Proof. split; [|split]; eexists; vm_compute; reflexivity. Qed.

(* ---------------------------------------------------------------- (4) progress *)
(* FrameStream (h3/src/frame.rs poll_next / poll_data over BufRecvStream and the transport queue): once the
   terminal event of the stream - FIN, RESET or connection loss - is queued, or the end was already seen,
   a poll is never Pending, and the stream stays in that condition *)
Theorem C06_progress_frame_stream_next :
  forall s, st_eos s = true \/ terminated (st_q s) = true ->
    not_pending (fst (poll_next s)) /\ (st_eos (snd (poll_next s)) = true \/ terminated (st_q (snd (poll_next s))) = true).
Proof. exact poll_next_live. Qed.

Theorem C06_progress_frame_stream_data :
  forall s, st_eos s = true \/ terminated (st_q s) = true ->
    not_pending (fst (poll_data s)) /\ (st_eos (snd (poll_data s)) = true \/ terminated (st_q (snd (poll_data s))) = true).
Proof. exact poll_data_live. Qed.

(* for ALL histories: whatever arrivals and calls happened before (h1), once a terminal event e arrives, every
   call of every continuation h2 (any interleaving of further arrivals and poll_next / poll_data calls)
   completes with a value or an error *)
Theorem C06_progress_frame_stream_all_histories :
  forall h1 e h2 s d, is_terminal e = true ->
    Forall obs_not_pending (fst (run (Arrive e :: h2) (snd (run h1 s false)) d)).
Proof. exact calls_complete_after_terminal_event. Qed.

(* the same for the unidirectional stream header reader: once FIN or RESET is queued, poll_type is Ready
   (resolved, or dropped as "closed before the header") - the F11 stale-memo hang is gone *)
Theorem C06_progress_accept_recv : forall s q flat, hdr_inv s q flat -> terminated q = true ->
  exists r s' q', poll_type s q = (Ready r, s', q') /\ (r = Ok tt \/ r = Err PEnd).
Proof. exact poll_type_progress. Qed.

(* F7 scenario: HEADERS-less stream with DATA(len 4), 2 bytes, FIN: the calls end in an error, never Pending *)
Example C06_progress_inhabited :
  fst (run [Arrive (Chunk [0; 4; 97; 98]); CallAuto; CallAuto; CallAuto; Arrive Fin; CallAuto] (fs_new []) false)
  = [ONext (Ready (Ok (Some (FData 4)))); OData (Ready (Ok (Some [97; 98]))); OData Pending; OData (Ready (Err FsUnexpectedEnd))].
Proof. vm_compute. reflexivity. Qed.

(* ---- progress facts of the connection-level models, re-exported from their owners (imports placed here so that
   their vocabulary - run, cell, obs ... - does not shadow the frame-layer names used above) ---- *)
From H3V Require Import Gen.GenSharedErr Spec.FirstErrorWins Model.SharedErr Model.SharedErrRun Proofs.SharedErrLemmas Proofs.SharedErrProofs.

(* "transport errors wake and terminate pending calls" (shared_state.rs / connection_error_creators.rs, the C05
   model): in every world reachable by ANY interleaving of the driver and k stream tasks, a parked driver whose
   connection-error cell is set has been woken once the system is quiescent - no lost wake-up (F12 repaired).
   Proved by C05. *)
Theorem C06_progress_driver_woken_on_error :
  forall k w, reachable gen_cfg k w -> cell w <> None -> dprog w = [] -> parked w = true ->
    quiescent w -> woken w = true.
Proof. exact (fun k w => parked_driver_woken gen_cfg k w gen_facts_ok). Qed.

From H3V Require Import Gen.GenStreamFaults Spec.StreamScoped Model.StreamFaults Proofs.StreamFaultsLemmas Proofs.StreamFaultsProofs.

(* every request whose peer script is a healthy message or a healthy prefix hit by one stream-scoped fault
   (FIN early, RESET, STOP_SENDING, malformed message, oversized header ...) completes with a value or an error
   once the peer's events have all arrived and its task is polled, whatever the other requests and the driver
   did before, in any interleaving.  Proved by C07 over Model/StreamFaults.v (= C07_completes). *)
Theorem C06_progress_requests_complete :
  forall l stops L G sched j c S,
    in_class l -> Forall (action_ok stops L G) sched -> nth_error l j = Some (c, S) ->
    exists r, nth_error (reqs (run (sched ++ completion j (length S)) (init_world l))) j = Some r /\ res r <> None.
Proof. exact completes. Qed.

Print Assumptions C06_panic_sites_all_reviewed.
Print Assumptions C06_panic_owner_functions_unchanged.
Print Assumptions C06_source_shapes.
Print Assumptions C06_panic_review_no_duplicate_rows.
Print Assumptions C06_terminal_is_sticky.
Print Assumptions C06_must_complete_monotone.
Print Assumptions C06_close_completes_everything.
Print Assumptions C06_must_complete_backpressure_monotone.
Print Assumptions C06_close_completes_everything_backpressure.
Print Assumptions C06_stop_sending_completes_send.
Print Assumptions C06_no_panic_varint.
Print Assumptions C06_no_panic_datagram.
Print Assumptions C06_no_panic_prefix_int.
Print Assumptions C06_no_panic_huffman.
Print Assumptions C06_no_panic_prefix_string.
Print Assumptions C06_no_panic_qpack_stateless.
Print Assumptions C06_no_panic_settings.
Print Assumptions C06_no_panic_headers_request.
Print Assumptions C06_no_panic_headers_response.
Print Assumptions C06_no_panic_headers_trailers.
Print Assumptions C06_no_panic_frame_decode.
Print Assumptions C06_no_panic_cursor_new.
Print Assumptions C06_no_panic_cursor_remaining.
Print Assumptions C06_no_panic_cursor_chunk.
Print Assumptions C06_no_panic_cursor_advance.
Print Assumptions C06_cursor_advance_past_end_is_the_assert.
Print Assumptions C06_no_panic_cursor_get_u8.
Print Assumptions C06_no_panic_cursor_copy_to_slice.
Print Assumptions C06_cursor_varint_is_flat_varint.
Print Assumptions C06_no_panic_frame_stream.
Print Assumptions C06_no_panic_accept_recv.
Print Assumptions C06_no_panic_receive_path_composed.
Print Assumptions C06_progress_accept_recv.
Print Assumptions C06_progress_driver_woken_on_error.
Print Assumptions C06_progress_requests_complete.
Print Assumptions C06_progress_frame_stream_next.
Print Assumptions C06_progress_frame_stream_data.
Print Assumptions C06_progress_frame_stream_all_histories.
