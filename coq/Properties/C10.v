(* C10 - the field-section size limit is enforced exactly, in both directions.
   Model: Model/SectionLimit.v (six sites) over Model/QpackStateless.v; operators, limit sources, the 431 status, the
   stop code and the default limit are regenerated from the Rust source (Gen/GenLimits.v, Gen/GenQStateless.v).
   Specification: Spec/FieldSize.v (RFC 9114 4.2.2: sum of name length + value length + 32). *)
From H3V Require Import Base.Bytes Gen.GenCodes Gen.GenQStateless Gen.GenLimits Spec.RFC9204Static Spec.FieldSize
  Model.Static Model.QpackStateless Model.SectionLimit
  Proofs.QpackEncodeProofs Proofs.SectionLimitProofs.

(* ---- the decisions read from the source: every comparison is `>`, send sites read the peer's limit, receive
        sites the endpoint's own, the per-field overhead is 32, the default is 2^62-1 ---- *)
Theorem C10_source_decisions :
  (lim_send_request_strict = true /\ lim_send_response_strict = true /\ lim_send_trailers_strict = true /\
   qs_too_long_strict = true) /\
  (lim_send_request_uses_peer = true /\ lim_send_response_uses_peer = true /\ lim_send_trailers_uses_peer = true /\
   lim_recv_request_own = true /\ lim_recv_response_own = true /\ lim_recv_trailers_own = true) /\
  (qs_overhead = 32 /\ lim_default = 2 ^ 62 - 1 /\ lim_refusal_status = 431 /\ lim_refusal_send_error_propagates = true /\
   lim_client_response_stop_code = 268 /\ lim_client_trailers_stop_code = 268 /\ lim_setting_id = 6 /\
   lim_recv_request_decomp_code = 512 /\ lim_recv_response_decomp_code = 512 /\ lim_recv_trailers_decomp_code = 512).
Proof. exact (conj gen_limit_operators (conj gen_limit_sources gen_limit_constants)). Qed.

(* (translate/gen_limits.py additionally anchors, at each send site, that nothing the call can be parked on - an .await,
   a poll_* - sits between reading the limit and comparing it: the limit in force is the one at the comparison) *)

(* ---- T1: the size h3 computes when encoding and accumulates when decoding is the RFC 9114 4.2.2 size ---- *)
Theorem C10_encoded_size_is_rfc9114 :
  forall fs bs size, encode_stateless fs = Ok (bs, size) -> size = section_size fs.
Proof. exact encode_size_is_rfc. Qed.

Theorem C10_decoded_size_is_rfc9114 :
  forall bs fs m, wf_bytes bs -> decode_stateless None bs = Ok (fs, m) -> m = section_size fs.
Proof. exact decode_size_is_rfc. Qed.

(* decoding under a limit L, for EVERY L: the same result when the size fits, a too-long refusal otherwise *)
Theorem C10_limit_is_exact_in_decode :
  forall L bs fs m, decode_stateless None bs = Ok (fs, m) ->
    (m <= L -> decode_stateless (Some L) bs = Ok (fs, m)) /\
    (L < m -> exists n, L < n /\ decode_stateless (Some L) bs = Err (DHeaderTooLong n)).
Proof. exact decode_stateless_limit. Qed.

(* ---- T2: receive.  [readable bs fs] = h3 reads bs (without limit) as the field list fs ---- *)
Theorem C10_receive_accepts_exactly_within_limit :
  forall c own ps bs fs, wf_bytes bs -> readable bs fs ->
    (section_size fs <= own -> recv_section true c own ps bs = Delivered fs) /\
    (own < section_size fs -> exists n, own < n /\ recv_section true c own ps bs = RecvTooBig n own).
Proof. exact recv_section_exact. Qed.

Theorem C10_server_answers_431_unless_it_would_not_fit :
  forall own ps bs fs, wf_bytes bs -> readable bs fs ->
    (section_size fs <= own ->
       server_recv_request own ps bs = {| ro_result := Delivered fs; ro_written := None; ro_stop := None |}) /\
    (own < section_size fs ->
       exists a mx, ro_result (server_recv_request own ps bs) = RecvTooBig a mx /\ mx < a /\
                    ro_stop (server_recv_request own ps bs) = None /\
                    ro_written (server_recv_request own ps bs) =
                      if limit_in_force ps <? 42 then None else Some refusal_section).
Proof. exact server_request_exact. Qed.

Theorem C10_refusal_is_status_431_of_size_42 :
  rfc_decode_static refusal_section = Some [([58; 115; 116; 97; 116; 117; 115], [52; 51; 49])] /\
  section_size refusal_fields = 42.
Proof. exact refusal_is_status_431. Qed.

Theorem C10_client_response_too_big_stops_sending :
  forall own ps bs fs, wf_bytes bs -> readable bs fs ->
    (section_size fs <= own ->
       client_recv_response own ps bs = {| ro_result := Delivered fs; ro_written := None; ro_stop := None |}) /\
    (own < section_size fs ->
       exists n, own < n /\
         client_recv_response own ps bs =
         {| ro_result := RecvTooBig n own; ro_written := None; ro_stop := Some H3_REQUEST_CANCELLED |}).
Proof. exact client_response_exact. Qed.

Theorem C10_trailers_both_roles :
  forall own ps bs fs, wf_bytes bs -> readable bs fs ->
    (section_size fs <= own ->
       server_recv_trailers own ps bs = {| ro_result := Delivered fs; ro_written := None; ro_stop := None |} /\
       client_recv_trailers own ps bs = {| ro_result := Delivered fs; ro_written := None; ro_stop := None |}) /\
    (own < section_size fs ->
       exists n, own < n /\
         server_recv_trailers own ps bs = {| ro_result := RecvTooBig n own; ro_written := None; ro_stop := None |} /\
         client_recv_trailers own ps bs =
         {| ro_result := RecvTooBig n own; ro_written := None; ro_stop := Some H3_REQUEST_CANCELLED |}).
Proof. exact trailers_exact. Qed.

Theorem C10_oversize_is_never_a_connection_error :
  forall c own ps bs fs code, wf_bytes bs -> readable bs fs -> recv_section true c own ps bs <> RecvConnError code.
Proof. exact recv_never_connection_error. Qed.

(* the configured limit reaches every handle the API can produce unchanged: primary and cloned SendRequest (clone
   taken before or after the peer's SETTINGS), the streams they create, the server's resolver and request stream, and the
   receive half of split(); each hop's source expression is read from the Rust code (the lim_flow facts of Gen/GenLimits.v) *)
Theorem C10_own_limit_reaches_every_handle :
  forall h configured ps, own_at h configured ps = configured.
Proof. exact own_limit_reaches_every_handle. Qed.

(* ... and every SENDING handle (primary / cloned SendRequest, the streams they create, the server's streams, the send half of
   split()) reads the connection's settings cell, so the limit in force there is the one the peer advertised on this connection *)
Theorem C10_every_sending_handle_reads_the_connection_cell :
  forall h ps, settings_seen_by h ps = ps.
Proof. exact every_sending_handle_reads_the_connection_cell. Qed.

(* early cancel: once the lines read so far exceed the limit the section is refused as too big - stream scope - whatever
   follows (a truncated or undecodable tail is never looked at).  [reads r fs t]: r decodes to the fields fs, leaving t *)
Theorem C10_oversize_wins_over_undecodable_tail :
  forall L bs delta r fs t, wf_bytes bs -> hp_decode bs = Ok (0, false, delta, r) -> reads r fs t -> L < section_size fs ->
    exists n, L < n /\ decode_stateless (Some L) bs = Err (DHeaderTooLong n).
Proof. exact oversize_wins_over_bad_tail. Qed.

(* ---- T3: send, for every limit and every field list ---- *)
Theorem C10_limit_in_force :
  limit_in_force None = 2 ^ 62 - 1 /\ limit_in_force (Some None) = 2 ^ 62 - 1 /\
  forall p, limit_in_force (Some (Some p)) = p.
Proof. exact limit_in_force_default. Qed.

Theorem C10_send_sites_exact :
  forall own ps fs, Forall wf_field fs ->
    exists bs, encode_stateless fs = Ok (bs, section_size fs) /\
      let expected := if limit_in_force ps <? section_size fs
                      then SendTooBig (section_size fs) (limit_in_force ps) else Sent bs in
      send_request own ps fs = expected /\ send_response own ps fs = expected /\ send_trailers own ps fs = expected.
Proof. exact send_sites_exact. Qed.

Theorem C10_never_sends_more_than_the_limit_in_force :
  forall own ps fs p, Forall wf_field fs ->
    (send_request own ps fs = Sent p \/ send_response own ps fs = Sent p \/ send_trailers own ps fs = Sent p) ->
    section_size fs <= limit_in_force ps.
Proof. exact sent_implies_within_limit. Qed.

Theorem C10_over_limit_is_refused_and_nothing_written :
  forall own ps fs, Forall wf_field fs -> limit_in_force ps < section_size fs ->
    send_request own ps fs = SendTooBig (section_size fs) (limit_in_force ps) /\
    send_response own ps fs = SendTooBig (section_size fs) (limit_in_force ps) /\
    send_trailers own ps fs = SendTooBig (section_size fs) (limit_in_force ps).
Proof. exact over_limit_is_refused_unwritten. Qed.

(* ---- non-vacuity: the boundary, both sides ---- *)
Example C10_boundary_inhabited :
  (* :method GET alone has size 7 + 3 + 32 = 42 *)
  recv_section true 512 42 None [0; 0; 209] = Delivered [([58; 109; 101; 116; 104; 111; 100], [71; 69; 84])] /\
  recv_section true 512 41 None [0; 0; 209] = RecvTooBig 42 41 /\
  ro_written (server_recv_request 41 (Some (Some 42)) [0; 0; 209]) = Some refusal_section /\
  ro_written (server_recv_request 41 (Some (Some 41)) [0; 0; 209]) = None /\
  send_response 0 (Some (Some 42)) refusal_fields = Sent refusal_section /\
  send_response (2 ^ 62 - 1) (Some (Some 41)) refusal_fields = SendTooBig 42 41 /\
  send_response 0 None refusal_fields = Sent refusal_section.
Proof. vm_compute. repeat split. Qed.

Example C10_readable_inhabited : readable [0; 0; 209] [([58; 109; 101; 116; 104; 111; 100], [71; 69; 84])].
Proof. exists 42. vm_compute. reflexivity. Qed.

Print Assumptions C10_source_decisions.
Print Assumptions C10_encoded_size_is_rfc9114.
Print Assumptions C10_decoded_size_is_rfc9114.
Print Assumptions C10_limit_is_exact_in_decode.
Print Assumptions C10_receive_accepts_exactly_within_limit.
Print Assumptions C10_server_answers_431_unless_it_would_not_fit.
Print Assumptions C10_refusal_is_status_431_of_size_42.
Print Assumptions C10_client_response_too_big_stops_sending.
Print Assumptions C10_trailers_both_roles.
Print Assumptions C10_oversize_is_never_a_connection_error.
Print Assumptions C10_own_limit_reaches_every_handle.
Print Assumptions C10_every_sending_handle_reads_the_connection_cell.
Print Assumptions C10_oversize_wins_over_undecodable_tail.
Print Assumptions C10_limit_in_force.
Print Assumptions C10_send_sites_exact.
Print Assumptions C10_never_sends_more_than_the_limit_in_force.
Print Assumptions C10_over_limit_is_refused_and_nothing_written.
