(* C09 - Shutdown drains: accept() ends exactly when all accepted requests have.

   [dtrace h] is the observable trace of the model (Model/Ongoing.v on top of Model/Goaway.v: create_resolver /
   RequestEnd life cycle, Drop -> channel, poll_requests_completion, the None decision of accept) along the history
   [h]: any interleaving of request-stream arrivals (distinct stream ids, as QUIC guarantees), runs of the accept
   task, peer GOAWAYs and, per request handed out, any of: resolver dropped, HEADERS ok, FIN / RESET / QPACK-invalid /
   wrong first frame / malformed HEADERS, finish, RESET after HEADERS, stream dropped, split, halves dropped.
   [app_after a] is the application-side bookkeeping of Spec/DrainSpec.v after the trace prefix [a]:
   a_objs = requests handed out whose objects are not all gone, a_goaway = the peer's GOAWAY has arrived,
   a_wait = request streams opened by the peer and not yet taken by accept(). *)
From H3V Require Import Base.Bytes Gen.GenGoaway Spec.GoawaySpec Spec.DrainSpec Model.Goaway Model.Ongoing Model.GoawayWrite
  Proofs.DrainProofs.

(* T1 safety: accept() answers "no more requests" only when no request it handed out has a live handle *)
Theorem C09_none_only_when_all_ended :
  forall h, NoDup (arrivals h) ->
    forall a b, dtrace h = a ++ DO ENone :: b -> a_objs (app_after a) = [].
Proof. intros h Hn. exact (proj1 (model_drain_safe_live h Hn)). Qed.

(* T2 liveness at quiescence: once the peer's GOAWAY has arrived, every request handed out has ended - in ANY of
   the listed ways - and no request stream is waiting, a run of the accept task does not end Pending
   (so it ends with None, or with the connection error if one occurred) *)
Theorem C09_never_pending_once_drained :
  forall h, NoDup (arrivals h) ->
    forall a b, dtrace h = a ++ DO EPending :: b ->
      ~ (a_goaway (app_after a) = true /\ a_objs (app_after a) = [] /\ a_wait (app_after a) = [] /\
         a_blocked (app_after a) = false).
Proof. intros h Hn. exact (proj1 (proj2 (model_drain_safe_live h Hn))). Qed.

(* T3 errors only when justified: accept() reports connection error c only if the inputs so far justify it - a
   QPACK-undecodable or wrong-first-frame request that the application tried to resolve (QPACK_DECOMPRESSION_FAILED,
   H3_FRAME_UNEXPECTED) or a peer GOAWAY larger than the previous one (H3_ID_ERROR). In particular a repeated or
   smaller GOAWAY, a FIN / RESET before HEADERS or a malformed request never turn "None" into an error *)
Theorem C09_errors_only_when_justified :
  forall h, NoDup (arrivals h) ->
    forall a b c, dtrace h = a ++ DO (EErr c) :: b -> In c (a_excuse (app_after a)).
Proof. intros h Hn. exact (proj2 (proj2 (model_drain_safe_live h Hn))). Qed.

(* T2 in positive form: after ANY history that has reported no connection error, if the peer's GOAWAY has arrived,
   every request handed out has ended and nothing is waiting, then running the accept task makes accept() answer
   None (after writing at most one final GOAWAY) - or the connection error a failed request has raised meanwhile *)
Theorem C09_drained_poll_answers_none :
  forall h, NoDup (arrivals h) ->
    (forall c, ~ In (DO (EErr c)) (dtrace h)) ->
    drained (app_after (dtrace h)) ->
    exists pre ans, dtrace (h ++ [DPoll]) = dtrace h ++ DI DPoll :: map DO (pre ++ [ans]) /\
                    (pre = [] \/ exists g, pre = [EWire g]) /\
                    (ans = ENone \/ exists c, ans = EErr c).
Proof. exact drained_poll_answers. Qed.

(* the model with a blockable control stream (Model/GoawayWrite.v) is the model above while the stream is writable
   no accept() is suspended on its closing GOAWAY and the transport has not failed; blocked / failed-transport histories are covered by the run and the monitor only *)
Theorem C09_unblocked_is_base_model :
  forall b o, bw_blocked b = false -> bw_parked b = None -> bw_lost b = false ->
    bstep b (BOp o) =
      (fst (dstep (bw_w b) o), {| bw_w := snd (dstep (bw_w b) o); bw_blocked := false; bw_parked := None; bw_lost := false |}).
Proof.
  intros b o Hb Hp Hl. unfold bstep, notice_loss. rewrite Hp, Hb, Hl.
  assert (E : match o with DPoll => bw_w b | _ => bw_w b end = bw_w b) by (destruct o; reflexivity).
  rewrite E. destruct (dstep (bw_w b) o) as [outs w']. reflexivity.
Qed.

(* the decision points the C09 proofs rest on, as read from the source on this run (the anchored bodies are
   compared whole; who may report the end of a request - one request_end.send, in Drop for RequestEnd - is part of it) *)
Theorem C09_decision_points :
  end_created_at_accept = true /\ end_moved_from_resolver = true /\ end_drop_sends = true /\
  ongoing_insert = true /\ ongoing_insert_is_stream = true /\ completion_removes = true /\
  pending_needs_recv_closing = true /\ reject_none_if_idle = true /\
  headers_qpack_code = rfc_QPACK_DECOMPRESSION_FAILED /\ headers_unexpected_code = rfc_H3_FRAME_UNEXPECTED /\
  headers_truncated_code = rfc_H3_FRAME_ERROR /\ order_code = rfc_H3_ID_ERROR.
Proof. repeat split. Qed.

(* the same two clauses as the one-pass monitor run on the traces of the real implementation *)
Theorem C09_monitor_accepts_model :
  forall h, NoDup (arrivals h) -> drain_okb (dtrace h) = true.
Proof. exact model_drains. Qed.
Theorem C09_monitor_sound :
  forall t, drain_okb t = true -> drain_safe t /\ drain_live t /\ errors_justified t.
Proof. exact drain_okb_sound. Qed.
Theorem C09_monitor_complete :
  forall t, drain_safe t -> drain_live t -> errors_justified t -> drain_okb t = true.
Proof. exact drain_okb_complete. Qed.

(* non-vacuity: the four endings that used to leak the request, a split request, a request still alive *)
Example C09_dropped_resolver_inhabited :
  dtrace [DArrive 0; DPoll; DDropResolver 0; DPeerGoaway 0; DPoll] =
    [DI (DArrive 0); DI DPoll; DO (EShown 0); DO EPending; DI (DDropResolver 0); DI (DPeerGoaway 0);
     DI DPoll; DO (EWire 4); DO ENone].
Proof. vm_compute. reflexivity. Qed.
Example C09_early_failures_inhabited :
  dtrace [DArrive 0; DArrive 4; DArrive 8; DPoll; DPeerGoaway 0; DHeadersFail 0 KFin; DHeadersFail 4 KReset;
          DPoll; DHeadersFail 8 KMalformed; DPoll] =
    [DI (DArrive 0); DI (DArrive 4); DI (DArrive 8); DI DPoll; DO (EShown 0); DO (EShown 4); DO (EShown 8); DO EPending;
     DI (DPeerGoaway 0); DI (DHeadersFail 0 KFin); DI (DHeadersFail 4 KReset); DI DPoll; DO EPending;
     DI (DHeadersFail 8 KMalformed); DI DPoll; DO (EWire 12); DO ENone].
Proof. vm_compute. reflexivity. Qed.
Example C09_halves_inhabited :
  dtrace [DArrive 0; DPoll; DHeadersOk 0; DPeerGoaway 0; DSplit 0; DDropHalf 0 true; DPoll; DDropHalf 0 false; DPoll] =
    [DI (DArrive 0); DI DPoll; DO (EShown 0); DO EPending; DI (DHeadersOk 0); DI (DPeerGoaway 0); DI (DSplit 0);
     DI (DDropHalf 0 true); DI DPoll; DO EPending; DI (DDropHalf 0 false); DI DPoll; DO (EWire 4); DO ENone].
Proof. vm_compute. reflexivity. Qed.
Example C09_qpack_failure_inhabited :
  dtrace [DArrive 0; DPoll; DHeadersFail 0 KBadQpack; DPeerGoaway 0; DPoll] =
    [DI (DArrive 0); DI DPoll; DO (EShown 0); DO EPending; DI (DHeadersFail 0 KBadQpack); DI (DPeerGoaway 0);
     DI DPoll; DO (EErr 512)].
Proof. vm_compute. reflexivity. Qed.

Example C09_repeated_goaway_inhabited :
  dtrace [DArrive 0; DPoll; DPeerGoaway 0; DPoll; DPeerGoaway 0; DDropResolver 0; DPoll] =
    [DI (DArrive 0); DI DPoll; DO (EShown 0); DO EPending; DI (DPeerGoaway 0); DI DPoll; DO EPending;
     DI (DPeerGoaway 0); DI (DDropResolver 0); DI DPoll; DO (EWire 4); DO ENone].
Proof. vm_compute. reflexivity. Qed.

Print Assumptions C09_none_only_when_all_ended.
Print Assumptions C09_never_pending_once_drained.
Print Assumptions C09_errors_only_when_justified.
Print Assumptions C09_drained_poll_answers_none.
Print Assumptions C09_unblocked_is_base_model.
Print Assumptions C09_decision_points.
Print Assumptions C09_monitor_accepts_model.
Print Assumptions C09_monitor_sound.
Print Assumptions C09_monitor_complete.
