(* C08 - GOAWAY identifiers never grow and draw the accept/reject line exactly.

   Server: [gtrace h] is the observable trace (Spec/GoawaySpec.v vocabulary) of the model of
   server::Connection::{accept, shutdown, poll_accept_request_stream_internal} + ConnectionInner::shutdown
   (Model/Goaway.v, decision points from Gen/GenGoaway.v) along the history [h]: any interleaving of request
   arrivals in any stream-ID order, shutdown(n) calls (n < 2^64, repeated), single polls of accept(), request
   completions and peer GOAWAYs.  Arrivals are request stream ids (id mod 4 = 0) up to 2^62 - 8; the one
   remaining id 2^62 - 4 is the saturation boundary of `id + n + 1` and is refuted below.
   Client: [crun client0 h] over GOAWAY arrivals, driver polls and send_request calls. *)
From H3V Require Import Base.Bytes Gen.GenGoaway Spec.GoawaySpec Model.Varint Model.Goaway Model.GoawayWrite
  Proofs.GoawaySpecLemmas Proofs.GoawayProofs.

(* T1: the identifiers of the GOAWAY frames on the wire never increase *)
Theorem C08_wire_ids_never_increase :
  forall h, Forall wf_gop h ->
    forall a b c g1 g2, gtrace h = a ++ EWire g1 :: b ++ EWire g2 :: c -> g2 <= g1.
Proof. intros h Hwf. exact (proj1 (model_line h Hwf)). Qed.

(* T2a: every request shown to the application - before or after - is below every GOAWAY id sent,
   in particular below the last one *)
Theorem C08_shown_below_every_goaway :
  forall h, Forall wf_gop h ->
    forall id g, In (EShown id) (gtrace h) -> In (EWire g) (gtrace h) -> id < g.
Proof. intros h Hwf. exact (proj1 (proj2 (model_line h Hwf))). Qed.

(* T2b: a stream taken by accept() when G is the last id sent is shown iff id < G; if id >= G it is
   refused with STOP_SENDING + RESET_STREAM H3_REQUEST_REJECTED; with no GOAWAY sent it is shown *)
Theorem C08_line_is_exact :
  forall h, Forall wf_gop h ->
    forall a b e id, gtrace h = a ++ e :: b -> taken e = Some id ->
      match last_wire a with
      | Some g => (e = EShown id <-> id < g) /\
                  (g <= id -> e = ERejected id (Some rfc_H3_REQUEST_REJECTED) (Some rfc_H3_REQUEST_REJECTED))
      | None => e = EShown id
      end.
Proof. intros h Hwf. apply line_exact, model_line, Hwf. Qed.

(* T2c: nothing is lost and nothing waits behind a Pending answer: every stream taken from the transport was
   waiting, is shown or refused, and accept() never answers Pending while a request stream is waiting *)
Theorem C08_nothing_lost :
  forall h, Forall wf_gop h -> nothing_lost (gtrace h).
Proof. intros h Hwf. exact (proj2 (proj2 (proj2 (model_line h Hwf)))). Qed.

(* T2d (closing): when accept() answers "no more requests" a GOAWAY is on the wire and its identifier promises
   nothing beyond the requests served: it is at most the first request id after the largest one shown (0 if
   none) - so no request below the last identifier is left unserved by an accept() that has said None *)
Theorem C08_none_closes_the_promise :
  forall h, Forall wf_gop h ->
    forall a b, gtrace h = a ++ ENone :: b ->
      exists g, last_wire a = Some g /\ g <= first_unserved (top_shown a).
Proof. intros h Hwf. exact (model_closing h Hwf). Qed.

(* the same clauses as accepted by the one-pass monitor, which is the oracle run on the traces
   of the real implementation; the monitor is sound for the line *)
Theorem C08_monitor_accepts_model :
  forall h, Forall wf_gop h -> line_okb (gtrace h) = true.
Proof. exact model_on_the_line. Qed.
Theorem C08_monitor_sound : forall t, line_okb t = true -> line t /\ closing_goaway t.
Proof. intros t H. split; [apply line_okb_sound|apply line_okb_closing]; exact H. Qed.
(* ... and complete: it rejects no trace that is on the line (no false alarm from the oracle) *)
Theorem C08_monitor_complete : forall t, line t -> closing_goaway t -> line_okb t = true.
Proof. exact line_okb_complete. Qed.

(* T3 (client): the client model is the RFC 9114 reference client on every history of GOAWAY arrivals, driver
   polls, stream-credit changes and polls of send_request (a new call, or the call suspended waiting for a stream):
   once the driver has processed a GOAWAY, a new send_request answers "closing" and opens no stream, a suspended one
   that obtains a stream resets it with H3_REQUEST_CANCELLED without writing anything; an identifier that is not a
   client-initiated bidirectional stream id, or larger than an earlier one, ends the driver with H3_ID_ERROR *)
Theorem C08_client_is_rfc :
  forall h, crun client0 h = rfc_client_run rcl0 h.
Proof. exact client_is_rfc. Qed.

(* ... so no request is started once a GOAWAY has been processed (stated on the reference client) *)
Theorem C08_client_starts_nothing_after_goaway :
  forall s sid, r_limit s <> None -> ~ In (CReqOpened sid) (fst (rfc_client_step s KRequest)).
Proof. exact rfc_no_request_after_goaway. Qed.

(* the model with a control-stream write budget (Model/GoawayWrite.v: pending GOAWAY writes, suspended and resumed
   shutdown()/accept() calls) IS the model above whenever the transport takes every write at once; histories with a
   finite budget are covered by the correspondence run and the monitor only (no theorem) *)
Theorem C08_unlimited_budget_is_base_model :
  forall w o, ws_budget w = None -> ws_parked w = None ->
    wstep w (WOp o) =
      (map WE (fst (gstep (ws_g w) o)),
       {| ws_g := snd (gstep (ws_g w) o); ws_budget := None; ws_inflight := None; ws_parked := None |}).
Proof.
  intros w o Hb Hp. unfold wstep. rewrite Hp, Hb.
  destruct (gstep (ws_g w) o) as [outs g']. cbn [fst snd].
  destruct (split_wire outs) as [[[pre id] post]|]; [|reflexivity].
  cbn [ctl_flush]. change (0 =? 0) with true. reflexivity.
Qed.

(* the decision points the proofs rest on, as read from the source on this run *)
Theorem C08_decision_points :
  (forall sent id, (reject_present && match sent with Some max_id => cmp_eval reject_cmp id max_id | None => false end)
                   = match sent with Some g => g <=? id | None => false end) /\
  (forall l n, shutdown_id (Some l) n = sid_add (sid_add l n) 1) /\
  (forall n, shutdown_id None n = sid_add 0 n) /\
  last_accepted_is_max = true /\ ongoing_insert = true /\ ongoing_insert_is_stream = true /\
  store_before_write = true /\ shutdown_error_guard = true /\ closing_retest_after_open = true /\
  closing_retest_reset_code = Some rfc_H3_REQUEST_CANCELLED /\
  accept_none_shutdown = Some 0 /\ accept_none_only_if_unsent = false /\
  (forall s g, (guard_present && cmp_eval guard_cmp s g) = (s <=? g)) /\
  reject_stop_code = Some rfc_H3_REQUEST_REJECTED /\ reject_reset_code = Some rfc_H3_REQUEST_REJECTED /\
  kind_code = rfc_H3_ID_ERROR /\ order_code = rfc_H3_ID_ERROR.
Proof. repeat split. Qed.

(* the saturation boundary: request id 2^62 - 4 (the largest one) is served and then announced as rejected *)
Theorem C08_saturation_boundary_refuted :
  exists h, Forall (fun o => match o with Arrive id => id mod 4 = 0 /\ id < 2 ^ 62 | Shutdown n => n < 2 ^ 64 | _ => True end) h /\
            line_okb (gtrace h) = false /\
            In (EShown (2 ^ 62 - 4)) (gtrace h) /\ In (EWire (2 ^ 62 - 4)) (gtrace h).
Proof.
  exists [Arrive (2 ^ 62 - 4); Poll; Shutdown 0]. split.
  - repeat constructor.
  - vm_compute. split; [reflexivity|]. split; [right; right; left; reflexivity|do 4 right; left; reflexivity].
Qed.

(* non-vacuity *)
Example C08_line_inhabited :
  gtrace [Arrive 0; Poll; Shutdown 1; Arrive 8; Arrive 4; Poll; Poll] =
    [EArrive 0; EPoll; EShown 0; EShutdown 1; EWire 8; EArrive 8; EArrive 4; EPoll;
     ERejected 8 (Some 267) (Some 267); EShown 4; EPoll; EPending]
  /\ Forall wf_gop [Arrive 0; Poll; Shutdown 1; Arrive 8; Arrive 4; Poll; Poll].
Proof. split; [vm_compute; reflexivity|]. repeat constructor; vm_compute; congruence. Qed.
Example C08_repeated_shutdown_inhabited :
  gtrace [Arrive 4; Arrive 0; Poll; Poll; Shutdown 2; Shutdown 18446744073709551615; Shutdown 0; Shutdown 1] =
    [EArrive 4; EArrive 0; EPoll; EShown 4; EPoll; EShown 0; EShutdown 2; EWire 16;
     EShutdown 18446744073709551615; EShutdown 0; EWire 8; EShutdown 1].
Proof. vm_compute. reflexivity. Qed.
Example C08_closing_inhabited :
  gtrace [Arrive 0; Poll; Shutdown 2; Complete 0; PeerGoaway 0; Poll] =
    [EArrive 0; EPoll; EShown 0; EShutdown 2; EWire 12; EComplete 0; EPeerGoaway 0; EPoll; EWire 4; ENone].
Proof. vm_compute. reflexivity. Qed.
Example C08_shutdown_after_error_inhabited :
  gtrace [PeerGoaway 4; PeerGoaway 8; Poll; Shutdown 0] =
    [EPeerGoaway 4; EPeerGoaway 8; EPoll; EErr 264; EShutdown 0; EErr 264].
Proof. vm_compute. reflexivity. Qed.
Example C08_client_inhabited :
  crun client0 [KRequest; KGoaway 8; KDrive; KRequest; KGoaway 12; KDrive] =
    [CRequest; CReqOpened 0; CGoaway 8; CDrive; CDriveIdle; CRequest; CReqClosing; CGoaway 12; CDrive; CDriveErr 264].
Proof. vm_compute. reflexivity. Qed.
Example C08_client_parked_inhabited :
  crun client0 [KStarve; KRequest; KGoaway 8; KDrive; KGrant 1; KRequest; KRequest] =
    [CStarve; CRequest; CReqParked; CGoaway 8; CDrive; CDriveIdle; CGrant 1; CRequest; CReqCancelled 0 (Some 268);
     CRequest; CReqClosing].
Proof. vm_compute. reflexivity. Qed.

Print Assumptions C08_wire_ids_never_increase.
Print Assumptions C08_shown_below_every_goaway.
Print Assumptions C08_line_is_exact.
Print Assumptions C08_nothing_lost.
Print Assumptions C08_none_closes_the_promise.
Print Assumptions C08_monitor_accepts_model.
Print Assumptions C08_monitor_sound.
Print Assumptions C08_monitor_complete.
Print Assumptions C08_client_is_rfc.
Print Assumptions C08_client_starts_nothing_after_goaway.
Print Assumptions C08_unlimited_budget_is_base_model.
Print Assumptions C08_decision_points.
Print Assumptions C08_saturation_boundary_refuted.
