(* C15 - Huffman strings and prefixed integers: round trip and strict decoding. *)
From H3V Require Import Base.Bytes Spec.PrefixInt Spec.RFC7541Huffman Spec.HuffmanKnown
  Gen.GenHuffDec Gen.GenHuffEnc Model.PrefixInt Model.Huffman Model.PrefixString
  Proofs.PrefixIntProofs Proofs.HuffmanWalk Proofs.HuffmanStrict Proofs.HuffmanDecodeProofs
  Proofs.HuffmanEncodeProofs Proofs.PrefixStringProofs Proofs.HuffmanKnownProofs
  Proofs.HuffmanEncodeCanon.

(* ---------------- prefixed integers (RFC 7541 5.1) ---------------- *)

(* FULL statement of the property text: "every integer round-trips for every prefix size", i.e.
     forall size flags v r, 1 <= size <= 8 -> flags < 2^(8-size) -> v < 2^64 -> wf_bytes r ->
       exists e, pi_encode size flags v = Ok e /\ pi_decode size (e ++ r) = Ok (flags, v, r).
   PROVED PART (hence `_partial`): the values of the decoder's range [0, 2^63 - 1 + (2^size - 1)], for every
   prefix size 1..8, every value of the flag bits above the prefix and whatever follows in the buffer.
   MISSING, and false for h3: the u64 values from 2^63 + 2^size - 1 up are written by the encoder but refused by
   the decoder (an implementation limit RFC 7541 5.1 allows; RFC 9204 asks for 62 bits) - pinned exactly by
   C15_int_beyond_range_rejected, so the boundary of the round trip is known to the last value. *)
Theorem C15_int_roundtrip_partial :
  forall size flags v r,
    1 <= size <= 8 -> flags < 2 ^ (8 - size) -> v < 2 ^ 63 + (2 ^ size - 1) -> wf_bytes r ->
    exists e, pi_encode size flags v = Ok e /\ pi_decode size (e ++ r) = Ok (flags, v, r).
Proof. exact pi_roundtrip. Qed.

(* T1b: the remaining u64 values are rejected with Overflow - not wrapped, not truncated *)
Theorem C15_int_beyond_range_rejected :
  forall size flags v r,
    1 <= size <= 8 -> flags < 2 ^ (8 - size) -> 2 ^ 63 + (2 ^ size - 1) <= v -> v < 2 ^ 64 -> wf_bytes r ->
    exists e, pi_encode size flags v = Ok e /\ pi_decode size (e ++ r) = Err PiOverflow.
Proof. exact pi_beyond_range. Qed.

(* the encoder writes exactly the octets of the RFC 7541 5.1 pseudocode *)
Theorem C15_int_encode_is_rfc :
  forall size flags v,
    1 <= size <= 8 -> flags < 2 ^ (8 - size) -> v < 2 ^ 64 ->
    pi_encode size flags v = Ok (rfc_pi_encode size flags v).
Proof. exact pi_encode_is_rfc. Qed.

(* T2: soundness on ALL inputs: an accepted integer is the RFC value computed in unbounded
   naturals (so no wrap is possible) and the unread rest is the RFC's rest *)
Theorem C15_int_decode_sound :
  forall size bs f v rest,
    1 <= size <= 8 -> wf_bytes bs ->
    pi_decode size bs = Ok (f, v, rest) -> rfc_pi_decode size bs = Some (f, v, rest).
Proof. exact pi_decode_sound. Qed.

(* UnexpectedEnd only for encodings that really are truncated *)
Theorem C15_int_truncated_rejected :
  forall size bs,
    1 <= size <= 8 -> wf_bytes bs ->
    pi_decode size bs = Err PiUnexpectedEnd -> rfc_pi_decode size bs = None.
Proof. exact pi_decode_truncated. Qed.

(* Overflow exactly when the prefix is full and at least nine octets carry the continuation bit *)
Theorem C15_int_overflow_iff :
  forall size bs,
    1 <= size <= 8 -> wf_bytes bs ->
    (pi_decode size bs = Err PiOverflow <->
     exists b0 r, bs = b0 :: r /\ b0 mod 2 ^ size = 2 ^ size - 1 /\ (9 <= cont_run r)%nat).
Proof. exact pi_decode_overflow_iff. Qed.

(* no input makes the decoder panic (shift / add overflow sites of the model are unreachable) *)
Theorem C15_int_decode_no_panic :
  forall size bs, 1 <= size <= 8 -> wf_bytes bs -> is_panic (pi_decode size bs) = false.
Proof. exact pi_decode_no_panic. Qed.

Example C15_int_roundtrip_inhabited :
  pi_encode 5 2 1337 = Ok [95; 154; 10] /\ pi_decode 5 [95; 154; 10; 7] = Ok (2, 1337, [7]).
Proof. split; vm_compute; reflexivity. Qed.
Example C15_int_overflow_inhabited :
  pi_decode 5 [95; 225; 255; 255; 255; 255; 255; 255; 255; 255; 1] = Err PiOverflow.
Proof. vm_compute. reflexivity. Qed.

(* ---------------- T3: the generated tables against RFC 7541 Appendix B ---------------- *)

(* every leaf of h3's decode tree (Gen/GenHuffDec.v) carries an octet whose RFC code is the leaf's bit
   path; there are 256 leaves; walking the RFC code of any octet from the root ends on that octet *)
Theorem C15_table_decode_tree :
  (forall path x, In (path, x) (leaves huff_dec_root) -> x < 256 /\ path = code_bits x) /\
  length (leaves huff_dec_root) = 256%nat /\
  (forall x, x < 256 -> twalk huff_dec_root (code_bits x) = WFound x []).
Proof. exact (conj root_leaves (conj root_leaves_count root_walks_codes)). Qed.

(* every row of h3's encode table (Gen/GenHuffEnc.v) spells the RFC code of its octet *)
Theorem C15_table_encode_rows :
  forall x, x < 256 ->
    exists bit_count parts, nth_error huff_enc_rows (N.to_nat x) = Some (bit_count, parts) /\
      parts_ok parts bit_count = true /\ row_parts_bits parts bit_count = code_bits x.
Proof. exact enc_row. Qed.

(* the RFC code (EOS included) is prefix-free and complete (Kraft sum = 1) *)
Theorem C15_table_prefix_free_complete :
  (forall i j r, i < 257 -> j < 257 -> code_bits j = code_bits i ++ r -> i = j) /\
  fold_right (fun c acc => 2 ^ (30 - N.of_nat (length c)) + acc) 0 rfc_code_table = 2 ^ 30.
Proof. exact (conj rfc_prefix_free rfc_kraft_complete). Qed.

(* the reference decoder used as the oracle accepts exactly the RFC 7541 5.2 strings *)
Theorem C15_reference_decoder_is_rfc :
  forall p s, rfc_huff_decode p = Some s <-> valid_huff (bits_of_bytes p) s.
Proof. exact rfc_huff_decode_iff. Qed.

(* ---------------- T4: Huffman encoder and round trip ---------------- *)

(* (enc_fits s := len s < 2^26: the encoder's u32 bit positions, field widths read from bitwin.rs, and its
   `7 * byte` capacity computation cannot overflow below that length)
   the encoder never fails; its output is the concatenation of the RFC codes of the octets followed
   by fewer than 8 one bits (the shortest padding to the octet boundary) - a valid 5.2 encoding *)
Theorem C15_huffman_encode_canonical :
  forall s, wf_bytes s -> enc_fits s ->
    exists e, hpack_encode s = Ok e /\ wf_bytes e /\ valid_huff (bits_of_bytes e) s /\
              (8 * length e < length (codes s) + 8)%nat.
Proof. exact hpack_encode_valid. Qed.

(* ... and it is, octet for octet, the output of the canonical encoder of the specification *)
Theorem C15_huffman_encode_is_rfc :
  forall s, wf_bytes s -> enc_fits s -> hpack_encode s = Ok (rfc_huff_encode s).
Proof. exact hpack_encode_is_rfc. Qed.

(* every byte string (below 2^26 octets, so that its encoding fits the decoder's u32 positions) round-trips *)
Theorem C15_huffman_roundtrip :
  forall s, wf_bytes s -> len s < 2 ^ 26 -> exists e, hpack_encode s = Ok e /\ hpack_decode e = Ok s.
Proof. exact hpack_roundtrip. Qed.

Example C15_huffman_roundtrip_inhabited :
  hpack_encode [38; 97; 0; 255] = Ok [248; 31; 254; 63; 255; 254; 239] /\
  hpack_decode [248; 31; 254; 63; 255; 254; 239] = Ok [38; 97; 0; 255].
Proof. split; vm_compute; reflexivity. Qed.

(* ---------------- T6: string literals ---------------- *)

(* for every prefix size the Rust `size` argument 2..8 (prefix of size-1 >= 1 bits; size 1 panics, see
   C15_string_size1_panics), flag bits that fit, and whatever follows in the buffer *)
Theorem C15_string_roundtrip :
  forall size flags s r,
    2 <= size <= 8 -> flags < 2 ^ (8 - size) -> wf_bytes s -> len s < 2 ^ 26 -> wf_bytes r ->
    exists enc, ps_encode size flags s = Ok enc /\ ps_decode size (enc ++ r) = Ok (s, r).
Proof. exact ps_roundtrip. Qed.

(* soundness of the literal decoder on ALL inputs: an accepted literal has the RFC 7541 5.1 length (so a
   length that does not fit cannot wrap), its value is made of exactly that many payload octets, the
   rest is left unread, and the H bit selects raw octets or Huffman decoding of exactly those octets
   (whose result is then constrained by C15_strict_outside_known_class / C15_known_class_behaviour) *)
Theorem C15_string_decode_sound :
  forall size bs v rest,
    2 <= size <= 8 -> wf_bytes bs -> ps_decode size bs = Ok (v, rest) ->
    exists f n r, rfc_pi_decode (size - 1) bs = Some (f, n, r) /\ n <= len r /\
      rest = skipn (N.to_nat n) r /\
      (N.land f 1 = 0 -> v = firstn (N.to_nat n) r) /\
      (N.land f 1 <> 0 -> 8 * n + 8 < 2 ^ 32 /\ hpack_decode (firstn (N.to_nat n) r) = Ok v).
Proof. exact ps_decode_sound. Qed.

(* the raw (H = 0) branch, which ps_encode never produces: a length-prefixed octet string comes back unchanged *)
Theorem C15_string_raw_roundtrip :
  forall size flags payload r,
    2 <= size <= 8 -> flags < 2 ^ (8 - size) -> wf_bytes payload -> len payload < 2 ^ 62 -> wf_bytes r ->
    ps_decode size (rfc_pi_encode (size - 1) (2 * flags) (len payload) ++ payload ++ r) = Ok (payload, r).
Proof. exact ps_decode_raw. Qed.

Example C15_string_wrapped_length_inhabited :
  (* declared length 2^32 + 3 with 3 octets present: truncated, not "abc" *)
  ps_decode 8 [127; 132; 255; 255; 255; 15; 97; 98; 99] = Err PsUnexpectedEnd /\
  ps_decode 8 [3; 97; 98; 99] = Ok ([97; 98; 99], []).
Proof. split; vm_compute; reflexivity. Qed.

Theorem C15_string_decode_no_panic :
  forall size bs, 2 <= size <= 8 -> wf_bytes bs -> is_panic (ps_decode size bs) = false.
Proof. exact ps_decode_no_panic. Qed.

(* prefix_string::decode(1, _) / prefix_int::decode(0, _) panic on any non-empty input (`0xFF >> 8` on u8);
   no caller in h3 uses these sizes; confirmed on the real code through the harness *)
Theorem C15_string_size1_panics :
  forall b r, is_panic (ps_decode 1 (b :: r)) = true /\ is_panic (pi_decode 0 (b :: r)) = true.
Proof. intros b r. split; reflexivity. Qed.

Example C15_string_roundtrip_inhabited :
  ps_encode 6 1 [110; 97; 109; 101] = Ok [99; 168; 116; 151] /\
  ps_decode 6 [99; 168; 116; 151; 7] = Ok ([110; 97; 109; 101], [7]).
Proof. split; vm_compute; reflexivity. Qed.

(* ---------------- T5: Huffman strictness, known-finding form (F15b) ---------------- *)

(* FULL statement (false today, see C15_strict_refuted):
     forall p s, wf_bytes p -> fits_u32 p -> (hpack_decode p = Ok s <-> valid_huff (bits_of_bytes p) s)
   where fits_u32 p := 8 * len p + 8 < 2^32 (the bound the caller prefix_string::decode enforces)     *)

(* T5a: outside the class LongOnes (valid codes followed by 8..37 one bits) the decoder accepts
   exactly the strings RFC 7541 5.2 allows, and returns the octets the RFC says *)
Theorem C15_strict_outside_known_class :
  forall p s, wf_bytes p -> fits_u32 p -> ~ LongOnes p ->
    (hpack_decode p = Ok s <-> valid_huff (bits_of_bytes p) s).
Proof. exact hpack_decode_strict_outside. Qed.

(* the same against the independent reference decoder *)
Theorem C15_strict_outside_vs_reference :
  forall p s, wf_bytes p -> fits_u32 p -> ~ LongOnes p ->
    (hpack_decode p = Ok s <-> rfc_huff_decode p = Some s).
Proof. exact hpack_decode_vs_reference. Qed.

(* T5b: the exact behaviour inside the class: the octets before the ones, nothing else;
   and every member of the class is invalid for the RFC *)
Theorem C15_known_class_behaviour :
  forall p s, wf_bytes p -> fits_u32 p -> LongOnesResult p s ->
    hpack_decode p = Ok s /\ (forall s', hpack_decode p = Ok s' -> s' = s) /\
    (forall s', ~ valid_huff (bits_of_bytes p) s').
Proof.
  intros p s Hwf Hsz Hl. split; [exact (hpack_decode_known_class p s Hwf Hsz Hl)|]. split.
  - intros s'. exact (hpack_decode_known_class_only p s s' Hwf Hsz Hl).
  - exact (known_class_is_invalid p (LongOnesResult_LongOnes p s Hl)).
Qed.

(* the class is decidable by the executable predicate the model driver uses (greedy stripping of RFC
   octet codes), and its result function is the documented behaviour *)
Theorem C15_known_class_decidable :
  forall bs, (long_ones_b bs = true <-> LongOnes bs) /\
             (LongOnes bs -> LongOnesResult bs (long_ones_result bs)).
Proof. intros bs. split; [exact (long_ones_b_spec bs)|exact (long_ones_result_spec bs)]. Qed.

(* decoding never panics - slice index, fuel, every shift whose amount could reach the width of the shifted
   type (check_padding `0xFF >> (symbol_end % 8)` Panic 40, check_eof `2u16 << (count - 1)` 41/42, read_bits 43/44),
   the BitWindow field widths (15/16) and the u32 overflow sites of read_bits (Panic 13/14:
   `src.len() as u32 * 8`, `(byte_offset * 8) + bit_offset + len`) - on any input that satisfies
   fits_u32 (8 * len + 8 < 2^32), which is exactly what the guard of prefix_string::decode
   establishes (C15_string_decode_no_panic has no size premise) *)
Theorem C15_huffman_decode_no_panic :
  forall p, wf_bytes p -> fits_u32 p -> is_panic (hpack_decode p) = false.
Proof. exact hpack_decode_no_panic. Qed.

(* T5_refuted: the strictness statement of RFC 7541 5.2 is FALSE for h3 today (open known finding
   F15b): the single octet ff (eight bits of padding) decodes to the empty string *)
Theorem C15_strict_refuted :
  exists bs s, wf_bytes bs /\ LongOnes bs /\ hpack_decode bs = Ok s /\ rfc_huff_decode bs = None.
Proof.
  exists [255], []. split; [repeat constructor; reflexivity|]. split.
  - exists [], (repeat true 8). vm_compute. repeat split; auto; lia.
  - split; vm_compute; reflexivity.
Qed.

Example C15_strict_inhabited :
  ~ LongOnes [248] /\ hpack_decode [248] = Ok [38] /\ hpack_decode [254] = Err MissingBits /\
  hpack_decode [255; 255; 255; 255; 255] = Err Unhandled.
Proof.
  split; [|repeat split; vm_compute; reflexivity].
  intros HL. apply (known_class_is_invalid [248] HL [38]).
  apply rfc_huff_decode_iff. vm_compute. reflexivity.
Qed.
Example C15_known_class_inhabited : LongOnesResult [248; 255] [38].
Proof. exists (repeat true 8). vm_compute. repeat split; auto; lia. Qed.

Print Assumptions C15_int_roundtrip_partial.
Print Assumptions C15_int_beyond_range_rejected.
Print Assumptions C15_int_encode_is_rfc.
Print Assumptions C15_int_decode_sound.
Print Assumptions C15_int_truncated_rejected.
Print Assumptions C15_int_overflow_iff.
Print Assumptions C15_int_decode_no_panic.
Print Assumptions C15_strict_refuted.
Print Assumptions C15_table_decode_tree.
Print Assumptions C15_table_encode_rows.
Print Assumptions C15_table_prefix_free_complete.
Print Assumptions C15_reference_decoder_is_rfc.
Print Assumptions C15_strict_outside_known_class.
Print Assumptions C15_strict_outside_vs_reference.
Print Assumptions C15_known_class_behaviour.
Print Assumptions C15_huffman_decode_no_panic.
Print Assumptions C15_huffman_encode_canonical.
Print Assumptions C15_huffman_roundtrip.
Print Assumptions C15_string_roundtrip.
Print Assumptions C15_string_decode_no_panic.
Print Assumptions C15_string_size1_panics.
Print Assumptions C15_known_class_decidable.
Print Assumptions C15_huffman_encode_is_rfc.
Print Assumptions C15_string_decode_sound.
Print Assumptions C15_string_raw_roundtrip.

(* ---------------- decoding from a NON-CONTIGUOUS `Buf` (round 3) ----------------
   Model/ChunkedBuf.v: a queue of non-empty chunks with the three required Buf methods ([cb_wf]: no empty chunk, the
   bytes::Buf contract); Model/ChunkedQpack.v: prefix_int::decode (every octet through `buf.get::<u8>()` = remaining() check +
   get_u8) and prefix_string::decode (remaining(), copy_to_bytes(len) = BytesMut::put(take(len))) written against the
   bytes-crate provided methods, themselves loops over chunk() / advance(). *)
From H3V Require Import Model.ChunkedBuf Model.ChunkedQpack Proofs.ChunkedBufProofs Proofs.ChunkedQpackProofs.

(* for EVERY chunking (cuts inside the continuation octets included): the same flags and value and a buffer left behind
   that holds exactly the flat decoder's rest (still without an empty chunk), or the same error, or the same panic site *)
Theorem C15_prefix_int_any_chunking :
  forall size cs, cb_wf cs ->
    res_flat (pi_decode_buf size cs) = pi_decode size (concat cs) /\
    (forall f v cs', pi_decode_buf size cs = Ok (f, v, cs') -> cb_wf cs').
Proof. exact pi_decode_buf_flat. Qed.

(* string literals of any length: cuts inside the length, between length and payload, inside the raw or Huffman payload *)
Theorem C15_prefix_string_any_chunking :
  forall size cs, cb_wf cs ->
    res_flat (ps_decode_buf size cs) = ps_decode size (concat cs) /\
    (forall v cs', ps_decode_buf size cs = Ok (v, cs') -> cb_wf cs').
Proof. exact ps_decode_buf_flat. Qed.

Example C15_prefix_int_any_chunking_inhabited :
  pi_decode_buf 5 [[95]; [154]; [10; 7]] = Ok (2, 1337, [[7]]) /\ pi_decode_buf 5 [[95]; [154]] = Err PiUnexpectedEnd.
Proof. split; vm_compute; reflexivity. Qed.
Example C15_prefix_string_any_chunking_inhabited :
  ps_decode_buf 6 [[99; 168]; [116]; [151; 7]] = Ok ([110; 97; 109; 101], [[7]]) /\
  ps_decode_buf 8 [[3; 97]; [98]; [99; 100]] = Ok ([97; 98; 99], [[100]]).
Proof. split; vm_compute; reflexivity. Qed.

Print Assumptions C15_prefix_int_any_chunking.
Print Assumptions C15_prefix_string_any_chunking.
