(* C05 - one connection error, seen everywhere, never lost between tasks.
   `reachable gen_cfg k w`: w is reached from the initial world by ANY interleaving of atomic steps of the
   driver task and of k stream tasks (any k), with any errors raised in any order, any number of times, and
   any shapes of driver polls; gen_cfg holds the statement orders and tables read from the Rust source. *)
From H3V Require Import Base.Bytes Gen.GenCodes Gen.GenSharedErr Spec.FirstErrorWins
  Model.SharedErr Model.SharedErrRun Proofs.SharedErrLemmas Proofs.SharedErrProofs.

(* the facts generated from today's source are the ones the proofs are about *)
Theorem C05_generated_facts : liveness_cfg gen_cfg.
Proof. exact gen_facts_ok. Qed.
(* ... including the frame-error dispatcher of the stream side: each arm goes through one of the two CloseStream helpers.
   (The other source conditions -- helper bodies, call-site enumerations, handle wiring, entry points -- are not Coq facts:
   the translator raises AnchorLost, a violation, when one of them no longer holds.) *)
Theorem C05_generated_stream_facts :
  frame_error_arms = [(FsQuic, ViaQuicHelper); (FsProto, ViaInternalHelper); (FsUnexpectedEnd, ViaInternalHelperCode H3_FRAME_ERROR)].
Proof. exact gen_stream_facts_ok. Qed.

(* T1: the cell is written at most once ... *)
Theorem C05_cell_set_once :
  forall k w a e, reachable gen_cfg k w -> cell w = Some e -> cell (step gen_cfg w a) = Some e.
Proof. intros k w a e _. exact (step_cell_mono gen_cfg w a e (sc_first _ gen_safety_ok)). Qed.

(* ... and holds the FIRST error raised by anybody (the abstract first-store-wins cell of the spec) *)
Theorem C05_cell_is_first_raise :
  forall k w, reachable gen_cfg k w -> cell w = outcome (obs w).
Proof. exact (fun k w => cell_refines_spec gen_cfg k w gen_safety_ok). Qed.

(* every error returned by the driver or by any stream handle presents that single outcome *)
Theorem C05_single_outcome :
  forall k w, reachable gen_cfg k w -> single_outcome (obs w).
Proof. exact (fun k w => single_outcome_holds gen_cfg k w gen_safety_ok). Qed.

(* on every later call too: a report never differs from an earlier one, on any handle *)
Theorem C05_reports_never_change :
  forall k w acts h1 c1 h2 c2, reachable gen_cfg k w ->
    In (EReport h1 c1) (obs w) -> In (EReport h2 c2) (obs (run gen_cfg acts w)) -> c1 = c2.
Proof. exact (fun k w acts h1 c1 h2 c2 => reports_stable gen_cfg k w acts h1 c1 h2 c2 gen_safety_ok). Qed.

(* close is called at most once, only for an h3-detected outcome, with exactly its code ... *)
Theorem C05_close_once_with_outcome_code :
  forall k w, reachable gen_cfg k w -> close_ok (obs w).
Proof. exact (fun k w => close_ok_holds gen_cfg k w gen_safety_ok). Qed.

(* ... and it HAS been called by the time the driver reports an h3-detected outcome *)
Theorem C05_closed_when_driver_reports :
  forall k w, reachable gen_cfg k w -> closed_when_reported (obs w).
Proof. exact (fun k w => closed_when_reported_holds gen_cfg k w gen_safety_ok). Qed.

(* T2: no lost wake-up.  A parked driver (last poll returned Pending) with the cell set: the waker it passed to
   that last poll has been woken, or that very waker (every poll brings its own) is registered and a stream
   task is about to call wake() *)
Theorem C05_no_lost_wakeup :
  forall k w, reachable gen_cfg k w -> cell w <> None -> dprog w = [] -> parked w = true ->
    woken w = true \/ (wslot w = Some (gen w) /\ wake_coming w).
Proof. exact (fun k w => no_lost_wakeup gen_cfg k w gen_facts_ok). Qed.

Theorem C05_parked_driver_is_woken :
  forall k w, reachable gen_cfg k w -> cell w <> None -> dprog w = [] -> parked w = true ->
    quiescent w -> woken w = true.
Proof. exact (fun k w => parked_driver_woken gen_cfg k w gen_facts_ok). Qed.

(* once the cell is set no driver call started afterwards -- a poll of any shape or shutdown() -- returns Pending or
   Ok (anything but the error), under any interleaving with anything else (`run` ranges over all actions) *)
Theorem C05_no_quiet_poll_after_error :
  forall k acts w, reachable gen_cfg k w -> cell w <> None -> dprog w = [] ->
    quiet_polls (obs (run gen_cfg acts w)) = quiet_polls (obs w).
Proof. exact (fun k acts w => no_quiet_poll_after_error gen_cfg k acts w gen_facts_ok). Qed.

(* the poll the woken driver runs reports the outcome and memoises it *)
Theorem C05_repolled_driver_reports :
  forall k w e calls pend, reachable gen_cfg k w -> cell w = Some e -> dprog w = [] ->
    exists n, let w' := run gen_cfg (ABegin calls pend :: repeat AStep n) w in
      dprog w' = [] /\ parked w' = false /\ handled w' = Some (spec_report e) /\
      In (EReport HDriver (spec_report e)) (obs w').
Proof. exact (fun k w e calls pend => repoll_reports gen_cfg k w e calls pend gen_facts_ok). Qed.

(* shutdown() once the cell is set returns the connection's outcome (and closes the transport if h3 detected it and the
   driver had not seen it yet), whether the GOAWAY write would succeed (r = None) or fail with e' (r = Some e') *)
Theorem C05_shutdown_reports :
  forall k w e r, reachable gen_cfg k w -> cell w = Some e -> dprog w = [] ->
    exists n, let w' := run gen_cfg (AShutdown r :: repeat AStep n) w in
      dprog w' = [] /\ cell w' = Some e /\ handled w' = Some (spec_report e) /\
      last_dev (trace w') = Some (EReport HDriver (spec_report e)).
Proof. exact (fun k w e r => shutdown_reports gen_cfg k w e r gen_facts_ok). Qed.

(* before commit 6ec7732 (no guard) shutdown() answered Ok(()) after the driver had reported the error *)
Theorem C05_shutdown_without_guard_refuted :
  let w := run (without_guard gen_cfg) quiet_shutdown_schedule (init 1) in
  last_dev (trace w) = Some (EReport HDriver (CLocal H3_FRAME_UNEXPECTED)) /\ dprog w = [] /\
  last_dev (trace (run (without_guard gen_cfg) [AShutdown None; AStep] w)) = Some EReadyOk.
Proof. exact (quiet_shutdown_without_guard gen_cfg gen_facts_ok). Qed.

(* the single-outcome part does not depend on the register/check order (it held before the repair) *)
Theorem C05_single_outcome_any_order :
  forall k w, reachable (with_poll gen_cfg old_poll) k w -> single_outcome (obs w) /\ close_ok (obs w).
Proof.
  exact (fun k w H => conj (single_outcome_holds _ k w old_order_safety H) (close_ok_holds _ k w old_order_safety H)).
Qed.

(* F12 (repaired by 72520bb): with check BEFORE register the wake-up is lost -- a schedule after which the
   driver is parked, the cell is set, every stream task has finished and nothing will ever wake the driver *)
Theorem C05_check_before_register_refuted :
  exists acts, let w := run (with_poll gen_cfg old_poll) acts (init 1) in
    cell w <> None /\ dprog w = [] /\ parked w = true /\ woken w = false /\ quiescent w /\
    forall more, only_stream_steps more -> woken (run (with_poll gen_cfg old_poll) more w) = false.
Proof. exact (lost_wakeup_old_order gen_cfg gen_facts_ok). Qed.

(* every world visited by the correspondence runs is covered by the theorems above *)
Theorem C05_harness_runs_are_reachable :
  forall k setup np p1 errs sched p2 errs2 errs3 e4,
    reachable gen_cfg k (r_final (run_case gen_cfg k setup np p1 errs sched p2 errs2 errs3 e4)).
Proof. exact (run_case_reachable gen_cfg). Qed.

(* non-vacuity: the hypotheses of T2 are reachable (driver parks, then a stream raises and wakes it) *)
Example C05_parked_then_woken_inhabited :
  let w := run gen_cfg ([ABegin [] true] ++ repeat AStep 7 ++ [ARaise 0 (Internal H3_FRAME_ERROR)] ++ repeat (ASStep 0) 5) (init 1) in
  cell w = Some (Internal H3_FRAME_ERROR) /\ dprog w = [] /\ parked w = true /\ woken w = true /\ quiescent w.
Proof.
  cbv zeta. repeat split; try (vm_compute; reflexivity).
  intros s Hin. vm_compute in Hin. destruct Hin as [E|[]]. subst s. reflexivity.
Qed.
(* two streams and the driver raise three different errors: everybody reports the first, one close *)
Example C05_three_errors_inhabited :
  let r := run_case gen_cfg 2 (Some ([CallPCE; CallPCE], false)) 1 ([CallPCE; CallHandle (Internal H3_CLOSED_CRITICAL_STREAM)], true)
             [Internal H3_FRAME_UNEXPECTED; Internal H3_FRAME_ERROR] [2; 0; 1; 0; 0; 2; 1; 0; 0; 0; 0]%nat
             ([CallPCE; CallPCE], true) [Some (Quic (QAppClose 999)); None] [Some (Quic (QAppClose 999)); Some (Quic (QAppClose 999))]
             (Some (Quic (QAppClose 999))) in
  r_d1 r = Some (EReport HDriver (CLocal H3_FRAME_ERROR)) /\
  r_s1 r = [Some (CLocal H3_FRAME_ERROR); Some (CLocal H3_FRAME_ERROR)] /\
  r_s2 r = [Some (CLocal H3_FRAME_ERROR); None] /\
  r_d2s r = Some (EReport HDriver (CLocal H3_FRAME_ERROR)) /\
  r_d4 r = Some (EReport HDriver (CLocal H3_FRAME_ERROR)) /\
  r_s3 r = [Some (CLocal H3_FRAME_ERROR); Some (CLocal H3_FRAME_ERROR)] /\
  r_d3 r = Some (EReport HDriver (CLocal H3_FRAME_ERROR)) /\ r_close r = [H3_FRAME_ERROR].
Proof. vm_compute. repeat split; reflexivity. Qed.

Print Assumptions C05_generated_facts.
Print Assumptions C05_generated_stream_facts.
Print Assumptions C05_cell_set_once.
Print Assumptions C05_cell_is_first_raise.
Print Assumptions C05_single_outcome.
Print Assumptions C05_reports_never_change.
Print Assumptions C05_close_once_with_outcome_code.
Print Assumptions C05_closed_when_driver_reports.
Print Assumptions C05_no_lost_wakeup.
Print Assumptions C05_parked_driver_is_woken.
Print Assumptions C05_no_quiet_poll_after_error.
Print Assumptions C05_repolled_driver_reports.
Print Assumptions C05_shutdown_reports.
Print Assumptions C05_shutdown_without_guard_refuted.
Print Assumptions C05_single_outcome_any_order.
Print Assumptions C05_check_before_register_refuted.
Print Assumptions C05_harness_runs_are_reachable.
