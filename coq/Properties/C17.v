(* C17 - The Quinn adapter moves bytes, identifiers and errors faithfully.

   FULL STATEMENT (property text): through the Quinn adapter every buffer handed over for sending reaches
   the peer exactly once, complete and in order however Quinn splits the writes, and a new write is
   refused rather than interleaved while an earlier one is unfinished; send_id/recv_id are constant for
   the life of a stream and never panic, whatever read or write is in flight; Quinn's application close,
   reset, stop and timeout conditions surface as the corresponding h3 error classes with the peer's code.

   PARTIAL: the theorems below are about the adapter's logic against an ABSTRACT Quinn (an oracle that
   may answer every poll_write / read_chunk poll with anything its API allows).  "Reaches the peer" is
   proved as "is handed to Quinn's SendStream exactly once, whole, in order"; that Quinn and QUIC then
   deliver accepted bytes reliably and in order, how Quinn really splits writes under flow control, its
   timers, and which Quinn error value a given peer action produces (Spec.AdapterSpec.quinn_*_condition)
   are NOT proved: they are exercised on real Quinn over loopback by the correspondence run. *)
From H3V Require Import Base.Bytes Spec.RFC9000 Spec.QuinnApi Spec.AdapterSpec Model.Varint Model.QuinnAdapter
  Proofs.QuinnAdapterProofs.

(* ---- T1: bytes ---- *)

(* for EVERY program of send-side calls and EVERY oracle (any accepted sizes, Pending anywhere, errors
   anywhere): what Quinn has been handed, followed by what is still waiting in `writing`, is exactly the
   concatenation of the buffers send_data accepted - each once, whole, in order, nothing of a refused
   buffer - as long as no poll_ready / poll_finish has reported an error (`no_write_failure`: once Quinn refuses a
   write the stream can send nothing any more and the rest of the buffer in flight is given up, see
   C17_write_failure_gives_up); the program never panics, errors or not *)
Theorem C17_write_exact_partial :
  forall ops id o tr s' o', id <= varint_max ->
    send_run ops (send_new (qsend_new id)) o = (tr, s', o') ->
    (Forall no_write_failure tr -> qs_log (s_q s') ++ view_opt (s_writing s') = spec_handed (map abs_send tr)) /\
    Forall send_ev_ok tr /\ map fst tr = ops.
Proof. exact write_exact_new. Qed.

(* (i) in EVERY reachable state - after errors too - of every program, for every oracle whose write failures are final
   (Spec.AdapterSpec.fail_is_final: what Quinn does, observed on real Quinn by the `sa=K` cases): what Quinn has been
   handed is a PREFIX of the concatenation of the buffers send_data accepted, in order - nothing duplicated, nothing
   interleaved, nothing of a refused buffer; while no write has failed the missing rest is exactly what waits in `writing` *)
Theorem C17_handed_is_prefix_partial :
  forall ops id o tr s' o', fail_is_final o ->
    send_run ops (send_new (qsend_new id)) o = (tr, s', o') ->
    exists rest, qs_log (s_q s') ++ rest = spec_handed (map abs_send tr) /\
      (Forall no_write_failure tr -> rest = view_opt (s_writing s')).
Proof. exact handed_is_prefix. Qed.

(* (iii) a write error is sticky and stays a STREAM error (repaired defect F24: the buffer used to stay in `writing`, so
   h3's next send_data was refused with the connection-level InternalError and the whole connection was closed): once
   poll_ready has reported Quinn's refusal e, `writing` is empty, the next send_data is accepted, and in every later
   program Quinn is handed nothing more and every error reported by poll_ready / poll_send (and by a poll_finish that
   has to write first) is e again - same class, same code; poll_finish with nothing to write reports only what
   finish() itself says; send_data is refused (InternalError) only by its own overlap rule *)
Theorem C17_write_error_is_sticky :
  forall o s e s' o', fail_is_final o -> poll_ready o s = (Ready (Err e), s', o') ->
    s_writing s' = None /\
    (forall b, send_data b s' = (Ok tt, {| s_q := s_q s'; s_writing := Some b |})) /\
    forall ops tr s2 o2, send_run ops s' o' = (tr, s2, o2) ->
      qs_log (s_q s2) = qs_log (s_q s') /\ Forall (sticky_ev e) tr.
Proof. exact write_error_is_sticky. Qed.

(* Quinn refuses a write (STOP_SENDING from the peer, connection lost, stream already finished), in any state, after
   any accepted pieces: poll_ready reports the error in the class of Quinn's answer, `writing` is emptied, what Quinn
   took before the failure stays in place (a prefix of log ++ buffer, nothing else added), and the send half is usable
   again: the next send_data is ACCEPTED (not refused as a misuse of the stream by h3) and its poll_ready reports
   Quinn's next refusal in its class *)
Theorem C17_write_failure_gives_up :
  forall o s e s' o', poll_ready o s = (Ready (Err e), s', o') ->
    s_writing s' = None /\
    (exists rest, qs_log (s_q s') ++ rest = qs_log (s_q s) ++ view_opt (s_writing s)) /\
    (exists qe used, o = used ++ WFail qe :: o' /\ e = spec_write_class qe) /\
    (forall b, send_data b s' = (Ok tt, {| s_q := s_q s'; s_writing := Some b |})) /\
    (forall b qe2 o2, wb_has_remaining b = true ->
       fst (fst (poll_ready (WFail qe2 :: o2) {| s_q := s_q s'; s_writing := Some b |})) = Ready (Err (spec_write_class qe2))).
Proof. exact write_failure_gives_up. Qed.

(* finish: for every program (abandoned writes included) in which no write has failed, and every oracle, when poll_finish answers Ready(Ok)
   every buffer send_data accepted has been handed to Quinn completely, in order, BEFORE the stream is finished
   (poll_finish drains `writing` first; Pending while Quinn pends; a write error is returned instead) *)
Theorem C17_finish_hands_over_everything_partial :
  forall ops id o tr s' o',
    send_run (ops ++ [OPollFinish]) (send_new (qsend_new id)) o = (tr, s', o') ->
    (exists tr0, tr = tr0 ++ [(OPollFinish, SRPoll (Ready (Ok tt)))]) ->
    Forall no_write_failure tr ->
    s_writing s' = None /\ qs_finished (s_q s') = true /\
    qs_log (s_q s') = spec_handed (map abs_send tr).
Proof. exact finish_hands_over_everything. Qed.

Example C17_finish_after_abandoned_write_inhabited :
  let ops := [OSendData [[0; 4]; [1; 2; 3; 4]]; OPollReady; OPollFinish; OPollFinish] in
  let o := [WAccept 2; WAccept 1; WBlocked; WAccept 2; WBlocked; WAccept 100] in
  exists tr s' o', send_run ops (send_new (qsend_new 0)) o = (tr, s', o') /\
    map snd tr = [SRUnit (Ok tt); SRPoll Pending; SRPoll Pending; SRPoll (Ready (Ok tt))] /\
    qs_finished (s_q s') = true /\ s_writing s' = None /\
    qs_log (s_q s') = [0; 4; 1; 2; 3; 4].
Proof. exact finish_after_abandoned_write. Qed.

(* when poll_ready answers Ready(Ok) nothing is left waiting: Quinn has been handed exactly the accepted buffers *)
Theorem C17_write_complete_partial :
  forall ops id o tr s' o',
    send_run (ops ++ [OPollReady]) (send_new (qsend_new id)) o = (tr, s', o') ->
    (exists tr0, tr = tr0 ++ [(OPollReady, SRPoll (Ready (Ok tt)))]) ->
    Forall no_write_failure tr ->
    s_writing s' = None /\ qs_log (s_q s') = spec_handed (map abs_send tr).
Proof. exact write_complete_new. Qed.

(* one poll_ready call, any oracle: the split chosen by Quinn does not matter; unless the call reports an error nothing
   is lost, and in every case what Quinn holds plus what still waits is a prefix of what was there *)
Theorem C17_poll_ready_any_split_partial :
  forall o s r s' o', poll_ready o s = (r, s', o') ->
    (~ poll_failed r -> qs_log (s_q s') ++ view_opt (s_writing s') = qs_log (s_q s) ++ view_opt (s_writing s)) /\
    (exists rest, qs_log (s_q s') ++ view_opt (s_writing s') ++ rest = qs_log (s_q s) ++ view_opt (s_writing s)) /\
    poll_not_panic r /\ (r = Ready (Ok tt) -> s_writing s' = None) /\ (exists used, o = used ++ o').
Proof. exact poll_ready_any_split. Qed.

(* progress: if Quinn never fails and accepts at least one byte often enough, polling to completion
   (wherever it blocks in between) ends Ready(Ok) with exactly the buffer handed over *)
Theorem C17_write_progress_partial :
  forall o q data, nonempty_chunks data -> no_fail o -> len (wb_view data) <= count_pos o ->
    exists s' o', drive_ready (S (length o)) o {| s_q := q; s_writing := Some data |} = (Ready (Ok tt), s', o') /\
      s_writing s' = None /\ qs_log (s_q s') = qs_log q ++ wb_view data.
Proof. exact write_progress. Qed.

(* SendStreamUnframed::poll_send (raw bytes, used by WebTransport) with no framed write pending: a prefix of
   the caller's buffer is handed to Quinn and the buffer advanced by exactly the reported count *)
Theorem C17_poll_send_exact_partial :
  forall o buf s r s' buf' o', s_writing s = None ->
    poll_send o buf s = (r, s', buf', o') ->
    qs_log (s_q s') ++ wb_view buf' = qs_log (s_q s) ++ wb_view buf /\
    s_writing s' = None /\ qs_id (s_q s') = qs_id (s_q s) /\
    poll_not_panic r /\
    (forall k, r = Ready (Ok k) -> len (wb_view buf') + k = len (wb_view buf)) /\
    qs_log (s_q s') = qs_log (s_q s) ++ raw_of r buf /\
    (exists used, o = used ++ o').
Proof. exact poll_send_exact. Qed.

(* poll_send while a framed write is unfinished is refused (the Rust panics, site 41) and touches nothing:
   raw bytes are never interleaved with the buffer in flight.  In send programs (C17_write_exact_partial,
   which include OPollSend) this is the only panic that can occur. *)
Theorem C17_overlapping_poll_send_refused :
  forall o buf d s, s_writing s = Some d -> poll_send o buf s = (Ready (Panic 41), s, buf, o).
Proof. exact poll_send_refused. Qed.

(* dropping the stream (what h3 does with every finished request/response stream) withdraws nothing: the bytes
   handed to Quinn stay, no reset is issued, a finished stream is left exactly as it is; an unfinished, unreset
   one is implicitly finished by Quinn.  (That h3-quinn adds no Drop of its own is a translator fact: item inventory.) *)
Theorem C17_drop_keeps_handed_bytes :
  forall s,
    qs_log (send_drop s) = qs_log (s_q s) /\ qs_reset (send_drop s) = qs_reset (s_q s) /\ qs_id (send_drop s) = qs_id (s_q s) /\
    qs_finished (send_drop s) = (qs_finished (s_q s) || negb (match qs_reset (s_q s) with Some _ => true | None => false end)) /\
    (qs_finished (s_q s) = true -> send_drop s = s_q s).
Proof. exact send_drop_keeps. Qed.

(* an overlapping send_data is refused (InternalError) and changes nothing: no interleaving *)
Theorem C17_overlapping_send_refused :
  forall b d s, s_writing s = Some d -> send_data b s = (Err (HConnErr HInternalError), s).
Proof. exact send_data_refused. Qed.

(* ---- T2: identifiers ---- *)

Theorem C17_send_id_constant :
  forall ops id o tr s' o', id <= varint_max ->
    send_run ops (send_new (qsend_new id)) o = (tr, s', o') -> send_id_events_are id tr.
Proof. exact send_id_constant_new. Qed.

(* for every receive-side program and oracle: recv_id always answers the stream's id; nothing panics
   (given encodable stop codes and a Quinn that never reports IllegalOrderedRead, which it only does after
   an unordered read - the adapter performs none); T4: the stops Quinn was given and the stop still held
   are those of the abstract delivery rule; the application sees exactly Quinn's answers, in order, and - once a
   read has reported the peer's reset - that reset again for every further read (Spec.AdapterSpec.spec_reads:
   outcomes and the answers Quinn has left, as a function of the number of reads and Quinn's answers) *)
Theorem C17_recv_program_partial :
  forall id ops o r tr r' o', id <= varint_max ->
    recv_new (qrecv_new id) = Ok r -> recv_run ops r o = (tr, r', o') ->
    Forall (fun ev => fst ev = ORecvId -> snd ev = RRId (Ok id)) tr /\
    (Forall op_codes_ok ops -> answers_ordered o -> Forall (fun ev => rr_not_panic (snd ev)) tr) /\
    (exists q, underlying r' = Some q /\ qr_id q = id /\
       qr_stops q = delivered (stop_run {| in_flight := false; held := None; delivered := [] |} (map abs_recv tr))) /\
    r_pending_stop r' = held (stop_run {| in_flight := false; held := None; delivered := [] |} (map abs_recv tr)) /\
    spec_reads spec_read_class None (count_polls ops) o = (ready_outcomes tr, o').
Proof. exact recv_program_ok. Qed.

(* the peer's reset is sticky (repaired defect F23: Quinn answers every read after the one that reported the reset
   with a clean end of stream, which made a truncated message look complete): in EVERY reachable state in which no
   reset has been reported yet, when a read reports the peer's reset (code c) then, for every later program and
   whatever Quinn would answer, every poll_data reports StreamTerminated(c) again - never Ok(None), never another
   class -, Quinn is not asked any more (its answers are left untouched), and recv_id keeps answering the id *)
Theorem C17_reset_is_sticky :
  forall id r c o, recv_inv id r -> r_reset r = None ->
    exists r1, poll_data (RFail (QRReset c) :: o) r = (Ready (Err (HStreamTerminated c)), r1, o) /\
      recv_inv id r1 /\
      forall ops o2 tr r2 o3, recv_run ops r1 o2 = (tr, r2, o3) ->
        Forall (fun ev => fst ev = OPollData -> snd ev = RRData (Ready (Err (HStreamTerminated c)))) tr /\
        Forall (fun ev => fst ev = ORecvId -> snd ev = RRId (Ok id)) tr /\
        o3 = o2 /\ r_reset r2 = Some c.
Proof. exact reset_is_sticky. Qed.

(* after a FAILED read (peer reset, connection closed, timed out ...; `r_reset r = None`: the read did go to Quinn -
   the other case is C17_reset_is_sticky) the Quinn stream is back in `self.stream`:
   the error has its class, the stream can be polled again without panic whatever Quinn answers next, recv_id
   still answers the id, and a stop_sending is delivered at once (nothing parked).  Together with
   C17_recv_program_partial (whose invariant holds in EVERY reachable state, after errors too) *)
Theorem C17_reread_after_failed_read :
  forall id r e o, recv_inv id r -> r_reset r = None -> e <> QRIllegalOrderedRead ->
    exists cls r2 q2,
      poll_data (RFail e :: o) r = (Ready (Err cls), r2, o) /\ spec_read_class e = Some cls /\
      r_stream r2 = Some q2 /\ r_pending_stop r2 = None /\ recv_inv id r2 /\ recv_id r2 = Ok id /\
      (forall c, c <= varint_max ->
         stop_sending c r2 = (Ok tt, {| r_id := r_id r2; r_stream := Some (q_stop c q2); r_fut := r_fut r2; r_pending_stop := None;
                                        r_reset := r_reset r2 |})) /\
      (forall a o', a <> RFail QRIllegalOrderedRead ->
         exists x r3 o3, poll_data (a :: o') r2 = (x, r3, o3) /\ poll_not_panic x /\ recv_inv id r3 /\ recv_id r3 = Ok id).
Proof. exact after_failed_read. Qed.

(* the state the repaired recv_id exists for is reachable, and recv_id answers there *)
Theorem C17_recv_id_while_read_pending :
  forall id o, id <= varint_max ->
    exists r r1, recv_new (qrecv_new id) = Ok r /\ poll_data (RBlocked :: o) r = (Pending, r1, o) /\
      r_stream r1 = None /\ recv_id r1 = Ok id.
Proof. exact recv_id_while_read_pending. Qed.

Theorem C17_bidi_ids_agree :
  forall id, id <= varint_max ->
    exists b, bidi_new id = Ok b /\ send_id (b_send b) = Ok id /\ recv_id (b_recv b) = Ok id.
Proof. exact bidi_ids. Qed.

(* ---- T3: error classes, total over Quinn's enums ---- *)

Theorem C17_connection_error_classes : forall e, convert_connection_error e = Ok (spec_conn_class e).
Proof. exact convert_connection_error_spec. Qed.

Theorem C17_write_error_classes : forall e, convert_write_error e = Ok (spec_write_class e).
Proof. exact convert_write_error_spec. Qed.

Theorem C17_read_error_classes :
  forall e, convert_read_error e = match spec_read_class e with Some c => Ok c | None => Panic 33 end.
Proof. exact convert_read_error_spec. Qed.

Theorem C17_peer_codes_preserved :
  forall c,
    convert_connection_error (QApplicationClosed c) = Ok (HApplicationClose c) /\
    convert_connection_error QTimedOut = Ok HTimeout /\
    convert_read_error (QRReset c) = Ok (HStreamTerminated c) /\
    convert_write_error (QWStopped c) = Ok (HStreamTerminated c) /\
    convert_read_error (QRConnectionLost (QApplicationClosed c)) = Ok (HConnErr (HApplicationClose c)) /\
    convert_write_error (QWConnectionLost (QApplicationClosed c)) = Ok (HConnErr (HApplicationClose c)) /\
    convert_read_error (QRConnectionLost QTimedOut) = Ok (HConnErr HTimeout) /\
    convert_write_error (QWConnectionLost QTimedOut) = Ok (HConnErr HTimeout).
Proof. exact codes_preserved. Qed.

Theorem C17_open_accept_errors :
  forall w e,
    open_bidi w (Err e) = Err (HConnErr (spec_conn_class e)) /\
    open_send w (Err e) = Err (HConnErr (spec_conn_class e)) /\
    accept_recv (Err e) = Err (spec_conn_class e) /\
    accept_bidi (Err e) = Err (spec_conn_class e).
Proof. exact open_accept_errors. Qed.

(* datagram side (h3-quinn/src/datagram.rs): the datagram handed to Quinn is the whole encoded datagram;
   errors by class, connection loss with the peer's code *)
Theorem C17_send_datagram :
  forall view a, send_datagram view a = match a with None => Ok view | Some e => Err (spec_dgram_class e) end.
Proof. exact send_datagram_spec. Qed.

Theorem C17_incoming_datagram :
  forall a, poll_incoming_datagram a =
    match a with
    | Pending => Pending
    | Ready (Ok b) => Ready (Ok b)
    | Ready (Err e) => Ready (Err (spec_conn_class e))
    | Ready (Panic p) => Ready (Panic p)
    end.
Proof. exact poll_incoming_datagram_spec. Qed.

Theorem C17_close_code : forall w code, code <= varint_max -> conn_close w code = Ok code.
Proof. exact conn_close_spec. Qed.

Theorem C17_reset_code : forall c, reset_code c = Ok (spec_reset_code c).
Proof. exact reset_code_spec. Qed.

(* ---- T4: deferred STOP_SENDING ---- *)

Theorem C17_deferred_stop_delivered_once :
  forall r q c, underlying r = Some q -> r_stream r = None -> r_reset r = None -> c <= varint_max ->
    exists r1, stop_sending c r = (Ok tt, r1) /\
      underlying r1 = Some q /\ r_stream r1 = None /\ r_pending_stop r1 = Some c /\
      (forall o, exists r2, poll_data (RBlocked :: o) r1 = (Pending, r2, o) /\
          underlying r2 = Some q /\ r_stream r2 = None /\ r_pending_stop r2 = Some c) /\
      (forall a o, a <> RBlocked -> exists r2, poll_data (a :: o) r1 = (Ready (read_result a), r2, o) /\
          r_stream r2 = Some (q_stop c q) /\ r_pending_stop r2 = None).
Proof. exact deferred_stop_once. Qed.

(* the abstract rule never invents or duplicates a stop, and never withdraws one *)
Theorem C17_stop_never_duplicated :
  forall evs st,
    (length (delivered (stop_run st evs)) + held_count (stop_run st evs)
     <= length (delivered st) + held_count st + count_stop_requests evs)%nat.
Proof. exact stop_never_duplicated. Qed.

Theorem C17_stop_delivered_grows :
  forall evs st, exists more, delivered (stop_run st evs) = delivered st ++ more.
Proof. exact stop_delivered_grows. Qed.

(* ---- non-vacuity ---- *)

(* a DATA-like buffer of header [0;5] and payload chunks [1;2] [3;4;5], Quinn accepting 1, blocking,
   accepting 3 (clipped to the chunk), 100, 100: a second send_data in the middle is refused, the log is exact *)
Example C17_write_inhabited :
  let ops := [OSendData [[0;5]; [1;2]; [3;4;5]]; OPollReady; OSendData [[9;9]]; OPollSend [[8;8]]; OSendId; OPollReady;
              OPollSend [[7;7;7]]; OPollFinish] in
  let o := [WAccept 1; WBlocked; WAccept 3; WAccept 100; WAccept 100; WAccept 2] in
  exists tr s' o', send_run ops (send_new (qsend_new 8)) o = (tr, s', o') /\
    map snd tr = [SRUnit (Ok tt); SRPoll Pending; SRUnit (Err (HConnErr HInternalError)); SRSend (Ready (Panic 41));
                  SRId (Ok 8); SRPoll (Ready (Ok tt)); SRSend (Ready (Ok 2)); SRPoll (Ready (Ok tt))] /\
    qs_log (s_q s') = [0;5;1;2;3;4;5;7;7] /\ s_writing s' = None.
Proof. do 3 eexists. split; [vm_compute; reflexivity|]. repeat split. Qed.

(* the peer stops the stream in the middle of a buffer: the error is StreamTerminated with its code, the rest of the
   buffer is given up, the next send_data is accepted and fails the same way *)
Example C17_write_failure_inhabited :
  let ops := [OSendData [[0;4]; [1;2;3;4]]; OPollReady; OSendData [[9;9]]; OPollReady; OPollFinish] in
  let o := [WAccept 2; WAccept 1; WFail (QWStopped 268); WFail (QWStopped 268)] in
  exists tr s' o', send_run ops (send_new (qsend_new 8)) o = (tr, s', o') /\
    map snd tr = [SRUnit (Ok tt); SRPoll (Ready (Err (HStreamTerminated 268))); SRUnit (Ok tt);
                  SRPoll (Ready (Err (HStreamTerminated 268))); SRPoll (Ready (Ok tt))] /\
    qs_log (s_q s') = [0;4;1] /\ s_writing s' = None /\ ~ Forall no_write_failure tr /\ fail_is_final o.
Proof.
  do 3 eexists. split; [vm_compute; reflexivity|]. split; [reflexivity|]. split; [reflexivity|]. split; [reflexivity|].
  split; [|cbn; repeat constructor].
  intros H. inversion H as [|? ? _ H1]; subst. inversion H1 as [|? ? H2 _]; subst. apply H2. exact I.
Qed.

Example C17_progress_inhabited :
  nonempty_chunks [[0;5]; [1;2]; [3;4;5]] /\
  no_fail [WAccept 0; WAccept 1; WBlocked; WAccept 2; WBlocked; WBlocked; WAccept 100; WAccept 9] /\
  len (wb_view [[0;5]; [1;2]; [3;4;5]]) <= 7.
Proof.
  split; [repeat constructor; discriminate|]. split; [repeat constructor|]. vm_compute. discriminate.
Qed.

(* recv_id while the read is pending, a deferred stop, its delivery on completion, then a reset with the peer's code *)
Example C17_recv_inhabited :
  let ops := [OPollData; ORecvId; OStopSending 268; ORecvId; OPollData; OPollData; ORecvId; OPollData] in
  let o := [RBlocked; RBlocked; RChunk [7;7]; RFail (QRReset 77)] in
  exists r tr r' o', recv_new (qrecv_new 3) = Ok r /\ recv_run ops r o = (tr, r', o') /\
    map snd tr = [RRData Pending; RRId (Ok 3); RRStop (Ok tt); RRId (Ok 3); RRData Pending;
                  RRData (Ready (Ok (Some [7;7]))); RRId (Ok 3); RRData (Ready (Err (HStreamTerminated 77)))] /\
    r_stream r' = Some {| qr_id := 3; qr_stops := [268] |} /\ r_pending_stop r' = None.
Proof. do 4 eexists. split; [vm_compute; reflexivity|]. split; [vm_compute; reflexivity|]. repeat split. Qed.

(* mid-stream reset, then three more reads (Quinn would say: end of stream, data, blocked), an id query and a stop:
   the reset is reported every time, Quinn's later answers are never consumed *)
Example C17_reset_is_sticky_inhabited :
  let ops := [OPollData; OPollData; OPollData; ORecvId; OStopSending 5; OPollData; OPollData] in
  let o := [RChunk [1;2]; RFail (QRReset 267); RFin; RChunk [9]; RBlocked] in
  exists r tr r' o', recv_new (qrecv_new 4) = Ok r /\ recv_run ops r o = (tr, r', o') /\
    map snd tr = [RRData (Ready (Ok (Some [1;2]))); RRData (Ready (Err (HStreamTerminated 267)));
                  RRData (Ready (Err (HStreamTerminated 267))); RRId (Ok 4); RRStop (Ok tt);
                  RRData (Ready (Err (HStreamTerminated 267))); RRData (Ready (Err (HStreamTerminated 267)))] /\
    o' = [RFin; RChunk [9]; RBlocked] /\ r_reset r' = Some 267 /\
    spec_reads spec_read_class None (count_polls ops) o = (ready_outcomes tr, o').
Proof. do 4 eexists. split; [vm_compute; reflexivity|]. split; [vm_compute; reflexivity|]. repeat split. Qed.

Print Assumptions C17_write_exact_partial.
Print Assumptions C17_write_failure_gives_up.
Print Assumptions C17_handed_is_prefix_partial.
Print Assumptions C17_write_error_is_sticky.
Print Assumptions C17_finish_hands_over_everything_partial.
Print Assumptions C17_overlapping_poll_send_refused.
Print Assumptions C17_close_code.
Print Assumptions C17_write_complete_partial.
Print Assumptions C17_poll_ready_any_split_partial.
Print Assumptions C17_write_progress_partial.
Print Assumptions C17_poll_send_exact_partial.
Print Assumptions C17_drop_keeps_handed_bytes.
Print Assumptions C17_overlapping_send_refused.
Print Assumptions C17_send_id_constant.
Print Assumptions C17_recv_program_partial.
Print Assumptions C17_reset_is_sticky.
Print Assumptions C17_reread_after_failed_read.
Print Assumptions C17_recv_id_while_read_pending.
Print Assumptions C17_bidi_ids_agree.
Print Assumptions C17_connection_error_classes.
Print Assumptions C17_write_error_classes.
Print Assumptions C17_read_error_classes.
Print Assumptions C17_peer_codes_preserved.
Print Assumptions C17_open_accept_errors.
Print Assumptions C17_send_datagram.
Print Assumptions C17_incoming_datagram.
Print Assumptions C17_reset_code.
Print Assumptions C17_deferred_stop_delivered_once.
Print Assumptions C17_stop_never_duplicated.
Print Assumptions C17_stop_delivered_grows.
