(* C18 - HTTP Datagrams carry their stream ID and payload unchanged. *)
From H3V Require Import Base.Bytes Gen.GenDatagram Spec.RFC9000 Spec.RFC9297 Model.Varint Model.Datagram Proofs.DatagramProofs.

(* T1a: the encoded buffer's remaining bytes are exactly varint(S/4) ++ P *)
Theorem C18_encode_bytes :
  forall sid payload, sid < 2 ^ 62 -> nonempty_chunks payload ->
    exists st, dg_encode sid payload = Ok st /\ dg_inv st /\
               dg_view st = rfc_dg_bytes sid (concat payload).
Proof. exact dg_encode_view. Qed.

(* T1b: under ANY consumption pattern (chunk / advance with arbitrary counts) the bytes handed
   out followed by what is left are those bytes; no panic; the invariant is kept *)
Theorem C18_any_consumption :
  forall ks st, dg_inv st ->
    exists out st', dg_consume ks st = Ok (out, st') /\ out ++ dg_view st' = dg_view st /\ dg_inv st'.
Proof. exact dg_consume_exact. Qed.

Theorem C18_consumption_terminates :
  forall ks st, dg_inv st -> Forall (fun k => 1 <= k) ks -> len (dg_view st) <= N.of_nat (length ks) ->
    exists out st', dg_consume ks st = Ok (out, st') /\ dg_view st' = [].
Proof. exact dg_consume_progress. Qed.

(* the three `Buf` laws, for arbitrary advance counts *)
Theorem C18_remaining_exact : forall st, dg_inv st -> dg_remaining st = Ok (len (dg_view st)).
Proof. exact dg_remaining_law. Qed.
Theorem C18_chunk_is_prefix :
  forall st, dg_inv st ->
    exists c rest, dg_chunk st = Ok c /\ dg_view st = c ++ rest /\ (dg_view st <> [] -> c <> []).
Proof. exact dg_chunk_law. Qed.
Theorem C18_advance_exact :
  forall k st, dg_inv st -> k <= len (dg_view st) ->
    exists st', dg_advance k st = Ok st' /\ dg_view st' = skipn (N.to_nat k) (dg_view st) /\ dg_inv st'.
Proof. exact dg_advance_law. Qed.

(* T2: decoding those bytes yields S and P again *)
Theorem C18_roundtrip :
  forall sid payload, sid < 2 ^ 62 -> sid mod 4 = 0 -> wf_bytes payload ->
    dg_decode (rfc_dg_bytes sid payload) = Ok (sid, payload).
Proof. exact dg_roundtrip. Qed.

(* T3: decode = the RFC 9297 reference decoder on every byte string; every rejection is
   H3_DATAGRAM_ERROR (0x33): truncated integer, or 4q > 2^62-1 *)
Theorem C18_decode_is_rfc :
  forall bs, wf_bytes bs ->
    dg_decode bs = match rfc_dg_decode bs with
                   | Some (s, p) => Ok (s, p)
                   | None => Err H3_DATAGRAM_ERROR_rfc
                   end.
Proof. exact dg_decode_spec. Qed.

(* the source's `impl Buf for EncodedDatagram` defines remaining/chunk/advance and nothing else (regenerated fact) *)
Theorem C18_buf_impl_shape : Gen.GenDatagram.buf_methods = [1; 2; 3].
Proof. exact buf_impl_is_the_three_required_methods. Qed.

Example C18_encode_inhabited :
  exists st, dg_encode 8 [[120; 121]] = Ok st /\ dg_view st = [2; 120; 121].
Proof. eexists. split; vm_compute; reflexivity. Qed.
Example C18_decode_reject_inhabited : dg_decode [255;255;255;255;255;255;255;255;1] = Err 51.
Proof. vm_compute. reflexivity. Qed.

Print Assumptions C18_encode_bytes.
Print Assumptions C18_any_consumption.
Print Assumptions C18_consumption_terminates.
Print Assumptions C18_remaining_exact.
Print Assumptions C18_chunk_is_prefix.
Print Assumptions C18_advance_exact.
Print Assumptions C18_roundtrip.
Print Assumptions C18_decode_is_rfc.
Print Assumptions C18_buf_impl_shape.
