(* C18 - HTTP Datagrams carry their stream ID and payload unchanged. *)
From H3V Require Import Base.Bytes Gen.GenDatagram Spec.RFC9000 Spec.RFC9297 Model.Varint Model.Datagram Proofs.DatagramProofs.

(* T1a: the encoded buffer's remaining bytes are exactly varint(S/4) ++ P *)
Theorem C18_encode_bytes :
  forall sid payload, sid < 2 ^ 62 -> nonempty_chunks payload ->
    exists st, dg_encode sid payload = Ok st /\ dg_inv st /\
               dg_view st = rfc_dg_bytes sid (concat payload).
Proof. exact dg_encode_view. Qed.

(* T1b: under ANY consumption pattern (chunk / advance with arbitrary counts) the bytes handed
   out followed by what is left are those bytes; no panic; the invariant is kept *)
Theorem C18_any_consumption :
  forall ks st, dg_inv st ->
    exists out st', dg_consume ks st = Ok (out, st') /\ out ++ dg_view st' = dg_view st /\ dg_inv st'.
Proof. exact dg_consume_exact. Qed.

Theorem C18_consumption_terminates :
  forall ks st, dg_inv st -> Forall (fun k => 1 <= k) ks -> len (dg_view st) <= N.of_nat (length ks) ->
    exists out st', dg_consume ks st = Ok (out, st') /\ dg_view st' = [].
Proof. exact dg_consume_progress. Qed.

(* the three `Buf` laws, for arbitrary advance counts *)
Theorem C18_remaining_exact : forall st, dg_inv st -> dg_remaining st = Ok (len (dg_view st)).
Proof. exact dg_remaining_law. Qed.
Theorem C18_chunk_is_prefix :
  forall st, dg_inv st ->
    exists c rest, dg_chunk st = Ok c /\ dg_view st = c ++ rest /\ (dg_view st <> [] -> c <> []).
Proof. exact dg_chunk_law. Qed.
Theorem C18_advance_exact :
  forall k st, dg_inv st -> k <= len (dg_view st) ->
    exists st', dg_advance k st = Ok st' /\ dg_view st' = skipn (N.to_nat k) (dg_view st) /\ dg_inv st'.
Proof. exact dg_advance_law. Qed.

(* T2: decoding those bytes yields S and P again *)
Theorem C18_roundtrip :
  forall sid payload, sid < 2 ^ 62 -> sid mod 4 = 0 -> wf_bytes payload ->
    dg_decode (rfc_dg_bytes sid payload) = Ok (sid, payload).
Proof. exact dg_roundtrip. Qed.

(* T3: decode = the RFC 9297 reference decoder on every byte string; every rejection is
   H3_DATAGRAM_ERROR (0x33): truncated integer, or 4q > 2^62-1 *)
Theorem C18_decode_is_rfc :
  forall bs, wf_bytes bs ->
    dg_decode bs = match rfc_dg_decode bs with
                   | Some (s, p) => Ok (s, p)
                   | None => Err H3_DATAGRAM_ERROR_rfc
                   end.
Proof. exact dg_decode_spec. Qed.

(* the source's `impl Buf for EncodedDatagram` defines remaining/chunk/advance and nothing else (regenerated fact; stated
   as a set: the order of the methods in the impl block is irrelevant) *)
Theorem C18_buf_impl_shape :
  (forall m, In m Gen.GenDatagram.buf_methods <-> In m [1; 2; 3]) /\ length Gen.GenDatagram.buf_methods = 3%nat.
Proof. exact buf_impl_is_the_three_required_methods. Qed.

(* Datagram::new: the stream id must be divisible by four and NOTHING else is demanded (any payload is accepted) *)
Theorem C18_new_asserts_only_divisibility :
  forall sid p, (sid mod 4 = 0 -> dg_new sid p = Ok (sid, p)) /\ (sid mod 4 <> 0 -> dg_new sid p = Panic 10).
Proof. exact dg_new_total. Qed.

(* regenerated facts about the source: an EncodedDatagram is built in exactly one place (the literal in `encode`);
   DatagramSender::send_datagram is handler.send_datagram(Datagram::new(self.stream_id, data).encode());
   DatagramReader::read_datagram maps a decode error through handle_connection_error_on_stream *)
Theorem C18_call_sites :
  Gen.GenDatagram.encoded_datagram_constructors = 1 /\ Gen.GenDatagram.constructor_in_encode = true /\
  Gen.GenDatagram.tx_path_new_encode = true /\ Gen.GenDatagram.rx_error_is_connection_error = true.
Proof. exact call_site_facts. Qed.

(* the real call sites.  T4: what send_datagram hands to a transport that drains the buffer chunk by chunk is exactly
   varint(S/4) ++ P; a stream id not divisible by four panics in Datagram::new *)
Theorem C18_tx_bytes :
  forall sid payload, sid < 2 ^ 62 -> sid mod 4 = 0 -> nonempty_chunks payload ->
    dg_tx sid payload = Ok (rfc_dg_bytes sid (concat payload)).
Proof. exact dg_tx_bytes. Qed.
Theorem C18_tx_panics_on_non_request_stream :
  forall sid payload, sid mod 4 <> 0 -> dg_tx sid payload = Panic 10.
Proof. exact dg_tx_panics. Qed.

(* T5: read_datagram on an arriving QUIC datagram: what the RFC decoder accepts is delivered with the same (S, P);
   everything else is a CONNECTION error: the caller gets H3_DATAGRAM_ERROR and the connection is closed with it *)
Theorem C18_rx_is_rfc :
  forall bs, wf_bytes bs ->
    dg_rx bs = match rfc_dg_decode bs with
               | Some (s, p) => RxDatagram s p
               | None => RxConnError H3_DATAGRAM_ERROR_rfc H3_DATAGRAM_ERROR_rfc
               end.
Proof. exact dg_rx_spec. Qed.

(* T6: sender to reader *)
Theorem C18_tx_rx_roundtrip :
  forall sid payload, sid < 2 ^ 62 -> sid mod 4 = 0 -> nonempty_chunks payload -> wf_bytes (concat payload) ->
    exists wire, dg_tx sid payload = Ok wire /\ dg_rx wire = RxDatagram sid (concat payload).
Proof. exact dg_tx_rx_roundtrip. Qed.

Example C18_encode_inhabited :
  exists st, dg_encode 8 [[120; 121]] = Ok st /\ dg_view st = [2; 120; 121].
Proof. eexists. split; vm_compute; reflexivity. Qed.
Example C18_decode_reject_inhabited : dg_decode [255;255;255;255;255;255;255;255;1] = Err 51.
Proof. vm_compute. reflexivity. Qed.
Example C18_tx_inhabited : dg_tx 256 [[170; 187]; [204]] = Ok [64; 64; 170; 187; 204].
Proof. vm_compute. reflexivity. Qed.
Example C18_rx_reject_inhabited : dg_rx [64] = RxConnError 51 51 /\ dg_rx [255;255;255;255;255;255;255;255;1] = RxConnError 51 51.
Proof. split; vm_compute; reflexivity. Qed.
Example C18_rx_deliver_inhabited : dg_rx [2; 120; 121] = RxDatagram 8 [120; 121].
Proof. vm_compute. reflexivity. Qed.

Print Assumptions C18_encode_bytes.
Print Assumptions C18_any_consumption.
Print Assumptions C18_consumption_terminates.
Print Assumptions C18_remaining_exact.
Print Assumptions C18_chunk_is_prefix.
Print Assumptions C18_advance_exact.
Print Assumptions C18_roundtrip.
Print Assumptions C18_decode_is_rfc.
Print Assumptions C18_buf_impl_shape.
Print Assumptions C18_new_asserts_only_divisibility.
Print Assumptions C18_call_sites.
Print Assumptions C18_tx_bytes.
Print Assumptions C18_tx_panics_on_non_request_stream.
Print Assumptions C18_rx_is_rfc.
Print Assumptions C18_tx_rx_roundtrip.

(* ---------------- decoding from a NON-CONTIGUOUS `Buf` (round 3) ----------------
   Model/ChunkedBuf.v: a queue of non-empty chunks with the three required Buf methods; Model/ChunkedDatagram.v:
   Datagram::decode on it (VarInt::decode through the bytes-crate provided methods, then `payload = buf`). *)
From H3V Require Import Model.ChunkedBuf Model.ChunkedVarint Model.ChunkedDatagram Proofs.ChunkedDatagramProofs.

(* for EVERY chunking of the arriving bytes: the same stream id, a payload buffer whose bytes are exactly the flat
   decoder's payload (and which still has no empty chunk), or the same error code *)
Theorem C18_decode_any_chunking :
  forall cs, nonempty_chunks cs ->
    res_flat (dg_decode_buf cs) = dg_decode (concat cs) /\
    (forall s p, dg_decode_buf cs = Ok (s, p) -> nonempty_chunks p).
Proof. exact dg_decode_buf_flat. Qed.

(* hence the RFC 9297 reference decoder on the concatenation, wherever the chunk boundaries fall (inside the quarter
   stream id, between it and the payload, inside the payload) *)
Theorem C18_decode_any_chunking_is_rfc :
  forall cs, nonempty_chunks cs -> wf_bytes (concat cs) ->
    res_flat (dg_decode_buf cs) = match rfc_dg_decode (concat cs) with
                                  | Some (s, p) => Ok (s, p)
                                  | None => Err H3_DATAGRAM_ERROR_rfc
                                  end.
Proof. exact dg_decode_buf_spec. Qed.

Example C18_decode_any_chunking_inhabited :
  dg_decode_buf [[64]; [2; 120]; [121]] = Ok (8, [[120]; [121]]) /\ dg_decode_buf [[128; 0]; [0]] = Err 51 /\
  dg_decode_buf [[255]; [255; 255; 255]; [255; 255; 255; 255; 1]] = Err 51.
Proof. vm_compute. repeat split; reflexivity. Qed.

Print Assumptions C18_decode_any_chunking.
Print Assumptions C18_decode_any_chunking_is_rfc.
