(* C12 - only well-formed messages reach the application; sent ones are well-formed.
   Model: Model/Headers.v (h3/src/proto/headers.rs, ext.rs and the three call sites), with the tables, switches and
   error codes regenerated from the Rust source (Gen/GenHeaders.v) and the http crate as Model/HttpCrate.v.
   Spec: Spec/WellFormed.v (RFC 9110 / RFC 9114 character classes and message rules), "parseable" pseudo-header
   values instantiated by Spec/HttpParseable.v.
   [g] is an arbitrary oracle for HeaderMap::try_append failing (hash-collision path): every theorem holds for all g.
   [wf_fields] only says that bytes are < 256. *)
From H3V Require Import Base.Bytes Gen.GenHeaders Model.HttpCrate Model.Headers Spec.WellFormed Spec.HttpParseable
  Proofs.HeadersProofs.

(* T1 (server): a request is handed to the application only if its field section is well-formed, and it then
   carries exactly the (last) :method, the :scheme, the agreed non-empty authority, the :path without fragment, the
   :protocol, and the regular fields with per-name order preserved *)
Theorem C12_request_delivered_only_if_well_formed :
  forall g fs req, wf_fields fs -> resolve_request g fs = Delivered req ->
    wf_request http_parseable fs /\
    last_value pn_method fs = Some (rq_method req) /\
    (exists a, a <> [] /\ (In (pn_authority, a) fs \/ In (hn_host, a) fs) /\ uri_of_request fs a (rq_uri req)) /\
    protocol_matches (rq_protocol req) (last_value pn_protocol fs) /\
    NoDup (map fst (rq_headers req)) /\
    (forall name, values_of name (hm_iter (rq_headers req)) = values_of name (regular_fields fs)).
Proof. exact request_gate_sound. Qed.

(* T2 (server): anything else is refused with H3_MESSAGE_ERROR: the StreamError code, the RESET_STREAM code
   (stop_stream) and the STOP_SENDING code chosen in ResolvedRequest::resolve *)
Theorem C12_malformed_request_refused_with_message_error :
  forall g fs, wf_fields fs -> ~ wf_request http_parseable fs ->
    exists why, resolve_request g fs =
      Refused {| r_code := H3_MESSAGE_ERROR_rfc; r_reset := Some H3_MESSAGE_ERROR_rfc;
                 r_stop_sending := Some H3_MESSAGE_ERROR_rfc; r_why := why |}.
Proof. exact request_gate_complete. Qed.

Theorem C12_server_refusal_is_message_error :
  forall g fs r, resolve_request g fs = Refused r ->
    r_code r = H3_MESSAGE_ERROR_rfc /\ r_reset r = Some H3_MESSAGE_ERROR_rfc /\ r_stop_sending r = Some H3_MESSAGE_ERROR_rfc.
Proof. exact srv_refusal_code. Qed.

(* client: recv_response *)
Theorem C12_response_delivered_only_if_well_formed :
  forall g fs rs, wf_fields fs -> recv_response g fs = Delivered rs ->
    wf_response http_parseable fs /\
    (exists v, last_value pn_status fs = Some v /\ v = status_as_str (rs_status rs) /\ 100 <= rs_status rs <= 999) /\
    NoDup (map fst (rs_headers rs)) /\
    (forall name, values_of name (hm_iter (rs_headers rs)) = values_of name (regular_fields fs)).
Proof. exact response_gate_sound. Qed.
Theorem C12_malformed_response_refused_with_message_error :
  forall g fs, wf_fields fs -> ~ wf_response http_parseable fs ->
    exists r, recv_response g fs = Refused r /\ r_code r = H3_MESSAGE_ERROR_rfc /\ r_stop_sending r = Some H3_MESSAGE_ERROR_rfc.
Proof. exact response_gate_complete. Qed.

(* trailers: poll_recv_trailers *)
Theorem C12_trailers_delivered_only_if_well_formed :
  forall g fs m, wf_fields fs -> recv_trailers g fs = Delivered m ->
    wf_trailers http_parseable fs /\ NoDup (map fst m) /\
    (forall name, values_of name (hm_iter m) = values_of name (regular_fields fs)).
Proof. exact trailers_gate_sound. Qed.
Theorem C12_malformed_trailers_refused_with_message_error :
  forall g fs, wf_fields fs -> ~ wf_trailers http_parseable fs ->
    exists r, recv_trailers g fs = Refused r /\ r_code r = H3_MESSAGE_ERROR_rfc /\ r_stop_sending r = Some H3_MESSAGE_ERROR_rfc.
Proof. exact trailers_gate_complete. Qed.

(* no panic on any field section, any number of fields, any HeaderMap growth behaviour; more than 24576 field
   lines (http's HeaderMap MAX_SIZE arithmetic) are a TooManyFields refusal *)
Theorem C12_gates_never_panic :
  forall g fs s, resolve_request g fs <> Panicked s /\ recv_response g fs <> Panicked s /\ recv_trailers g fs <> Panicked s.
Proof.
  intros g fs s. split; [apply resolve_request_no_panic|split; [apply recv_response_no_panic|apply recv_trailers_no_panic]].
Qed.
Theorem C12_too_many_fields_is_an_error :
  forall g fs, 24576 < N.of_nat (length fs) -> N.of_nat (length fs) < 2 ^ 63 -> try_from g fs = Err TooManyFields.
Proof. exact too_many_fields. Qed.
Theorem C12_capacity_limit :
  forall n, n < 2 ^ 63 -> (try_with_capacity_ok n = true <-> n <= 24576).
Proof. exact capacity_limit. Qed.

(* what "well-formed" and "parseable" mean: the executable oracle decides the propositions; names of regular
   fields that Field::parse accepts are exactly checked against RFC 9110 tchar minus A-Z; a parseable :method is
   an RFC 9110 token; a parseable :status is three digits, 100..999 *)
Theorem C12_oracle_decides_wf_request : forall fs, wf_requestb http_parseable fs = true <-> wf_request http_parseable fs.
Proof. exact (wf_requestb_iff http_parseable). Qed.
Theorem C12_oracle_decides_wf_response : forall fs, wf_responseb http_parseable fs = true <-> wf_response http_parseable fs.
Proof. exact (wf_responseb_iff http_parseable). Qed.
Theorem C12_oracle_decides_wf_trailers : forall fs, wf_trailersb http_parseable fs = true <-> wf_trailers http_parseable fs.
Proof. exact (wf_trailersb_iff http_parseable). Qed.
Theorem C12_token_check_is_rfc_tchar : forall b, b < 256 -> is_token_char b = lower_tchar b.
Proof.
  intros b Hb. destruct (lower_tchar b) eqn:E.
  - apply lower_tchar_is_token_char; assumption.
  - destruct (is_token_char b) eqn:F; [apply is_token_char_lower_tchar in F; congruence|reflexivity].
Qed.
Theorem C12_parseable_method_is_token : forall m, method_ok m = true -> token m = true.
Proof. exact method_ok_token. Qed.
Theorem C12_parseable_status_is_three_digits :
  forall v n, wf_bytes v -> status_parse v = Some n ->
    100 <= n <= 999 /\ v = status_as_str n /\ Forall (fun b => is_digit b = true) v.
Proof. exact status_parse_spec. Qed.
Theorem C12_parseable_authority_is_nonempty_visible_ascii :
  forall a, authority_ok a = true -> a <> [] /\ Forall (fun b => 33 <= b <= 126 /\ b <> 47 /\ b <> 63 /\ b <> 35) a.
Proof.
  intros a H. apply authority_ok_bytes in H. destruct H as [NE F]. split; [exact NE|].
  rewrite Forall_forall in *. intros b I. pose proof (F b I) as AB. split; [apply authority_byte_visible; exact AB|apply AB].
Qed.
Theorem C12_delivered_path_is_value_without_fragment :
  forall v q, path_parse v = Ok q -> pq_as_str q = path_canon v.
Proof. exact path_parse_as_str. Qed.

(* T3 (send side): the field lines h3 hands to the encoder are the pseudo fields first, each at most once (the
   statement fixes no order among them), with the caller's values, followed by the caller's header map in iteration
   order; :scheme and :path are present except for a plain CONNECT, :protocol only for an extended CONNECT *)
Theorem C12_sent_request_pseudo_fields_first :
  forall m u fields ext emitted, regular_map fields -> send_request m u fields ext = Ok emitted ->
    exists ps, pseudo_first emitted ps (hm_iter fields) /\ request_pseudo_ok m u ext ps.
Proof. exact send_request_shape. Qed.
(* beyond the sentence about pseudo fields, in the spirit of "sent ones are well-formed": a request is only sent
   with some authority information, and the URI authority and the (first) Host field agree when both are given *)
Theorem C12_sent_request_authority_consistent :
  forall m u fields ext emitted, send_request m u fields ext = Ok emitted ->
    (uri_authority u <> None \/ hm_get hn_host fields <> None) /\
    (forall a h, uri_authority u = Some a -> hm_get hn_host fields = Some h -> a = h).
Proof. exact send_request_authority. Qed.
Theorem C12_caller_maps_are_regular :
  forall m, Forall (fun e => hname_ok (fst e) = true) m -> regular_map m.
Proof. exact valid_map_regular. Qed.
Theorem C12_sent_response_status_first :
  forall st fields, send_response st fields = Ok ((pn_status, status_as_str st) :: hm_iter fields).
Proof. exact send_response_shape. Qed.
Theorem C12_sent_status_is_the_callers :
  forall st, 100 <= st <= 999 -> status_parse (status_as_str st) = Some st.
Proof. exact status_roundtrip. Qed.
Theorem C12_sent_trailers_have_no_pseudo_field :
  forall fields, send_trailers fields = Ok (hm_iter fields).
Proof. exact send_trailers_shape. Qed.

(* ---- non-vacuity *)
Definition ex_GET : bytes := [71; 69; 84].
Example C12_request_delivered_inhabited :
  exists req, resolve_request (fun _ => false)
      [(pn_method, ex_GET); (pn_scheme, s_https); (pn_authority, [97]); (pn_path, [47; 98; 35; 99]); ([120], [121]); ([122], []); ([120], [119])]
    = Delivered req /\ rq_method req = ex_GET /\ uri_authority (rq_uri req) = Some [97] /\
      hm_iter (rq_headers req) = [([120], [121]); ([120], [119]); ([122], [])] /\
      option_map pq_as_str (uri_path_and_query (rq_uri req)) = Some [47; 98].
Proof. eexists. vm_compute. repeat split; reflexivity. Qed.
Example C12_uppercase_name_refused_inhabited :
  exists why, resolve_request (fun _ => false) [(pn_method, ex_GET); (pn_authority, [97]); ([65], [121])]
    = Refused {| r_code := 270; r_reset := Some 270; r_stop_sending := Some 270; r_why := why |}.
Proof. eexists. vm_compute. reflexivity. Qed.
Example C12_not_wf_inhabited :
  wf_requestb http_parseable [(pn_method, ex_GET); (pn_authority, [97]); (hn_host, [98])] = false /\
  wf_requestb http_parseable [(pn_method, ex_GET); (hn_host, [98])] = true /\
  wf_requestb http_parseable [(pn_method, ex_GET); (pn_authority, [97]); ([97; 34], [120])] = false /\
  wf_requestb http_parseable [(pn_method, ex_GET); (pn_authority, [97]); (pn_path, [47; 35; 0])] = false.
Proof. vm_compute. repeat split; reflexivity. Qed.
Example C12_dquote_and_fragment_nul_refused_inhabited :
  (exists r, resolve_request (fun _ => false) [(pn_method, ex_GET); (pn_authority, [97]); ([97; 34], [120])] = Refused r) /\
  (exists r, resolve_request (fun _ => false) [(pn_method, ex_GET); (pn_authority, [97]); (pn_scheme, s_https); (pn_path, [47; 35; 0])] = Refused r).
Proof. split; eexists; vm_compute; reflexivity. Qed.
Example C12_too_many_fields_inhabited :
  try_from (fun _ => false) (repeat ([97], [98]) (N.to_nat 24577)) = Err TooManyFields /\
  (exists h, try_from (fun _ => false) (repeat ([97], [98]) (N.to_nat 300)) = Ok h).
Proof. split; [vm_compute; reflexivity|eexists; vm_compute; reflexivity]. Qed.
(* an extended CONNECT: the five pseudo fields (in whatever order HeaderIter takes them) and then the map *)
Definition ex_has (f : fieldline) (l : list fieldline) : bool :=
  existsb (fun g => beq (fst g) (fst f) && beq (snd g) (snd f)) l.
Example C12_sent_request_inhabited :
  match send_request m_CONNECT {| u_scheme := Some s_https; u_authority := [97]; u_path := pq_slash |} [([120], [[121]; [122]])] (Some 0) with
  | Ok l =>
      forallb (fun f => ex_has f (firstn 5 l))
        [(pn_method, m_CONNECT); (pn_scheme, s_https); (pn_authority, [97]); (pn_path, [47]);
         (pn_protocol, [119; 101; 98; 116; 114; 97; 110; 115; 112; 111; 114; 116])]
      && ex_has ([120], [121]) (firstn 1 (skipn 5 l)) && ex_has ([120], [122]) (skipn 6 l) && (length l =? 7)%nat
  | _ => false
  end = true.
Proof. vm_compute. reflexivity. Qed.

Print Assumptions C12_request_delivered_only_if_well_formed.
Print Assumptions C12_malformed_request_refused_with_message_error.
Print Assumptions C12_server_refusal_is_message_error.
Print Assumptions C12_response_delivered_only_if_well_formed.
Print Assumptions C12_malformed_response_refused_with_message_error.
Print Assumptions C12_trailers_delivered_only_if_well_formed.
Print Assumptions C12_malformed_trailers_refused_with_message_error.
Print Assumptions C12_gates_never_panic.
Print Assumptions C12_too_many_fields_is_an_error.
Print Assumptions C12_capacity_limit.
Print Assumptions C12_oracle_decides_wf_request.
Print Assumptions C12_oracle_decides_wf_response.
Print Assumptions C12_oracle_decides_wf_trailers.
Print Assumptions C12_token_check_is_rfc_tchar.
Print Assumptions C12_parseable_method_is_token.
Print Assumptions C12_parseable_status_is_three_digits.
Print Assumptions C12_parseable_authority_is_nonempty_visible_ascii.
Print Assumptions C12_delivered_path_is_value_without_fragment.
Print Assumptions C12_sent_request_pseudo_fields_first.
Print Assumptions C12_sent_request_authority_consistent.
Print Assumptions C12_caller_maps_are_regular.
Print Assumptions C12_sent_response_status_first.
Print Assumptions C12_sent_status_is_the_callers.
Print Assumptions C12_sent_trailers_have_no_pseudo_field.
