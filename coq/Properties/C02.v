(* C02 - Frame boundaries follow RFC 9114 7.1 exactly, independent of chunking.

   Vocabulary: Spec/FrameVocab.v (frames, events, tokens, tails), Spec/Frames.v (the reference reader
   `frame_outcome` of the FLAT byte string: RFC 9114 7.1 / 7.2 / 7.2.8 / 9 over RFC 9000 varints),
   Spec/FrameTrace.v (histories: `arrivals`, `hist_ok`, `settled`, `toks_of`, `refines`),
   Model/FrameDec.v + Model/FrameStream.v (h3's Frame::decode, FrameDecoder, FrameStream::{poll_next,poll_data}
   over a BufList and a transport event queue; `run` executes a history of arrivals and calls). *)
From H3V Require Import Base.Bytes Gen.GenFrameTypes Spec.RFC9000 Spec.FrameVocab Spec.Frames Spec.FrameTrace
  Model.Varint Model.FrameDec Model.FrameStream Proofs.FramesProofs.

(* T1 (memo safety): when Frame::decode answers Incomplete(m), every extension of the buffer that is still
   shorter than m decodes to Incomplete again - FrameDecoder's `expected` shortcut never hides a decodable frame *)
Theorem C02_memo_safety :
  forall v m n, wf_bytes v -> frame_decode v = (Err (Incomplete m), n) ->
  forall w, wf_bytes w -> len (v ++ w) < m -> exists m', frame_decode (v ++ w) = (Err (Incomplete m'), 0).
Proof. exact memo_safety. Qed.

(* T2 (refinement, all interleavings): for EVERY history h of chunk/FIN/reset arrivals (non-empty chunks) interleaved
   in any way with poll_next/poll_data calls under the documented call pattern, started on a fresh FrameStream:
   the observations refine `frame_outcome (all bytes that arrived, flat) (how the stream ended)`, i.e.
   (1) the frames and DATA bytes handed out are always a prefix of the RFC segmentation of the flat bytes - no payload
       byte is read as a header or vice versa, unknown-type frames are skipped in full;
   (2) a final result is the prescribed one: clean end only at a frame boundary; FIN inside a header or payload
       (incl. a DATA payload, incl. exactly at a chunk boundary) = FrameError; a fixed-field frame whose payload is
       longer or shorter than its field = ProtoError PCMalformed; HTTP/2-reserved type = PCForbidden; never a panic,
       never a silent re-synchronisation (allowed slack: see `refines_final`);
   (3) a call is left pending with nothing more to arrive only if the stream is still open and everything was handed
       out - nothing is waited on forever once FIN/RESET is there.
   The statement mentions only the flat bytes: it is independent of the chunking and of the interleaving. *)
Theorem C02_refinement :
  forall h, hist_ok h ->
    refines (fst (run h (fs_new []) false))
            (frame_outcome settings_verdict (flat_of h) (ending_of h)) (ending_of h) (settled h).
Proof. exact frames_refinement. Qed.

(* T2, from any state satisfying the invariant (for the layers built on FrameStream: C03, C04):
   what is still owed is `outcome_in (bytes of the current DATA payload still owed) (buffered ++ queued ++ future bytes)` *)
Theorem C02_refinement_from_state :
  forall h s fut fen,
    fs_inv s -> fut_ok s fut -> hist_ok h ->
    (q_end (st_q s) = Open -> arrivals h = (fut, fen)) ->
    refines (fst (run h s false)) (spec_of s fut fen) (E s fen) (settled h).
Proof. exact run_refines. Qed.

(* T3 (chunking independence): two histories carrying the same flat bytes and the same FIN/open ending, cut into
   chunks and interleaved with calls in any two ways, end with the same result and the same tokens (when a DATA
   payload is cut by FIN, the payload bytes handed out before the error may differ: both are prefixes of the bytes
   received); two histories left pending with nothing more to arrive have handed out the same tokens. *)
Theorem C02_chunking_independent :
  forall h1 h2,
  hist_ok h1 -> hist_ok h2 -> flat_of h1 = flat_of h2 -> ending_of h1 = ending_of h2 ->
  (forall e, ending_of h1 <> Broken e) ->
  let os1 := fst (run h1 (fs_new []) false) in
  let os2 := fst (run h2 (fs_new []) false) in
  (forall o1 o2 t1 t2, last_obs os1 = Some o1 -> last_obs os2 = Some o2 ->
     obs_final o1 = true -> obs_final o2 = true -> tail_of_obs o1 = Some t1 -> tail_of_obs o2 = Some t2 ->
     t1 = t2 /\
     (t1 <> FrameError -> toks_of os1 = toks_of os2) /\
     (exists bs1 bs2, toks_of os1 ++ map TByte bs1 = toks_of os2 ++ map TByte bs2)) /\
  (forall o1 o2, settled h1 = true -> settled h2 = true -> last_obs os1 = Some o1 -> last_obs os2 = Some o2 ->
     obs_pending o1 = true -> obs_pending o2 = true -> toks_of os1 = toks_of os2).
Proof. exact chunking_independent. Qed.

(* T4 (error codes): the connection error code h3 attaches to each frame-layer failure is the one RFC 9114 gives
   for the corresponding tail: truncated or mis-sized frame -> H3_FRAME_ERROR, HTTP/2-reserved type ->
   H3_FRAME_UNEXPECTED, bad SETTINGS contents -> H3_SETTINGS_ERROR; a reset is not a connection error of h3 *)
Theorem C02_error_codes :
  fserr_code FsUnexpectedEnd = Some H3_FRAME_ERROR_rfc /\
  (forall e, fserr_code (FsProto PK_Malformed e) = Some H3_FRAME_ERROR_rfc) /\
  (forall e, fserr_code (FsProto PK_InvalidFrameValue e) = Some H3_FRAME_ERROR_rfc) /\
  (forall e, fserr_code (FsProto PK_ForbiddenFrame e) = Some H3_FRAME_UNEXPECTED_rfc) /\
  (forall e, fserr_code (FsProto PK_Settings e) = Some H3_SETTINGS_ERROR_rfc).
Proof. exact fserr_code_table. Qed.

(* both places that turn a frame-layer failure into a connection error - the request-stream handler and the control
   stream's poll_control - pass protocol errors through that table and use the same code for a truncated frame;
   FrameDecoder's only field is the `expected` memo and FrameStream's only state besides the stream is that decoder
   and `remaining_data` (no counters or limits the model would not know of) *)
Theorem C02_error_code_sites :
  req_proto_via_table = true /\ ctl_proto_via_table = true /\
  (forall e, fserr_code_ctl e = fserr_code e) /\
  fd_decoder_field_count = 1 /\ fs_stream_field_count = 3.
Proof. exact fserr_code_sites. Qed.

Theorem C02_error_code_of_tail :
  forall e t, tail_of_fserr e = Some t ->
    (forall k fe, e = FsProto k fe -> map_ferr fe = Some e) -> fserr_code e = tail_code t.
Proof. exact code_of_tail. Qed.

(* no panic: under the transport contract (non-empty chunks) and the call pattern, from any state satisfying the
   invariant, no call of any history panics (the assert of poll_next, the debug_assert of push_bytes, BufList::advance
   past the end, and the model's fuel bounds are all unreachable) *)
Theorem C02_no_panic :
  forall h s, fs_inv s -> hist_ok h -> forall o, In o (fst (run h s false)) -> obs_panic o = false.
Proof. exact run_no_panic. Qed.

(* the call contract itself: poll_next while DATA payload bytes are owed is the documented assertion failure *)
Theorem C02_poll_next_contract :
  forall s, st_rem s <> 0 -> poll_next s = (Ready (Panic 67), s).
Proof.
  intros s H. unfold poll_next. destruct (N.eqb_spec (st_rem s) 0); [contradiction|reflexivity].
Qed.

(* the SETTINGS identifier lists the frame decoder decides with (the reference reader is handed the model's verdict
   on SETTINGS contents, so these lists are pinned here): reserved = exactly RFC 9114 7.2.4.1's 0x00,0x02..0x05 *)
Theorem C02_settings_ids :
  fs_forbidden_ids = [0; 2; 3; 4; 5] /\
  fs_supported_ids = [6; 1; 7; 8; 727725890; 727725891; 51] /\
  fs_settings_len = 8 /\ fs_settings_min = 2.
Proof. exact settings_id_lists. Qed.

(* ---------- non-vacuity ---------- *)
Definition ex_goaway_trailing : list action :=
  [Arrive (Chunk [7; 2; 4]); CallAuto; Arrive (Chunk [0; 33; 0]); Arrive Fin; CallAuto].
Example C02_refinement_inhabited :
  hist_ok ex_goaway_trailing /\
  fst (run ex_goaway_trailing (fs_new []) false) =
    [ONext Pending; ONext (Ready (Err (FsProto PK_Malformed Malformed)))] /\
  frame_outcome settings_verdict (flat_of ex_goaway_trailing) (ending_of ex_goaway_trailing) =
    ([], ProtoError PCMalformed).
Proof.
  split; [|split; vm_compute; reflexivity].
  repeat constructor; try discriminate.
Qed.

Definition ex_data_cut : list action :=
  [Arrive (Chunk [1; 2; 170; 187; 0; 4]); Arrive (Chunk [97; 98]); CallAuto; CallAuto; CallAuto; CallAuto;
   Arrive Fin; CallAuto].
Example C02_data_cut_inhabited :
  hist_ok ex_data_cut /\
  fst (run ex_data_cut (fs_new []) false) =
    [ONext (Ready (Ok (Some (FHeaders [170; 187])))); ONext (Ready (Ok (Some (FData 4))));
     OData (Ready (Ok (Some [97; 98]))); OData Pending; OData (Ready (Err FsUnexpectedEnd))] /\
  frame_outcome settings_verdict (flat_of ex_data_cut) (ending_of ex_data_cut) =
    ([TFrame (FHeaders [170; 187]); TFrame (FData 4); TByte 97; TByte 98], FrameError).
Proof.
  split; [|split; vm_compute; reflexivity].
  repeat constructor; try discriminate.
Qed.

Example C02_memo_inhabited : frame_decode [1; 3; 170] = (Err (Incomplete 5), 0).
Proof. vm_compute. reflexivity. Qed.

Example C02_unknown_skipped_inhabited :
  frame_outcome settings_verdict [33; 3; 7; 1; 4; 0; 2; 97; 98] Finished =
    ([TFrame (FData 2); TByte 97; TByte 98], CleanEnd).
Proof. vm_compute. reflexivity. Qed.

Print Assumptions C02_memo_safety.
Print Assumptions C02_refinement.
Print Assumptions C02_refinement_from_state.
Print Assumptions C02_chunking_independent.
Print Assumptions C02_error_codes.
Print Assumptions C02_error_code_sites.
Print Assumptions C02_error_code_of_tail.
Print Assumptions C02_no_panic.
Print Assumptions C02_poll_next_contract.
Print Assumptions C02_settings_ids.
