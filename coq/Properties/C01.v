(* C01 - End-to-end message fidelity for every message and transport behaviour.

   THE STATEMENT: for every well-formed message, send-piece split, write acceptance script (back-pressure), wire
   chunking and interleaving of arrivals with the receiving application's calls,
       receiver_outcome (any history delivering (wire (sender_program msg))) = expected_events msg
   i.e. the receiving application sees the head (same method, scheme, authority, path; same field values per name in
   order), the body bytes, the end of the body, the trailers, the end of the message - once each, in this order - in
   both directions.

   C01_request_fidelity / C01_response_fidelity state it for the pipeline in which EVERY layer is the model of h3's
   own code, and are CLOSED:
     header mapping   C12 model (Model/Headers.v over Model/HttpCrate.v)    round trip: Proofs/EndToEndHeaders.v
     field sections   C11 model (Model/QpackStateless.v)                    law: C11 stateless_roundtrip
     write side       C14 model (Model/WriteBuf.v, Model/FrameEnc.v)        law: the three Buf laws of C14
     receive side     C02 + C03 models (FrameStream, RequestStream)         law: C03 request_refinement
   composed by C01_composition.  Premises that remain, by design: the message is one an application can build with the
   `http` crate and that crate's parsers accept what its printers print (request_head_ok / response_head_ok /
   trailers_ok - Proofs/EndToEndHeaders.v, Proofs/EndToEndInst.v), field sections below 2^26 bytes, body pieces are
   byte strings below 2^62 bytes; the receiving application's calls have completed (that they do complete is C06).
   This same pipeline is the model column of the correspondence run against the real client and server. *)
From H3V Require Import Base.Bytes Base.BytesLemmas Gen.GenMsgPath Model.Varint Model.HttpCrate Model.Headers Spec.WellFormed Proofs.HeadersProofs
  Model.EndToEnd Spec.EndToEndSpec Model.EndToEndRef Model.EndToEndLayers Model.EndToEndH3
  Spec.EndToEndStream Proofs.EndToEndProofs Proofs.EndToEndHeaders Proofs.EndToEndWire Proofs.EndToEndFrames
  Proofs.EndToEndRefProofs Proofs.EndToEndReader Proofs.EndToEndQpack Proofs.EndToEndC03 Proofs.EndToEndInst.

(* ================================================================ the composition argument, for ANY layers *)
Theorem C01_composition :
  forall (H H' T T' : Type)
    (* the layers *)
    (fields_of_head : H -> option fieldl) (head_of_fields : fieldl -> option H')
    (fields_of_trailers : T -> option fieldl) (trailers_of_fields : fieldl -> option T')
    (encode_section : fieldl -> option bytes) (decode_section : bytes -> option fieldl)
    (wire_write : list sframe -> list N -> option bytes)
    (rstate : Type) (r_init : rstate) (r_arrive : bytes -> rstate -> rstate) (r_fin : rstate -> rstate)
    (r_poll : rstate -> list ritem * rstate) (r_done : rstate -> bool)
    (* the specification vocabulary *)
    (norm_h : H -> H') (norm_t : T -> T') (head_ok : H -> Prop) (trailers_ok : T -> Prop)
    (fields_ok : fieldl -> Prop) (block_ok : bytes -> Prop)
    (frame_bytes : sframe -> bytes) (stream_outcome : bytes -> list ritem),
    (* C12: header mapping round trip (send side then receive gate) *)
    (forall h fs, head_ok h -> fields_of_head h = Some fs -> fields_ok fs /\ head_of_fields fs = Some (norm_h h)) ->
    (forall t fs, trailers_ok t -> fields_of_trailers t = Some fs ->
                  fields_ok fs /\ trailers_of_fields fs = Some (norm_t t)) ->
    (* C11: decode_stateless (encode_stateless fs) = fs *)
    (forall fs b, fields_ok fs -> encode_section fs = Some b -> block_ok b /\ decode_section b = Some fs) ->
    (* C14: under any acceptance script the accepted bytes are the frame layouts back to back *)
    (forall fs ks b,
        Forall (fun f => match f with SHeaders x => block_ok x | SData p => block_ok p
                                    | SGrease g => g < 148764065110560899 end) fs ->
        wire_write fs ks = Some b -> b = concat (map frame_bytes fs)) ->
    (* C02 + C03: under any chunking and interleaving the completed calls hand up the RFC reading of the flat bytes
       (asked only when that reading has no error item) *)
    (forall h items s, hist_ok h = true -> rx_run rstate r_arrive r_fin r_poll h r_init = (items, s) ->
                       r_done s = true -> wf_bytes (hist_flat h) -> no_fail (stream_outcome (hist_flat h)) ->
                       merge_items [] items = stream_outcome (hist_flat h)) ->
    (* the layout of a frame with a byte-valued payload consists of bytes *)
    (forall f, match f with SHeaders x => block_ok x | SData p => block_ok p
                          | SGrease g => g < 148764065110560899 end -> wf_bytes (frame_bytes f)) ->
    (* RFC 9114 4.1 / 7.1: reading back HEADERS DATA* HEADERS? (reserved-type frame)? *)
    (forall hb pieces tb g,
        block_ok hb -> Forall block_ok pieces -> match tb with Some b => block_ok b | None => True end ->
        match g with Some x => x < 148764065110560899 | None => True end ->
        stream_outcome (concat (map frame_bytes (SHeaders hb :: map SData pieces ++
            match tb with Some b => [SHeaders b] | None => [] end ++
            match g with Some x => [SGrease x] | None => [] end)))
        = RFirst hb :: flush_items (concat pieces) ++ [RDataEnd; RTrailers tb]) ->
    (* then: every message, piece split, acceptance script, chunking, interleaving *)
    forall (grease : option N) (m : message H T) (ks : list N) (b : bytes) (h : list hevent) items s,
      head_ok (m_head m) -> Forall block_ok (m_pieces m) ->
      match m_trailers m with Some t => trailers_ok t | None => True end ->
      match grease with Some g => g < 148764065110560899 | None => True end ->
      wire H T fields_of_head fields_of_trailers encode_section wire_write grease m ks = Some b ->
      hist_ok h = true -> hist_flat h = b ->
      rx_run rstate r_arrive r_fin r_poll h r_init = (items, s) -> r_done s = true ->
      receiver_outcome H' T' head_of_fields trailers_of_fields decode_section rstate r_init r_arrive r_fin r_poll h
      = expected_events norm_h norm_t m.
Proof. exact e2e_fidelity_generic. Qed.

(* ================================================================ the end-to-end theorems, every layer h3's own *)
Theorem C01_request_fidelity :
  forall (grease : option N) (m : message c12_request hmap) (ks : list N) (b : bytes) (h : list hevent) items s,
    request_head_ok (m_head m) -> Forall block_ok (m_pieces m) ->
    match m_trailers m with Some t => trailers_ok t | None => True end ->
    match grease with Some g => g < 148764065110560899 | None => True end ->
    (* what the client writes: send_request, send_data per piece, send_trailers?, finish - accepted ks bytes at a time *)
    wire c12_request hmap c12_fields_of_request c12_fields_of_trailers c11_encode_section c14_wire_write grease m ks = Some b ->
    (* reaches the server under any history: chunks of b (never empty), FIN, the application's calls anywhere *)
    hist_ok h = true -> hist_flat h = b ->
    rx_run c03_state c03_arrive c03_fin (c03_poll RequestStream.RServer) h c03_init = (items, s) -> c03_done s = true ->
    (* resolve_request, recv_data until None, recv_trailers show exactly the message *)
    receiver_outcome request hmap c12_request_of_fields c12_trailers_of_fields c11_decode_section
                     c03_state c03_init c03_arrive c03_fin (c03_poll RequestStream.RServer) h
    = expected_events c12_norm_request (fun t : hmap => t) m.
Proof. exact request_fidelity_h3. Qed.

Theorem C01_response_fidelity :
  forall (grease : option N) (m : message c12_response hmap) (ks : list N) (b : bytes) (h : list hevent) items s,
    response_head_ok (m_head m) -> Forall block_ok (m_pieces m) ->
    match m_trailers m with Some t => trailers_ok t | None => True end ->
    match grease with Some g => g < 148764065110560899 | None => True end ->
    wire c12_response hmap c12_fields_of_response c12_fields_of_trailers c11_encode_section c14_wire_write grease m ks = Some b ->
    hist_ok h = true -> hist_flat h = b ->
    rx_run c03_state c03_arrive c03_fin (c03_poll RequestStream.RClient) h c03_init = (items, s) -> c03_done s = true ->
    receiver_outcome response hmap c12_response_of_fields c12_trailers_of_fields c11_decode_section
                     c03_state c03_init c03_arrive c03_fin (c03_poll RequestStream.RClient) h
    = expected_events (fun p => {| rs_status := cp_status p; rs_headers := cp_fields p |}) (fun t : hmap => t) m.
Proof. exact response_fidelity_h3. Qed.

(* ================================================================ the same for any field-section codec and any reader
   that satisfy their laws (h3's header mapping and writer fixed); the two theorems above are instances *)
Theorem C01_request_fidelity_any_codec_and_reader :
  forall (sc : bytes -> option FrameVocab.settings_err) (encode_section : fieldl -> option bytes) (decode_section : bytes -> option fieldl)
    (rstate : Type) (r_init : rstate) (r_arrive : bytes -> rstate -> rstate) (r_fin : rstate -> rstate)
    (r_poll : rstate -> list ritem * rstate) (r_done : rstate -> bool),
    (* the codec law (C11 for h3's) *)
    (forall fs b, fields_ok fs -> encode_section fs = Some b -> block_ok b /\ decode_section b = Some fs) ->
    (* the reader law (C02 + C03 for h3's) *)
    (forall h items s, hist_ok h = true -> rx_run rstate r_arrive r_fin r_poll h r_init = (items, s) ->
                       r_done s = true -> wf_bytes (hist_flat h) -> no_fail (rfc_stream_reading_with sc (hist_flat h)) ->
                       merge_items [] items = rfc_stream_reading_with sc (hist_flat h)) ->
    forall (grease : option N) (m : message c12_request hmap) (ks : list N) (b : bytes) (h : list hevent) items s,
      request_head_ok (m_head m) -> Forall block_ok (m_pieces m) ->
      match m_trailers m with Some t => trailers_ok t | None => True end ->
      match grease with Some g => g < 148764065110560899 | None => True end ->
      wire c12_request hmap c12_fields_of_request c12_fields_of_trailers encode_section c14_wire_write grease m ks = Some b ->
      hist_ok h = true -> hist_flat h = b ->
      rx_run rstate r_arrive r_fin r_poll h r_init = (items, s) -> r_done s = true ->
      receiver_outcome request hmap c12_request_of_fields c12_trailers_of_fields decode_section
                       rstate r_init r_arrive r_fin r_poll h
      = expected_events c12_norm_request (fun t : hmap => t) m.
Proof. exact request_fidelity. Qed.

Theorem C01_response_fidelity_any_codec_and_reader :
  forall (sc : bytes -> option FrameVocab.settings_err) (encode_section : fieldl -> option bytes) (decode_section : bytes -> option fieldl)
    (rstate : Type) (r_init : rstate) (r_arrive : bytes -> rstate -> rstate) (r_fin : rstate -> rstate)
    (r_poll : rstate -> list ritem * rstate) (r_done : rstate -> bool),
    (forall fs b, fields_ok fs -> encode_section fs = Some b -> block_ok b /\ decode_section b = Some fs) ->
    (forall h items s, hist_ok h = true -> rx_run rstate r_arrive r_fin r_poll h r_init = (items, s) ->
                       r_done s = true -> wf_bytes (hist_flat h) -> no_fail (rfc_stream_reading_with sc (hist_flat h)) ->
                       merge_items [] items = rfc_stream_reading_with sc (hist_flat h)) ->
    forall (grease : option N) (m : message c12_response hmap) (ks : list N) (b : bytes) (h : list hevent) items s,
      response_head_ok (m_head m) -> Forall block_ok (m_pieces m) ->
      match m_trailers m with Some t => trailers_ok t | None => True end ->
      match grease with Some g => g < 148764065110560899 | None => True end ->
      wire c12_response hmap c12_fields_of_response c12_fields_of_trailers encode_section c14_wire_write grease m ks = Some b ->
      hist_ok h = true -> hist_flat h = b ->
      rx_run rstate r_arrive r_fin r_poll h r_init = (items, s) -> r_done s = true ->
      receiver_outcome response hmap c12_response_of_fields c12_trailers_of_fields decode_section
                       rstate r_init r_arrive r_fin r_poll h
      = expected_events (fun p => {| rs_status := cp_status p; rs_headers := cp_fields p |}) (fun t : hmap => t) m.
Proof. exact response_fidelity. Qed.

(* ================================================================ two more instances, independent of C11 and C02/C03:
   the reference field-section coding with (a) a store-and-forward reader, (b) the incremental reference reader of
   Model/EndToEndRef.v, whose law (any chunking, any interleaving) is proved from scratch in Proofs/EndToEndReader.v *)
Theorem C01_request_fidelity_store_and_forward :
  forall (grease : option N) (m : message c12_request hmap) (ks : list N) (b : bytes) (h : list hevent) items s,
    request_head_ok (m_head m) -> Forall block_ok (m_pieces m) ->
    match m_trailers m with Some t => trailers_ok t | None => True end ->
    match grease with Some g => g < 148764065110560899 | None => True end ->
    wire c12_request hmap c12_fields_of_request c12_fields_of_trailers ref_encode_section c14_wire_write grease m ks = Some b ->
    hist_ok h = true -> hist_flat h = b ->
    rx_run sfstate sf_arrive sf_finish sf_poll h sf_init = (items, s) -> sf_done s = true ->
    receiver_outcome request hmap c12_request_of_fields c12_trailers_of_fields ref_decode_section
                     sfstate sf_init sf_arrive sf_finish sf_poll h
    = expected_events c12_norm_request (fun t : hmap => t) m.
Proof. exact request_fidelity_store_and_forward. Qed.

Theorem C01_response_fidelity_store_and_forward :
  forall (grease : option N) (m : message c12_response hmap) (ks : list N) (b : bytes) (h : list hevent) items s,
    response_head_ok (m_head m) -> Forall block_ok (m_pieces m) ->
    match m_trailers m with Some t => trailers_ok t | None => True end ->
    match grease with Some g => g < 148764065110560899 | None => True end ->
    wire c12_response hmap c12_fields_of_response c12_fields_of_trailers ref_encode_section c14_wire_write grease m ks = Some b ->
    hist_ok h = true -> hist_flat h = b ->
    rx_run sfstate sf_arrive sf_finish sf_poll h sf_init = (items, s) -> sf_done s = true ->
    receiver_outcome response hmap c12_response_of_fields c12_trailers_of_fields ref_decode_section
                     sfstate sf_init sf_arrive sf_finish sf_poll h
    = expected_events (fun p => {| rs_status := cp_status p; rs_headers := cp_fields p |}) (fun t : hmap => t) m.
Proof. exact response_fidelity_store_and_forward. Qed.

(* The same with the INCREMENTAL reference reader (Model/EndToEndRef.v ref_poll: one frame header or one piece of DATA
   payload per call, over the receive buffer) - the receive side of the pipeline that the correspondence run executes
   against the real code.  CLOSED: for every message, piece split, acceptance script, chunking and interleaving. *)
Theorem C01_request_fidelity_reference_reader :
  forall (grease : option N) (m : message c12_request hmap) (ks : list N) (b : bytes) (h : list hevent) items s,
    request_head_ok (m_head m) -> Forall block_ok (m_pieces m) ->
    match m_trailers m with Some t => trailers_ok t | None => True end ->
    match grease with Some g => g < 148764065110560899 | None => True end ->
    wire c12_request hmap c12_fields_of_request c12_fields_of_trailers ref_encode_section c14_wire_write grease m ks = Some b ->
    hist_ok h = true -> hist_flat h = b ->
    rx_run rstate ref_arrive ref_fin ref_poll h ref_init = (items, s) -> ref_done s = true ->
    receiver_outcome request hmap c12_request_of_fields c12_trailers_of_fields ref_decode_section
                     rstate ref_init ref_arrive ref_fin ref_poll h
    = expected_events c12_norm_request (fun t : hmap => t) m.
Proof. exact request_fidelity_reference_reader. Qed.

Theorem C01_response_fidelity_reference_reader :
  forall (grease : option N) (m : message c12_response hmap) (ks : list N) (b : bytes) (h : list hevent) items s,
    response_head_ok (m_head m) -> Forall block_ok (m_pieces m) ->
    match m_trailers m with Some t => trailers_ok t | None => True end ->
    match grease with Some g => g < 148764065110560899 | None => True end ->
    wire c12_response hmap c12_fields_of_response c12_fields_of_trailers ref_encode_section c14_wire_write grease m ks = Some b ->
    hist_ok h = true -> hist_flat h = b ->
    rx_run rstate ref_arrive ref_fin ref_poll h ref_init = (items, s) -> ref_done s = true ->
    receiver_outcome response hmap c12_response_of_fields c12_trailers_of_fields ref_decode_section
                     rstate ref_init ref_arrive ref_fin ref_poll h
    = expected_events (fun p => {| rs_status := cp_status p; rs_headers := cp_fields p |}) (fun t : hmap => t) m.
Proof. exact response_fidelity_reference_reader. Qed.

(* the reader's law on its own: any chunking, any interleaving of arrivals and calls - the items handed up, body
   pieces merged, are the RFC reading of the flat bytes (for streams whose reading has no error item) ... *)
Theorem C01_reference_reader_any_interleaving :
  forall h items s,
    hist_ok h = true -> rx_run rstate ref_arrive ref_fin ref_poll h ref_init = (items, s) -> ref_done s = true ->
    no_fail (rfc_stream_reading (hist_flat h)) ->
    forall a, merge_items a items = merge_items a (rfc_stream_reading (hist_flat h)).
Proof. exact ref_reader_law. Qed.
(* ... and once everything has arrived finitely many further calls complete the message (no call pends forever) *)
Theorem C01_reference_reader_completes :
  forall h, hist_ok h = true -> no_fail (rfc_stream_reading (hist_flat h)) ->
    exists m items s, rx_run rstate ref_arrive ref_fin ref_poll (h ++ repeat HPoll m) ref_init = (items, s) /\ ref_done s = true.
Proof. exact ref_reader_completes. Qed.

(* non-vacuity of the `http`-crate premises and of the closed theorem: POST http://a.b/x?y with x-a: 1,2,3 and an
   empty-valued field satisfies [request_head_ok]; sent in four pieces (one empty) with trailers and a grease frame,
   written 1,1,2,0,3,1.. bytes at a time, delivered in chunks of 1,2,3,1,1 bytes and the rest, it arrives as itself *)
Example C01_request_premises_inhabited :
  request_head_ok
    {| cq_method := [80; 79; 83; 84];
       cq_uri := {| u_scheme := Some [104; 116; 116; 112]; u_authority := [97; 46; 98];
                    u_path := {| pq_data := [47; 120; 63; 121]; pq_query := Some 2 |} |};
       cq_fields := [([120; 45; 97], [[49]; [50]; [51]]); ([98], [[]])];
       cq_ext := None |}.
Proof.
  split.
  - unfold request_ok; cbn [cq_ext cq_method cq_fields cq_uri].
    split; [reflexivity|]. split; [vm_compute; reflexivity|]. split; [vm_compute; reflexivity|].
    split.
    { split.
      - split; [repeat constructor; cbn; intuition discriminate|repeat constructor; discriminate].
      - repeat constructor; vm_compute; try reflexivity; intros; try discriminate; auto. }
    split. { vm_compute. discriminate. }
    split.
    { intros _. repeat split; try (vm_compute; reflexivity).
      - eexists. vm_compute. reflexivity.
      - apply wf_bytesb_spec. vm_compute. reflexivity.
      - apply wf_bytesb_spec. vm_compute. reflexivity. }
    vm_compute. repeat split; reflexivity.
  - vm_compute. reflexivity.
Qed.

Example C01_h3_layers_inhabited :
  let q := {| cq_method := [80; 79; 83; 84];
              cq_uri := {| u_scheme := Some [104; 116; 116; 112]; u_authority := [97; 46; 98];
                           u_path := {| pq_data := [47; 120; 63; 121]; pq_query := Some 2 |} |};
              cq_fields := [([120; 45; 97], [[49]; [50]; [51]]); ([98], [[]])];
              cq_ext := None |} in
  let m := Msg q [[1; 2; 3]; []; [4; 5]; [6]] (Some [([116], [[49]; [50]])]) in
  exists b,
    wire c12_request hmap c12_fields_of_request c12_fields_of_trailers ref_encode_section c14_wire_write (Some 5) m
         ([1; 1; 2; 0; 3] ++ repeat 1 30 ++ repeat 100 30) = Some b /\
    hist_ok (mk_history [1; 2; 3; 1; 1] [0; 2; 1; 0] 2 b) = true /\
    receiver_outcome request hmap c12_request_of_fields c12_trailers_of_fields ref_decode_section
                     sfstate sf_init sf_arrive sf_finish sf_poll (mk_history [1; 2; 3; 1; 1] [0; 2; 1; 0] 2 b)
    = expected_events c12_norm_request (fun t : hmap => t) m /\
    receiver_outcome request hmap c12_request_of_fields c12_trailers_of_fields ref_decode_section
                     rstate ref_init ref_arrive ref_fin ref_poll (mk_history [1; 2; 3; 1; 1] [0; 2; 1; 0] 20 b)
    = expected_events c12_norm_request (fun t : hmap => t) m.
Proof. eexists. split; [vm_compute; reflexivity|]. split; [|split]; vm_compute; reflexivity. Qed.

(* non-vacuity of C01_request_fidelity: the message above through the pipeline whose every layer is h3's (QPACK with
   Huffman strings, WriteBuf drained 1,1,2,0,3.. bytes at a time, FrameStream fed chunks of 1,2,3,1,1.. bytes with
   0,2,1,0.. calls in between) arrives as itself, the history is well formed and the calls have completed *)
Example C01_request_fidelity_inhabited :
  let q := {| cq_method := [80; 79; 83; 84];
              cq_uri := {| u_scheme := Some [104; 116; 116; 112]; u_authority := [97; 46; 98];
                           u_path := {| pq_data := [47; 120; 63; 121]; pq_query := Some 2 |} |};
              cq_fields := [([120; 45; 97], [[49]; [50]; [51]]); ([98], [[]])];
              cq_ext := None |} in
  let m := Msg q [[1; 2; 3]; []; [4; 5]; [6]] (Some [([116], [[49]; [50]])]) in
  h3_request_outcome (Some 5) m [1; 1; 2; 0; 3] [1; 2; 3; 1; 1] [0; 2; 1; 0]
  = Some (expected_events c12_norm_request (fun t : hmap => t) m) /\
  exists b items s,
    wire c12_request hmap c12_fields_of_request c12_fields_of_trailers c11_encode_section c14_wire_write (Some 5) m
         ([1; 1; 2; 0; 3] ++ repeat h3_grant 14) = Some b /\
    hist_ok (mk_history [1; 2; 3; 1; 1] [0; 2; 1; 0] 23 b) = true /\
    rx_run c03_state c03_arrive c03_fin (c03_poll RequestStream.RServer) (mk_history [1; 2; 3; 1; 1] [0; 2; 1; 0] 23 b) c03_init
      = (items, s) /\ c03_done s = true.
Proof.
  split; [vm_compute; reflexivity|].
  eexists. eexists. eexists. split; [vm_compute; reflexivity|]. split; [vm_compute; reflexivity|].
  split; [vm_compute; reflexivity|]. vm_compute. reflexivity.
Qed.

(* ================================================================ the layers' laws on their own *)
Theorem C01_request_head_roundtrip :
  forall q fs, request_ok q -> c12_fields_of_request q = Some fs -> c12_request_of_fields fs = Some (c12_norm_request q).
Proof. exact request_roundtrip. Qed.
(* ... and what the delivered target is, through the `http` accessors: scheme (https when the caller gave none),
   authority (the target's, else the Host field), path-and-query as sent *)
Theorem C01_delivered_target :
  forall q q1, plain_connect q = false -> path_parse (sent_path (cq_uri q)) = Ok q1 ->
    let u := rq_uri (c12_norm_request q) in
    uri_scheme_str u = Some (sent_scheme (cq_uri q)) /\
    u_authority u = request_authority q /\
    pq_as_str (u_path u) = path_canon (sent_path (cq_uri q)).
Proof. exact norm_request_components. Qed.
Theorem C01_response_head_roundtrip :
  forall p fs, response_ok p -> c12_fields_of_response p = Some fs ->
    c12_response_of_fields fs = Some {| rs_status := cp_status p; rs_headers := cp_fields p |}.
Proof. exact response_roundtrip. Qed.
Theorem C01_trailers_roundtrip :
  forall t fs, map_ok t -> count_ok (length (hm_iter t)) -> c12_fields_of_trailers t = Some fs ->
    c12_trailers_of_fields fs = Some t.
Proof. exact trailers_roundtrip. Qed.
(* field sections over the C11 model: decode_stateless (encode_stateless fs) = fs, the block is bytes and fits a frame *)
Theorem C01_field_section_roundtrip :
  forall fs b, fields_ok fs -> c11_encode_section fs = Some b -> block_ok b /\ c11_decode_section b = Some fs.
Proof. exact c11_section_law. Qed.
(* the receive side over the C02 + C03 models, either role: any chunking, any interleaving of arrivals and calls *)
Theorem C01_h3_reader_any_interleaving :
  forall r h items s,
    hist_ok h = true -> rx_run c03_state c03_arrive c03_fin (c03_poll r) h c03_init = (items, s) -> c03_done s = true ->
    wf_bytes (hist_flat h) -> no_fail (rfc_stream_reading_with FrameDec.settings_verdict (hist_flat h)) ->
    merge_items [] items = rfc_stream_reading_with FrameDec.settings_verdict (hist_flat h).
Proof. exact c03_reader_law. Qed.
(* splitting the request stream into halves at ANY point of the history (before any call, mid-body, after end-of-body
   before recv_trailers, ...) does not change what the receive side hands up: the receive half starts from exactly the
   whole stream's receive state - which fields RequestStream::split / FrameStream::split / BufRecvStream::split hand
   over is read from the source on every run (Gen/GenSplit.v).  With it C01_request_fidelity / C01_response_fidelity
   hold for split streams as well. *)
Theorem C01_split_point_irrelevant :
  forall r (h : list (option hevent)) s,
    c03_run_split r h s = rx_run c03_state c03_arrive c03_fin (c03_poll r) (without_splits h) s.
Proof. exact split_point_irrelevant. Qed.
(* however the transport segments the buffer it hands over (RecvStream::Buf is any Buf), all of it enters h3's receive
   buffer: BufList::push_bytes copies buf.remaining() bytes; it and the functions that read the list again (BufList
   take_chunk / remaining / chunk / advance, Cursor) are anchored to the source by translate/gen_buflist.py *)
Theorem C01_transport_buffer_taken_whole : forall segments, pushed segments = concat segments.
Proof. exact pushed_is_whole. Qed.
(* h3's own default for the field-section limit (what an endpoint announces and enforces when nothing is configured, and
   what it assumes of a peer whose SETTINGS have not arrived) is the largest varint, so no field section the theorems
   speak about is refused under the defaults; the value is read from config.rs on every run, and the bodies of
   Frame::encode / payload / FrameType::encode / encode_header / coding.rs / the SendStream delegations / the Huffman
   encoder / Settings::default / From<&frame::Settings> / SharedState::settings / client send_request, Clone, Drop,
   wait_idle, poll_close, new, build / server new, accept, build are anchored whole by translate/gen_msgpath.py *)
Theorem C01_default_limit_is_unbounded :
  GenMsgPath.default_max_field_section_size = 2 ^ 62 - 1 /\
  forall fs, section_fits fs -> section_size fs <= GenMsgPath.default_max_field_section_size.
Proof. split; [exact default_limit_unbounded|exact default_limit_admits]. Qed.
Theorem C01_layout_reads_back :
  forall hb pieces tb g,
    len hb < 2 ^ 62 -> Forall (fun p => len p < 2 ^ 62) pieces -> match tb with Some b => len b < 2 ^ 62 | None => True end ->
    match g with Some x => x < 148764065110560899 | None => True end ->
    rfc_stream_reading (concat (map rfc_frame_bytes (SHeaders hb :: map SData pieces ++
        match tb with Some b => [SHeaders b] | None => [] end ++
        match g with Some x => [SGrease x] | None => [] end)))
    = RFirst hb :: flush_items (concat pieces) ++ [RDataEnd; RTrailers tb].
Proof. exact request_stream_reading_of_layout. Qed.
Theorem C01_written_bytes_any_script :
  forall fs ks b, Forall sframe_ok fs -> c14_wire_write fs ks = Some b -> b = concat (map rfc_frame_bytes fs).
Proof. exact c14_write_exact. Qed.

(* non-vacuity: a request with a repeated field name (in two spellings), an empty value, a body handed over in
   four pieces (one empty), trailers and a grease frame runs through the executable pipeline - written 1,1,2,0,3..
   bytes at a time, delivered in chunks of 1,2,3,1.. bytes with 0,2,1,0.. application polls in between - and
   arrives as itself *)
Example C01_pipeline_inhabited :
  let q := {| q_method := [80; 79; 83; 84]; q_scheme := Some [104; 116; 116; 112]; q_authority := Some [97; 46; 98];
              q_path := Some [47; 120; 63; 121]; q_protocol := None;
              q_fields := [([88; 45; 65], [49]); ([120; 45; 97], [50]); ([98], []); ([120; 45; 65], [51])] |} in
  let m := Msg q [[1; 2; 3]; []; [4; 5]; [6]] (Some [([116], [49]); ([116], [50])]) in
  ref_request_outcome (Some 5) m [1; 1; 2; 0; 3] [1; 2; 3; 1; 1; 1; 1; 1] [0; 2; 1; 0; 0; 1]
  = Some (expected_events norm_request norm_trailers m)
  /\ expected_events norm_request norm_trailers m
     = [AHead {| v_method := [80; 79; 83; 84]; v_scheme := Some [104; 116; 116; 112]; v_authority := Some [97; 46; 98];
                 v_path := Some [47; 120; 63; 121]; v_protocol := None;
                 v_fields := [([120; 45; 97], [[49]; [50]; [51]]); ([98], [[]])] |};
        ABody [1; 2; 3; 4; 5; 6]; ABodyEnd; ATrailers [([116], [[49]; [50]])]; AEnd].
Proof. split; vm_compute; reflexivity. Qed.

Example C01_response_inhabited :
  let m := Msg {| rp_status := 404; rp_fields := [([97], [49]); ([97], [50])] |} [[7; 8]; [9]] None in
  ref_response_outcome None m [3] [2] [1]
  = Some (expected_events norm_response norm_trailers m).
Proof. vm_compute; reflexivity. Qed.

Print Assumptions C01_composition.
Print Assumptions C01_request_fidelity.
Print Assumptions C01_response_fidelity.
Print Assumptions C01_request_fidelity_any_codec_and_reader.
Print Assumptions C01_response_fidelity_any_codec_and_reader.
Print Assumptions C01_request_fidelity_store_and_forward.
Print Assumptions C01_response_fidelity_store_and_forward.
Print Assumptions C01_request_fidelity_reference_reader.
Print Assumptions C01_response_fidelity_reference_reader.
Print Assumptions C01_reference_reader_any_interleaving.
Print Assumptions C01_reference_reader_completes.
Print Assumptions C01_request_head_roundtrip.
Print Assumptions C01_delivered_target.
Print Assumptions C01_response_head_roundtrip.
Print Assumptions C01_trailers_roundtrip.
Print Assumptions C01_written_bytes_any_script.
Print Assumptions C01_layout_reads_back.
Print Assumptions C01_field_section_roundtrip.
Print Assumptions C01_h3_reader_any_interleaving.
Print Assumptions C01_split_point_irrelevant.
Print Assumptions C01_transport_buffer_taken_whole.
Print Assumptions C01_default_limit_is_unbounded.
