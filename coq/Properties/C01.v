(* C01 - End-to-end message fidelity for every message and transport behaviour.

   FULL STATEMENT (the target): for h3's own layers (C12 header mapping, C11 stateless QPACK, C14 writers, C02/C03
   FrameStream + RequestStream) and every well-formed message, send-piece split, write acceptance script, wire
   chunking and interleaving of arrivals with the receiving application's calls:
       receiver_outcome (any history delivering (wire (sender_program msg))) = expected_events msg
   i.e. head, body bytes, end of body, trailers, end of message - once each, in this order - in both directions.

   What is pinned here:
   * C01_composition: the composition argument, closed, for ANY layers: every property-owned layer enters through its
     round-trip law as an explicit premise (no axioms).
   * the instantiations of Proofs/EndToEndInst.v discharge these premises by the owners' theorems as they exist. *)
From H3V Require Import Base.Bytes Base.BytesLemmas Model.Varint Model.HttpCrate Model.Headers Spec.WellFormed Proofs.HeadersProofs
  Model.EndToEnd Spec.EndToEndSpec Model.EndToEndRef Model.EndToEndLayers
  Spec.EndToEndStream Proofs.EndToEndProofs Proofs.EndToEndHeaders Proofs.EndToEndWire Proofs.EndToEndFrames
  Proofs.EndToEndRefProofs Proofs.EndToEndReader Proofs.EndToEndInst.

Theorem C01_composition :
  forall (H H' T T' : Type)
    (* the layers *)
    (fields_of_head : H -> option fieldl) (head_of_fields : fieldl -> option H')
    (fields_of_trailers : T -> option fieldl) (trailers_of_fields : fieldl -> option T')
    (encode_section : fieldl -> option bytes) (decode_section : bytes -> option fieldl)
    (wire_write : list sframe -> list N -> option bytes)
    (rstate : Type) (r_init : rstate) (r_arrive : bytes -> rstate -> rstate) (r_fin : rstate -> rstate)
    (r_poll : rstate -> list ritem * rstate) (r_done : rstate -> bool)
    (* the specification vocabulary *)
    (norm_h : H -> H') (norm_t : T -> T') (head_ok : H -> Prop) (trailers_ok : T -> Prop)
    (fields_ok : fieldl -> Prop) (block_ok : bytes -> Prop)
    (frame_bytes : sframe -> bytes) (stream_outcome : bytes -> list ritem),
    (* C12: header mapping round trip (send side then receive gate) *)
    (forall h fs, head_ok h -> fields_of_head h = Some fs -> fields_ok fs /\ head_of_fields fs = Some (norm_h h)) ->
    (forall t fs, trailers_ok t -> fields_of_trailers t = Some fs ->
                  fields_ok fs /\ trailers_of_fields fs = Some (norm_t t)) ->
    (* C11: decode_stateless (encode_stateless fs) = fs *)
    (forall fs b, fields_ok fs -> encode_section fs = Some b -> block_ok b /\ decode_section b = Some fs) ->
    (* C14: under any acceptance script the accepted bytes are the frame layouts back to back *)
    (forall fs ks b,
        Forall (fun f => match f with SHeaders x => block_ok x | SData p => block_ok p
                                    | SGrease g => g < 148764065110560899 end) fs ->
        wire_write fs ks = Some b -> b = concat (map frame_bytes fs)) ->
    (* C02 + C03: under any chunking and interleaving the completed calls hand up the RFC reading of the flat bytes
       (asked only when that reading has no error item) *)
    (forall h items s, hist_ok h = true -> rx_run rstate r_arrive r_fin r_poll h r_init = (items, s) ->
                       r_done s = true -> wf_bytes (hist_flat h) -> no_fail (stream_outcome (hist_flat h)) ->
                       merge_items [] items = stream_outcome (hist_flat h)) ->
    (* the layout of a frame with a byte-valued payload consists of bytes *)
    (forall f, match f with SHeaders x => block_ok x | SData p => block_ok p
                          | SGrease g => g < 148764065110560899 end -> wf_bytes (frame_bytes f)) ->
    (* RFC 9114 4.1 / 7.1: reading back HEADERS DATA* HEADERS? (reserved-type frame)? *)
    (forall hb pieces tb g,
        block_ok hb -> Forall block_ok pieces -> match tb with Some b => block_ok b | None => True end ->
        match g with Some x => x < 148764065110560899 | None => True end ->
        stream_outcome (concat (map frame_bytes (SHeaders hb :: map SData pieces ++
            match tb with Some b => [SHeaders b] | None => [] end ++
            match g with Some x => [SGrease x] | None => [] end)))
        = RFirst hb :: flush_items (concat pieces) ++ [RDataEnd; RTrailers tb]) ->
    (* then: every message, piece split, acceptance script, chunking, interleaving *)
    forall (grease : option N) (m : message H T) (ks : list N) (b : bytes) (h : list hevent) items s,
      head_ok (m_head m) -> Forall block_ok (m_pieces m) ->
      match m_trailers m with Some t => trailers_ok t | None => True end ->
      match grease with Some g => g < 148764065110560899 | None => True end ->
      wire H T fields_of_head fields_of_trailers encode_section wire_write grease m ks = Some b ->
      hist_ok h = true -> hist_flat h = b ->
      rx_run rstate r_arrive r_fin r_poll h r_init = (items, s) -> r_done s = true ->
      receiver_outcome H' T' head_of_fields trailers_of_fields decode_section rstate r_init r_arrive r_fin r_poll h
      = expected_events norm_h norm_t m.
Proof. exact e2e_fidelity_generic. Qed.

(* ---------------------------------------------------------------------------------------------------------------
   The composition instantiated with h3's own layers as far as their owners' theorems exist.
   DISCHARGED here (no longer premises):
     * header mapping, both roles and trailers: Header::request/response/trailer + HeaderIter followed by TryFrom +
       into_request_parts / into_response_parts / into_fields over the C12 model gives the message back
       (Proofs/EndToEndHeaders.v), for every message satisfying [request_head_ok] / [response_head_ok] /
       [trailers_ok] - these predicates ARE the `http`-crate premises (every Method / Scheme / Authority /
       PathAndQuery / HeaderName / HeaderValue the application can hold prints to a string the crate's parser accepts;
       at most 24576 field lines) plus a field section below 2^26 bytes (RFC 9114 4.2.2 measure);
     * write side: stream::write over the C14 WriteBuf model under any acceptance script (Proofs/EndToEndWire.v);
     * the RFC reading of HEADERS DATA* HEADERS? reserved? laid out per RFC 9114 7.1 is exactly those frames
       (Proofs/EndToEndFrames.v, over the C02 reference reader Spec/Frames.v).
   STILL OPEN (explicit premises below), each owned by another property:
     (P-C11)      decode_stateless (encode_stateless fs) = fs on byte-valued field lists, the block fitting a frame;
     (P-C02/C03)  under any chunking / interleaving the completed receive calls hand up [rfc_stream_reading] of the flat
                  bytes (Spec/EndToEndStream.v: RFC 9114 4.1 over the frame reader of Spec/Frames.v).
   Hence the names end in _partial. *)
Theorem C01_request_fidelity_partial :
  forall (encode_section : fieldl -> option bytes) (decode_section : bytes -> option fieldl)
    (rstate : Type) (r_init : rstate) (r_arrive : bytes -> rstate -> rstate) (r_fin : rstate -> rstate)
    (r_poll : rstate -> list ritem * rstate) (r_done : rstate -> bool),
    (* P-C11 *)
    (forall fs b, fields_ok fs -> encode_section fs = Some b -> block_ok b /\ decode_section b = Some fs) ->
    (* P-C02/C03 *)
    (forall h items s, hist_ok h = true -> rx_run rstate r_arrive r_fin r_poll h r_init = (items, s) ->
                       r_done s = true -> wf_bytes (hist_flat h) -> no_fail (rfc_stream_reading (hist_flat h)) ->
                       merge_items [] items = rfc_stream_reading (hist_flat h)) ->
    forall (grease : option N) (m : message c12_request hmap) (ks : list N) (b : bytes) (h : list hevent) items s,
      request_head_ok (m_head m) -> Forall block_ok (m_pieces m) ->
      match m_trailers m with Some t => trailers_ok t | None => True end ->
      match grease with Some g => g < 148764065110560899 | None => True end ->
      wire c12_request hmap c12_fields_of_request c12_fields_of_trailers encode_section c14_wire_write grease m ks = Some b ->
      hist_ok h = true -> hist_flat h = b ->
      rx_run rstate r_arrive r_fin r_poll h r_init = (items, s) -> r_done s = true ->
      receiver_outcome request hmap c12_request_of_fields c12_trailers_of_fields decode_section
                       rstate r_init r_arrive r_fin r_poll h
      = expected_events c12_norm_request (fun t : hmap => t) m.
Proof. exact request_fidelity. Qed.

Theorem C01_response_fidelity_partial :
  forall (encode_section : fieldl -> option bytes) (decode_section : bytes -> option fieldl)
    (rstate : Type) (r_init : rstate) (r_arrive : bytes -> rstate -> rstate) (r_fin : rstate -> rstate)
    (r_poll : rstate -> list ritem * rstate) (r_done : rstate -> bool),
    (forall fs b, fields_ok fs -> encode_section fs = Some b -> block_ok b /\ decode_section b = Some fs) ->
    (forall h items s, hist_ok h = true -> rx_run rstate r_arrive r_fin r_poll h r_init = (items, s) ->
                       r_done s = true -> wf_bytes (hist_flat h) -> no_fail (rfc_stream_reading (hist_flat h)) ->
                       merge_items [] items = rfc_stream_reading (hist_flat h)) ->
    forall (grease : option N) (m : message c12_response hmap) (ks : list N) (b : bytes) (h : list hevent) items s,
      response_head_ok (m_head m) -> Forall block_ok (m_pieces m) ->
      match m_trailers m with Some t => trailers_ok t | None => True end ->
      match grease with Some g => g < 148764065110560899 | None => True end ->
      wire c12_response hmap c12_fields_of_response c12_fields_of_trailers encode_section c14_wire_write grease m ks = Some b ->
      hist_ok h = true -> hist_flat h = b ->
      rx_run rstate r_arrive r_fin r_poll h r_init = (items, s) -> r_done s = true ->
      receiver_outcome response hmap c12_response_of_fields c12_trailers_of_fields decode_section
                       rstate r_init r_arrive r_fin r_poll h
      = expected_events (fun p => {| rs_status := cp_status p; rs_headers := cp_fields p |}) (fun t : hmap => t) m.
Proof. exact response_fidelity. Qed.

(* Every premise met - h3's header mapping (C12 model) and writer (C14 model), with the reference field-section coding
   and the store-and-forward reader of Model/EndToEndRef.v standing in for the two layers still open.  CLOSED: it shows
   that the premises of the _partial theorems are jointly satisfiable and what the final theorem will look like. *)
Theorem C01_request_fidelity_store_and_forward :
  forall (grease : option N) (m : message c12_request hmap) (ks : list N) (b : bytes) (h : list hevent) items s,
    request_head_ok (m_head m) -> Forall block_ok (m_pieces m) ->
    match m_trailers m with Some t => trailers_ok t | None => True end ->
    match grease with Some g => g < 148764065110560899 | None => True end ->
    wire c12_request hmap c12_fields_of_request c12_fields_of_trailers ref_encode_section c14_wire_write grease m ks = Some b ->
    hist_ok h = true -> hist_flat h = b ->
    rx_run sfstate sf_arrive sf_finish sf_poll h sf_init = (items, s) -> sf_done s = true ->
    receiver_outcome request hmap c12_request_of_fields c12_trailers_of_fields ref_decode_section
                     sfstate sf_init sf_arrive sf_finish sf_poll h
    = expected_events c12_norm_request (fun t : hmap => t) m.
Proof. exact request_fidelity_store_and_forward. Qed.

Theorem C01_response_fidelity_store_and_forward :
  forall (grease : option N) (m : message c12_response hmap) (ks : list N) (b : bytes) (h : list hevent) items s,
    response_head_ok (m_head m) -> Forall block_ok (m_pieces m) ->
    match m_trailers m with Some t => trailers_ok t | None => True end ->
    match grease with Some g => g < 148764065110560899 | None => True end ->
    wire c12_response hmap c12_fields_of_response c12_fields_of_trailers ref_encode_section c14_wire_write grease m ks = Some b ->
    hist_ok h = true -> hist_flat h = b ->
    rx_run sfstate sf_arrive sf_finish sf_poll h sf_init = (items, s) -> sf_done s = true ->
    receiver_outcome response hmap c12_response_of_fields c12_trailers_of_fields ref_decode_section
                     sfstate sf_init sf_arrive sf_finish sf_poll h
    = expected_events (fun p => {| rs_status := cp_status p; rs_headers := cp_fields p |}) (fun t : hmap => t) m.
Proof. exact response_fidelity_store_and_forward. Qed.

(* The same with the INCREMENTAL reference reader (Model/EndToEndRef.v ref_poll: one frame header or one piece of DATA
   payload per call, over the receive buffer) - the receive side of the pipeline that the correspondence run executes
   against the real code.  CLOSED: for every message, piece split, acceptance script, chunking and interleaving. *)
Theorem C01_request_fidelity_reference_reader :
  forall (grease : option N) (m : message c12_request hmap) (ks : list N) (b : bytes) (h : list hevent) items s,
    request_head_ok (m_head m) -> Forall block_ok (m_pieces m) ->
    match m_trailers m with Some t => trailers_ok t | None => True end ->
    match grease with Some g => g < 148764065110560899 | None => True end ->
    wire c12_request hmap c12_fields_of_request c12_fields_of_trailers ref_encode_section c14_wire_write grease m ks = Some b ->
    hist_ok h = true -> hist_flat h = b ->
    rx_run rstate ref_arrive ref_fin ref_poll h ref_init = (items, s) -> ref_done s = true ->
    receiver_outcome request hmap c12_request_of_fields c12_trailers_of_fields ref_decode_section
                     rstate ref_init ref_arrive ref_fin ref_poll h
    = expected_events c12_norm_request (fun t : hmap => t) m.
Proof. exact request_fidelity_reference_reader. Qed.

Theorem C01_response_fidelity_reference_reader :
  forall (grease : option N) (m : message c12_response hmap) (ks : list N) (b : bytes) (h : list hevent) items s,
    response_head_ok (m_head m) -> Forall block_ok (m_pieces m) ->
    match m_trailers m with Some t => trailers_ok t | None => True end ->
    match grease with Some g => g < 148764065110560899 | None => True end ->
    wire c12_response hmap c12_fields_of_response c12_fields_of_trailers ref_encode_section c14_wire_write grease m ks = Some b ->
    hist_ok h = true -> hist_flat h = b ->
    rx_run rstate ref_arrive ref_fin ref_poll h ref_init = (items, s) -> ref_done s = true ->
    receiver_outcome response hmap c12_response_of_fields c12_trailers_of_fields ref_decode_section
                     rstate ref_init ref_arrive ref_fin ref_poll h
    = expected_events (fun p => {| rs_status := cp_status p; rs_headers := cp_fields p |}) (fun t : hmap => t) m.
Proof. exact response_fidelity_reference_reader. Qed.

(* the reader's law on its own: any chunking, any interleaving of arrivals and calls - the items handed up, body
   pieces merged, are the RFC reading of the flat bytes (for streams whose reading has no error item) ... *)
Theorem C01_reference_reader_any_interleaving :
  forall h items s,
    hist_ok h = true -> rx_run rstate ref_arrive ref_fin ref_poll h ref_init = (items, s) -> ref_done s = true ->
    no_fail (rfc_stream_reading (hist_flat h)) ->
    forall a, merge_items a items = merge_items a (rfc_stream_reading (hist_flat h)).
Proof. exact ref_reader_law. Qed.
(* ... and once everything has arrived finitely many further calls complete the message (no call pends forever) *)
Theorem C01_reference_reader_completes :
  forall h, hist_ok h = true -> no_fail (rfc_stream_reading (hist_flat h)) ->
    exists m items s, rx_run rstate ref_arrive ref_fin ref_poll (h ++ repeat HPoll m) ref_init = (items, s) /\ ref_done s = true.
Proof. exact ref_reader_completes. Qed.

(* non-vacuity of the `http`-crate premises and of the closed theorem: POST http://a.b/x?y with x-a: 1,2,3 and an
   empty-valued field satisfies [request_head_ok]; sent in four pieces (one empty) with trailers and a grease frame,
   written 1,1,2,0,3,1.. bytes at a time, delivered in chunks of 1,2,3,1,1 bytes and the rest, it arrives as itself *)
Example C01_request_premises_inhabited :
  request_head_ok
    {| cq_method := [80; 79; 83; 84];
       cq_uri := {| u_scheme := Some [104; 116; 116; 112]; u_authority := [97; 46; 98];
                    u_path := {| pq_data := [47; 120; 63; 121]; pq_query := Some 2 |} |};
       cq_fields := [([120; 45; 97], [[49]; [50]; [51]]); ([98], [[]])];
       cq_ext := None |}.
Proof.
  split.
  - unfold request_ok; cbn [cq_ext cq_method cq_fields cq_uri].
    split; [reflexivity|]. split; [vm_compute; reflexivity|]. split; [vm_compute; reflexivity|].
    split.
    { split.
      - split; [repeat constructor; cbn; intuition discriminate|repeat constructor; discriminate].
      - repeat constructor; vm_compute; try reflexivity; intros; try discriminate; auto. }
    split. { vm_compute. discriminate. }
    split.
    { intros _. repeat split; try (vm_compute; reflexivity).
      - eexists. vm_compute. reflexivity.
      - apply wf_bytesb_spec. vm_compute. reflexivity.
      - apply wf_bytesb_spec. vm_compute. reflexivity. }
    vm_compute. repeat split; reflexivity.
  - vm_compute. reflexivity.
Qed.

Example C01_h3_layers_inhabited :
  let q := {| cq_method := [80; 79; 83; 84];
              cq_uri := {| u_scheme := Some [104; 116; 116; 112]; u_authority := [97; 46; 98];
                           u_path := {| pq_data := [47; 120; 63; 121]; pq_query := Some 2 |} |};
              cq_fields := [([120; 45; 97], [[49]; [50]; [51]]); ([98], [[]])];
              cq_ext := None |} in
  let m := Msg q [[1; 2; 3]; []; [4; 5]; [6]] (Some [([116], [[49]; [50]])]) in
  exists b,
    wire c12_request hmap c12_fields_of_request c12_fields_of_trailers ref_encode_section c14_wire_write (Some 5) m
         ([1; 1; 2; 0; 3] ++ repeat 1 30 ++ repeat 100 30) = Some b /\
    hist_ok (mk_history [1; 2; 3; 1; 1] [0; 2; 1; 0] 2 b) = true /\
    receiver_outcome request hmap c12_request_of_fields c12_trailers_of_fields ref_decode_section
                     sfstate sf_init sf_arrive sf_finish sf_poll (mk_history [1; 2; 3; 1; 1] [0; 2; 1; 0] 2 b)
    = expected_events c12_norm_request (fun t : hmap => t) m /\
    receiver_outcome request hmap c12_request_of_fields c12_trailers_of_fields ref_decode_section
                     rstate ref_init ref_arrive ref_fin ref_poll (mk_history [1; 2; 3; 1; 1] [0; 2; 1; 0] 20 b)
    = expected_events c12_norm_request (fun t : hmap => t) m.
Proof. eexists. split; [vm_compute; reflexivity|]. split; [|split]; vm_compute; reflexivity. Qed.

(* the layers discharged so far, pinned on their own *)
Theorem C01_request_head_roundtrip :
  forall q fs, request_ok q -> c12_fields_of_request q = Some fs -> c12_request_of_fields fs = Some (c12_norm_request q).
Proof. exact request_roundtrip. Qed.
(* ... and what the delivered target is, through the `http` accessors: scheme (https when the caller gave none),
   authority (the target's, else the Host field), path-and-query as sent *)
Theorem C01_delivered_target :
  forall q q1, plain_connect q = false -> path_parse (sent_path (cq_uri q)) = Ok q1 ->
    let u := rq_uri (c12_norm_request q) in
    uri_scheme_str u = Some (sent_scheme (cq_uri q)) /\
    u_authority u = request_authority q /\
    pq_as_str (u_path u) = path_canon (sent_path (cq_uri q)).
Proof. exact norm_request_components. Qed.
Theorem C01_response_head_roundtrip :
  forall p fs, response_ok p -> c12_fields_of_response p = Some fs ->
    c12_response_of_fields fs = Some {| rs_status := cp_status p; rs_headers := cp_fields p |}.
Proof. exact response_roundtrip. Qed.
Theorem C01_trailers_roundtrip :
  forall t fs, map_ok t -> count_ok (length (hm_iter t)) -> c12_fields_of_trailers t = Some fs ->
    c12_trailers_of_fields fs = Some t.
Proof. exact trailers_roundtrip. Qed.
Theorem C01_layout_reads_back :
  forall hb pieces tb g,
    len hb < 2 ^ 62 -> Forall (fun p => len p < 2 ^ 62) pieces -> match tb with Some b => len b < 2 ^ 62 | None => True end ->
    match g with Some x => x < 148764065110560899 | None => True end ->
    rfc_stream_reading (concat (map rfc_frame_bytes (SHeaders hb :: map SData pieces ++
        match tb with Some b => [SHeaders b] | None => [] end ++
        match g with Some x => [SGrease x] | None => [] end)))
    = RFirst hb :: flush_items (concat pieces) ++ [RDataEnd; RTrailers tb].
Proof. exact request_stream_reading_of_layout. Qed.
Theorem C01_written_bytes_any_script :
  forall fs ks b, Forall sframe_ok fs -> c14_wire_write fs ks = Some b -> b = concat (map rfc_frame_bytes fs).
Proof. exact c14_write_exact. Qed.

(* non-vacuity: a request with a repeated field name (in two spellings), an empty value, a body handed over in
   four pieces (one empty), trailers and a grease frame runs through the executable pipeline - written 1,1,2,0,3..
   bytes at a time, delivered in chunks of 1,2,3,1.. bytes with 0,2,1,0.. application polls in between - and
   arrives as itself *)
Example C01_pipeline_inhabited :
  let q := {| q_method := [80; 79; 83; 84]; q_scheme := Some [104; 116; 116; 112]; q_authority := Some [97; 46; 98];
              q_path := Some [47; 120; 63; 121];
              q_fields := [([88; 45; 65], [49]); ([120; 45; 97], [50]); ([98], []); ([120; 45; 65], [51])] |} in
  let m := Msg q [[1; 2; 3]; []; [4; 5]; [6]] (Some [([116], [49]); ([116], [50])]) in
  ref_request_outcome (Some 5) m [1; 1; 2; 0; 3] [1; 2; 3; 1; 1; 1; 1; 1] [0; 2; 1; 0; 0; 1]
  = Some (expected_events norm_request norm_trailers m)
  /\ expected_events norm_request norm_trailers m
     = [AHead {| v_method := [80; 79; 83; 84]; v_scheme := Some [104; 116; 116; 112]; v_authority := Some [97; 46; 98];
                 v_path := Some [47; 120; 63; 121];
                 v_fields := [([120; 45; 97], [[49]; [50]; [51]]); ([98], [[]])] |};
        ABody [1; 2; 3; 4; 5; 6]; ABodyEnd; ATrailers [([116], [[49]; [50]])]; AEnd].
Proof. split; vm_compute; reflexivity. Qed.

Example C01_response_inhabited :
  let m := Msg {| rp_status := 404; rp_fields := [([97], [49]); ([97], [50])] |} [[7; 8]; [9]] None in
  ref_response_outcome None m [3] [2] [1]
  = Some (expected_events norm_response norm_trailers m).
Proof. vm_compute; reflexivity. Qed.

Print Assumptions C01_composition.
Print Assumptions C01_request_fidelity_partial.
Print Assumptions C01_response_fidelity_partial.
Print Assumptions C01_request_fidelity_store_and_forward.
Print Assumptions C01_response_fidelity_store_and_forward.
Print Assumptions C01_request_fidelity_reference_reader.
Print Assumptions C01_response_fidelity_reference_reader.
Print Assumptions C01_reference_reader_any_interleaving.
Print Assumptions C01_reference_reader_completes.
Print Assumptions C01_request_head_roundtrip.
Print Assumptions C01_delivered_target.
Print Assumptions C01_response_head_roundtrip.
Print Assumptions C01_trailers_roundtrip.
Print Assumptions C01_written_bytes_any_script.
Print Assumptions C01_layout_reads_back.
