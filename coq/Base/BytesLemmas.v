From H3V Require Import Base.Bytes.
From Coq Require Import ZifyBool ZifyNat ZifyN.
Ltac Zify.zify_post_hook ::= Z.div_mod_to_equations.

Lemma wf_bytesb_spec bs : wf_bytesb bs = true <-> wf_bytes bs.
Proof.
  unfold wf_bytesb, wf_bytes. rewrite forallb_forall, Forall_forall.
  unfold wf_byteb, wf_byte. split; intros H x Hx; specialize (H x Hx); lia.
Qed.

Lemma wf_bytes_app a b : wf_bytes (a ++ b) <-> wf_bytes a /\ wf_bytes b.
Proof. unfold wf_bytes. apply Forall_app. Qed.

Lemma wf_bytes_cons x a : wf_bytes (x :: a) <-> x < 256 /\ wf_bytes a.
Proof. unfold wf_bytes, wf_byte. split; intro H; [inversion H; auto | constructor; tauto]. Qed.

Lemma In_firstn_incl {A} n (l : list A) x : In x (firstn n l) -> In x l.
Proof.
  intros H. rewrite <- (firstn_skipn n l). apply in_or_app. auto.
Qed.

Lemma wf_bytes_firstn n a : wf_bytes a -> wf_bytes (firstn n a).
Proof.
  unfold wf_bytes. rewrite !Forall_forall. intros H x Hx. apply H.
  eapply In_firstn_incl; eauto.
Qed.

Lemma wf_bytes_skipn n a : wf_bytes a -> wf_bytes (skipn n a).
Proof.
  intros H. rewrite <- (firstn_skipn n a) in H. apply wf_bytes_app in H. tauto.
Qed.

Lemma be_acc_app acc a b : be_acc acc (a ++ b) = be_acc (be_acc acc a) b.
Proof. revert acc; induction a as [|x a IH]; intros acc; cbn [be_acc app]; auto. Qed.

Lemma be_acc_lin acc a : be_acc acc a = acc * 256 ^ (len a) + be_acc 0 a.
Proof.
  revert acc; induction a as [|x a IH]; intros acc.
  - cbn. unfold len; cbn. rewrite N.pow_0_r. lia.
  - cbn [be_acc]. rewrite IH. rewrite (IH (0 * 256 + x)).
    unfold len. cbn [length]. rewrite Nat2N.inj_succ, N.pow_succ_r'. lia.
Qed.

Lemma be_acc_bound a : wf_bytes a -> be_acc 0 a < 256 ^ (len a).
Proof.
  induction a as [|x a IH]; intros H.
  - cbn. unfold len; cbn. rewrite N.pow_0_r. lia.
  - apply wf_bytes_cons in H as [Hx Ha]. cbn [be_acc]. rewrite be_acc_lin.
    specialize (IH Ha). unfold len in *. cbn [length]. rewrite Nat2N.inj_succ, N.pow_succ_r'.
    replace (0 * 256 + x) with x by lia.
    nia.
Qed.

Lemma be_value_bound a : wf_bytes a -> be_value a < 256 ^ (len a).
Proof. apply be_acc_bound. Qed.

Lemma be_bytes_length n x : length (be_bytes n x) = n.
Proof. revert x; induction n as [|n IH]; intros x; cbn [be_bytes]; auto. rewrite app_length, IH. cbn. lia. Qed.

Lemma be_bytes_wf n x : wf_bytes (be_bytes n x).
Proof.
  revert x; induction n as [|n IH]; intros x; cbn [be_bytes].
  - constructor.
  - apply wf_bytes_app; split; auto. constructor; [|constructor]. unfold wf_byte.
    apply N.mod_lt. lia.
Qed.

Lemma be_value_be_bytes n x : x < 256 ^ (N.of_nat n) -> be_value (be_bytes n x) = x.
Proof.
  unfold be_value. revert x; induction n as [|n IH]; intros x Hx.
  - cbn in *. rewrite N.pow_0_r in Hx. lia.
  - cbn [be_bytes]. rewrite be_acc_app. cbn [be_acc]. rewrite IH.
    + pose proof (N.div_mod x 256). lia.
    + rewrite Nat2N.inj_succ, N.pow_succ_r' in Hx.
      apply N.div_lt_upper_bound; lia.
Qed.

Lemma be_bytes_be_value a : wf_bytes a -> be_bytes (length a) (be_value a) = a.
Proof.
  unfold be_value.
  induction a as [|x a IH] using rev_ind; intros H; [reflexivity|].
  apply wf_bytes_app in H as [Ha Hx]. apply wf_bytes_cons in Hx as [Hx _].
  rewrite app_length. cbn [length]. rewrite Nat.add_1_r. cbn [be_bytes].
  rewrite be_acc_app. cbn [be_acc].
  replace ((be_acc 0 a * 256 + x) / 256) with (be_acc 0 a).
  2:{ apply N.div_unique with x; lia. }
  replace ((be_acc 0 a * 256 + x) mod 256) with x.
  2:{ apply N.mod_unique with (be_acc 0 a); lia. }
  rewrite IH; auto.
Qed.

Lemma len_app (a b : bytes) : len (a ++ b) = len a + len b.
Proof. unfold len. rewrite app_length. lia. Qed.

Lemma firstn_app_exact {A} (a b : list A) : firstn (length a) (a ++ b) = a.
Proof. rewrite firstn_app, Nat.sub_diag, firstn_all. cbn. apply app_nil_r. Qed.

Lemma skipn_app_exact {A} (a b : list A) : skipn (length a) (a ++ b) = b.
Proof. rewrite skipn_app, Nat.sub_diag, skipn_all. reflexivity. Qed.

Lemma skipn_skipn' {A} (a b : nat) (l : list A) : skipn a (skipn b l) = skipn (b + a) l.
Proof.
  revert l; induction b as [|b IH]; intros l; cbn [skipn Nat.add]; auto.
  destruct l as [|x l]; [destruct a; reflexivity|]. apply IH.
Qed.
