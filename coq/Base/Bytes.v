(* Base vocabulary shared by every model: bytes are [N] below 256, byte strings are lists. *)
From Coq Require Export List NArith ZArith Lia Bool.
Export ListNotations.
Open Scope N_scope.

Global Arguments N.add : simpl never.
Global Arguments N.sub : simpl never.
Global Arguments N.mul : simpl never.
Global Arguments N.div : simpl never.
Global Arguments N.modulo : simpl never.
Global Arguments N.ltb : simpl never.
Global Arguments N.leb : simpl never.
Global Arguments N.eqb : simpl never.
Global Arguments N.pow : simpl never.
Global Arguments N.min : simpl never.
Global Arguments N.max : simpl never.
Global Arguments N.shiftl : simpl never.
Global Arguments N.shiftr : simpl never.
Global Arguments N.land : simpl never.
Global Arguments N.lor : simpl never.

Definition byte := N.
Definition bytes := list N.

Definition wf_byte (b : N) : Prop := b < 256.
Definition wf_bytes (bs : bytes) : Prop := Forall wf_byte bs.

Definition wf_byteb (b : N) : bool := b <? 256.
Definition wf_bytesb (bs : bytes) : bool := forallb wf_byteb bs.

(* length as N (usize) *)
Definition len (bs : bytes) : N := N.of_nat (length bs).

(* big-endian value of a byte string, in unbounded N *)
Fixpoint be_acc (acc : N) (bs : bytes) : N :=
  match bs with
  | [] => acc
  | b :: r => be_acc (acc * 256 + b) r
  end.
Definition be_value (bs : bytes) : N := be_acc 0 bs.

(* big-endian encoding of [x] on exactly [n] bytes (value taken mod 256^n) *)
Fixpoint be_bytes (n : nat) (x : N) : bytes :=
  match n with
  | O => []
  | S k => be_bytes k (x / 256) ++ [x mod 256]
  end.

(* results: a panic of the Rust code is an ordinary value *)
Inductive res (E A : Type) : Type :=
| Ok (a : A)
| Err (e : E)
| Panic (site : N).
Arguments Ok {E A} a.
Arguments Err {E A} e.
Arguments Panic {E A} site.

Inductive poll (A : Type) : Type :=
| Ready (a : A)
| Pending.
Arguments Ready {A} a.
Arguments Pending {A}.

Definition res_bind {E A B} (r : res E A) (f : A -> res E B) : res E B :=
  match r with
  | Ok a => f a
  | Err e => Err e
  | Panic s => Panic s
  end.

Definition is_panic {E A} (r : res E A) : bool :=
  match r with Panic _ => true | _ => false end.

Fixpoint assoc {V} (k : N) (l : list (N * V)) : option V :=
  match l with
  | [] => None
  | (k', v) :: r => if k =? k' then Some v else assoc k r
  end.
