//! C17 correspondence harness: the h3-quinn adapter of /repo over REAL Quinn on loopback UDP.
//!
//! One case per stdin line, one result line per case (same order).  Every case builds a fresh pair of
//! endpoints and one connection whose flow-control windows come from the case line; side A talks to Quinn
//! only through the h3-quinn adapter (`h3::quic` traits), side P is a raw `quinn::Connection`.
//! A panic inside a case is printed as `panic <message>`, a case that does not finish in time as
//! `err timeout-harness`.
//!
//! Families (key=value words, any order):
//!  qw role=c|s kind=bi|uni|bip skip=N win=N cwin=N swin=N bufs=a.b,c,.. seed=N ids=MASK dbl=J|- dblp=J|- rd=N ps=N|-
//!     psp=J|- via=conn|opener|clone drop=0|1 cf=J|- fault=none|stop:C@N|close:C@N|timeout@N|afin|areset:C@J|lclose:C@J|cfin@J
//!     also fault=nofin (no finish: the stream is just dropped), pr0=1 (poll_ready on the idle stream before the first
//!     send_data and after the last buffer), tail=op.op (after the stream was finished / reset: rC reset(C), f poll_finish,
//!     p poll_ready), pse=1 (poll_send with an empty buffer after the raw bytes), sa=K (after a failed write: K more rounds of
//!     send_data + poll_ready, then - peer stop - poll_finish; alive = A's connection is still open)
//!     (psp = poll_send attempted while buffer J is half written; cfin = the write of buffer J is abandoned at its
//!      first Pending and the stream finished; via = which `impl OpenStreams` opens the stream / closes)
//!     (a buffer is a DATA frame with payload chunks a.b.., or hN = HEADERS frame, tT:a.b = stream type T then a
//!      DATA frame, yT = stream type T alone; ps = raw bytes sent afterwards with SendStreamUnframed::poll_send)
//!  qr role=c|s kind=bi|uni|bip skip=N win=N cwin=N chunks=a,b,.. seed=N ids=MASK stop=none|C@idle|C@pend|C@pend2
//!     fault=fin|reset:C@N|close:C@N|timeout@N|lclose:C re=K restop=C|-
//!     also fault=open (the peer leaves the stream open: the case ends with a read in flight); a stop code that is
//!     no varint makes stop_sending panic: reported as sp=PANIC, the case goes on without that stop
//!     (re = after a failed read poll_data K more times, ask recv_id, optionally stop_sending(restop) and poll once more)
//!  qa role=c|s op=accept_recv|accept_bidi|open_bidi|open_send via=conn|opener|clone fault=close:C|lclose:C|timeout|sreset|pclosed|terr
//!     (pclosed / terr, role=s only: A holds the 0.5-RTT connection handle of a handshake that then fails - the client
//!      rejects the server's certificate: ConnectionError::ConnectionClosed; the client has no certificate for a server
//!      that demands one: ConnectionError::TransportError)
//!     (sreset, role=c only: the peer forgets the connection without A hearing of it - its CONNECTION_CLOSE is dropped -
//!      and answers A's next packet with a stateless reset: quinn::ConnectionError::Reset)
//!  qd role=c|s dir=send|recv sid=S len=N seed=N fault=none|close:C|lclose:C|timeout|toolarge|disabled|ldisabled|sreset
//!     (disabled: the peer does not accept datagrams; ldisabled: side A does not)
use std::collections::HashMap;
use std::future::{poll_fn, Future};
use std::io::{BufRead, Write};
use std::net::SocketAddr;
use std::pin::Pin;
use std::sync::Arc;
use std::task::Poll;
use std::time::Duration;

use bytes::{Buf, Bytes};
use h3::error::Code;
use h3::proto::frame::Frame;
use h3::proto::stream::StreamType;
use h3::quic::{
    self, BidiStream as _, ConnectionErrorIncoming, OpenStreams as _, RecvStream as _, SendStream as _,
    StreamErrorIncoming,
};
use quinn::crypto::rustls::{QuicClientConfig, QuicServerConfig};
use quinn::{TransportConfig, VarInt};
use rustls::pki_types::{CertificateDer, PrivateKeyDer};
use tokio::sync::oneshot;

// ------------------------------------------------------------------ helpers

/// A `Buf` made of several chunks (the payload type B handed to the adapter inside a DATA frame).
#[derive(Debug, Clone)]
struct ChunkBuf {
    chunks: std::collections::VecDeque<Bytes>,
}
impl ChunkBuf {
    fn new(chunks: Vec<Bytes>) -> Self {
        Self { chunks: chunks.into_iter().filter(|c| !c.is_empty()).collect() }
    }
}
impl Buf for ChunkBuf {
    fn remaining(&self) -> usize {
        self.chunks.iter().map(|c| c.len()).sum()
    }
    fn chunk(&self) -> &[u8] {
        self.chunks.front().map(|c| &c[..]).unwrap_or(&[])
    }
    fn advance(&mut self, mut cnt: usize) {
        while cnt > 0 {
            let front = self.chunks.front_mut().expect("advance past the end of ChunkBuf");
            if cnt < front.len() {
                Buf::advance(front, cnt);
                return;
            }
            cnt -= front.len();
            self.chunks.pop_front();
        }
    }
}

fn gen_byte(seed: u64, j: u64, i: u64) -> u8 {
    ((seed.wrapping_mul(7)).wrapping_add(j.wrapping_mul(31)).wrapping_add(i).wrapping_add((i >> 8).wrapping_mul(3)) & 0xff) as u8
}

fn gen_bytes(seed: u64, j: u64, from: u64, n: usize) -> Vec<u8> {
    (0..n as u64).map(|k| gen_byte(seed, j, from + k)).collect()
}

/// QUIC varint, written here independently of h3
fn varint(v: u64) -> Vec<u8> {
    if v < 1 << 6 {
        vec![v as u8]
    } else if v < 1 << 14 {
        ((v as u16) | 0x4000).to_be_bytes().to_vec()
    } else if v < 1 << 30 {
        ((v as u32) | 0x8000_0000).to_be_bytes().to_vec()
    } else {
        (v | 0xc000_0000_0000_0000).to_be_bytes().to_vec()
    }
}

#[derive(Clone)]
struct Digest {
    len: u64,
    h: u32,
}
impl Digest {
    fn new() -> Self {
        Self { len: 0, h: 0x811c9dc5 }
    }
    fn push(&mut self, bs: &[u8]) {
        for b in bs {
            self.h ^= *b as u32;
            self.h = self.h.wrapping_mul(16777619);
        }
        self.len += bs.len() as u64;
    }
    fn show(&self) -> String {
        format!("{}:{:08x}", self.len, self.h)
    }
}

/// Incremental comparison of a received byte stream against the expected one.
struct PrefixCheck {
    expected: Vec<u8>,
    pos: usize,
    ok: bool,
    dg: Digest,
}
impl PrefixCheck {
    fn new(expected: Vec<u8>) -> Self {
        Self { expected, pos: 0, ok: true, dg: Digest::new() }
    }
    fn push(&mut self, bs: &[u8]) {
        self.dg.push(bs);
        if self.pos + bs.len() > self.expected.len() || self.expected[self.pos..self.pos + bs.len()] != *bs {
            self.ok = false;
        }
        self.pos += bs.len();
    }
    fn show(&self) -> String {
        format!("recv={} pfx={}", self.dg.show(), if self.ok { "ok" } else { "BAD" })
    }
}

/// One buffer handed to send_data: a DATA frame (payload chunks), a HEADERS frame, a stream type followed
/// by a DATA frame, or a stream type alone.
enum BufSpec {
    Data(Vec<usize>),
    Headers(usize),
    Typed(u64, Vec<usize>),
    Type(u64),
}
impl BufSpec {
    fn parse(x: &str) -> Self {
        let chunks = |s: &str| -> Vec<usize> { s.split('.').map(|l| l.parse().unwrap()).filter(|l| *l > 0).collect() };
        if let Some(r) = x.strip_prefix('h') {
            BufSpec::Headers(r.parse().unwrap())
        } else if let Some(r) = x.strip_prefix('y') {
            BufSpec::Type(r.parse().unwrap())
        } else if let Some(r) = x.strip_prefix('t') {
            let (t, c) = r.split_once(':').expect("t<type>:<chunks>");
            BufSpec::Typed(t.parse().unwrap(), chunks(c))
        } else {
            BufSpec::Data(chunks(x))
        }
    }
    /// the bytes this buffer must put on the wire
    fn wire(&self, seed: u64, j: u64) -> Vec<u8> {
        let mut out = Vec::new();
        let frame = |out: &mut Vec<u8>, ty: u8, total: usize| {
            out.push(ty);
            out.extend(varint(total as u64));
            out.extend(gen_bytes(seed, j, 0, total));
        };
        match self {
            BufSpec::Data(c) => frame(&mut out, 0, c.iter().sum()),
            BufSpec::Headers(l) => frame(&mut out, 1, *l),
            BufSpec::Typed(t, c) => {
                out.extend(varint(*t));
                frame(&mut out, 0, c.iter().sum());
            }
            BufSpec::Type(t) => out.extend(varint(*t)),
        }
        out
    }
}

/// the caller's buffer for poll_send: the raw bytes in one chunk, or in three when the seed is odd
fn raw_buf(seed: u64, n: usize) -> ChunkBuf {
    let all = Bytes::from(gen_bytes(seed, 1000, 0, n));
    if seed % 2 == 1 && n >= 3 {
        let k = n / 3;
        ChunkBuf::new(vec![all.slice(0..k), all.slice(k..2 * k), all.slice(2 * k..)])
    } else {
        ChunkBuf::new(vec![all])
    }
}

fn spec_payload(seed: u64, j: u64, chunks: &[usize]) -> ChunkBuf {
    let mut off = 0u64;
    ChunkBuf::new(
        chunks
            .iter()
            .map(|l| {
                let b = Bytes::from(gen_bytes(seed, j, off, *l));
                off += *l as u64;
                b
            })
            .collect(),
    )
}

fn conn_class(e: &ConnectionErrorIncoming) -> String {
    match e {
        ConnectionErrorIncoming::ApplicationClose { error_code } => format!("conn-appclose:{}", error_code),
        ConnectionErrorIncoming::Timeout => "conn-timeout".into(),
        ConnectionErrorIncoming::InternalError(_) => "conn-internal".into(),
        ConnectionErrorIncoming::Undefined(x) => {
            if std::env::var("C17_DEBUG").is_ok() {
                eprintln!("undefined: {:?}", x);
            }
            "conn-undefined".into()
        }
    }
}
fn stream_class(e: &StreamErrorIncoming) -> String {
    match e {
        StreamErrorIncoming::ConnectionErrorIncoming { connection_error } => conn_class(connection_error),
        StreamErrorIncoming::StreamTerminated { error_code } => format!("terminated:{}", error_code),
        StreamErrorIncoming::Unknown(_) => "unknown".into(),
    }
}
fn res_unit(r: &Result<(), StreamErrorIncoming>) -> String {
    match r {
        Ok(()) => "ok".into(),
        Err(e) => format!("err:{}", stream_class(e)),
    }
}

fn sid_u64(id: quic::StreamId) -> u64 {
    id.into_inner()
}

struct Case {
    kv: HashMap<String, String>,
}
impl Case {
    fn parse(ws: &[&str]) -> Self {
        let mut kv = HashMap::new();
        for w in &ws[1..] {
            if let Some((k, v)) = w.split_once('=') {
                kv.insert(k.to_string(), v.to_string());
            }
        }
        Self { kv }
    }
    fn s(&self, k: &str, d: &str) -> String {
        self.kv.get(k).cloned().unwrap_or_else(|| d.to_string())
    }
    fn n(&self, k: &str, d: u64) -> u64 {
        self.kv.get(k).map(|v| v.parse().expect("number")).unwrap_or(d)
    }
    fn opt_n(&self, k: &str) -> Option<u64> {
        match self.kv.get(k).map(|s| s.as_str()) {
            None | Some("-") => None,
            Some(v) => Some(v.parse().expect("number")),
        }
    }
}

// ------------------------------------------------------------------ connection set-up

/// One server endpoint and one client endpoint per process (creating UDP sockets is slow here); every case
/// gets its own connection with its own transport parameters.  Handshakes are serialised so that the
/// connection the server endpoint accepts is the one the case has just initiated.
struct Net {
    server: quinn::Endpoint,
    client: quinn::Endpoint,
    addr: SocketAddr,
    server_crypto: Arc<QuicServerConfig>,
    client_crypto: Arc<QuicClientConfig>,
    lock: tokio::sync::Mutex<()>,
}
type Certs = Net;

fn build_net() -> Net {
    let cert = rcgen::generate_simple_self_signed(vec!["localhost".into()]).unwrap();
    let der: CertificateDer<'static> = cert.cert.into();
    let key = PrivateKeyDer::Pkcs8(cert.signing_key.serialize_der().into());
    let provider = Arc::new(rustls::crypto::ring::default_provider());
    let mut crypto = rustls::ServerConfig::builder_with_provider(provider.clone())
        .with_protocol_versions(&[&rustls::version::TLS13])
        .unwrap()
        .with_no_client_auth()
        .with_single_cert(vec![der.clone()], key)
        .unwrap();
    crypto.alpn_protocols = vec![b"h3".to_vec()];
    let server_crypto = Arc::new(QuicServerConfig::try_from(crypto).unwrap());
    let mut roots = rustls::RootCertStore::empty();
    roots.add(der).unwrap();
    let mut ccrypto = rustls::ClientConfig::builder_with_provider(provider)
        .with_protocol_versions(&[&rustls::version::TLS13])
        .unwrap()
        .with_root_certificates(roots)
        .with_no_client_auth();
    ccrypto.alpn_protocols = vec![b"h3".to_vec()];
    let client_crypto = Arc::new(QuicClientConfig::try_from(ccrypto).unwrap());
    let lo: SocketAddr = "127.0.0.1:0".parse().unwrap();
    let server = quinn::Endpoint::server(quinn::ServerConfig::with_crypto(server_crypto.clone()), lo).unwrap();
    let addr = server.local_addr().unwrap();
    let client = quinn::Endpoint::client(lo).unwrap();
    Net { server, client, addr, server_crypto, client_crypto, lock: tokio::sync::Mutex::new(()) }
}

fn transport(win: u64, cwin: u64, swin: u64, idle_ms: u64) -> Arc<TransportConfig> {
    transport_dg(win, cwin, swin, idle_ms, true)
}

fn transport_dg(win: u64, cwin: u64, swin: u64, idle_ms: u64, datagrams: bool) -> Arc<TransportConfig> {
    let mut t = TransportConfig::default();
    if !datagrams {
        t.datagram_receive_buffer_size(None);
    }
    t.stream_receive_window(VarInt::from_u64(win).unwrap());
    t.receive_window(VarInt::from_u64(cwin).unwrap());
    t.send_window(swin);
    t.initial_rtt(Duration::from_millis(5));
    if idle_ms > 0 {
        t.max_idle_timeout(Some(Duration::from_millis(idle_ms).try_into().unwrap()));
    }
    Arc::new(t)
}

struct Pair {
    a: quinn::Connection,
    p: quinn::Connection,
}

/// A UDP socket whose outgoing datagrams can be switched off (they are dropped silently): lets a peer forget a
/// connection without the other side hearing of it.
#[derive(Debug)]
struct MuteSocket {
    inner: Arc<dyn quinn::AsyncUdpSocket>,
    mute: Arc<std::sync::atomic::AtomicBool>,
}
impl quinn::AsyncUdpSocket for MuteSocket {
    fn create_io_poller(self: Arc<Self>) -> Pin<Box<dyn quinn::UdpPoller>> {
        self.inner.clone().create_io_poller()
    }
    fn try_send(&self, transmit: &quinn::udp::Transmit) -> std::io::Result<()> {
        if self.mute.load(std::sync::atomic::Ordering::SeqCst) {
            Ok(())
        } else {
            self.inner.try_send(transmit)
        }
    }
    fn poll_recv(
        &self,
        cx: &mut std::task::Context,
        bufs: &mut [std::io::IoSliceMut<'_>],
        meta: &mut [quinn::udp::RecvMeta],
    ) -> Poll<std::io::Result<usize>> {
        self.inner.poll_recv(cx, bufs, meta)
    }
    fn local_addr(&self) -> std::io::Result<SocketAddr> {
        self.inner.local_addr()
    }
    fn max_transmit_segments(&self) -> usize {
        self.inner.max_transmit_segments()
    }
    fn max_receive_segments(&self) -> usize {
        self.inner.max_receive_segments()
    }
    fn may_fragment(&self) -> bool {
        self.inner.may_fragment()
    }
}

/// Side A is the accepting side and uses the connection handle of `Connecting::into_0rtt()` (0.5-RTT: the server may
/// open streams and send before the handshake is complete).  The handshake then fails:
///  `pclosed`: the client does not trust the server's certificate and says so - CONNECTION_CLOSE with a crypto error
///             from the peer: quinn::ConnectionError::ConnectionClosed;
///  `terr`:    the server demands a client certificate, the client has none - detected locally:
///             quinn::ConnectionError::TransportError.
/// Returns A's connection once it is lost with the expected error (endpoints are returned to keep them alive).
async fn connect_failing_handshake(tc: Arc<TransportConfig>, how: &str) -> Result<(quinn::Connection, quinn::Endpoint, quinn::Endpoint), String> {
    let self_signed = || {
        let cert = rcgen::generate_simple_self_signed(vec!["localhost".into()]).unwrap();
        let der: CertificateDer<'static> = cert.cert.into();
        let key = PrivateKeyDer::Pkcs8(cert.signing_key.serialize_der().into());
        (der, key)
    };
    let (der, key) = self_signed();
    let provider = Arc::new(rustls::crypto::ring::default_provider());
    let mut roots = rustls::RootCertStore::empty();
    roots.add(der.clone()).unwrap();
    let sb = rustls::ServerConfig::builder_with_provider(provider.clone())
        .with_protocol_versions(&[&rustls::version::TLS13])
        .unwrap();
    let mut scrypto = if how == "terr" {
        let verifier = rustls::server::WebPkiClientVerifier::builder_with_provider(Arc::new(roots.clone()), provider.clone())
            .build()
            .unwrap();
        sb.with_client_cert_verifier(verifier).with_single_cert(vec![der.clone()], key).unwrap()
    } else {
        sb.with_no_client_auth().with_single_cert(vec![der.clone()], key).unwrap()
    };
    scrypto.alpn_protocols = vec![b"h3".to_vec()];
    let mut croots = rustls::RootCertStore::empty();
    if how == "pclosed" {
        // the client trusts some other certificate
        croots.add(self_signed().0).unwrap();
    } else {
        croots.add(der).unwrap();
    }
    let mut ccrypto = rustls::ClientConfig::builder_with_provider(provider)
        .with_protocol_versions(&[&rustls::version::TLS13])
        .unwrap()
        .with_root_certificates(croots)
        .with_no_client_auth();
    ccrypto.alpn_protocols = vec![b"h3".to_vec()];
    let mut server_config = quinn::ServerConfig::with_crypto(Arc::new(QuicServerConfig::try_from(scrypto).unwrap()));
    server_config.transport = tc.clone();
    let mut client_config = quinn::ClientConfig::new(Arc::new(QuicClientConfig::try_from(ccrypto).unwrap()));
    client_config.transport_config(tc);
    let lo: SocketAddr = "127.0.0.1:0".parse().unwrap();
    let server = quinn::Endpoint::server(server_config, lo).unwrap();
    let addr = server.local_addr().unwrap();
    let client = quinn::Endpoint::client(lo).unwrap();
    let connecting = client.connect_with(client_config, addr, "localhost").unwrap();
    let client_side = tokio::spawn(async move { connecting.await.map(|_| ()) });
    let incoming = server.accept().await.ok_or("endpoint closed")?;
    let a = match incoming.accept().map_err(|e| format!("{:?}", e))?.into_0rtt() {
        Ok((conn, _)) => conn,
        Err(_) => return Err("no-0.5rtt".into()),
    };
    let lost = tokio::time::timeout(Duration::from_secs(20), a.closed()).await;
    let _ = client_side.await;
    match (how, lost) {
        ("pclosed", Ok(quinn::ConnectionError::ConnectionClosed(_))) | ("terr", Ok(quinn::ConnectionError::TransportError(_))) => Ok((a, server, client)),
        (_, other) => Err(format!("{:?}", other).replace(' ', "_")),
    }
}

/// The peer (accepting endpoint on a MuteSocket) closes while its packets are dropped and forgets the connection;
/// A's next packets are answered with a stateless reset.  Ok when A's connection ended with ConnectionError::Reset.
async fn lose_by_stateless_reset(pair: &Pair, server: &quinn::Endpoint, mute: &Arc<std::sync::atomic::AtomicBool>) -> Result<(), String> {
    mute.store(true, std::sync::atomic::Ordering::SeqCst);
    pair.p.close(VarInt::from_u32(0), b"gone");
    for _ in 0..500 {
        if server.open_connections() == 0 {
            break;
        }
        tokio::time::sleep(Duration::from_millis(10)).await;
    }
    mute.store(false, std::sync::atomic::Ordering::SeqCst);
    // a fresh packet every 50 ms (stateless resets are rate-limited)
    let lost = tokio::time::timeout(Duration::from_secs(20), async {
        loop {
            let _ = pair.a.send_datagram(Bytes::from(vec![0u8; 200]));
            if let Ok(e) = tokio::time::timeout(Duration::from_millis(50), pair.a.closed()).await {
                break e;
            }
        }
    })
    .await;
    match lost {
        Ok(quinn::ConnectionError::Reset) => Ok(()),
        other => Err(format!("{:?}", other).replace(' ', "_")),
    }
}

/// A connection of its own pair of endpoints, the accepting endpoint sitting on a MuteSocket.  A is the connecting side.
async fn connect_mutable(net: &Net, tc: Arc<TransportConfig>) -> (Pair, quinn::Endpoint, quinn::Endpoint, Arc<std::sync::atomic::AtomicBool>) {
    use quinn::Runtime;
    let lo: SocketAddr = "127.0.0.1:0".parse().unwrap();
    let rt = Arc::new(quinn::TokioRuntime);
    let inner = rt.wrap_udp_socket(std::net::UdpSocket::bind(lo).unwrap()).unwrap();
    let mute = Arc::new(std::sync::atomic::AtomicBool::new(false));
    let mut server_config = quinn::ServerConfig::with_crypto(net.server_crypto.clone());
    server_config.transport = tc.clone();
    let server = quinn::Endpoint::new_with_abstract_socket(
        quinn::EndpointConfig::default(),
        Some(server_config),
        Arc::new(MuteSocket { inner, mute: mute.clone() }),
        rt,
    )
    .unwrap();
    let addr = server.local_addr().unwrap();
    let client = quinn::Endpoint::client(lo).unwrap();
    let mut client_config = quinn::ClientConfig::new(net.client_crypto.clone());
    client_config.transport_config(tc);
    let connecting = client.connect_with(client_config, addr, "localhost").unwrap();
    let (c, s) = tokio::join!(async { connecting.await }, async { server.accept().await.expect("endpoint open").await });
    (Pair { a: c.expect("connect"), p: s.expect("accept") }, server, client, mute)
}

/// role = "c": the adapter side is the connecting side
async fn connect(net: &Net, tc: Arc<TransportConfig>, role: &str) -> Pair {
    connect2(net, tc.clone(), tc, role).await
}

/// the same with one transport configuration for side A and another for the peer
async fn connect2(net: &Net, tc_a: Arc<TransportConfig>, tc_p: Arc<TransportConfig>, role: &str) -> Pair {
    let (tc_client, tc_server) = if role == "c" { (tc_a, tc_p) } else { (tc_p, tc_a) };
    let mut server_config = quinn::ServerConfig::with_crypto(net.server_crypto.clone());
    server_config.transport = tc_server;
    let mut client_config = quinn::ClientConfig::new(net.client_crypto.clone());
    client_config.transport_config(tc_client);
    let guard = net.lock.lock().await;
    // a short idle timeout (timeout cases) can expire during the handshake on a loaded machine: try again
    let mut attempt = 0;
    let (c, s) = loop {
        attempt += 1;
        let connecting = net.client.connect_with(client_config.clone(), net.addr, "localhost").unwrap();
        let sc = Arc::new(server_config.clone());
        let both = tokio::time::timeout(Duration::from_secs(10), async {
            tokio::join!(async { connecting.await }, async {
                match net.server.accept().await.expect("endpoint open").accept_with(sc) {
                    Ok(x) => x.await,
                    Err(e) => Err(e),
                }
            })
        })
        .await;
        let (c, s) = match both {
            Ok(x) => x,
            Err(_) => (Err(quinn::ConnectionError::TimedOut), Err(quinn::ConnectionError::TimedOut)),
        };
        match (c, s) {
            (Ok(c), Ok(s)) => break (c, s),
            (c, s) => {
                if let Ok(c) = &c {
                    c.close(VarInt::from_u32(0), b"retry");
                }
                if let Ok(s) = &s {
                    s.close(VarInt::from_u32(0), b"retry");
                }
                if attempt >= 5 {
                    panic!("handshake failed: {:?} {:?}", c.err(), s.err());
                }
            }
        }
    };
    drop(guard);
    if role == "c" {
        Pair { a: c, p: s }
    } else {
        Pair { a: s, p: c }
    }
}

enum AStream {
    Bidi(h3_quinn::BidiStream<ChunkBuf>),
    Send(h3_quinn::SendStream<ChunkBuf>),
    Recv(h3_quinn::RecvStream),
}

/// How side A reaches `quic::OpenStreams`: the Connection itself, the handle returned by `opener()`
/// (what h3's client and server use), or a clone of that handle.
fn opener_handle(conn: &h3_quinn::Connection, via: &str) -> Option<h3_quinn::OpenStreams> {
    match via {
        "opener" => Some(quic::Connection::<ChunkBuf>::opener(conn)),
        "clone" => {
            let o = quic::Connection::<ChunkBuf>::opener(conn);
            let o2 = o.clone();
            drop(o);
            Some(o2)
        }
        _ => None,
    }
}
async fn a_open_bidi(
    conn: &mut h3_quinn::Connection,
    h: &mut Option<h3_quinn::OpenStreams>,
) -> Result<h3_quinn::BidiStream<ChunkBuf>, StreamErrorIncoming> {
    match h {
        Some(o) => poll_fn(|cx| quic::OpenStreams::<ChunkBuf>::poll_open_bidi(o, cx)).await,
        None => poll_fn(|cx| quic::OpenStreams::<ChunkBuf>::poll_open_bidi(conn, cx)).await,
    }
}
async fn a_open_send(
    conn: &mut h3_quinn::Connection,
    h: &mut Option<h3_quinn::OpenStreams>,
) -> Result<h3_quinn::SendStream<ChunkBuf>, StreamErrorIncoming> {
    match h {
        Some(o) => poll_fn(|cx| quic::OpenStreams::<ChunkBuf>::poll_open_send(o, cx)).await,
        None => poll_fn(|cx| quic::OpenStreams::<ChunkBuf>::poll_open_send(conn, cx)).await,
    }
}
fn a_close(conn: &mut h3_quinn::Connection, h: &mut Option<h3_quinn::OpenStreams>, code: u64, reason: &[u8]) {
    match h {
        Some(o) => quic::OpenStreams::<ChunkBuf>::close(o, Code::from(code), reason),
        None => quic::OpenStreams::<ChunkBuf>::close(conn, Code::from(code), reason),
    }
}

/// Obtain the stream under test on both sides.  `skip` streams of the same kind are opened (and dropped) first
/// so that the id is not always the first one.  Returns A's adapter stream and P's raw halves.
async fn streams(
    conn: &mut h3_quinn::Connection,
    handle: &mut Option<h3_quinn::OpenStreams>,
    p: &quinn::Connection,
    kind: &str,
    skip: u64,
    a_sends: bool,
) -> (AStream, Option<quinn::SendStream>, Option<quinn::RecvStream>) {
    match kind {
        // A opens a bidirectional stream
        "bi" => {
            let mut last = None;
            for _ in 0..=skip {
                let s = a_open_bidi(conn, handle).await.expect("open_bidi");
                if let Some(prev) = last.replace(s) {
                    // make the skipped stream visible to the peer, then forget about it
                    let (mut sd, _rv) = quic::BidiStream::split(prev);
                    let _ = poll_fn(|cx| sd.poll_finish(cx)).await;
                }
            }
            let mut a = last.unwrap();
            if !a_sends {
                // the peer only learns about the stream once something is sent on it: one hello frame,
                // read by the peer while it is being written (it may exceed the window)
                let p2 = p.clone();
                let acceptor = tokio::spawn(async move {
                    let mut got = None;
                    for _ in 0..=skip {
                        got = Some(p2.accept_bi().await.expect("accept_bi"));
                    }
                    let (ps, mut pr) = got.unwrap();
                    let mut hello = [0u8; 3];
                    pr.read_exact(&mut hello).await.expect("hello read");
                    (ps, pr)
                });
                a.send_data(Frame::Data(ChunkBuf::new(vec![Bytes::from_static(b"!")]))).expect("hello");
                poll_fn(|cx| a.poll_ready(cx)).await.expect("hello ready");
                let (ps, pr) = acceptor.await.expect("acceptor");
                (AStream::Bidi(a), Some(ps), Some(pr))
            } else {
                // P accepts later (after A has written something)
                (AStream::Bidi(a), None, None)
            }
        }
        // A opens a unidirectional stream (A sends)
        "uni" if a_sends => {
            let mut last = None;
            for _ in 0..=skip {
                let s = a_open_send(conn, handle).await.expect("open_send");
                if let Some(mut prev) = last.replace(s) {
                    let _ = poll_fn(|cx| prev.poll_finish(cx)).await;
                }
            }
            (AStream::Send(last.unwrap()), None, None)
        }
        // P opens a unidirectional stream (A receives)
        "uni" => {
            let p2 = p.clone();
            let opener = tokio::spawn(async move {
                let mut last = None;
                for _ in 0..=skip {
                    let mut s = p2.open_uni().await.expect("open_uni");
                    s.write_all(b"!").await.expect("hello");
                    if let Some(mut prev) = last.replace(s) {
                        let _: &mut quinn::SendStream = &mut prev;
                        let _ = prev.finish();
                    }
                }
                last.unwrap()
            });
            let mut a = None;
            for k in 0..=skip {
                let mut s = poll_fn(|cx| quic::Connection::<ChunkBuf>::poll_accept_recv(conn, cx)).await.expect("accept_recv");
                let hello = poll_fn(|cx| s.poll_data(cx)).await.expect("hello data").expect("hello some");
                assert_eq!(&hello[..], b"!");
                if k == skip {
                    a = Some(s);
                }
            }
            let ps = opener.await.expect("opener");
            (AStream::Recv(a.unwrap()), Some(ps), None)
        }
        // P opens a bidirectional stream, A accepts it
        "bip" => {
            let p2 = p.clone();
            let opener = tokio::spawn(async move {
                let mut last = None;
                for _ in 0..=skip {
                    let (mut s, r) = p2.open_bi().await.expect("open_bi");
                    s.write_all(b"!").await.expect("hello");
                    if let Some((mut ps, _pr)) = last.replace((s, r)) {
                        let _: &mut quinn::SendStream = &mut ps;
                        let _ = ps.finish();
                    }
                }
                last.unwrap()
            });
            let mut a = None;
            for k in 0..=skip {
                let mut s = poll_fn(|cx| quic::Connection::<ChunkBuf>::poll_accept_bidi(conn, cx)).await.expect("accept_bidi");
                let hello = poll_fn(|cx| s.poll_data(cx)).await.expect("hello data").expect("hello some");
                assert_eq!(&hello[..], b"!");
                if k == skip {
                    a = Some(s);
                }
            }
            let (ps, pr) = opener.await.expect("opener");
            (AStream::Bidi(a.unwrap()), Some(ps), Some(pr))
        }
        _ => panic!("kind"),
    }
}

fn parse_fault(f: &str) -> (String, u64, u64) {
    // name[:code][@n]
    let (head, at) = match f.split_once('@') {
        Some((h, n)) => (h, n.parse().unwrap_or(u64::MAX)),
        None => (f, 0),
    };
    let (name, code) = match head.split_once(':') {
        Some((n, c)) => (n.to_string(), c.parse().expect("code")),
        None => (head.to_string(), 0),
    };
    (name, code, at)
}

// ------------------------------------------------------------------ qw: A writes through the adapter

async fn run_qw(certs: &Certs, c: &Case) -> String {
    let role = c.s("role", "c");
    let kind = c.s("kind", "bi");
    let skip = c.n("skip", 0);
    let seed = c.n("seed", 1);
    let mask = c.n("ids", 31);
    let dbl = c.opt_n("dbl");
    let dblp = c.opt_n("dblp");
    let rd = c.n("rd", 0) as usize;
    let (fname, fcode, fat) = parse_fault(&c.s("fault", "none"));
    let idle_ms = if fname == "timeout" { 500 } else { 0 };
    let tc = transport(c.n("win", 1 << 20), c.n("cwin", 1 << 22), c.n("swin", 1 << 22), idle_ms);
    let ps_len = c.opt_n("ps");
    let psp = c.opt_n("psp");
    let cf = c.opt_n("cf");
    let bufs: Vec<BufSpec> = {
        let b = c.s("bufs", "-");
        if b == "-" {
            vec![]
        } else {
            b.split(',').map(BufSpec::parse).collect()
        }
    };
    // the byte stream the peer must see when everything is sent
    let mut expected = Vec::new();
    for (j, b) in bufs.iter().enumerate() {
        expected.extend(b.wire(seed, j as u64));
    }
    if let Some(n) = ps_len {
        expected.extend(gen_bytes(seed, 1000, 0, n as usize));
    }

    let pair = connect(certs, tc, &role).await;
    let mut conn = h3_quinn::Connection::new(pair.a.clone());
    let p = pair.p.clone();
    let mut handle = opener_handle(&conn, &c.s("via", "conn"));
    let (astream, ps0, pr0) = streams(&mut conn, &mut handle, &p, &kind, skip, kind != "bip").await;
    // for bip the peer opened it and A writes on it; P reads from pr0
    let (done_tx, done_rx) = oneshot::channel::<()>();
    // drop=1: the adapter stream is dropped right after poll_finish answered Ok and the peer starts reading
    // only then (what h3 does with every finished request / response stream); needs all data to fit the windows
    let drop_mode = c.n("drop", 0) == 1 || fname == "nofin";
    let pr_idle = c.n("pr0", 0) == 1;
    let mut pr0_out = String::from("-");
    let mut pr1_out = String::from("-");
    let tail: Vec<String> = match c.s("tail", "-").as_str() {
        "-" => vec![],
        x => x.split('.').map(|o| o.to_string()).collect(),
    };
    let (start_tx, start_rx) = oneshot::channel::<()>();
    // how many bytes the peer has read (A closes locally only once nothing it wrote is still in flight)
    let (seen_tx, mut seen_rx) = tokio::sync::watch::channel::<u64>(0);
    let wire_lens: Vec<u64> = bufs.iter().enumerate().map(|(j, b)| b.wire(seed, j as u64).len() as u64).collect();

    // ---- peer task: read everything, apply the fault
    let kind2 = kind.clone();
    let fname2 = fname.clone();
    let peer = tokio::spawn(async move {
        let accepted: Result<(Option<quinn::SendStream>, quinn::RecvStream), quinn::ConnectionError> = match (ps0, pr0) {
            (ps, Some(pr)) => Ok((ps, pr)),
            _ => {
                if kind2 == "bi" {
                    let mut got = p.accept_bi().await;
                    for _ in 0..skip {
                        if got.is_ok() {
                            got = p.accept_bi().await;
                        }
                    }
                    got.map(|(s, r)| (Some(s), r))
                } else {
                    let mut got = p.accept_uni().await;
                    for _ in 0..skip {
                        if got.is_ok() {
                            got = p.accept_uni().await;
                        }
                    }
                    got.map(|r| (None, r))
                }
            }
        };
        let (mut _ps, mut pr) = match accepted {
            Ok(x) => x,
            Err(e) => {
                // the connection went away before the stream became visible
                let end = match e {
                    quinn::ConnectionError::ApplicationClosed(ac) => format!("close:{}", ac.error_code.into_inner()),
                    e => format!("accepterr:{:?}", e).replace(' ', "_"),
                };
                let _ = done_rx.await;
                return (PrefixCheck::new(expected).show(), end, u64::MAX, 0);
            }
        };
        let pid: u64 = pr.id().into();
        if drop_mode {
            let _ = start_rx.await;
        }
        let mut chk = PrefixCheck::new(expected);
        let mut buf = vec![0u8; if rd == 0 { 65536 } else { rd }];
        let mut end = String::from("open");
        let mut reads = 0u64;
        loop {
            let peer_fault = fname2 == "stop" || fname2 == "close" || fname2 == "timeout";
            let limit = if peer_fault && (chk.pos as u64) < fat {
                buf.len().min((fat - chk.pos as u64) as usize)
            } else {
                buf.len()
            };
            if peer_fault && chk.pos as u64 >= fat {
                if fname2 == "stop" {
                    let _ = pr.stop(VarInt::from_u64(fcode).unwrap());
                    end = "stopped".into();
                } else if fname2 == "close" {
                    p.close(VarInt::from_u64(fcode).unwrap(), b"bye");
                    end = "closed".into();
                } else {
                    // stop reading and stay silent: the idle timeout does the rest
                    end = "silent".into();
                }
                break;
            }
            match pr.read(&mut buf[..limit]).await {
                Ok(Some(n)) => {
                    chk.push(&buf[..n]);
                    let _ = seen_tx.send(chk.pos as u64);
                    if !chk.ok {
                        // wrong bytes: no point in reading on (a broken sender may never stop)
                        p.close(VarInt::from_u32(0xbad), b"mismatch");
                        end = "mismatch".into();
                        break;
                    }
                }
                Ok(None) => {
                    end = "fin".into();
                    break;
                }
                Err(quinn::ReadError::Reset(code)) => {
                    end = format!("reset:{}", code.into_inner());
                    break;
                }
                Err(quinn::ReadError::ConnectionLost(quinn::ConnectionError::ApplicationClosed(ac))) => {
                    end = format!("close:{}", ac.error_code.into_inner());
                    break;
                }
                Err(e) => {
                    end = format!("readerr:{:?}", e).replace(' ', "_");
                    break;
                }
            }
            reads += 1;
            if rd != 0 && reads % 8 == 0 {
                tokio::task::yield_now().await;
            }
        }
        let _ = done_rx.await;
        (chk.show(), end, pid, chk.pos as u64)
    });

    // ---- adapter side
    enum W {
        B(h3_quinn::BidiStream<ChunkBuf>),
        S(h3_quinn::SendStream<ChunkBuf>),
    }
    impl W {
        fn send_data<D: Into<quic::WriteBuf<ChunkBuf>>>(&mut self, f: D) -> Result<(), StreamErrorIncoming> {
            match self {
                W::B(s) => s.send_data(f),
                W::S(s) => s.send_data(f),
            }
        }
        fn poll_send<D: Buf>(&mut self, cx: &mut std::task::Context<'_>, buf: &mut D) -> Poll<Result<usize, StreamErrorIncoming>> {
            use h3::quic::SendStreamUnframed;
            match self {
                W::B(s) => s.poll_send(cx, buf),
                W::S(s) => s.poll_send(cx, buf),
            }
        }
        fn poll_ready(&mut self, cx: &mut std::task::Context<'_>) -> Poll<Result<(), StreamErrorIncoming>> {
            match self {
                W::B(s) => s.poll_ready(cx),
                W::S(s) => s.poll_ready(cx),
            }
        }
        fn poll_finish(&mut self, cx: &mut std::task::Context<'_>) -> Poll<Result<(), StreamErrorIncoming>> {
            match self {
                W::B(s) => s.poll_finish(cx),
                W::S(s) => s.poll_finish(cx),
            }
        }
        fn reset(&mut self, c: u64) {
            match self {
                W::B(s) => s.reset(c),
                W::S(s) => s.reset(c),
            }
        }
        fn send_id(&self) -> u64 {
            match self {
                W::B(s) => sid_u64(s.send_id()),
                W::S(s) => sid_u64(s.send_id()),
            }
        }
        fn recv_id(&self) -> Option<u64> {
            match self {
                W::B(s) => Some(sid_u64(s.recv_id())),
                W::S(_) => None,
            }
        }
    }
    let mut w = match astream {
        AStream::Bidi(b) => W::B(b),
        AStream::Send(s) => W::S(s),
        AStream::Recv(_) => unreachable!(),
    };
    let mut ids: Vec<String> = Vec::new();
    let q = |w: &W, bit: u64, ids: &mut Vec<String>| {
        if mask & (1 << bit) != 0 {
            ids.push(w.send_id().to_string());
        }
    };
    let marker = || Frame::Data(ChunkBuf::new(vec![Bytes::from_static(&[0xee, 0xee, 0xee])]));
    let mut res = String::from("ok");
    let mut dbl_out = String::from("-");
    let mut dblp_out = String::from("-");
    let mut fin2 = None;
    let mut psp_out = String::from("-");
    let mut cancelled = false;
    if fname == "afin" {
        let r = poll_fn(|cx| w.poll_finish(cx)).await;
        if r.is_err() {
            res = format!("finerr:{}", res_unit(&r));
        }
    }
    let show_ready = |x: Poll<Result<(), StreamErrorIncoming>>| match x {
        Poll::Pending => "pending".to_string(),
        Poll::Ready(r) => res_unit(&r),
    };
    if pr_idle {
        // poll_ready on a stream that has nothing to write
        let x = {
            let mut fut = poll_fn(|cx| w.poll_ready(cx));
            futures::poll!(Pin::new(&mut fut))
        };
        pr0_out = show_ready(x);
    }
    let mut sent = 0u64;
    if res == "ok" {
        for (j, spec) in bufs.iter().enumerate() {
            let j = j as u64;
            if (fname == "areset" || fname == "lclose") && sent >= fat {
                break;
            }
            q(&w, 0, &mut ids);
            let r = match spec {
                BufSpec::Data(chunks) => w.send_data(Frame::Data(spec_payload(seed, j, chunks))),
                BufSpec::Headers(l) => w.send_data(Frame::<ChunkBuf>::Headers(Bytes::from(gen_bytes(seed, j, 0, *l)))),
                BufSpec::Typed(t, chunks) => w.send_data((StreamType::from_value(*t), Frame::Data(spec_payload(seed, j, chunks)))),
                BufSpec::Type(t) => w.send_data(StreamType::from_value(*t)),
            };
            if r.is_err() {
                res = format!("{}@send", res_unit(&r));
                break;
            }
            q(&w, 1, &mut ids);
            if dbl == Some(j) {
                dbl_out = match w.send_data(marker()) {
                    Ok(()) => "ACCEPTED".into(),
                    Err(e) => format!("refused:{}", stream_class(&e)),
                };
            }
            let mut first_pending = true;
            let abandon = (fname == "cfin" && fat == j) || cf == Some(j);
            let break_out = psp == Some(j) || abandon;
            let r = poll_fn(|cx| match w.poll_ready(cx) {
                Poll::Pending => {
                    if first_pending {
                        first_pending = false;
                        if mask & 4 != 0 {
                            ids.push(w.send_id().to_string());
                        }
                        if dblp == Some(j) {
                            dblp_out = match w.send_data(marker()) {
                                Ok(()) => "ACCEPTED".into(),
                                Err(e) => format!("refused:{}", stream_class(&e)),
                            };
                        }
                        if break_out {
                            return Poll::Ready(None);
                        }
                    }
                    Poll::Pending
                }
                Poll::Ready(r) => Poll::Ready(Some(r)),
            })
            .await;
            let r = match r {
                Some(r) => r,
                None if abandon => {
                    // the caller gives up on the pending write (h3's send future dropped) and finishes the stream
                    cancelled = true;
                    let r = poll_fn(|cx| w.poll_finish(cx)).await;
                    res = res_unit(&r);
                    break;
                }
                None => {
                    // poll_send while the framed write is unfinished: must be refused (the adapter panics), never
                    // interleaved.  Give Quinn time to get credit back so that an unguarded poll_send would write.
                    let mut praw = Bytes::from_static(&[0xdd; 100]);
                    let attempt = tokio::time::timeout(
                        Duration::from_secs(5),
                        poll_fn(|cx| {
                            match std::panic::catch_unwind(std::panic::AssertUnwindSafe(|| w.poll_send(cx, &mut praw))) {
                                Err(_) => Poll::Ready("panic".to_string()),
                                Ok(Poll::Ready(Ok(k))) => Poll::Ready(format!("ACCEPTED:{}", k)),
                                Ok(Poll::Ready(Err(e))) => Poll::Ready(format!("err:{}", stream_class(&e))),
                                Ok(Poll::Pending) => Poll::Pending,
                            }
                        }),
                    )
                    .await;
                    psp_out = attempt.unwrap_or_else(|_| "ACCEPTED:pending".to_string());
                    poll_fn(|cx| w.poll_ready(cx)).await
                }
            };
            if dblp == Some(j) && dblp_out == "-" {
                dblp_out = "na".into();
            }
            if psp == Some(j) && psp_out == "-" {
                psp_out = "na".into();
            }
            if r.is_err() {
                res = res_unit(&r);
                break;
            }
            sent += 1;
        }
    }
    // sa=1: after a write that failed (Quinn refused it), send_data once more and drive it: the send half must take the
    // buffer (it gave up the one in flight) and fail the way the stream failed
    let sa_rounds = c.n("sa", 0);
    let mut sa_out = String::from("-");
    let mut saf_out = String::from("-");
    if sa_rounds > 0 && res.starts_with("err:") && !res.ends_with("@send") {
        let mut rounds = Vec::new();
        for _ in 0..sa_rounds {
            rounds.push(match w.send_data(marker()) {
                Ok(()) => format!("ok/{}", res_unit(&poll_fn(|cx| w.poll_ready(cx)).await)),
                Err(e) => format!("refused:{}", stream_class(&e)),
            });
        }
        sa_out = rounds.join(",");
        // and the stream is finished (peer stop only: what finish() says on a lost connection is Quinn's business)
        if fname == "stop" {
            // first with a buffer in flight (poll_finish has to drain it: Quinn refuses again), then with nothing left
            let drained = match w.send_data(marker()) {
                Ok(()) => format!("ok/{}", res_unit(&poll_fn(|cx| w.poll_finish(cx)).await)),
                Err(e) => format!("refused:{}", stream_class(&e)),
            };
            saf_out = format!("{},{}", drained, res_unit(&poll_fn(|cx| w.poll_finish(cx)).await));
        }
    }
    q(&w, 3, &mut ids);
    if pr_idle && res == "ok" && !cancelled {
        let x = {
            let mut fut = poll_fn(|cx| w.poll_ready(cx));
            futures::poll!(Pin::new(&mut fut))
        };
        pr1_out = show_ready(x);
    }
    let mut ps_out = String::from("-");
    let ps_faults = ["none", "nofin", "stop", "close", "timeout"];
    if let (Some(n), true, "ok") = (ps_len, ps_faults.contains(&fname.as_str()), res.as_str()) {
        // SendStreamUnframed::poll_send: raw bytes, one poll_write per call
        let mut raw = raw_buf(seed, n as usize);
        ps_out = "ok".into();
        while raw.has_remaining() {
            let before = raw.remaining();
            match poll_fn(|cx| w.poll_send(cx, &mut raw)).await {
                Ok(k) => {
                    if before - raw.remaining() != k {
                        ps_out = "BADCOUNT".into();
                        break;
                    }
                }
                Err(e) => {
                    ps_out = format!("err:{}", stream_class(&e));
                    break;
                }
            }
        }
    }
    // pse=1: poll_send with an empty buffer
    let pse = c.n("pse", 0) == 1;
    let mut pse_out = String::from("-");
    if pse && (fname == "none" || fname == "nofin") && res == "ok" && (ps_out == "-" || ps_out == "ok") {
        let mut empty = ChunkBuf::new(vec![]);
        pse_out = match tokio::time::timeout(Duration::from_secs(20), poll_fn(|cx| w.poll_send(cx, &mut empty))).await {
            Ok(Ok(k)) => format!("ok:{}", k),
            Ok(Err(e)) => format!("err:{}", stream_class(&e)),
            Err(_) => "pending".into(),
        };
    }
    match fname.as_str() {
        "none" => {
            if res == "ok" && (ps_out == "-" || ps_out == "ok") {
                let r = poll_fn(|cx| w.poll_finish(cx)).await;
                if r.is_err() {
                    res = format!("finerr:{}", res_unit(&r));
                }
            }
        }
        "afin" => {
            let r = poll_fn(|cx| w.poll_finish(cx)).await;
            fin2 = Some(res_unit(&r));
        }
        "areset" => {
            w.reset(fcode);
        }
        "lclose" => {
            let written: u64 = wire_lens.iter().take(sent as usize).sum();
            let _ = tokio::time::timeout(Duration::from_secs(20), async {
                while *seen_rx.borrow() < written {
                    if seen_rx.changed().await.is_err() {
                        break;
                    }
                }
            })
            .await;
            a_close(&mut conn, &mut handle, fcode, b"local");
            // one more write attempt: what a write reports after the local close (framed, or unframed when ps is given)
            let r = if let Some(n) = ps_len {
                let mut raw = Bytes::from(gen_bytes(seed, 1000, 0, (n as usize).max(1)));
                ps_out = match poll_fn(|cx| w.poll_send(cx, &mut raw)).await {
                    Ok(_) => "ok".into(),
                    Err(e) => format!("err:{}", stream_class(&e)),
                };
                Ok(())
            } else {
                match w.send_data(marker()) {
                    Ok(()) => poll_fn(|cx| w.poll_ready(cx)).await,
                    Err(e) => Err(e),
                }
            };
            res = res_unit(&r);
        }
        _ => {}
    }
    // more calls on the stream once it has been finished / reset
    let mut tl_out: Vec<String> = Vec::new();
    for op in &tail {
        match &op[..1] {
            "r" => w.reset(op[1..].parse().expect("reset code")),
            "f" => {
                let r = poll_fn(|cx| w.poll_finish(cx)).await;
                tl_out.push(res_unit(&r));
            }
            "p" => {
                let x = {
                    let mut fut = poll_fn(|cx| w.poll_ready(cx));
                    futures::poll!(Pin::new(&mut fut))
                };
                tl_out.push(show_ready(x));
            }
            _ => panic!("tail op"),
        }
    }
    q(&w, 4, &mut ids);
    let rid = w.recv_id().map(|x| x.to_string()).unwrap_or_else(|| "-".into());
    if drop_mode {
        drop(w);
        drop(handle);
        // give a (wrong) reset issued by the drop every chance to overtake the data
        tokio::time::sleep(Duration::from_millis(20)).await;
    }
    let _ = start_tx.send(());
    let _ = done_tx.send(());
    let (recv, end, pid, peer_got) = peer.await.expect("peer task");
    let mut out = format!(
        "ok res={} {} end={} ids={} pid={} rid={} dbl={} dblp={} ps={} psp={}",
        res,
        recv,
        end,
        if ids.is_empty() { "-".to_string() } else { ids.join(",") },
        if pid == u64::MAX { "-".to_string() } else { pid.to_string() },
        rid,
        dbl_out,
        dblp_out,
        ps_out,
        psp_out
    );
    if fname == "cfin" {
        // did everything that send_data accepted reach the peer before the FIN?
        let accepted: u64 = wire_lens.iter().take(fat as usize + 1).sum();
        out.push_str(&format!(" trunc={}", if !cancelled { "na" } else if peer_got < accepted { "yes" } else { "no" }));
    }
    if let Some(f) = fin2 {
        out.push_str(&format!(" fin2={}", f));
    }
    if pse {
        out.push_str(&format!(" pse={}", pse_out));
    }
    if sa_rounds > 0 {
        // the stream failed, the connection must not have been closed by side A because of it
        let alive = fname != "stop" || pair.a.close_reason().is_none();
        out.push_str(&format!(" sa={} saf={} alive={}", sa_out, saf_out, if alive { 1 } else { 0 }));
    }
    if pr_idle {
        out.push_str(&format!(" pr0={} pr1={}", pr0_out, pr1_out));
    }
    if !tail.is_empty() {
        out.push_str(&format!(" tl={}", if tl_out.is_empty() { "-".to_string() } else { tl_out.join("/") }));
    }
    pair.a.close(VarInt::from_u32(0), b"done");
    pair.p.close(VarInt::from_u32(0), b"done");
    out
}

// ------------------------------------------------------------------ qr: A reads through the adapter

async fn run_qr(certs: &Certs, c: &Case) -> String {
    let role = c.s("role", "c");
    let kind = c.s("kind", "bi");
    let skip = c.n("skip", 0);
    let seed = c.n("seed", 1);
    let mask = c.n("ids", 63);
    let (fname, fcode, fat) = parse_fault(&c.s("fault", "fin"));
    let stop = c.s("stop", "none");
    let (stop_code, stop_when) = match stop.split_once('@') {
        Some((cd, w)) => (cd.parse::<u64>().expect("stop code"), w.to_string()),
        None => (0, "none".to_string()),
    };
    let idle_ms = if fname == "timeout" { 500 } else { 0 };
    let tc = transport(c.n("win", 1 << 20), c.n("cwin", 1 << 22), c.n("swin", 1 << 22), idle_ms);
    let chunks: Vec<usize> = {
        let b = c.s("chunks", "-");
        if b == "-" {
            vec![]
        } else {
            b.split(',').map(|l| l.parse().unwrap()).collect()
        }
    };
    let mut expected = Vec::new();
    for (j, l) in chunks.iter().enumerate() {
        expected.extend(gen_bytes(seed, j as u64, 0, *l));
    }
    let pair = connect(certs, tc, &role).await;
    let mut conn = h3_quinn::Connection::new(pair.a.clone());
    let p = pair.p.clone();
    let mut handle = opener_handle(&conn, &c.s("via", "conn"));
    let (astream, ps0, _pr0) = streams(&mut conn, &mut handle, &p, &kind, skip, false).await;
    let mut ps = ps0.expect("peer send half");
    let (go_tx, go_rx) = oneshot::channel::<()>();
    let (done_tx, done_rx) = oneshot::channel::<()>();
    // how many bytes A has read so far (the peer closes only once nothing it wrote is still in flight:
    // a CONNECTION_CLOSE lost in a burst of data would surface as a stateless reset instead)
    let (seen_tx, mut seen_rx) = tokio::sync::watch::channel::<u64>(0);
    // set by A before `go` when no stop_sending call went through (every one of them panicked)
    let no_stop = Arc::new(std::sync::atomic::AtomicBool::new(false));
    let no_stop2 = no_stop.clone();

    let fname2 = fname.clone();
    let stop_when2 = stop_when.clone();
    let expected2 = expected.clone();
    let chunks2 = chunks.clone();
    let peer = tokio::spawn(async move {
        let pid: u64 = ps.id().into();
        let _ = go_rx.await;
        let stop_when2 = if no_stop2.load(std::sync::atomic::Ordering::SeqCst) { "none".to_string() } else { stop_when2 };
        let mut pstop = String::from("-");
        let mut pclose = String::from("-");
        let mut written = 0u64;
        let mut off = 0usize;
        let mut faulted = false;
        for (j, l) in chunks2.iter().enumerate() {
            let mut data = &expected2[off..off + *l];
            off += *l;
            // the fault point may fall inside this chunk
            if matches!(fname2.as_str(), "reset" | "close" | "timeout") && written + (*l as u64) > fat {
                let keep = (fat - written) as usize;
                data = &data[..keep];
                faulted = true;
            }
            if stop_when2 == "idle" && j == 0 {
                // A stopped before anything was written: wait for the STOP_SENDING
                match tokio::time::timeout(Duration::from_secs(20), ps.stopped()).await {
                    Ok(Ok(Some(code))) => pstop = code.into_inner().to_string(),
                    Ok(Ok(None)) => pstop = "none".into(),
                    Ok(Err(e)) => pstop = format!("err:{:?}", e).replace(' ', "_"),
                    Err(_) => pstop = "timeout".into(),
                }
            }
            match ps.write_all(data).await {
                Ok(()) => written += data.len() as u64,
                Err(quinn::WriteError::Stopped(code)) => {
                    if pstop == "-" {
                        pstop = code.into_inner().to_string();
                    }
                    break;
                }
                Err(quinn::WriteError::ConnectionLost(quinn::ConnectionError::ApplicationClosed(ac))) => {
                    pclose = ac.error_code.into_inner().to_string();
                    break;
                }
                Err(_) => break,
            }
            if stop_when2.starts_with("pend") && j == 0 && written > 0 {
                // the deferred stop is delivered when A's pending read completes with this chunk
                match tokio::time::timeout(Duration::from_secs(20), ps.stopped()).await {
                    Ok(Ok(Some(code))) => pstop = code.into_inner().to_string(),
                    Ok(Ok(None)) => pstop = "none".into(),
                    Ok(Err(e)) => pstop = format!("err:{:?}", e).replace(' ', "_"),
                    Err(_) => pstop = "timeout".into(),
                }
            }
            if faulted {
                break;
            }
        }
        match fname2.as_str() {
            "fin" => {
                let _ = ps.finish();
                if stop_when2 == "none" {
                    match tokio::time::timeout(Duration::from_secs(20), ps.stopped()).await {
                        Ok(Ok(Some(code))) => pstop = code.into_inner().to_string(),
                        Ok(Ok(None)) => pstop = "none".into(),
                        Ok(Err(quinn::StoppedError::ConnectionLost(quinn::ConnectionError::ApplicationClosed(ac)))) => {
                            pclose = ac.error_code.into_inner().to_string()
                        }
                        Ok(Err(e)) => pstop = format!("err:{:?}", e).replace(' ', "_"),
                        Err(_) => pstop = "timeout".into(),
                    }
                }
            }
            "reset" => {
                let _ = ps.reset(VarInt::from_u64(fcode).unwrap());
            }
            "close" => {
                let _ = tokio::time::timeout(Duration::from_secs(20), async {
                    while *seen_rx.borrow() < written {
                        if seen_rx.changed().await.is_err() {
                            break;
                        }
                    }
                })
                .await;
                p.close(VarInt::from_u64(fcode).unwrap(), b"bye");
            }
            "lclose" => {
                let e = p.closed().await;
                if let quinn::ConnectionError::ApplicationClosed(ac) = e {
                    pclose = ac.error_code.into_inner().to_string();
                }
            }
            _ => {}
        }
        let _ = done_rx.await;
        (pid, pstop, pclose)
    });

    enum R {
        B(h3_quinn::BidiStream<ChunkBuf>),
        R(h3_quinn::RecvStream),
    }
    impl R {
        fn poll_data(&mut self, cx: &mut std::task::Context<'_>) -> Poll<Result<Option<Bytes>, StreamErrorIncoming>> {
            match self {
                R::B(s) => s.poll_data(cx),
                R::R(s) => s.poll_data(cx),
            }
        }
        fn stop_sending(&mut self, c: u64) {
            match self {
                R::B(s) => s.stop_sending(c),
                R::R(s) => s.stop_sending(c),
            }
        }
        fn recv_id(&self) -> u64 {
            match self {
                R::B(s) => sid_u64(s.recv_id()),
                R::R(s) => sid_u64(s.recv_id()),
            }
        }
        fn send_id(&self) -> Option<u64> {
            match self {
                R::B(s) => Some(sid_u64(s.send_id())),
                R::R(_) => None,
            }
        }
    }
    let mut r = match astream {
        AStream::Bidi(b) => R::B(b),
        AStream::Recv(s) => R::R(s),
        AStream::Send(_) => unreachable!(),
    };
    let mut ids: Vec<String> = Vec::new();
    let q = |r: &R, bit: u64, ids: &mut Vec<String>| {
        if mask & (1 << bit) != 0 {
            ids.push(r.recv_id().to_string());
        }
    };
    let show = |x: &Poll<Result<Option<Bytes>, StreamErrorIncoming>>| match x {
        Poll::Pending => "pending".to_string(),
        Poll::Ready(Ok(Some(_))) => "data".to_string(),
        Poll::Ready(Ok(None)) => "fin".to_string(),
        Poll::Ready(Err(e)) => format!("err:{}", stream_class(e)),
    };
    let total_len = expected.len();
    let mut chk = PrefixCheck::new(expected);
    q(&r, 0, &mut ids);
    // stop_sending under catch_unwind: a code that is no varint makes the adapter panic (before it touches anything)
    let mut sp_out = String::from("-");
    let mut stops_ok = 0u32;
    let try_stop = |r: &mut R, code: u64, sp_out: &mut String| -> bool {
        match std::panic::catch_unwind(std::panic::AssertUnwindSafe(|| r.stop_sending(code))) {
            Ok(()) => true,
            Err(_) => {
                *sp_out = "PANIC".into();
                false
            }
        }
    };
    if stop_when == "idle" && try_stop(&mut r, stop_code, &mut sp_out) {
        stops_ok += 1;
    }
    // a read that stays pending (nothing has been written yet), then is cancelled
    let p1 = {
        let mut fut = poll_fn(|cx| r.poll_data(cx));
        let x = futures::poll!(Pin::new(&mut fut));
        drop(fut);
        x
    };
    let p1s = show(&p1);
    q(&r, 1, &mut ids);
    q(&r, 2, &mut ids);
    let mut p2s = String::from("-");
    let mut ended: Option<String> = match &p1 {
        Poll::Ready(Ok(Some(b))) => {
            chk.push(b);
            None
        }
        Poll::Ready(Ok(None)) => Some("fin".into()),
        Poll::Ready(Err(e)) => Some(format!("err:{}", stream_class(e))),
        Poll::Pending => None,
    };
    if stop_when.starts_with("pend") {
        if try_stop(&mut r, stop_code, &mut sp_out) {
            stops_ok += 1;
        }
        if stop_when == "pend2" && try_stop(&mut r, stop_code + 1, &mut sp_out) {
            stops_ok += 1;
        }
        q(&r, 3, &mut ids);
        let x = {
            let mut fut = poll_fn(|cx| r.poll_data(cx));
            let x = futures::poll!(Pin::new(&mut fut));
            drop(fut);
            x
        };
        p2s = show(&x);
        if let Poll::Ready(Ok(Some(b))) = &x {
            chk.push(b);
        }
    }
    if stop_when != "none" && stops_ok == 0 {
        no_stop.store(true, std::sync::atomic::Ordering::SeqCst);
    }
    let _ = go_tx.send(());
    let mut first = true;
    if fname == "open" {
        // the peer writes everything and leaves the stream open: read it all, then one more poll stays pending
        while ended.is_none() && chk.pos < total_len {
            match poll_fn(|cx| r.poll_data(cx)).await {
                Ok(Some(b)) => {
                    chk.push(&b);
                    if first {
                        first = false;
                        q(&r, 4, &mut ids);
                    }
                }
                Ok(None) => ended = Some("fin".into()),
                Err(e) => ended = Some(format!("err:{}", stream_class(&e))),
            }
        }
        if ended.is_none() {
            let x = {
                let mut fut = poll_fn(|cx| r.poll_data(cx));
                let x = futures::poll!(Pin::new(&mut fut));
                drop(fut);
                x
            };
            ended = Some(match x {
                Poll::Pending => "open".to_string(),
                Poll::Ready(Ok(Some(_))) => "data-after-end".to_string(),
                Poll::Ready(Ok(None)) => "fin".to_string(),
                Poll::Ready(Err(e)) => format!("err:{}", stream_class(&e)),
            });
        }
    }
    if fname == "lclose" {
        // read the first piece, then close the connection locally
        if ended.is_none() && !chunks.is_empty() {
            match poll_fn(|cx| r.poll_data(cx)).await {
                Ok(Some(b)) => chk.push(&b),
                Ok(None) => ended = Some("fin".into()),
                Err(e) => ended = Some(format!("err:{}", stream_class(&e))),
            }
            first = false;
            q(&r, 4, &mut ids);
        }
        a_close(&mut conn, &mut handle, fcode, b"local");
    }
    while ended.is_none() {
        match poll_fn(|cx| r.poll_data(cx)).await {
            Ok(Some(b)) => {
                chk.push(&b);
                let _ = seen_tx.send(chk.pos as u64);
                if first {
                    first = false;
                    q(&r, 4, &mut ids);
                }
            }
            Ok(None) => ended = Some("fin".into()),
            Err(e) => ended = Some(format!("err:{}", stream_class(&e))),
        }
    }
    q(&r, 5, &mut ids);
    // after a failed read the stream stays usable: poll it again, ask for its id, stop it, poll once more
    let re_n = c.n("re", 0);
    let mut re_out: Vec<String> = Vec::new();
    let mut rs_out = String::from("-");
    let failed = ended.as_deref().map(|e| e.starts_with("err:")).unwrap_or(false);
    if failed && re_n > 0 {
        let poll_once = |x: Result<Result<Option<Bytes>, StreamErrorIncoming>, tokio::time::error::Elapsed>| match x {
            Err(_) => "pending".to_string(),
            Ok(Ok(Some(_))) => "data".to_string(),
            Ok(Ok(None)) => "fin".to_string(),
            Ok(Err(e)) => format!("err:{}", stream_class(&e)),
        };
        for _ in 0..re_n {
            let x = tokio::time::timeout(Duration::from_secs(5), poll_fn(|cx| r.poll_data(cx))).await;
            re_out.push(poll_once(x));
        }
        ids.push(r.recv_id().to_string());
        if let Some(code) = c.opt_n("restop") {
            r.stop_sending(code);
            ids.push(r.recv_id().to_string());
            let x = tokio::time::timeout(Duration::from_secs(5), poll_fn(|cx| r.poll_data(cx))).await;
            rs_out = poll_once(x);
        }
    }
    let xid = r.send_id().map(|x| x.to_string()).unwrap_or_else(|| "-".into());
    let _ = done_tx.send(());
    let (pid, pstop, pclose) = peer.await.expect("peer task");
    let mut out = format!(
        "ok end={} {} p1={} p2={} ids={} pid={} xid={} pstop={} pclose={} re={} rs={}",
        ended.unwrap(),
        chk.show(),
        p1s,
        p2s,
        if ids.is_empty() { "-".to_string() } else { ids.join(",") },
        pid,
        xid,
        pstop,
        pclose,
        if re_out.is_empty() { "-".to_string() } else { re_out.join("/") },
        rs_out
    );
    if sp_out != "-" {
        out.push_str(&format!(" sp={}", sp_out));
    }
    pair.a.close(VarInt::from_u32(0), b"done");
    pair.p.close(VarInt::from_u32(0), b"done");
    out
}

// ------------------------------------------------------------------ qa: open / accept on a lost connection

async fn run_qa(certs: &Certs, c: &Case) -> String {
    let role = c.s("role", "c");
    let op = c.s("op", "accept_recv");
    let (fname, fcode, _) = parse_fault(&c.s("fault", "close:0"));
    let idle_ms = if fname == "timeout" { 500 } else { 0 };
    let tc = transport(1 << 20, 1 << 22, 1 << 22, idle_ms);
    if fname == "pclosed" || fname == "terr" {
        assert_eq!(role, "s", "a failing handshake leaves a connection handle only on the accepting side (0.5-RTT)");
        let (a, _server, _client) = match connect_failing_handshake(tc, &fname).await {
            Ok(x) => x,
            Err(e) => return format!("ok res=unexpected:{} pclose=-", e),
        };
        let mut conn = h3_quinn::Connection::new(a);
        let mut handle = opener_handle(&conn, &c.s("via", "conn"));
        let res = qa_op(&op, &mut conn, &mut handle).await;
        return format!("ok res={} pclose=-", res);
    }
    let mut own_endpoints = None;
    let pair = if fname == "sreset" {
        assert_eq!(role, "c", "sreset: only the accepting side announces a stateless reset token for its first connection id");
        let (pair, server, client, mute) = connect_mutable(certs, tc).await;
        own_endpoints = Some((server, client, mute));
        pair
    } else {
        connect(certs, tc, &role).await
    };
    let mut conn = h3_quinn::Connection::new(pair.a.clone());
    let mut handle = opener_handle(&conn, &c.s("via", "conn"));
    let mut pclose = String::from("-");
    match fname.as_str() {
        "sreset" => {
            let (server, _client, mute) = own_endpoints.as_ref().unwrap();
            if let Err(e) = lose_by_stateless_reset(&pair, server, mute).await {
                return format!("ok res=notreset:{} pclose=-", e);
            }
        }
        "close" => {
            pair.p.close(VarInt::from_u64(fcode).unwrap(), b"bye");
            let _ = pair.a.closed().await;
        }
        "lclose" => {
            // a code that is no varint makes close panic: nothing was closed, the case ends there
            if std::panic::catch_unwind(std::panic::AssertUnwindSafe(|| a_close(&mut conn, &mut handle, fcode, b"local"))).is_err() {
                pair.a.close(VarInt::from_u32(0), b"done");
                pair.p.close(VarInt::from_u32(0), b"done");
                return "ok res=- pclose=PANIC".into();
            }
            if let quinn::ConnectionError::ApplicationClosed(ac) = pair.p.closed().await {
                pclose = ac.error_code.into_inner().to_string();
            }
        }
        "timeout" => {
            let _ = pair.a.closed().await;
        }
        _ => panic!("fault"),
    }
    let res = qa_op(&op, &mut conn, &mut handle).await;
    pair.p.close(VarInt::from_u32(0), b"done");
    format!("ok res={} pclose={}", res, pclose)
}

async fn qa_op(op: &str, conn: &mut h3_quinn::Connection, handle: &mut Option<h3_quinn::OpenStreams>) -> String {
    match op {
        "accept_recv" => match poll_fn(|cx| quic::Connection::<ChunkBuf>::poll_accept_recv(conn, cx)).await {
            Ok(_) => "ok".to_string(),
            Err(e) => format!("err:{}", conn_class(&e)),
        },
        "accept_bidi" => match poll_fn(|cx| quic::Connection::<ChunkBuf>::poll_accept_bidi(conn, cx)).await {
            Ok(_) => "ok".to_string(),
            Err(e) => format!("err:{}", conn_class(&e)),
        },
        "open_bidi" => match a_open_bidi(conn, handle).await {
            Ok(_) => "ok".to_string(),
            Err(e) => format!("err:{}", stream_class(&e)),
        },
        "open_send" => match a_open_send(conn, handle).await {
            Ok(_) => "ok".to_string(),
            Err(e) => format!("err:{}", stream_class(&e)),
        },
        _ => panic!("op"),
    }
}

// ------------------------------------------------------------------ qd: datagrams through the adapter

async fn run_qd(certs: &Certs, c: &Case) -> String {
    use h3_datagram::datagram::Datagram;
    use h3_datagram::quic_traits::{DatagramConnectionExt, RecvDatagram, SendDatagram, SendDatagramErrorIncoming};
    let role = c.s("role", "c");
    let dir = c.s("dir", "send");
    let sid = c.n("sid", 0);
    let len = c.n("len", 10) as usize;
    let seed = c.n("seed", 1);
    let (fname, fcode, _) = parse_fault(&c.s("fault", "none"));
    let idle_ms = if fname == "timeout" { 500 } else { 0 };
    // disabled: the peer does not accept datagrams (no max_datagram_frame_size announced); ldisabled: side A does not
    let tc_a = transport_dg(1 << 20, 1 << 22, 1 << 22, idle_ms, fname != "ldisabled");
    let tc_p = transport_dg(1 << 20, 1 << 22, 1 << 22, idle_ms, fname != "disabled");
    let mut own_endpoints = None;
    let pair = if fname == "sreset" {
        assert_eq!(role, "c", "sreset: A is the connecting side");
        let (pair, server, client, mute) = connect_mutable(certs, tc_a).await;
        own_endpoints = Some((server, client, mute));
        pair
    } else {
        connect2(certs, tc_a, tc_p, &role).await
    };
    let mut conn = h3_quinn::Connection::new(pair.a.clone());
    let payload = gen_bytes(seed, 0, 0, len);
    let mut wire = varint(sid / 4);
    wire.extend(&payload);
    let mut pclose = String::from("-");
    match fname.as_str() {
        "close" => {
            pair.p.close(VarInt::from_u64(fcode).unwrap(), b"bye");
            let _ = pair.a.closed().await;
        }
        "lclose" => {
            quic::OpenStreams::<Bytes>::close(&mut conn, Code::from(fcode), b"local");
            if let quinn::ConnectionError::ApplicationClosed(ac) = pair.p.closed().await {
                pclose = ac.error_code.into_inner().to_string();
            }
        }
        "timeout" => {
            let _ = pair.a.closed().await;
        }
        "sreset" => {
            let (server, _client, mute) = own_endpoints.as_ref().unwrap();
            if let Err(e) = lose_by_stateless_reset(&pair, server, mute).await {
                return format!("ok res=notreset:{} recv=- pclose=-", e);
            }
        }
        _ => {}
    }
    let mut dg = Digest::new();
    let res;
    if dir == "send" {
        let mut h = DatagramConnectionExt::<Bytes>::send_datagram_handler(&conn);
        let id = quic::StreamId::try_from(sid).expect("stream id");
        let r = h.send_datagram(Datagram::new(id, Bytes::from(payload)).encode());
        res = match r {
            Ok(()) => {
                match tokio::time::timeout(Duration::from_secs(20), pair.p.read_datagram()).await {
                    Ok(Ok(b)) => {
                        dg.push(&b);
                        if b[..] == wire[..] { "ok".to_string() } else { "ok-BADBYTES".to_string() }
                    }
                    Ok(Err(e)) => format!("peererr:{:?}", e).replace(' ', "_"),
                    Err(_) => "lost".to_string(),
                }
            }
            Err(SendDatagramErrorIncoming::NotAvailable) => "err:notavailable".into(),
            Err(SendDatagramErrorIncoming::TooLarge) => "err:toolarge".into(),
            Err(SendDatagramErrorIncoming::ConnectionError(e)) => format!("err:{}", conn_class(&e)),
        };
    } else {
        let mut h = DatagramConnectionExt::<Bytes>::recv_datagram_handler(&conn);
        if fname == "none" {
            pair.p.send_datagram(Bytes::from(wire.clone())).expect("peer send_datagram");
        }
        let r = tokio::time::timeout(Duration::from_secs(20), poll_fn(|cx| h.poll_incoming_datagram(cx))).await;
        res = match r {
            Ok(Ok(b)) => {
                dg.push(&b);
                if b[..] == wire[..] { "ok".to_string() } else { "ok-BADBYTES".to_string() }
            }
            Ok(Err(e)) => format!("err:{}", conn_class(&e)),
            Err(_) => "lost".to_string(),
        };
    }
    pair.a.close(VarInt::from_u32(0), b"done");
    pair.p.close(VarInt::from_u32(0), b"done");
    format!("ok res={} recv={} pclose={}", res, dg.show(), pclose)
}

// ------------------------------------------------------------------ main

async fn run_case(certs: Arc<Certs>, line: String) -> String {
    let ws: Vec<&str> = line.split_whitespace().collect();
    if ws.is_empty() {
        return "driver-error empty".into();
    }
    let case = Case::parse(&ws);
    let fam = ws[0].to_string();
    let limit = Duration::from_secs(case.n("tmo", 60));
    let fut: Pin<Box<dyn Future<Output = String> + Send>> = match fam.as_str() {
        "qw" => Box::pin(async move { run_qw(&certs, &case).await }),
        "qr" => Box::pin(async move { run_qr(&certs, &case).await }),
        "qa" => Box::pin(async move { run_qa(&certs, &case).await }),
        "qd" => Box::pin(async move { run_qd(&certs, &case).await }),
        _ => return "driver-error unknown-case".into(),
    };
    let h = tokio::spawn(fut);
    let abort = h.abort_handle();
    let t0 = std::time::Instant::now();
    let r = tokio::time::timeout(limit, h).await;
    if std::env::var("C17_TIMING").is_ok() {
        eprintln!("{:.3} {}", t0.elapsed().as_secs_f64(), line);
    }
    match r {
        Ok(Ok(s)) => s,
        Ok(Err(e)) => {
            if e.is_panic() {
                let p = e.into_panic();
                let msg = if let Some(s) = p.downcast_ref::<&str>() {
                    s.to_string()
                } else if let Some(s) = p.downcast_ref::<String>() {
                    s.clone()
                } else {
                    "?".to_string()
                };
                format!("panic {}", msg.replace('\n', " "))
            } else {
                "err cancelled-harness".into()
            }
        }
        Err(_) => {
            abort.abort();
            "err timeout-harness".into()
        }
    }
}

fn main() {
    std::panic::set_hook(Box::new(|_| {}));
    let lines: Vec<String> = std::io::stdin().lock().lines().map(|l| l.expect("stdin")).collect();
    let rt = tokio::runtime::Builder::new_current_thread().enable_all().build().unwrap();
    let conc: usize = std::env::var("C17_CONCURRENCY").ok().and_then(|s| s.parse().ok()).unwrap_or(4);
    let outs: Vec<String> = rt.block_on(async move {
        use futures::stream::StreamExt;
        let certs = Arc::new(build_net());
        futures::stream::iter(lines.into_iter().map(|l| run_case(certs.clone(), l)))
            .buffered(conc)
            .collect()
            .await
    });
    let stdout = std::io::stdout();
    let mut out = std::io::BufWriter::new(stdout.lock());
    for o in outs {
        writeln!(out, "{}", o).unwrap();
    }
    out.flush().unwrap();
}
