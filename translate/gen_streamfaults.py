"""Source facts for C07 (stream-scoped faults stay stream-scoped).

Read from the working tree on every run:
 * h3/src/error/connection_error_creators.rs, `handle_quic_stream_error`: for each of the three arms
   (ConnectionErrorIncoming / StreamTerminated / Unknown) whether it stores to the shared error cell
   (`set_conn_error*` / `handle_connection_error*`) and which StreamError variant it builds;
   `handle_frame_stream_error_on_request_stream`: which FrameStreamError arm is routed where and the code of
   the UnexpectedEnd arm; `handle_connection_error_on_stream` stores (set_conn_error_and_wake).
 * h3/src/server/request.rs: the `Ok(None)` arm of accept_with_frame (reset call + code, StreamError code, no store),
   the `Ok(Some(_))` arm code, the QPACK failure code, the 431 arm of resolve (status, no store/close, error variant),
   the malformed arm (code, stop_stream, stop_sending).
 * h3/src/client/stream.rs recv_response: HeaderTooLong arm (stop_sending code, variant), the two malformed arms
   (stop_sending code, StreamError code), the FIN-before-HEADERS code, first-frame-not-headers code, QPACK failure code.
 * h3/src/connection.rs: poll_recv_data unexpected-frame code; send_data / finish map errors through
   handle_quic_stream_error (and nothing else).
"""
import re
from rustsrc import Source, AnchorLost, match_close

NAME = 'GenStreamFaults'

STORE_RE = re.compile(r'\b(set_conn_error_and_wake|set_conn_error|handle_connection_error_on_stream|handle_connection_error|set_closing|set_settings)\b')
CLOSE_RE = re.compile(r'\b(close_connection|close_if_needed|\.close\()')
VARIANTS = ['RemoteTerminate', 'ConnectionError', 'Undefined', 'StreamError', 'HeaderTooBig', 'RemoteClosing']
STATUS = {'REQUEST_HEADER_FIELDS_TOO_LARGE': 431, 'BAD_REQUEST': 400, 'INTERNAL_SERVER_ERROR': 500, 'OK': 200,
          'PAYLOAD_TOO_LARGE': 413, 'URI_TOO_LONG': 414}


def arms_of(body, head_re):
    """split a match body into {arm-name: text} at the occurrences of head_re (which has one group = arm name)"""
    ms = list(re.finditer(head_re, body))
    out = {}
    for i, m in enumerate(ms):
        end = ms[i + 1].start() if i + 1 < len(ms) else len(body)
        out.setdefault(m.group(1), body[m.start():end])
    return out


def variant_in(text):
    m = re.search(r'StreamError::(\w+)', text)
    if not m or m.group(1) not in VARIANTS:
        raise AnchorLost('StreamError variant in: ' + text.strip()[:60])
    return m.group(1)


def codes_in(text):
    return re.findall(r'Code::(\w+)', text)


def one_code(text, what):
    c = codes_in(text)
    if not c:
        raise AnchorLost('no Code:: in ' + what)
    return c[0]


def extract(repo):
    f, spans = {}, {}
    # ---------------- connection_error_creators.rs
    src = Source(repo + '/h3/src/error/connection_error_creators.rs')
    body, spans['handle_quic_stream_error'] = src.fn_body('handle_quic_stream_error')
    arms = arms_of(body, r'StreamErrorIncoming::(ConnectionErrorIncoming|StreamTerminated|Unknown)\b[^=]*=>')
    for a in ('ConnectionErrorIncoming', 'StreamTerminated', 'Unknown'):
        if a not in arms:
            raise AnchorLost('handle_quic_stream_error arm ' + a)
        f['hq_%s_stores' % a] = bool(STORE_RE.search(arms[a]))
        f['hq_%s_variant' % a] = variant_in(arms[a])
    m = re.search(r'StreamErrorIncoming::StreamTerminated\s*\{\s*(\w+)\s*\}', arms['StreamTerminated'])
    if not m:
        raise AnchorLost('StreamTerminated binder')
    binder = m.group(1)
    # the code handed to the application: Code::from(<binder>) (the peer's code) or a constant
    if re.search(r'code:\s*Code::from\(\s*%s\s*\)' % binder, arms['StreamTerminated']) or \
       re.search(r'code:\s*%s\.into\(\)' % binder, arms['StreamTerminated']):
        f['hq_term_code_is_peers'] = True
        f['hq_term_const'] = 'H3_NO_ERROR'
    else:
        f['hq_term_code_is_peers'] = False
        c = codes_in(arms['StreamTerminated'])
        f['hq_term_const'] = c[0] if c else 'H3_INTERNAL_ERROR'
    # the arm must be ONE expression: the StreamError value itself - no statement, branch or other call
    arm = arms['StreamTerminated']
    arm_body = arm[arm.index('=>') + 2:]
    arm_body = re.sub(r'StreamErrorIncoming::\w+.*$', '', arm_body, flags=re.S).strip().rstrip(',').strip()
    norm = re.sub(r'\s+', '', arm_body)
    if norm.startswith('{') and norm.endswith('}'):
        norm = norm[1:-1]                 # a block around the single expression is the same arm
    f['hq_term_pure'] = bool(re.fullmatch(r'StreamError::RemoteTerminate\{code:Code::from\(%s\),?\}' % binder, norm))
    f['hq_term_branches'] = bool(re.search(r'\b(if|match|while|for|loop|let)\b|self\.|;', arm_body))
    una = arms['Unknown']
    una_body = re.sub(r'\s+', '', una[una.index('=>') + 2:]).rstrip('}').rstrip(',')
    f['hq_unknown_pure'] = bool(re.fullmatch(r'\{?StreamError::Undefined\(\w+\)\}?,?\}?', una_body)) and not STORE_RE.search(una)
    body, spans['handle_connection_error_on_stream'] = src.fn_body('handle_connection_error_on_stream')
    f['hcs_stores'] = bool(re.search(r'\bset_conn_error_and_wake\b|\bset_conn_error\b', body))
    body, spans['handle_frame_stream_error_on_request_stream'] = src.fn_body('handle_frame_stream_error_on_request_stream', nth=1)
    arms = arms_of(body, r'FrameStreamError::(Quic|Proto|UnexpectedEnd)\b[^=]*=>')
    for a in ('Quic', 'Proto', 'UnexpectedEnd'):
        if a not in arms:
            raise AnchorLost('frame stream error arm ' + a)
    f['fse_quic_via_hq'] = bool(re.search(r'handle_quic_stream_error', arms['Quic'])) and not STORE_RE.search(arms['Quic'])
    f['fse_end_code'] = one_code(arms['UnexpectedEnd'], 'UnexpectedEnd arm')
    f['fse_end_stores'] = bool(STORE_RE.search(arms['UnexpectedEnd']))

    # ---------------- server/request.rs
    src = Source(repo + '/h3/src/server/request.rs')
    body, spans['accept_with_frame'] = src.fn_body('accept_with_frame')
    # arms of `match frame`
    i = body.find('match frame')
    if i < 0:
        raise AnchorLost('match frame')
    j = body.index('{', i)
    mb = body[j + 1:match_close(body, j)]
    arms = arms_of(mb, r'(Ok\(Some\(Frame::Headers\(\w+\)\)\)|Ok\(None\)|Ok\(Some\(_\)\)|Err\(\w+\))\s*=>')
    for a in ('Ok(None)', 'Ok(Some(_))'):
        if a not in arms:
            raise AnchorLost('accept_with_frame arm ' + a)
    inc = arms['Ok(None)']
    m = re.search(r'\.reset\(\s*Code::(\w+)\.value\(\)\s*\)', inc)
    f['srv_incomplete_reset'] = m.group(1) if m else None
    m = re.search(r'StreamError::StreamError\s*\{\s*code:\s*Code::(\w+)', inc)
    if not m:
        raise AnchorLost('incomplete arm StreamError')
    f['srv_incomplete_code'] = m.group(1)
    f['srv_incomplete_stores'] = bool(STORE_RE.search(inc)) or bool(CLOSE_RE.search(inc))
    f['srv_first_not_headers_code'] = one_code(arms['Ok(Some(_))'], 'first frame not headers')
    f['srv_first_not_headers_stores'] = bool(STORE_RE.search(arms['Ok(Some(_))']))
    rest = body[match_close(body, j):]
    m = re.search(r'Err\(_e\)\s*=>\s*\{(.*?)\n\s*\}\s*\n\s*\};', rest, re.S)
    qp = m.group(1) if m else rest
    cs = [c for c in codes_in(qp) if c.startswith('QPACK')]
    if not cs:
        raise AnchorLost('server qpack failure code')
    f['srv_qpack_code'] = cs[0]
    if not re.search(r'DecoderError::HeaderTooLong\(\s*(\w+)\s*\)\s*\)\s*=>\s*Err\(\s*\1\s*\)', rest):
        raise AnchorLost('HeaderTooLong kept for the 431 path')
    body, spans['resolve'] = src.fn_body('resolve')
    i = body.find('Err(cancel_size)')
    if i < 0:
        raise AnchorLost('431 arm')
    j = body.index('{', i)
    big = body[j + 1:match_close(body, j)]
    m = re.search(r'StatusCode::(\w+)', big)
    if not m or m.group(1) not in STATUS:
        raise AnchorLost('431 status')
    f['srv_toobig_status'] = STATUS[m.group(1)]
    f['srv_toobig_sends_response'] = bool(re.search(r'\.send_response\(', big))
    f['srv_toobig_stores'] = bool(STORE_RE.search(big)) or bool(CLOSE_RE.search(big))
    f['srv_toobig_variant'] = variant_in(big)
    i = body.find('Err(err) =>', body.find('let (method, uri, protocol, headers)'))
    if i < 0:
        raise AnchorLost('malformed arm')
    j = body.index('{', i)
    mal = body[j + 1:match_close(body, j)]
    m = re.search(r'let\s+error_code\s*=\s*Code::(\w+)', mal)
    if not m:
        raise AnchorLost('malformed error_code')
    f['srv_malformed_code'] = m.group(1)
    f['srv_malformed_resets'] = bool(re.search(r'\.stop_stream\(\s*error_code\s*\)', mal))
    f['srv_malformed_stops'] = bool(re.search(r'\.stop_sending\(\s*error_code\s*\)', mal))
    f['srv_malformed_stores'] = bool(STORE_RE.search(mal)) or bool(CLOSE_RE.search(mal))
    if not re.search(r'StreamError::StreamError\s*\{\s*code:\s*error_code', mal):
        raise AnchorLost('malformed arm StreamError code')

    # ---------------- client/stream.rs
    src = Source(repo + '/h3/src/client/stream.rs')
    body, spans['recv_response'] = src.fn_body('recv_response')
    i = body.find('.ok_or_else(')
    if i < 0:
        raise AnchorLost('client FIN-before-headers arm')
    j = body.index('(', i)
    fin = body[j:match_close(body, j, '(', ')')]
    f['cli_fin_code'] = one_code(fin, 'client fin arm')
    f['cli_fin_stores'] = bool(STORE_RE.search(fin))
    i = body.find('DecoderError::HeaderTooLong')
    j = body.index('{', i)
    big = body[j + 1:match_close(body, j)]
    m = re.search(r'stop_sending\(\s*Code::(\w+)\s*\)', big)
    f['cli_toobig_stop'] = m.group(1) if m else None
    f['cli_toobig_variant'] = variant_in(big)
    f['cli_toobig_stores'] = bool(STORE_RE.search(big)) or bool(CLOSE_RE.search(big))
    after = body[match_close(body, j):]
    cs = [c for c in codes_in(after) if c.startswith('QPACK')]
    if not cs:
        raise AnchorLost('client qpack failure code')
    f['cli_qpack_code'] = cs[0]
    i = after.find('} else {')
    j = after.index('{', i + 2)
    nh = after[j + 1:match_close(after, j)]
    f['cli_first_not_headers_code'] = one_code(nh, 'client first frame not headers')
    tail = after[match_close(after, j):]
    mals = re.findall(r'\.map_err\(\|_e\|\s*\{(.*?)\}\s*\)\?', tail, re.S)
    if len(mals) != 2:
        raise AnchorLost('client malformed arms (%d)' % len(mals))
    stops, errs = set(), set()
    for t in mals:
        m = re.search(r'stop_sending\(\s*Code::(\w+)\s*\)', t)
        stops.add(m.group(1) if m else None)
        m = re.search(r'StreamError::StreamError\s*\{\s*code:\s*Code::(\w+)', t)
        if not m:
            raise AnchorLost('client malformed StreamError')
        errs.add(m.group(1))
        if STORE_RE.search(t) or CLOSE_RE.search(t):
            errs.add('STORES')
    if len(stops) != 1 or len(errs) != 1:
        raise AnchorLost('client malformed arms disagree %s %s' % (stops, errs))
    f['cli_malformed_stop'] = stops.pop()
    f['cli_malformed_code'] = errs.pop()

    # ---------------- connection.rs
    src = Source(repo + '/h3/src/connection.rs')
    body, spans['poll_recv_data'] = src.fn_body('poll_recv_data')
    i = body.find('Ok(Some(other_frame))')
    if i < 0:
        raise AnchorLost('poll_recv_data other_frame arm')
    j = body.index('{', i)
    f['recv_unexpected_code'] = one_code(body[j:match_close(body, j)], 'poll_recv_data other frame')
    f['recv_err_via_fse'] = len(re.findall(r'handle_frame_stream_error_on_request_stream', body)) == 2
    # poll_recv_trailers: the frame-sequence sites, the QPACK failure, the size limit, the malformed arm
    body, spans['poll_recv_trailers'] = src.fn_body('poll_recv_trailers', after=src.text.index('pub struct RequestStream'))
    k = body.find('Header::try_from(fields)')
    if k < 0:
        raise AnchorLost('trailers Header::try_from')
    i = body.index('.map_err(', k)
    j = body.index('(', i)
    mal = body[j:match_close(body, j, '(', ')')]
    m = re.search(r'stop_sending\(\s*Code::(\w+)\s*\)', mal)
    f['trl_malformed_stop'] = m.group(1) if m else None
    f['trl_malformed_stores'] = bool(STORE_RE.search(mal)) or bool(CLOSE_RE.search(mal))
    if f['trl_malformed_stores']:
        f['trl_malformed_variant'] = 'ConnectionError'
        f['trl_malformed_code'] = one_code(re.sub(r'stop_sending\([^)]*\)', '', mal), 'trailers malformed arm')
    else:
        f['trl_malformed_variant'] = variant_in(mal)
        m = re.search(r'StreamError::StreamError\s*\{\s*code:\s*Code::(\w+)', mal)
        if not m:
            raise AnchorLost('trailers malformed StreamError code')
        f['trl_malformed_code'] = m.group(1)
    head = body[:k]
    i = head.find('DecoderError::HeaderTooLong')
    if i < 0:
        raise AnchorLost('trailers HeaderTooLong arm')
    j = head.index('{', i)
    big = head[j + 1:match_close(head, j)]
    f['trl_toobig_variant'] = variant_in(big)
    f['trl_toobig_stores'] = bool(STORE_RE.search(big)) or bool(CLOSE_RE.search(big))
    after = head[match_close(head, j):]
    cs = [c for c in codes_in(after) if c.startswith('QPACK')]
    if not cs:
        raise AnchorLost('trailers qpack failure code')
    f['trl_qpack_code'] = cs[0]
    seq = head[:i]
    sites = re.findall(r'handle_connection_error_on_stream\(\s*InternalConnectionError::new\(\s*Code::(\w+)', seq)
    if len(sites) != 2 or len(set(sites)) != 1:
        raise AnchorLost('trailers unexpected-frame sites %s' % sites)
    f['trl_unexpected_code'] = sites[0]
    f['trl_err_via_fse'] = len(re.findall(r'handle_frame_stream_error_on_request_stream', seq)) == 2
    f['trl_waits_for_end'] = bool(re.search(r'if\s*!\s*self\.stream\.is_eos\(\)', seq)) and \
        bool(re.search(r'self\.trailers\s*=\s*Some\(trailers\)', seq))
    # client wrapper: the cancel on HeaderTooBig
    csrc = Source(repo + '/h3/src/client/stream.rs')
    cb, spans['client_poll_recv_trailers'] = csrc.fn_body('poll_recv_trailers')
    m = re.search(r'StreamError::HeaderTooBig[^}]*\}[^{]*\{[^}]*stop_sending\(\s*Code::(\w+)\s*\)', cb, re.S)
    f['cli_trl_toobig_stop'] = m.group(1) if m else None
    b, spans['send_trailers'] = src.fn_body('send_trailers', after=src.text.index('pub struct RequestStream'))
    f['send_trailers_err_via_hq'] = bool(re.search(r'stream::write\([^;]*\)\s*\.await\s*\.map_err\(\|(\w+)\|\s*self\.handle_quic_stream_error\(\1\)\)', b, re.S))
    f['send_trailers_limit_cmp'] = bool(re.search(r'if\s+mem_size\s*>\s*max_mem_size', b))
    HQ = r'\.map_err\(\|(\w+)\|\s*self\.handle_quic_stream_error\(\1\)\)'   # any binder name
    for fn, want in (('send_data', 1), ('finish', 2)):
        b, spans[fn] = src.fn_body(fn, after=src.text.index('pub struct RequestStream'))
        # EVERY error mapping of the function has exactly the pass-through form, and nothing in it touches shared state
        n_all, n_hq = len(re.findall(r'\.map_err\(', b)), len(re.findall(HQ, b))
        f['%s_err_via_hq' % fn] = (n_all == n_hq == want) and not STORE_RE.search(b) and not CLOSE_RE.search(b)
    b = spans and src.fn_body('finish', after=src.text.index('pub struct RequestStream'))[0]
    m = re.search(r'if\s+self\.send_grease_frame\s*\{(.*?)self\.send_grease_frame\s*=\s*false\s*;\s*\}(.*)$', b, re.S)
    if not m:
        raise AnchorLost('finish: grease block')
    f['finish_grease_first'] = bool(re.search(r'stream::write\([^;]*Frame::Grease\)', m.group(1))) and \
        bool(re.search(r'poll_finish', m.group(2))) and not re.search(r'poll_finish', m.group(1))
    b2 = src.fn_body('send_trailers', after=src.text.index('pub struct RequestStream'))[0]
    # send_trailers: one encode failure site (a local encoder error: not peer-reachable) + one write
    f['send_trailers_maps'] = len(re.findall(r'\.map_err\(', b2)) == 2 and len(re.findall(HQ, b2)) == 1
    # every place in the request-path files that can store to the shared cell / set closing: a new site anywhere in them
    # (also in regions no arm-level fact reads) changes this list
    SITE = re.compile(r'\b(handle_connection_error_on_stream|set_conn_error_and_wake|set_conn_error|set_closing|handle_connection_error)\s*\(')
    counts = []
    for rel in ('server/request.rs', 'client/stream.rs', 'server/stream.rs', 'error/connection_error_creators.rs'):
        counts.append(len(SITE.findall(Source(repo + '/h3/src/' + rel).text)))
    csrc2 = Source(repo + '/h3/src/connection.rs')
    counts.append(len(SITE.findall(csrc2.text[csrc2.text.index('pub struct RequestStream'):])))
    ccon = Source(repo + '/h3/src/client/connection.rs')
    counts.append(len(SITE.findall(ccon.fn_body('send_request')[0])))
    f['site_counts'] = counts
    # whole bodies, comment-free and whitespace-free, only the fact sites (code / status names) masked: any other edit shows
    import hashlib
    def norm_body(text):
        t = re.sub(r'\s+', '', text)
        t = re.sub(r'Code::\w+', 'Code::_', t)
        t = re.sub(r'StatusCode::\w+', 'StatusCode::_', t)
        return int(hashlib.sha256(t.encode()).hexdigest()[:12], 16)
    rq = Source(repo + '/h3/src/server/request.rs')
    cs_ = Source(repo + '/h3/src/client/stream.rs')
    ss_ = Source(repo + '/h3/src/server/stream.rs')
    cc_ = Source(repo + '/h3/src/error/connection_error_creators.rs')
    after = csrc2.text.index('pub struct RequestStream')
    f['body_hashes'] = [
        norm_body(rq.fn_body('accept_with_frame')[0]), norm_body(rq.fn_body('resolve')[0]),
        norm_body(cs_.fn_body('recv_response')[0]), norm_body(cs_.fn_body('poll_recv_trailers')[0]),
        norm_body(csrc2.fn_body('poll_recv_trailers', after=after)[0]), norm_body(csrc2.fn_body('poll_recv_data', after=after)[0]),
        norm_body(csrc2.fn_body('finish', after=after)[0]), norm_body(csrc2.fn_body('send_data', after=after)[0]),
        norm_body(csrc2.fn_body('send_trailers', after=after)[0]),
        norm_body(cc_.fn_body('handle_quic_stream_error')[0]), norm_body(cc_.fn_body('handle_connection_error_on_stream')[0]),
        norm_body(ss_.fn_body('send_response')[0]), norm_body(ccon.fn_body('send_request')[0]),
    ]
    return f, spans


def b(x):
    return 'true' if x else 'false'


def optcode(x):
    return 'Some %s' % x if x else 'None'


def render(f):
    L = ['(* GENERATED by translate/gen_streamfaults.py from h3/src/error/connection_error_creators.rs,',
         '   h3/src/server/request.rs, h3/src/client/stream.rs, h3/src/connection.rs *)',
         'From H3V Require Import Base.Bytes Gen.GenCodes.',
         '(* StreamError variants as tags *)',
         'Inductive sevariant := VRemoteTerminate | VConnectionError | VUndefined | VStreamError | VHeaderTooBig | VRemoteClosing.',
         '(* CloseStream::handle_quic_stream_error, per arm: stores to the shared cell?  variant built *)']
    for a, n in (('ConnectionErrorIncoming', 'connerr'), ('StreamTerminated', 'term'), ('Unknown', 'unknown')):
        L.append('Definition hq_%s_stores : bool := %s.' % (n, b(f['hq_%s_stores' % a])))
        L.append('Definition hq_%s_variant : sevariant := V%s.' % (n, f['hq_%s_variant' % a]))
    L += ['Definition hq_term_code_is_peers : bool := %s.' % b(f['hq_term_code_is_peers']),
          'Definition hq_term_const : N := %s.' % f['hq_term_const'],
          'Definition hq_term_pure : bool := %s.' % b(f['hq_term_pure'] and not f['hq_term_branches']),
          'Definition hq_unknown_pure : bool := %s.' % b(f['hq_unknown_pure']),
          'Definition hcs_stores : bool := %s.' % b(f['hcs_stores']),
          '(* handle_frame_stream_error_on_request_stream *)',
          'Definition fse_quic_via_hq : bool := %s.' % b(f['fse_quic_via_hq']),
          'Definition fse_end_code : N := %s.' % f['fse_end_code'],
          'Definition fse_end_stores : bool := %s.' % b(f['fse_end_stores']),
          '(* server/request.rs accept_with_frame + resolve *)',
          'Definition srv_incomplete_reset : option N := %s.' % optcode(f['srv_incomplete_reset']),
          'Definition srv_incomplete_code : N := %s.' % f['srv_incomplete_code'],
          'Definition srv_incomplete_stores : bool := %s.' % b(f['srv_incomplete_stores']),
          'Definition srv_first_not_headers_code : N := %s.' % f['srv_first_not_headers_code'],
          'Definition srv_first_not_headers_stores : bool := %s.' % b(f['srv_first_not_headers_stores']),
          'Definition srv_qpack_code : N := %s.' % f['srv_qpack_code'],
          'Definition srv_toobig_status : N := %d.' % f['srv_toobig_status'],
          'Definition srv_toobig_sends_response : bool := %s.' % b(f['srv_toobig_sends_response']),
          'Definition srv_toobig_stores : bool := %s.' % b(f['srv_toobig_stores']),
          'Definition srv_toobig_variant : sevariant := V%s.' % f['srv_toobig_variant'],
          'Definition srv_malformed_code : N := %s.' % f['srv_malformed_code'],
          'Definition srv_malformed_resets : bool := %s.' % b(f['srv_malformed_resets']),
          'Definition srv_malformed_stops : bool := %s.' % b(f['srv_malformed_stops']),
          'Definition srv_malformed_stores : bool := %s.' % b(f['srv_malformed_stores']),
          '(* client/stream.rs recv_response *)',
          'Definition cli_fin_code : N := %s.' % f['cli_fin_code'],
          'Definition cli_fin_stores : bool := %s.' % b(f['cli_fin_stores']),
          'Definition cli_toobig_stop : option N := %s.' % optcode(f['cli_toobig_stop']),
          'Definition cli_toobig_variant : sevariant := V%s.' % f['cli_toobig_variant'],
          'Definition cli_toobig_stores : bool := %s.' % b(f['cli_toobig_stores']),
          'Definition cli_qpack_code : N := %s.' % f['cli_qpack_code'],
          'Definition cli_first_not_headers_code : N := %s.' % f['cli_first_not_headers_code'],
          'Definition cli_malformed_stop : option N := %s.' % optcode(f['cli_malformed_stop']),
          'Definition cli_malformed_code : N := %s.' % (f['cli_malformed_code'] if f['cli_malformed_code'] != 'STORES' else 'H3_INTERNAL_ERROR'),
          'Definition cli_malformed_stores : bool := %s.' % b(f['cli_malformed_code'] == 'STORES'),
          '(* connection.rs RequestStream *)',
          'Definition recv_unexpected_code : N := %s.' % f['recv_unexpected_code'],
          'Definition recv_err_via_fse : bool := %s.' % b(f['recv_err_via_fse']),
          '(* connection.rs RequestStream::poll_recv_trailers / send_trailers, client wrapper *)',
          'Definition trl_malformed_code : N := %s.' % f['trl_malformed_code'],
          'Definition trl_malformed_stop : option N := %s.' % optcode(f['trl_malformed_stop']),
          'Definition trl_malformed_stores : bool := %s.' % b(f['trl_malformed_stores']),
          'Definition trl_malformed_variant : sevariant := V%s.' % f['trl_malformed_variant'],
          'Definition trl_toobig_variant : sevariant := V%s.' % f['trl_toobig_variant'],
          'Definition trl_toobig_stores : bool := %s.' % b(f['trl_toobig_stores']),
          'Definition trl_qpack_code : N := %s.' % f['trl_qpack_code'],
          'Definition trl_unexpected_code : N := %s.' % f['trl_unexpected_code'],
          'Definition trl_err_via_fse : bool := %s.' % b(f['trl_err_via_fse']),
          'Definition trl_waits_for_end : bool := %s.' % b(f['trl_waits_for_end']),
          'Definition cli_trl_toobig_stop : option N := %s.' % optcode(f['cli_trl_toobig_stop']),
          'Definition send_trailers_err_via_hq : bool := %s.' % b(f['send_trailers_err_via_hq']),
          'Definition send_trailers_limit_cmp : bool := %s.' % b(f['send_trailers_limit_cmp']),
          'Definition send_data_err_via_hq : bool := %s.' % b(f['send_data_err_via_hq']),
          'Definition finish_err_via_hq : bool := %s.' % b(f['finish_err_via_hq']),
          'Definition finish_grease_first : bool := %s.' % b(f['finish_grease_first']),
          'Definition send_trailers_maps : bool := %s.' % b(f['send_trailers_maps']),
          '(* store / closing call sites per file: server/request.rs, client/stream.rs, server/stream.rs,',
          '   error/connection_error_creators.rs, connection.rs (RequestStream part), client/connection.rs send_request *)',
          'Definition site_counts : list N := [%s].' % '; '.join(str(x) for x in f['site_counts']),
          '(* whole-body digests (comments, whitespace, code and status names masked): accept_with_frame, resolve, recv_response,',
          '   client poll_recv_trailers, poll_recv_trailers, poll_recv_data, finish, send_data, send_trailers, handle_quic_stream_error,',
          '   handle_connection_error_on_stream, send_response, send_request *)',
          'Definition body_hashes : list N := [%s].' % '; '.join(str(x) for x in f['body_hashes'])]
    return '\n'.join(L) + '\n'
