#!/usr/bin/env python3
"""Renders coq/Spec/PanicReview.v from corpus/C06/panic_sites_reviewed.json (the reviewed classification).

This is an AUTHORING tool, run by hand after a review:  python3 translate/mk_panicreview.py
It is NOT run by ./check: Spec/PanicReview.v is a committed, reviewed artefact, so that a new or moved panic
site in the Rust source (coq/Gen/GenPanicSites.v is regenerated on every run) is not silently accepted.
`--todo` lists the sites of the working tree that the table does not classify, and the stale rows.
"""
import json
import os
import sys

ROOT = os.path.dirname(os.path.dirname(os.path.abspath(__file__)))
sys.path.insert(0, os.path.join(ROOT, 'translate'))
JSON = os.path.join(ROOT, 'corpus', 'C06', 'panic_sites_reviewed.json')
OUT = os.path.join(ROOT, 'coq', 'Spec', 'PanicReview.v')
VERDICT = {'modelled': 'Modelled', 'guarded': 'Guarded', 'not-peer-reachable': 'NotPeerReachable'}


def coq_str(s):
    return '"' + s.replace('"', '""') + '"'


def load():
    return json.load(open(JSON))['sites']


def load_prints():
    return json.load(open(JSON)).get('functions', [])


def render(sites, prints):
    L = ['(* RENDERED by translate/mk_panicreview.py from corpus/C06/panic_sites_reviewed.json -- reviewed by hand.',
         '   One row per panic-capable site of Gen/GenPanicSites.v: modelled (a model Panic site / model function',
         '   represents it), guarded (unreachable by the preceding check named in the text) or not peer-reachable',
         '   (send path, local API misuse, constants).  Keyed on file + fn + kind + ordinal, never on line numbers. *)',
         'From Coq Require Import String.',
         'From H3V Require Import Base.Bytes Gen.GenPanicSites.',
         'Inductive verdict := Modelled | Guarded | NotPeerReachable.',
         'Record review := mk_review { r_file : string; r_fn : string; r_kind : pkind; r_ord : N; r_verdict : verdict; r_why : string }.',
         'Local Open Scope string_scope.',
         'Definition table : list review := [']
    for n, s in enumerate(sites):
        L.append('  mk_review %s %s K_%s %d %s\n    %s%s' % (
            coq_str(s['file']), coq_str(s['fn']), s['kind'], s['ord'], VERDICT[s['verdict']], coq_str(s['why']),
            ';' if n + 1 < len(sites) else ''))
    L.append('].')
    L.append('(* the fingerprint each owning function had when its rows were reviewed *)')
    L.append('Definition print_table : list fn_print := [')
    for n, q in enumerate(prints):
        L.append('  mk_print %s %s %d%s' % (coq_str(q['file']), coq_str(q['fn']), q['print'], ';' if n + 1 < len(prints) else ''))
    L.append('].')
    L.append('''
Definition print_reviewed (q : fn_print) : bool :=
  existsb (fun r => String.eqb (p_file r) (p_file q) && String.eqb (p_fn r) (p_fn q) && N.eqb (p_hash r) (p_hash q)) print_table.

Definition pkind_eqb (a b : pkind) : bool :=
  match a, b with
  | K_unwrap, K_unwrap | K_expect, K_expect | K_panic, K_panic | K_unreachable, K_unreachable
  | K_assert, K_assert | K_debug_assert, K_debug_assert | K_todo, K_todo | K_index, K_index
  | K_index_const, K_index_const | K_buf_advance, K_buf_advance | K_buf_copy, K_buf_copy
  | K_buf_get, K_buf_get | K_split, K_split | K_arith, K_arith | K_shift, K_shift | K_cast, K_cast
  | K_headermap, K_headermap | K_capacity, K_capacity | K_buf_put, K_buf_put | K_ilog, K_ilog
  | K_slice_move, K_slice_move | K_from_static, K_from_static => true
  | _, _ => false
  end.

Definition covers (r : review) (s : site) : bool :=
  String.eqb (r_file r) (s_file s) && String.eqb (r_fn r) (s_fn s) && pkind_eqb (r_kind r) (s_kind s) && N.eqb (r_ord r) (s_ord s).

(* a site is reviewed when exactly this (file, fn, kind, ordinal) has a row *)
Definition reviewed (s : site) : bool := existsb (fun r => covers r s) table.

(* rows of the table that no longer match any site (informational; a removed site cannot panic) *)
Definition stale (r : review) : bool := negb (existsb (fun s => covers r s) sites).

Definition count_verdict (v : verdict) : N :=
  N.of_nat (length (filter (fun r => match r_verdict r, v with
                                     | Modelled, Modelled | Guarded, Guarded | NotPeerReachable, NotPeerReachable => true
                                     | _, _ => false end) table)).
''')
    return '\n'.join(L)


def todo(repo):
    import gen_panicsites as g
    f, _ = g.extract(repo)
    have = {(s['file'], s['fn'], s['kind'], s['ord']) for s in load()}
    cur = set(f['rows'])
    new = sorted(cur - have)
    gone = sorted(have - cur)
    for r in new:
        print('NEW   %s:%s  %s  %s #%d' % (r[0], f['lines']['|'.join([r[0], r[1], r[2], str(r[3])])], r[1], r[2], r[3]))
    for r in gone:
        print('STALE %s  %s  %s #%d' % r)
    hp = {(q['file'], q['fn']): q['print'] for q in load_prints()}
    for (a, b, c) in f['prints']:
        if hp.get((a, b)) != c:
            print('CHANGED-FN %s:%s  %s  (every row of this function must be reviewed again)' % (a, f['print_lines'][a + '|' + b], b))
    return new, gone


if __name__ == '__main__':
    if '--todo' in sys.argv:
        new, gone = todo(os.environ.get('VERIF_REPO', '/repo'))
        print('%d unclassified, %d stale' % (len(new), len(gone)))
    elif '--accept-prints' in sys.argv:
        # AFTER re-reviewing the rows of the functions listed by --todo: record their current fingerprints
        import gen_panicsites as g
        f, _ = g.extract(os.environ.get('VERIF_REPO', '/repo'))
        d = json.load(open(JSON))
        d['functions'] = [{'file': a, 'fn': b, 'print': c} for (a, b, c) in f['prints']]
        json.dump(d, open(JSON, 'w'), indent=0)
        open(OUT, 'w').write(render(d['sites'], d['functions']))
        print('accepted %d function fingerprints; wrote %s' % (len(d['functions']), OUT))
    else:
        open(OUT, 'w').write(render(load(), load_prints()))
        print('wrote', OUT)
