"""Source facts for C08 / C09: the decision points of graceful shutdown.

h3/src/server/connection.rs   accept, shutdown, poll_accept_request_stream_internal, poll_requests_completion,
                              create_resolver_internal
h3/src/server/request.rs      accept_with_frame (where the RequestEnd handed to the RequestStream comes from)
h3/src/server/stream.rs       split (both halves carry the RequestEnd), Drop for RequestEnd
h3/src/connection.rs          ConnectionInner::shutdown (monotone guard), process_goaway (ordering check)
h3/src/client/connection.rs   poll_close (is_request check, process_goaway call), send_request (closing test first)
h3/src/error/connection_error_creators.rs  check_peer_connection_closing

Everything is emitted as data (operators, addends, booleans "this statement is present", codes); the Coq
models Model/Goaway.v and Model/Ongoing.v are parameterised by these values.  A statement that may be removed by
an edit is reported as `false`, not as a lost anchor, so that the model follows the edit and the theorems break."""
import re
from rustsrc import Source, AnchorLost, parse_int

NAME = 'GenGoaway'

OPS = {'<': 'CLt', '<=': 'CLe', '>': 'CGt', '>=': 'CGe', '==': 'CEq', '!=': 'CNe'}


def op_of(tok, where):
    if tok not in OPS:
        raise AnchorLost('operator %r at %s' % (tok, where))
    return OPS[tok]


def addends(expr, var, where):
    """`var + a + b ...` -> (adds_n, constant) where the terms are `max_requests` or integer literals."""
    terms = [t.strip() for t in expr.split('+')]
    if terms[0] != var:
        raise AnchorLost('%s: expression does not start with %s: %s' % (where, var, expr))
    adds_n, const = 0, 0
    for t in terms[1:]:
        if t == 'max_requests':
            adds_n += 1
        else:
            try:
                const += parse_int(t)
            except ValueError:
                raise AnchorLost('%s: unknown addend %r' % (where, t))
    return adds_n, const


def extract(repo):
    f, spans = {}, {}
    # ------------------------------------------------------------------ server/connection.rs
    sc = Source(repo + '/h3/src/server/connection.rs')
    body, spans['server accept'] = sc.fn_body('accept')
    m = re.search(r'None\s*=>\s*\{\s*(.*?)\s*return\s+Ok\(None\)\s*;\s*\}', body, re.S)
    if not m:
        raise AnchorLost('accept: None arm')
    arm = re.sub(r'\s+', '', m.group(1))
    k = re.fullmatch(r'self\.shutdown\((\d+)\)\.await\?;', arm)
    g = re.fullmatch(r'ifself\.sent_closing\.is_none\(\)\{self\.shutdown\((\d+)\)\.await\?;\}', arm)
    if k:
        f['accept_none_shutdown'], f['accept_none_only_if_unsent'] = parse_int(k.group(1)), False
    elif g:
        f['accept_none_shutdown'], f['accept_none_only_if_unsent'] = parse_int(g.group(1)), True
    elif arm == '':
        f['accept_none_shutdown'], f['accept_none_only_if_unsent'] = None, False
    else:
        raise AnchorLost('accept: statements of the None arm: ' + arm)
    if not re.search(r'Some\(s\)\s*=>\s*FrameStream::new', body) or 'create_resolver_internal' not in body:
        raise AnchorLost('accept: Some arm')

    body, spans['create_resolver_internal'] = sc.fn_body('create_resolver_internal')
    f['end_created_at_accept'] = bool(re.search(r'request_end\s*:\s*Arc::new\(\s*RequestEnd\s*\{', body))

    body, spans['server shutdown'] = sc.fn_body('shutdown')
    m = re.search(r'\.map\(\s*\|\s*id\s*\|\s*([^)]*?)\)\s*\.unwrap_or\(\s*([^)]*?)\s*\)\s*;', body)
    if not m:
        raise AnchorLost('shutdown: max_id expression')
    f['some_adds_n'], f['some_const'] = addends(m.group(1), 'id', 'shutdown/map')
    f['none_adds_n'], f['none_const'] = addends(m.group(2), 'StreamId::FIRST_REQUEST', 'shutdown/unwrap_or')
    if not re.search(r'self\.inner\.shutdown\(\s*&mut\s+self\.sent_closing\s*,\s*max_id\s*\)', body):
        raise AnchorLost('shutdown: inner.shutdown call')

    body, spans['poll_accept_request_stream_internal'] = sc.fn_body('poll_accept_request_stream_internal')
    if not re.search(r'let\s+_\s*=\s*self\.poll_control\(cx\)\?\s*;\s*let\s+_\s*=\s*self\.poll_requests_completion\(cx\)\s*;', body):
        raise AnchorLost('poll_accept: prologue (poll_control, poll_requests_completion)')
    m = re.search(r'Poll::Pending\s*=>\s*\{\s*let\s+done\s*=\s*if\s+conn\.is_pending\(\)\s*\{\s*(.*?)\s*\}\s*else', body, re.S)
    if not m:
        raise AnchorLost('poll_accept: pending arm')
    cond = re.sub(r'\s+', '', m.group(1))
    if cond == 'self.recv_closing.is_some()&&self.poll_requests_completion(cx).is_ready()':
        f['pending_needs_recv_closing'] = True
    elif cond == 'self.poll_requests_completion(cx).is_ready()':
        f['pending_needs_recv_closing'] = False
    else:
        raise AnchorLost('poll_accept: pending condition ' + cond)
    m = re.search(r'if\s+let\s+Some\(max_id\)\s*=\s*self\.sent_closing\s*\{\s*if\s+s\.send_id\(\)\s*(\S+)\s*max_id\s*\{(.*?)continue\s*;', body, re.S)
    if m:
        f['reject_present'] = True
        f['reject_cmp'] = op_of(m.group(1), 'reject test')
        rb = m.group(2)
        st = re.search(r's\.stop_sending\(\s*Code::(\w+)\.value\(\)\s*\)', rb)
        rs = re.search(r's\.reset\(\s*Code::(\w+)\.value\(\)\s*\)', rb)
        f['reject_stop'] = st.group(1) if st else None
        f['reject_reset'] = rs.group(1) if rs else None
        f['reject_none_if_idle'] = bool(re.search(r'if\s+self\.poll_requests_completion\(cx\)\.is_ready\(\)\s*\{\s*break\s+Poll::Ready\(Ok\(None\)\)', rb))
    else:
        f['reject_present'] = False
        f['reject_cmp'] = 'CGe'
        f['reject_stop'] = f['reject_reset'] = None
        f['reject_none_if_idle'] = False
    # the accepting tail of the Ready arm: local lets are resolved, then WHAT is stored in last_accepted_stream
    # and WHAT is inserted into ongoing_streams are classified (a rewrite that keeps both keeps the facts)
    tail_at = body.rfind('continue;')
    tail = body[tail_at:] if tail_at >= 0 else body
    lets = {}
    for lm in re.finditer(r'let\s+(\w+)\s*=\s*([^;]+);', tail):
        lets[lm.group(1)] = re.sub(r'\s+', '', lm.group(2))

    def arg_of(prefix):
        i = tail.find(prefix)
        if i < 0:
            return None
        j = i + len(prefix) - 1
        from rustsrc import match_close
        k2 = match_close(tail, j, '(', ')')
        e = re.sub(r'\s+', '', tail[j + 1:k2])
        e = re.sub(r',\)', ')', e).rstrip(',')
        return lets.get(e, e)

    MAXF = ('self.last_accepted_stream.map_or(s.send_id(),|last|last.max(s.send_id()))',
            'self.last_accepted_stream.map_or(s.send_id(),|last|s.send_id().max(last))',
            'self.last_accepted_stream.map_or(s.send_id(),|last|std::cmp::max(last,s.send_id()))')

    def classify(e, where):
        if e == 's.send_id()':
            return 'stream'
        if e in MAXF:
            return 'max'
        raise AnchorLost('poll_accept: %s is %s' % (where, e))
    stored = arg_of('self.last_accepted_stream = Some(')
    if stored is None:
        raise AnchorLost('poll_accept: last_accepted_stream assignment')
    f['last_is_max'] = classify(stored, 'last_accepted_stream') == 'max'
    ins = arg_of('self.ongoing_streams.insert(')
    f['ongoing_insert'] = ins is not None
    f['ongoing_insert_is_stream'] = True if ins is None else classify(ins, 'ongoing_streams.insert argument') == 'stream'
    if not re.search(r'Poll::Ready\(Ok\(Some\(s\)\)\)', tail):
        raise AnchorLost('poll_accept: Ready(Ok(Some(s)))')

    body, spans['poll_requests_completion'] = sc.fn_body('poll_requests_completion')
    f['completion_removes'] = bool(re.search(r'Poll::Ready\(Some\(id\)\)\s*=>\s*\{\s*self\.ongoing_streams\.remove\(&id\)\s*;', body))
    if not re.search(r'Poll::Pending\s*=>\s*\{\s*if\s+self\.ongoing_streams\.is_empty\(\)\s*\{', body):
        raise AnchorLost('poll_requests_completion: emptiness test')

    # ------------------------------------------------------------------ server/request.rs, server/stream.rs
    rq = Source(repo + '/h3/src/server/request.rs')
    body, spans['accept_with_frame'] = rq.fn_body('accept_with_frame')
    m = re.search(r'let\s+request_stream\s*=\s*RequestStream\s*\{\s*request_end\s*:\s*(.*?),\s*inner\s*:', body, re.S)
    if not m:
        raise AnchorLost('accept_with_frame: RequestStream literal')
    src_end = re.sub(r'\s+', '', m.group(1))
    if src_end == 'self.request_end':
        f['end_moved_from_resolver'] = True
    elif src_end.startswith('Arc::new(RequestEnd{'):
        f['end_moved_from_resolver'] = False
    else:
        raise AnchorLost('accept_with_frame: request_end source ' + src_end)
    m = re.search(r'Ok\(Some\(_\)\)\s*=>\s*\{.*?InternalConnectionError::new\(\s*Code::(\w+)', body, re.S)
    if not m:
        raise AnchorLost('accept_with_frame: first-frame-not-headers arm')
    f['unexpected_code'] = m.group(1)
    m = re.search(r'Err\(_e\)\s*=>\s*\{.*?InternalConnectionError\s*\{\s*code\s*:\s*Code::(\w+)', body, re.S)
    if not m:
        raise AnchorLost('accept_with_frame: qpack failure arm')
    f['qpack_code'] = m.group(1)
    st = Source(repo + '/h3/src/server/stream.rs')
    body, spans['split'] = st.fn_body('split')
    f['split_shares_end'] = bool(re.search(r'request_end\s*:\s*self\.request_end\.clone\(\)', body)) and \
        bool(re.search(r'request_end\s*:\s*self\.request_end\s*,', body))
    blk, spans['Drop for RequestEnd'], _ = st.item_block(r'impl\s+Drop\s+for\s+RequestEnd\s*')
    f['end_drop_sends'] = bool(re.search(r'self\.request_end\.send\(\s*self\.stream_id\s*\)', blk))

    # ------------------------------------------------------------------ connection.rs
    cn = Source(repo + '/h3/src/connection.rs')
    body, spans['ConnectionInner::shutdown'] = cn.fn_body('shutdown')
    # F22: a failed connection reports its error instead of shutting down; must come before the monotone guard
    eg = re.search(r'if\s+let\s+Some\(err\)\s*=\s*self\.get_conn_error\(\)\s*\{\s*return\s+Err\(self\.handle_connection_error\(err\)\)\s*;\s*\}', body)
    mg = re.search(r'if\s+let\s+Some\(sent_id\)\s*=\s*sent_closing', body)
    f['shutdown_error_guard'] = bool(eg) and (mg is None or eg.start() < mg.start())
    if not eg and 'get_conn_error' in body:
        raise AnchorLost('ConnectionInner::shutdown: unrecognised use of get_conn_error')
    m = re.search(r'if\s+let\s+Some\(sent_id\)\s*=\s*sent_closing\s*\{\s*if\s+\*sent_id\s*(\S+)\s*max_id\s*\{\s*return\s+Ok\(\(\)\)\s*;', body)
    if m:
        f['guard_present'] = True
        f['guard_cmp'] = op_of(m.group(1), 'shutdown guard')
    else:
        f['guard_present'] = False
        f['guard_cmp'] = 'CLe'
    if not re.search(r'\*sent_closing\s*=\s*Some\(max_id\)\s*;', body) or \
            not re.search(r'stream::write\(\s*&mut\s+self\.control_send\s*,\s*Frame::Goaway\(\s*max_id\.into\(\)\s*\)\s*\)', body):
        raise AnchorLost('ConnectionInner::shutdown: store / write')
    f['shutdown_sets_closing'] = bool(re.search(r'self\.set_closing\(\)', body))
    # the identifier is recorded BEFORE the write is awaited (a write that is pending, fails or is abandoned
    # leaves the limit in force) - statement order, not just presence
    st_at = re.search(r'\*sent_closing\s*=\s*Some\(max_id\)\s*;', body).start()
    wr_at = re.search(r'stream::write\(\s*&mut\s+self\.control_send', body).start()
    f['store_before_write'] = st_at < wr_at

    body, spans['process_goaway'] = cn.fn_body('process_goaway')
    m = re.search(r'if\s+let\s+Some\(prev_id\)\s*=\s*recv_closing\.map\(VarInt::from\)\s*\{\s*if\s+prev_id\s*(\S+)\s*id\s*\{(.*?)\}\s*\}', body, re.S)
    if m:
        f['order_present'] = True
        f['order_cmp'] = op_of(m.group(1), 'process_goaway ordering')
        c = re.search(r'Code::(\w+)', m.group(2))
        if not c:
            raise AnchorLost('process_goaway: code')
        f['order_code'] = c.group(1)
    else:
        f['order_present'] = False
        f['order_cmp'] = 'CLt'
        f['order_code'] = 'H3_ID_ERROR'
    if not re.search(r'\*recv_closing\s*=\s*Some\(id\.into\(\)\)\s*;', body):
        raise AnchorLost('process_goaway: store')
    f['process_sets_closing'] = bool(re.search(r'self\.set_closing\(\)', body))

    # ------------------------------------------------------------------ client/connection.rs
    cl = Source(repo + '/h3/src/client/connection.rs')
    body, spans['client poll_close'] = cl.fn_body('poll_close')
    m = re.search(r'Ok\(Frame::Goaway\(id\)\)\s*=>\s*\{(.*?)\n\s*\}\s*\n\s*Ok\(frame\)', body, re.S)
    if not m:
        raise AnchorLost('poll_close: Goaway arm')
    arm = m.group(1)
    k = re.search(r'if\s+(!?)\s*StreamId::from\(id\)\.is_request\(\)\s*\{(.*?)\}\s*if\s+let', arm, re.S)
    if k:
        f['kind_present'] = True
        f['kind_negated'] = (k.group(1) == '!')
        c = re.search(r'Code::(\w+)', k.group(2))
        if not c:
            raise AnchorLost('poll_close: kind code')
        f['kind_code'] = c.group(1)
    else:
        f['kind_present'] = False
        f['kind_negated'] = True
        f['kind_code'] = 'H3_ID_ERROR'
    f['client_processes'] = bool(re.search(r'self\.inner\.process_goaway\(\s*&mut\s+self\.recv_closing\s*,\s*id\s*\)', arm))
    body, spans['send_request'] = cl.fn_body('send_request')
    a = body.find('check_peer_connection_closing')
    b = body.find('poll_open_bidi')
    if b < 0:
        raise AnchorLost('send_request: poll_open_bidi')
    f['closing_test_first'] = (0 <= a < b) and bool(re.search(
        r'if\s+let\s+Some\(error\)\s*=\s*self\.check_peer_connection_closing\(\)\s*\{\s*return\s+Err\(error\)\s*;', body))
    # the second closing test, between poll_open_bidi and the first write on the new stream
    wpos = body.find('stream::write(', b)
    if wpos < 0:
        raise AnchorLost('send_request: stream::write')
    mid = re.sub(r'\s+', '', body[b:wpos])
    r2 = re.search(r'ifletSome\(error\)=self\.check_peer_connection_closing\(\)\{(.*?)returnErr\(error\);\}', mid)
    if r2:
        f['closing_retest_after_open'] = True
        rc = re.fullmatch(r'quic::SendStream::<B>::reset\(&mutstream,Code::(\w+)\.value\(\)\);', r2.group(1))
        if rc:
            f['closing_retest_reset'] = rc.group(1)
        elif r2.group(1) == '':
            f['closing_retest_reset'] = None
        else:
            raise AnchorLost('send_request: statements of the second closing test: ' + r2.group(1))
    elif 'check_peer_connection_closing' in mid or 'is_closing' in mid:
        raise AnchorLost('send_request: unrecognised closing test after poll_open_bidi')
    else:
        f['closing_retest_after_open'] = False
        f['closing_retest_reset'] = None
    ce = Source(repo + '/h3/src/error/connection_error_creators.rs')
    hb, spans['handle_frame_stream_error_on_request_stream'] = ce.fn_body('handle_frame_stream_error_on_request_stream', nth=1)
    mt = re.search(r'FrameStreamError::UnexpectedEnd\s*=>\s*\{\s*self\.handle_connection_error_on_stream\(\s*InternalConnectionError::new\(\s*Code::(\w+)', hb)
    if not mt:
        raise AnchorLost('handle_frame_stream_error_on_request_stream: UnexpectedEnd arm')
    f['truncated_code'] = mt.group(1)
    if not re.search(r'FrameStreamError::Quic\(error\)\s*=>\s*self\.handle_quic_stream_error\(error\)', hb):
        raise AnchorLost('handle_frame_stream_error_on_request_stream: Quic arm')
    body, spans['check_peer_connection_closing'] = ce.fn_body('check_peer_connection_closing')
    f['closing_test_reads_flag'] = bool(re.search(r'if\s+self\.is_closing\(\)\s*\{\s*return\s+Some\(StreamError::RemoteClosing\)', body))

    # FIRST_REQUEST
    ps = Source(repo + '/h3/src/proto/stream.rs')
    m = re.search(r'const\s+FIRST_REQUEST\s*:\s*Self\s*=\s*Self::new\(\s*(\d+)\s*,\s*Dir::(\w+)\s*,\s*Side::(\w+)\s*\)', ps.text)
    if not m:
        raise AnchorLost('FIRST_REQUEST')
    f['first_request'] = (parse_int(m.group(1)), m.group(2), m.group(3))
    spans['FIRST_REQUEST'] = (ps.line_of(m.start()), ps.line_of(m.end()))
    return f, spans


def b(x):
    return 'true' if x else 'false'


def code(x):
    return ('Some %s' % x) if x else 'None'


def render(f):
    idx, d, s = f['first_request']
    L = ['(* GENERATED by translate/gen_goaway.py from h3/src/server/{connection,request,stream}.rs, h3/src/connection.rs,',
         '   h3/src/client/connection.rs, h3/src/error/connection_error_creators.rs, h3/src/proto/stream.rs *)',
         'From H3V Require Import Base.Bytes Gen.GenCodes.',
         'Inductive cmpop := CLt | CLe | CGt | CGe | CEq | CNe.',
         '(* server::Connection::accept: the argument of the shutdown call in the None arm (None: no such call) *)',
         'Definition accept_none_shutdown : option N := %s.' % ('Some %d' % f['accept_none_shutdown'] if f['accept_none_shutdown'] is not None else 'None'),
         '(* ... and whether that call is made only when no GOAWAY has been sent yet *)',
         'Definition accept_none_only_if_unsent : bool := %s.' % b(f['accept_none_only_if_unsent']),
         '(* server::Connection::shutdown: max_id = last + k*max_requests + c  /  FIRST_REQUEST + k*max_requests + c *)',
         'Definition shutdown_some_adds_n : N := %d.' % f['some_adds_n'],
         'Definition shutdown_some_const : N := %d.' % f['some_const'],
         'Definition shutdown_none_adds_n : N := %d.' % f['none_adds_n'],
         'Definition shutdown_none_const : N := %d.' % f['none_const'],
         'Definition first_request_index : N := %d.' % idx,
         'Definition first_request_is_bi : bool := %s.' % b(d == 'Bi'),
         'Definition first_request_is_client : bool := %s.' % b(s == 'Client'),
         '(* poll_accept_request_stream_internal *)',
         'Definition pending_needs_recv_closing : bool := %s.' % b(f['pending_needs_recv_closing']),
         'Definition reject_present : bool := %s.' % b(f['reject_present']),
         'Definition reject_cmp : cmpop := %s.' % f['reject_cmp'],
         'Definition reject_stop_code : option N := %s.' % code(f['reject_stop']),
         'Definition reject_reset_code : option N := %s.' % code(f['reject_reset']),
         'Definition reject_none_if_idle : bool := %s.' % b(f['reject_none_if_idle']),
         'Definition last_accepted_is_max : bool := %s.' % b(f['last_is_max']),
         'Definition ongoing_insert : bool := %s.' % b(f['ongoing_insert']),
         '(* what is inserted: the accepted stream id (true) or the value stored in last_accepted_stream (false) *)',
         'Definition ongoing_insert_is_stream : bool := %s.' % b(f['ongoing_insert_is_stream']),
         'Definition completion_removes : bool := %s.' % b(f['completion_removes']),
         '(* RequestEnd life cycle *)',
         'Definition end_created_at_accept : bool := %s.' % b(f['end_created_at_accept']),
         'Definition end_moved_from_resolver : bool := %s.' % b(f['end_moved_from_resolver']),
         'Definition split_shares_end : bool := %s.' % b(f['split_shares_end']),
         'Definition end_drop_sends : bool := %s.' % b(f['end_drop_sends']),
         '(* RequestResolver::accept_with_frame: connection errors *)',
         'Definition headers_unexpected_code : N := %s.' % f['unexpected_code'],
         'Definition headers_qpack_code : N := %s.' % f['qpack_code'],
         '(* a HEADERS frame cut by the end of the stream (FrameStreamError::UnexpectedEnd on a request stream) *)',
         'Definition headers_truncated_code : N := %s.' % f['truncated_code'],
         '(* ConnectionInner::shutdown *)',
         'Definition shutdown_error_guard : bool := %s.' % b(f['shutdown_error_guard']),
         'Definition guard_present : bool := %s.' % b(f['guard_present']),
         'Definition guard_cmp : cmpop := %s.' % f['guard_cmp'],
         'Definition shutdown_sets_closing : bool := %s.' % b(f['shutdown_sets_closing']),
         'Definition store_before_write : bool := %s.' % b(f['store_before_write']),
         '(* ConnectionInner::process_goaway *)',
         'Definition order_present : bool := %s.' % b(f['order_present']),
         'Definition order_cmp : cmpop := %s.' % f['order_cmp'],
         'Definition order_code : N := %s.' % f['order_code'],
         'Definition process_sets_closing : bool := %s.' % b(f['process_sets_closing']),
         '(* client::Connection::poll_close, SendRequest::send_request *)',
         'Definition kind_present : bool := %s.' % b(f['kind_present']),
         'Definition kind_negated : bool := %s.' % b(f['kind_negated']),
         'Definition kind_code : N := %s.' % f['kind_code'],
         'Definition client_processes : bool := %s.' % b(f['client_processes']),
         'Definition closing_test_first : bool := %s.' % b(f['closing_test_first']),
         'Definition closing_test_reads_flag : bool := %s.' % b(f['closing_test_reads_flag']),
         '(* ... and again after poll_open_bidi, before anything is written on the new stream *)',
         'Definition closing_retest_after_open : bool := %s.' % b(f['closing_retest_after_open']),
         'Definition closing_retest_reset_code : option N := %s.' % code(f['closing_retest_reset'])]
    return '\n'.join(L) + '\n'


if __name__ == '__main__':
    import sys
    facts, spans = extract(sys.argv[1] if len(sys.argv) > 1 else '/repo')
    sys.stdout.write(render(facts))
