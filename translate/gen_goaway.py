"""Source facts for C08 / C09: the decision points of graceful shutdown.

Every anchored function body is compared AS A WHOLE (comments and whitespace removed) against a committed template
(translate/snapshots/gen_goaway_bodies.json) in which only the fact sites are masked and the names of local binders
are generalised.  Whatever is read at a fact site is classified; an unknown shape - at a fact site or anywhere else
in an anchored body - is AnchorLost (the check reports it), never a silently negated fact.

anchors: h3/src/server/connection.rs   accept, create_resolver, create_resolver_internal, poll_accept_request_stream,
                                       shutdown, poll_accept_request_stream_internal, poll_control, poll_next_control,
                                       poll_requests_completion
         h3/src/server/request.rs      resolve_request, accept_with_frame;   h3/src/server/stream.rs  split, Drop for RequestEnd
         (+ request_end.send( / RequestEnd { occur exactly once in h3/src/server/*.rs)
         h3/src/connection.rs          ConnectionInner::shutdown, process_goaway
         h3/src/client/connection.rs   poll_close, send_request
         h3/src/error/connection_error_creators.rs  check_peer_connection_closing, handle_frame_stream_error_on_request_stream
         h3/src/proto/stream.rs        FIRST_REQUEST"""
import json
import os
import re
from rustsrc import Source, AnchorLost, parse_int

NAME = 'GenGoaway'
OPS = {'<': 'CLt', '<=': 'CLe', '>': 'CGt', '>=': 'CGe', '==': 'CEq', '!=': 'CNe'}
SNAP = os.path.join(os.path.dirname(os.path.abspath(__file__)), 'snapshots', 'gen_goaway_bodies.json')


def norm(body):
    return re.sub(r'\s+', '', body)


# anchor -> (file, how to get the body, [(literal snippet in the normalised body, mask name)], [binder names])
def bodies(repo):
    sc = Source(repo + '/h3/src/server/connection.rs')
    rq = Source(repo + '/h3/src/server/request.rs')
    st = Source(repo + '/h3/src/server/stream.rs')
    cn = Source(repo + '/h3/src/connection.rs')
    cl = Source(repo + '/h3/src/client/connection.rs')
    ce = Source(repo + '/h3/src/error/connection_error_creators.rs')
    out, spans = {}, {}

    def fn(key, src, name, nth=0):
        b, sp = src.fn_body(name, nth=nth)
        out[key], spans[key] = norm(b), sp
    fn('accept', sc, 'accept')
    fn('create_resolver', sc, 'create_resolver')
    fn('poll_accept_request_stream', sc, 'poll_accept_request_stream')
    fn('create_resolver_internal', sc, 'create_resolver_internal')
    fn('server_shutdown', sc, 'shutdown')
    fn('poll_accept_internal', sc, 'poll_accept_request_stream_internal')
    fn('poll_control', sc, 'poll_control')
    fn('poll_next_control', sc, 'poll_next_control')
    fn('poll_requests_completion', sc, 'poll_requests_completion')
    fn('resolve_request', rq, 'resolve_request')
    fn('accept_with_frame', rq, 'accept_with_frame')
    fn('split', st, 'split')
    blk, sp, _ = st.item_block(r'impl\s+Drop\s+for\s+RequestEnd\s*')
    out['drop_request_end'], spans['drop_request_end'] = norm(blk), sp
    fn('inner_shutdown', cn, 'shutdown')
    fn('process_goaway', cn, 'process_goaway')
    fn('poll_close', cl, 'poll_close')
    fn('send_request', cl, 'send_request')
    fn('check_closing', ce, 'check_peer_connection_closing')
    fn('frame_error_on_request', ce, 'handle_frame_stream_error_on_request_stream', nth=1)
    # global: who can report the end of a request
    sends, makes = 0, 0
    sdir = repo + '/h3/src/server'
    for fnm in sorted(os.listdir(sdir)):
        if fnm.endswith('.rs'):
            t = norm(Source(os.path.join(sdir, fnm)).text)
            sends += t.count('request_end.send(')
            makes += t.count('RequestEnd{request_end:')
    out['_counts'] = 'sends=%d,makes=%d' % (sends, makes)
    return out, spans


MASKS = {
    'accept': ([('self.shutdown(0).await?;', 'none_arm')], ['s', 'stream', 'resolver']),
    'create_resolver': ([], ['stream']),
    'poll_accept_request_stream': ([], []),
    'create_resolver_internal': ([], ['stream']),
    'server_shutdown': ([('id+max_requests+1', 'some_expr'), ('StreamId::FIRST_REQUEST+max_requests', 'none_expr')], ['id', 'max_id']),
    'poll_accept_internal': ([
        ('letdone=ifconn.is_pending(){self.recv_closing.is_some()&&self.poll_requests_completion(cx).is_ready()}else{self.poll_requests_completion(cx).is_ready()};', 'pending_done'),
        ('ifs.send_id()>=max_id{', 'reject_test'),
        ('s.stop_sending(Code::H3_REQUEST_REJECTED.value());', 'stop_stmt'),
        ('s.reset(Code::H3_REQUEST_REJECTED.value());', 'reset_stmt'),
        ('self.last_accepted_stream=Some(self.last_accepted_stream.map_or(s.send_id(),|last|last.max(s.send_id())),);self.ongoing_streams.insert(s.send_id());', 'tail'),
    ], ['conn', 'max_id']),
    'poll_control': ([], []),
    'poll_next_control': ([], ['frame', 'id', '_setting', '_frame']),
    'poll_requests_completion': ([('self.ongoing_streams.remove(&id);', 'remove_stmt')], ['id']),
    'resolve_request': ([], ['frame', 'req']),
    'accept_with_frame': ([('InternalConnectionError::new(Code::H3_FRAME_UNEXPECTED,', 'unexpected'),
                           ('InternalConnectionError{code:Code::QPACK_DECOMPRESSION_FAILED,', 'qpack'),
                           ('request_end:self.request_end,', 'end_src')], ['h', 'e', 'encoded', 'decoded', 'cancel_size', '_e']),
    'split': ([], ['send', 'recv']),
    'drop_request_end': ([], ['_error']),
    'inner_shutdown': ([('if*sent_id<=max_id{', 'guard_test')], ['err', 'sent_id', 'connection_error', 'error']),
    'process_goaway': ([('ifprev_id<id{', 'order_test'), ('InternalConnectionError::new(Code::H3_ID_ERROR,', 'order_code')], ['prev_id']),
    'poll_close': ([('if!StreamId::from(id).is_request(){', 'kind_test'),
                    ('InternalConnectionError::new(Code::H3_ID_ERROR,format!("non-requestStreamIdinaGoAwayframe:{}",id),', 'kind_code')],
                   ['result', 'err', 'frame', 'connection_error']),
    'send_request': ([('quic::SendStream::<B>::reset(&mutstream,Code::H3_REQUEST_CANCELLED.value());', 'retest_reset')], ['error', '_e', 'e']),
    'check_closing': ([], []),
    'frame_error_on_request': ([('InternalConnectionError::new(Code::H3_FRAME_ERROR,', 'trunc_code')], ['frame_error']),
    '_counts': ([], []),
}


def make_templates(repo):
    """committed once (and whenever an anchored body legitimately changes): the normalised bodies with the fact sites masked"""
    bs, _ = bodies(repo)
    t = {}
    for k, body in bs.items():
        masks, _b = MASKS[k]
        for lit, name in masks:
            if body.count(lit) != 1:
                raise AnchorLost('template %s: fact site %r occurs %d times' % (k, name, body.count(lit)))
            body = body.replace(lit, '«%s»' % name)
        t[k] = body
    return t


MASK_RE = {'reject_test': r'if[^{};]*\{', 'stop_stmt': r'(?:s\.stop_sending\([^;]*;)?', 'reset_stmt': r'(?:s\.reset\([^;]*;)?',
           'guard_test': r'if[^{};]*\{', 'order_test': r'if[^{};]*\{', 'kind_test': r'if[^{};]*\{'}


def to_regex(tmpl, binders):
    seen = {}
    out = []
    for part in re.split('(«\\w+»)', tmpl):
        if part.startswith('«'):
            out.append('(?P<%s>%s)' % (part[1:-1], MASK_RE.get(part[1:-1], '.*?')))
            continue
        for tok in re.findall(r'\w+|\W', part):
            if tok in binders:
                g = 'B_' + tok.strip('_') + ('_u' if tok.startswith('_') else '')
                if g in seen:
                    out.append('(?P=%s)' % g)
                else:
                    seen[g] = True
                    out.append('(?P<%s>\\w+)' % g)
            else:
                out.append(re.escape(tok))
    return ''.join(out)


def match_all(repo):
    tm = json.load(open(SNAP))
    bs, spans = bodies(repo)
    got = {}
    for k, body in bs.items():
        if k not in tm:
            raise AnchorLost('no template for ' + k)
        m = re.fullmatch(to_regex(tm[k], MASKS[k][1]), body, re.S)
        if not m:
            raise AnchorLost('%s: the body differs from the committed template outside the fact sites' % k)
        for name, val in m.groupdict().items():
            if not name.startswith('B_'):
                got[name] = val
    return got, spans


def op_of(tok, where):
    if tok not in OPS:
        raise AnchorLost('operator %r at %s' % (tok, where))
    return OPS[tok]


def addends(expr, var, where):
    terms = [t.strip() for t in expr.split('+')]
    if terms[0] != var:
        raise AnchorLost('%s: expression does not start with %s: %s' % (where, var, expr))
    adds_n, const = 0, 0
    for t in terms[1:]:
        if t == 'max_requests':
            adds_n += 1
        else:
            try:
                const += parse_int(t)
            except ValueError:
                raise AnchorLost('%s: unknown addend %r' % (where, t))
    return adds_n, const


MAXF = ('self.last_accepted_stream.map_or(s.send_id(),|last|last.max(s.send_id()))',
        'self.last_accepted_stream.map_or(s.send_id(),|last|s.send_id().max(last))',
        'self.last_accepted_stream.map_or(s.send_id(),|last|std::cmp::max(last,s.send_id()))')


def extract(repo):
    g, spans = match_all(repo)
    f = {}
    # ---- accept(): the None arm
    arm = g['none_arm']
    k = re.fullmatch(r'self\.shutdown\((\d+)\)\.await\?;', arm)
    gd = re.fullmatch(r'ifself\.sent_closing\.is_none\(\)\{self\.shutdown\((\d+)\)\.await\?;\}', arm)
    if k:
        f['accept_none_shutdown'], f['accept_none_only_if_unsent'] = parse_int(k.group(1)), False
    elif gd:
        f['accept_none_shutdown'], f['accept_none_only_if_unsent'] = parse_int(gd.group(1)), True
    elif arm == '':
        f['accept_none_shutdown'], f['accept_none_only_if_unsent'] = None, False
    else:
        raise AnchorLost('accept: statements of the None arm: ' + arm)
    # ---- server shutdown
    f['some_adds_n'], f['some_const'] = addends(g['some_expr'], 'id', 'shutdown/map')
    f['none_adds_n'], f['none_const'] = addends(g['none_expr'], 'StreamId::FIRST_REQUEST', 'shutdown/unwrap_or')
    # ---- poll_accept_request_stream_internal
    pd = g['pending_done']
    c1 = 'self.recv_closing.is_some()&&self.poll_requests_completion(cx).is_ready()'
    c2 = 'self.poll_requests_completion(cx).is_ready()'
    forms = {'letdone=ifconn.is_pending(){%s}else{%s};' % (c1, c2): True, 'letdone=%s;' % c1: True,
             'letdone=ifconn.is_pending(){%s}else{%s};' % (c2, c2): False, 'letdone=%s;' % c2: False}
    if pd not in forms:
        raise AnchorLost('poll_accept: pending arm: ' + pd)
    f['pending_needs_recv_closing'] = forms[pd]
    m = re.fullmatch(r'ifs\.send_id\(\)([<>=!]{1,2})max_id\{', g['reject_test'])
    if not m:
        raise AnchorLost('poll_accept: reject test: ' + g['reject_test'])
    f['reject_present'], f['reject_cmp'], f['reject_none_if_idle'] = True, op_of(m.group(1), 'reject test'), True
    for key, meth in (('reject_stop', 'stop_sending'), ('reject_reset', 'reset')):
        v = g['stop_stmt' if meth == 'stop_sending' else 'reset_stmt']
        mm = re.fullmatch(r's\.%s\(Code::(\w+)\.value\(\)\);' % meth, v)
        if mm:
            f[key] = mm.group(1)
        elif v == '':
            f[key] = None
        else:
            raise AnchorLost('poll_accept: %s statement: %s' % (meth, v))
    # the accepting tail: a list of statements, each recognised
    tail = g['tail']
    lets = {}
    rest = tail
    for lm in re.finditer(r'let(\w+)=([^;]+);', tail):
        lets[lm.group(1)] = lm.group(2)
        rest = rest.replace(lm.group(0), '', 1)

    def arg_of(prefix):
        nonlocal rest
        i = rest.find(prefix)
        if i < 0:
            return None
        from rustsrc import match_close
        j = i + len(prefix) - 1
        k2 = match_close(rest, j, '(', ')')
        e = re.sub(r',\)', ')', rest[j + 1:k2]).rstrip(',')
        if rest[k2 + 1:k2 + 2] != ';':
            raise AnchorLost('poll_accept: tail statement after ' + prefix)
        rest = rest[:i] + rest[k2 + 2:]
        return lets.get(e, e)

    def classify(e, where):
        if e == 's.send_id()':
            return 'stream'
        if e in MAXF:
            return 'max'
        raise AnchorLost('poll_accept: %s is %s' % (where, e))
    stored = arg_of('self.last_accepted_stream=Some(')
    if stored is None:
        raise AnchorLost('poll_accept: last_accepted_stream assignment')
    f['last_is_max'] = classify(stored, 'last_accepted_stream') == 'max'
    ins = arg_of('self.ongoing_streams.insert(')
    f['ongoing_insert'] = ins is not None
    f['ongoing_insert_is_stream'] = True if ins is None else classify(ins, 'ongoing_streams.insert argument') == 'stream'
    if rest != '':
        raise AnchorLost('poll_accept: unrecognised statements in the accepting tail: ' + rest)
    rm = g['remove_stmt']
    if rm == 'self.ongoing_streams.remove(&id);':
        f['completion_removes'] = True
    elif rm in ('', 'let_=id;'):
        f['completion_removes'] = False
    else:
        raise AnchorLost('poll_requests_completion: ' + rm)
    # ---- RequestEnd life cycle (the fixed parts are fixed by the templates)
    f['end_created_at_accept'] = True
    es = g['end_src']
    if es == 'request_end:self.request_end,':
        f['end_moved_from_resolver'] = True
    elif es.startswith('request_end:Arc::new(RequestEnd{'):
        f['end_moved_from_resolver'] = False
    else:
        raise AnchorLost('accept_with_frame: request_end source ' + es)
    f['split_shares_end'] = True
    f['end_drop_sends'] = True
    for key, gname, pat in (('unexpected_code', 'unexpected', r'InternalConnectionError::new\(Code::(\w+),'),
                            ('qpack_code', 'qpack', r'InternalConnectionError\{code:Code::(\w+),'),
                            ('truncated_code', 'trunc_code', r'InternalConnectionError::new\(Code::(\w+),'),
                            ('order_code', 'order_code', r'InternalConnectionError::new\(Code::(\w+),')):
        mm = re.fullmatch(pat, g[gname])
        if not mm:
            raise AnchorLost('%s: %s' % (key, g[gname]))
        f[key] = mm.group(1)
    # ---- ConnectionInner::shutdown / process_goaway
    mm = re.fullmatch(r'if\*(\w+)([<>=!]{1,2})max_id\{', g['guard_test'])
    if not mm:
        raise AnchorLost('ConnectionInner::shutdown: monotone guard: ' + g['guard_test'])
    f['guard_present'], f['guard_cmp'] = True, op_of(mm.group(2), 'shutdown guard')
    f['shutdown_error_guard'] = f['shutdown_sets_closing'] = f['store_before_write'] = True
    mm = re.fullmatch(r'if(\w+)([<>=!]{1,2})id\{', g['order_test'])
    if not mm:
        raise AnchorLost('process_goaway: ordering test: ' + g['order_test'])
    f['order_present'], f['order_cmp'], f['process_sets_closing'] = True, op_of(mm.group(2), 'process_goaway ordering'), True
    # ---- client
    mm = re.fullmatch(r'if(!?)StreamId::from\(id\)\.is_request\(\)\{', g['kind_test'])
    if not mm:
        raise AnchorLost('poll_close: kind test: ' + g['kind_test'])
    f['kind_present'], f['kind_negated'] = True, mm.group(1) == '!'
    mm = re.fullmatch(r'InternalConnectionError::new\(Code::(\w+),format!\("non-requestStreamIdinaGoAwayframe:\{\}",id\),', g['kind_code'])
    if not mm:
        raise AnchorLost('poll_close: kind code: ' + g['kind_code'])
    f['kind_code'] = mm.group(1)
    f['client_processes'] = f['closing_test_first'] = f['closing_test_reads_flag'] = f['closing_retest_after_open'] = True
    rr = g['retest_reset']
    mm = re.fullmatch(r'quic::SendStream::<B>::reset\(&mutstream,Code::(\w+)\.value\(\)\);', rr)
    if mm:
        f['closing_retest_reset'] = mm.group(1)
    elif rr == '':
        f['closing_retest_reset'] = None
    else:
        raise AnchorLost('send_request: reset of the fresh stream: ' + rr)
    ps = Source(repo + '/h3/src/proto/stream.rs')
    m = re.search(r'const\s+FIRST_REQUEST\s*:\s*Self\s*=\s*Self::new\(\s*(\d+)\s*,\s*Dir::(\w+)\s*,\s*Side::(\w+)\s*\)', ps.text)
    if not m:
        raise AnchorLost('FIRST_REQUEST')
    f['first_request'] = (parse_int(m.group(1)), m.group(2), m.group(3))
    spans['FIRST_REQUEST'] = (ps.line_of(m.start()), ps.line_of(m.end()))
    return f, spans


def b(x):
    return 'true' if x else 'false'


def code(x):
    return ('Some %s' % x) if x else 'None'


def render(f):
    idx, d, s = f['first_request']
    L = ['(* GENERATED by translate/gen_goaway.py from h3/src/server/{connection,request,stream}.rs, h3/src/connection.rs,',
         '   h3/src/client/connection.rs, h3/src/error/connection_error_creators.rs, h3/src/proto/stream.rs *)',
         'From H3V Require Import Base.Bytes Gen.GenCodes.',
         'Inductive cmpop := CLt | CLe | CGt | CGe | CEq | CNe.',
         '(* server::Connection::accept: the argument of the shutdown call in the None arm (None: no such call) *)',
         'Definition accept_none_shutdown : option N := %s.' % ('Some %d' % f['accept_none_shutdown'] if f['accept_none_shutdown'] is not None else 'None'),
         '(* ... and whether that call is made only when no GOAWAY has been sent yet *)',
         'Definition accept_none_only_if_unsent : bool := %s.' % b(f['accept_none_only_if_unsent']),
         '(* server::Connection::shutdown: max_id = last + k*max_requests + c  /  FIRST_REQUEST + k*max_requests + c *)',
         'Definition shutdown_some_adds_n : N := %d.' % f['some_adds_n'],
         'Definition shutdown_some_const : N := %d.' % f['some_const'],
         'Definition shutdown_none_adds_n : N := %d.' % f['none_adds_n'],
         'Definition shutdown_none_const : N := %d.' % f['none_const'],
         'Definition first_request_index : N := %d.' % idx,
         'Definition first_request_is_bi : bool := %s.' % b(d == 'Bi'),
         'Definition first_request_is_client : bool := %s.' % b(s == 'Client'),
         '(* poll_accept_request_stream_internal *)',
         'Definition pending_needs_recv_closing : bool := %s.' % b(f['pending_needs_recv_closing']),
         'Definition reject_present : bool := %s.' % b(f['reject_present']),
         'Definition reject_cmp : cmpop := %s.' % f['reject_cmp'],
         'Definition reject_stop_code : option N := %s.' % code(f['reject_stop']),
         'Definition reject_reset_code : option N := %s.' % code(f['reject_reset']),
         'Definition reject_none_if_idle : bool := %s.' % b(f['reject_none_if_idle']),
         'Definition last_accepted_is_max : bool := %s.' % b(f['last_is_max']),
         'Definition ongoing_insert : bool := %s.' % b(f['ongoing_insert']),
         '(* what is inserted: the accepted stream id (true) or the value stored in last_accepted_stream (false) *)',
         'Definition ongoing_insert_is_stream : bool := %s.' % b(f['ongoing_insert_is_stream']),
         'Definition completion_removes : bool := %s.' % b(f['completion_removes']),
         '(* RequestEnd life cycle *)',
         'Definition end_created_at_accept : bool := %s.' % b(f['end_created_at_accept']),
         'Definition end_moved_from_resolver : bool := %s.' % b(f['end_moved_from_resolver']),
         'Definition split_shares_end : bool := %s.' % b(f['split_shares_end']),
         'Definition end_drop_sends : bool := %s.' % b(f['end_drop_sends']),
         '(* RequestResolver::accept_with_frame: connection errors *)',
         'Definition headers_unexpected_code : N := %s.' % f['unexpected_code'],
         'Definition headers_qpack_code : N := %s.' % f['qpack_code'],
         '(* a HEADERS frame cut by the end of the stream (FrameStreamError::UnexpectedEnd on a request stream) *)',
         'Definition headers_truncated_code : N := %s.' % f['truncated_code'],
         '(* ConnectionInner::shutdown *)',
         'Definition shutdown_error_guard : bool := %s.' % b(f['shutdown_error_guard']),
         'Definition guard_present : bool := %s.' % b(f['guard_present']),
         'Definition guard_cmp : cmpop := %s.' % f['guard_cmp'],
         'Definition shutdown_sets_closing : bool := %s.' % b(f['shutdown_sets_closing']),
         'Definition store_before_write : bool := %s.' % b(f['store_before_write']),
         '(* ConnectionInner::process_goaway *)',
         'Definition order_present : bool := %s.' % b(f['order_present']),
         'Definition order_cmp : cmpop := %s.' % f['order_cmp'],
         'Definition order_code : N := %s.' % f['order_code'],
         'Definition process_sets_closing : bool := %s.' % b(f['process_sets_closing']),
         '(* client::Connection::poll_close, SendRequest::send_request *)',
         'Definition kind_present : bool := %s.' % b(f['kind_present']),
         'Definition kind_negated : bool := %s.' % b(f['kind_negated']),
         'Definition kind_code : N := %s.' % f['kind_code'],
         'Definition client_processes : bool := %s.' % b(f['client_processes']),
         'Definition closing_test_first : bool := %s.' % b(f['closing_test_first']),
         'Definition closing_test_reads_flag : bool := %s.' % b(f['closing_test_reads_flag']),
         '(* ... and again after poll_open_bidi, before anything is written on the new stream *)',
         'Definition closing_retest_after_open : bool := %s.' % b(f['closing_retest_after_open']),
         'Definition closing_retest_reset_code : option N := %s.' % code(f['closing_retest_reset'])]
    return '\n'.join(L) + '\n'


if __name__ == '__main__':
    import sys
    if '--make-templates' in sys.argv:
        json.dump(make_templates('/repo'), open(SNAP, 'w'), indent=1, ensure_ascii=False)
        sys.exit(0)
    facts, spans = extract(sys.argv[1] if len(sys.argv) > 1 else '/repo')
    sys.stdout.write(render(facts))
