"""Whole-file comparison for the C20 translators: the comment-free, whitespace-free text of a Rust source file without its
#[cfg(test)] items, with the extracted FACT SITES masked and let/for/closure-bound local names replaced by positional
placeholders, must equal the recorded text.  Anything else - an inserted statement, a changed scrutinee, a dropped branch,
a changed literal that is not an extracted fact - raises AnchorLost."""
import json
import os
import re
from rustsrc import Source, AnchorLost, match_close


def drop_test_items(text):
    """remove every item introduced by #[cfg(test)] (mod tests {..}, impl From<..> {..})"""
    out, pos = [], 0
    for m in re.finditer(r'#\[cfg\(test\)\]', text):
        if m.start() < pos:
            continue
        i = text.find('{', m.end())
        semi = text.find(';', m.end())
        if i < 0 or (0 <= semi < i):
            end = semi + 1
        else:
            end = match_close(text, i) + 1
        out.append(text[pos:m.start()])
        pos = end
    out.append(text[pos:])
    return ''.join(out)


def bound_names(text):
    names = []

    def add(tok):
        tok = tok.strip()
        tok = re.sub(r'^(mut|ref)\s+', '', tok)
        if re.fullmatch(r'[a-z_][a-z0-9_]*', tok) and tok not in ('_', 'self', 'mut', 'ref') and tok not in names:
            names.append(tok)
    for m in re.finditer(r'\blet\s+(?:mut\s+)?(\(([^)]*)\)|[a-z_][a-z0-9_]*)(?=\s*[:=;])', text):
        if m.group(2) is not None:
            for t in m.group(2).split(','):
                add(t)
        else:
            add(m.group(1))
    for m in re.finditer(r'\bfor\s+\(?([a-z_0-9,\s]+)\)?\s+in\b', text):
        for t in m.group(1).split(','):
            add(t)
    for m in re.finditer(r'\|([a-z_0-9,\s]*)\|', text):
        for t in m.group(1).split(','):
            add(t)
    return names


def normalise(text, masks):
    text = drop_test_items(text)
    names = bound_names(text)
    for k, nm in enumerate(names):
        text = re.sub(r'(?<![\w.:])' + re.escape(nm) + r'(?![\w(!])', '§%d' % k, text)
    t = re.sub(r'\s+', '', text)
    for pat in masks:
        def rep(m):
            s, base = m.group(0), m.start(0)
            # mask every capturing group of the match
            spans = sorted((m.start(g) - base, m.end(g) - base) for g in range(1, (m.lastindex or 0) + 1) if m.group(g) is not None)
            out, p = [], 0
            for a, b in spans:
                out.append(s[p:a])
                out.append('#')
                p = b
            out.append(s[p:])
            return ''.join(out)
        t, n = re.subn(pat, rep, t)
        if n == 0:
            raise AnchorLost('fact site %s not found' % pat)
    return t


def check(repo, snapshot, files):
    """files: list of (relative path, [mask regexes on the compact text])"""
    path = os.path.join(os.path.dirname(os.path.abspath(__file__)), 'snapshots', snapshot)
    got = {}
    for rel, masks in files:
        got[rel] = normalise(Source(repo + '/' + rel).text, masks)
    if os.environ.get('H3V_RECORD_BODIES') == snapshot:
        json.dump(got, open(path, 'w'), indent=0, sort_keys=True)
    want = json.load(open(path))
    for k in sorted(set(got) | set(want)):
        a, b = want.get(k) or '', got.get(k) or ''
        if a != b:
            i = next((j for j in range(min(len(a), len(b))) if a[j] != b[j]), min(len(a), len(b)))
            raise AnchorLost('%s differs from the recorded source at "...%s" (now "...%s")' % (k, a[max(0, i - 40):i + 40], b[max(0, i - 40):i + 40]))
