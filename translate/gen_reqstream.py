"""Source facts for C03 (request streams): h3/src/connection.rs RequestStream::{poll_recv_data, poll_recv_trailers},
h3/src/server/request.rs RequestResolver::accept_with_frame, h3/src/client/stream.rs RequestStream::recv_response.

Facts: the shape of the body loop (does a DATA frame header continue the loop - i.e. is a zero-length DATA frame
skipped - or end it), what each arm of the frame matches does and which Code it raises, whether the trailers path looks
for a frame after the trailers unless the stream has ended, what happens when a stream ends before its first HEADERS on
each side (error scope, code, reset code)."""
import re
from rustsrc import Source, AnchorLost
from gen_frames import split_arms, squeeze, find_match_body

NAME = 'GenReqStream'


def impl_fn(src, impl_regex, fn, nth_impl=0):
    pos = 0
    for _ in range(nth_impl + 1):
        m = re.compile(impl_regex).search(src.text, pos)
        if not m:
            raise AnchorLost('%s in %s' % (impl_regex, src.path))
        pos = m.end()
    return src.fn_body(fn, after=m.start())


def code_in(s, what):
    m = re.search(r'Code::(\w+)', s)
    if not m:
        raise AnchorLost('no code in ' + what)
    return m.group(1)


def extract(repo):
    f, spans = {}, {}
    cn = Source(repo + '/h3/src/connection.rs')
    body, spans['poll_recv_data'] = cn.fn_body('poll_recv_data')
    sq = squeeze(body)
    if sq.startswith('while!self.stream.has_data(){matchready!(self.stream.poll_next(cx)){'):
        f['data_loop'] = True
    elif sq.startswith('if!self.stream.has_data(){matchready!(self.stream.poll_next(cx)){'):
        f['data_loop'] = False
    else:
        raise AnchorLost('poll_recv_data head')
    if not sq.endswith('self.stream.poll_data(cx).map_err(|error|self.handle_frame_stream_error_on_request_stream(error))'):
        raise AnchorLost('poll_recv_data tail')
    mb, _, _ = find_match_body(body, r'match\s+ready!\(self\.stream\.poll_next\(cx\)\)\s*\{')
    seen = {}
    for pat, arm in split_arms(mb):
        p, a = squeeze(pat), squeeze(arm)
        if p == 'Err(frame_stream_error)':
            if 'handle_frame_stream_error_on_request_stream(frame_stream_error)' not in a:
                raise AnchorLost('recv_data err arm')
            seen['err'] = True
        elif p == 'Ok(None)':
            if a != 'returnPoll::Ready(Ok(None))':
                raise AnchorLost('recv_data none arm')
            seen['none'] = True
        elif p == 'Ok(Some(Frame::Headers(encoded)))':
            if a != '{self.trailers=Some(encoded);returnPoll::Ready(Ok(None));}':
                raise AnchorLost('recv_data headers arm')
            seen['headers'] = True
        elif p == 'Ok(Some(Frame::Data{..}))':
            if a == '()':
                f['data_header_continues'] = True
            elif a == 'returnPoll::Ready(Ok(None))':
                f['data_header_continues'] = False
            else:
                raise AnchorLost('recv_data data arm')
        elif p == 'Ok(Some(other_frame))':
            if 'handle_connection_error_on_stream' not in a:
                raise AnchorLost('recv_data other arm')
            f['data_other_code'] = code_in(arm, 'recv_data other arm')
        else:
            raise AnchorLost('recv_data arm ' + pat)
    if set(seen) != {'err', 'none', 'headers'} or 'data_header_continues' not in f or 'data_other_code' not in f:
        raise AnchorLost('recv_data arms')
    body, spans['poll_recv_trailers'] = cn.fn_body('poll_recv_trailers')
    sq = squeeze(body)
    if not sq.startswith('letmuttrailers=ifletSome(encoded)=self.trailers.take(){encoded}else{matchready!(self.stream.poll_next(cx)){'):
        raise AnchorLost('poll_recv_trailers head')
    mb, _, j1 = find_match_body(body, r'match\s+ready!\(self\.stream\.poll_next\(cx\)\)\s*\{')
    seen = {}
    for pat, arm in split_arms(mb):
        p, a = squeeze(pat), squeeze(arm)
        if p == 'Err(frame_stream_error)':
            seen['err'] = True
        elif p == 'Ok(None)':
            if a != 'returnPoll::Ready(Ok(None))':
                raise AnchorLost('recv_trailers none arm')
            seen['none'] = True
        elif p == 'Ok(Some(Frame::Headers(encoded)))':
            if a != 'encoded':
                raise AnchorLost('recv_trailers headers arm')
            seen['headers'] = True
        elif p == 'Ok(Some(other_frame))':
            f['trailers_first_other_code'] = code_in(arm, 'recv_trailers other arm')
        else:
            raise AnchorLost('recv_trailers arm ' + pat)
    if set(seen) != {'err', 'none', 'headers'} or 'trailers_first_other_code' not in f:
        raise AnchorLost('recv_trailers arms')
    rest = body[j1:]
    m = re.search(r'if\s*!\s*self\.stream\.is_eos\(\)\s*\{', rest)
    f['trailers_checks_after'] = bool(m)
    if m:
        mb, _, _ = find_match_body(rest, r'match\s+self\.stream\.poll_next\(cx\)\s*\{')
        seen = {}
        for pat, arm in split_arms(mb):
            p, a = squeeze(pat), squeeze(arm)
            if p == 'Poll::Ready(Err(frame_stream_error))':
                seen['err'] = True
            elif p == 'Poll::Ready(Ok(Some(trailing_frame)))':
                f['trailers_after_code'] = code_in(arm, 'trailing frame arm')
            elif p == 'Poll::Ready(Ok(None))':
                if a != '()':
                    raise AnchorLost('trailers end arm')
                seen['none'] = True
            elif p == 'Poll::Pending':
                if a != '{self.trailers=Some(trailers);returnPoll::Pending;}':
                    raise AnchorLost('trailers pending arm')
                seen['pending'] = True
            else:
                raise AnchorLost('trailers after arm ' + pat)
        if set(seen) != {'err', 'none', 'pending'} or 'trailers_after_code' not in f:
            raise AnchorLost('trailers after arms')
    else:
        f['trailers_after_code'] = f['trailers_first_other_code']
    # server: first frame
    rq = Source(repo + '/h3/src/server/request.rs')
    body, spans['accept_with_frame'] = rq.fn_body('accept_with_frame')
    mb, _, _ = find_match_body(body, r'let\s+mut\s+encoded\s*=\s*match\s+frame\s*\{')
    seen = {}
    for pat, arm in split_arms(mb):
        p, a = squeeze(pat), squeeze(arm)
        if p == 'Ok(Some(Frame::Headers(h)))':
            if a != 'h':
                raise AnchorLost('accept headers arm')
            seen['headers'] = True
        elif p == 'Ok(None)':
            m1 = re.search(r'self\.frame_stream\.reset\(Code::(\w+)\.value\(\)\);', a)
            m2 = re.search(r'returnErr\(StreamError::StreamError\{code:Code::(\w+),', a)
            m3 = re.search(r'handle_connection_error_on_stream\(InternalConnectionError::new\(Code::(\w+)', a)
            if m2:
                f['srv_none_scope'] = 'stream'
                f['srv_none_code'] = m2.group(1)
            elif m3:
                f['srv_none_scope'] = 'conn'
                f['srv_none_code'] = m3.group(1)
            else:
                raise AnchorLost('accept none arm')
            f['srv_none_reset'] = m1.group(1) if m1 else None
        elif p == 'Ok(Some(_))':
            if 'handle_connection_error_on_stream' not in a:
                raise AnchorLost('accept other arm')
            f['srv_other_code'] = code_in(arm, 'accept other arm')
        elif p == 'Err(e)':
            if 'handle_frame_stream_error_on_request_stream(e)' not in a:
                raise AnchorLost('accept err arm')
            seen['err'] = True
        else:
            raise AnchorLost('accept arm ' + pat)
    if set(seen) != {'headers', 'err'} or 'srv_none_code' not in f or 'srv_other_code' not in f:
        raise AnchorLost('accept arms')
    body, _ = rq.fn_body('resolve_request')
    if 'letframe=std::future::poll_fn(|cx|self.frame_stream.poll_next(cx)).await;letreq=self.accept_with_frame(frame)?;' not in squeeze(body):
        raise AnchorLost('resolve_request')
    # client: first frame
    cl = Source(repo + '/h3/src/client/stream.rs')
    body, spans['recv_response'] = cl.fn_body('recv_response')
    sq = squeeze(body)
    m = re.match(r'letmutframe=future::poll_fn\(\|cx\|self\.inner\.stream\.poll_next\(cx\)\)\.await\.map_err\(\|e\|self\.handle_frame_stream_error_on_request_stream\(e\)\)\?\.ok_or_else\(\|\|\{self\.handle_connection_error_on_stream\(InternalConnectionError::new\(Code::(\w+),', sq)
    if not m:
        raise AnchorLost('recv_response head')
    f['cli_none_code'] = m.group(1)
    m = re.search(r'letdecoded=ifletFrame::Headers\(refmutencoded\)=frame\{', sq)
    if not m:
        raise AnchorLost('recv_response headers test')
    m = re.search(r'\}else\{returnErr\(self\.handle_connection_error_on_stream\(InternalConnectionError::new\(Code::(\w+),', sq)
    if not m:
        raise AnchorLost('recv_response other arm')
    f['cli_other_code'] = m.group(1)
    # how a FrameStreamError becomes a StreamError on a request stream
    ce = Source(repo + '/h3/src/error/connection_error_creators.rs')
    hb, spans['handle_quic_stream_error'] = ce.fn_body('handle_quic_stream_error')
    hq = squeeze(hb)
    if 'StreamErrorIncoming::StreamTerminated{error_code}=>StreamError::RemoteTerminate{code:Code::from(error_code),}' not in hq:
        raise AnchorLost('handle_quic_stream_error terminated arm')
    if 'StreamErrorIncoming::ConnectionErrorIncoming{connection_error}=>{leterr=self.set_conn_error_and_wake(connection_error);StreamError::ConnectionError(' not in hq:
        raise AnchorLost('handle_quic_stream_error connection arm')
    return f, spans


def b(x):
    return 'true' if x else 'false'


def render(f):
    L = ['(* GENERATED by translate/gen_reqstream.py from h3/src/connection.rs, h3/src/server/request.rs,',
         '   h3/src/client/stream.rs, h3/src/error/connection_error_creators.rs *)',
         'From H3V Require Import Base.Bytes Gen.GenCodes.',
         '(* RequestStream::poll_recv_data *)',
         'Definition rd_is_loop : bool := %s.' % b(f['data_loop']),
         'Definition rd_data_header_continues : bool := %s.' % b(f['data_header_continues']),
         'Definition rd_other_code : N := %s.' % f['data_other_code'],
         '(* RequestStream::poll_recv_trailers *)',
         'Definition rt_first_other_code : N := %s.' % f['trailers_first_other_code'],
         'Definition rt_checks_after : bool := %s.' % b(f['trailers_checks_after']),
         'Definition rt_after_code : N := %s.' % f['trailers_after_code'],
         '(* server RequestResolver::accept_with_frame: the stream ended before any HEADERS / first frame is not HEADERS *)',
         'Definition srv_none_is_stream_error : bool := %s.' % b(f['srv_none_scope'] == 'stream'),
         'Definition srv_none_code : N := %s.' % f['srv_none_code'],
         'Definition srv_none_reset : option N := %s.' % ('Some %s' % f['srv_none_reset'] if f['srv_none_reset'] else 'None'),
         'Definition srv_other_code : N := %s.' % f['srv_other_code'],
         '(* client RequestStream::recv_response *)',
         'Definition cli_none_code : N := %s.' % f['cli_none_code'],
         'Definition cli_other_code : N := %s.' % f['cli_other_code']]
    return '\n'.join(L) + '\n'


# ---------------------------------------------------------------- whole-body anchors (see gen_frames.py)
import json
import os
from gen_frames import check_bodies, mask_codes, _block, _sub_source

BODIES_SNAPSHOT = os.path.join(os.path.dirname(os.path.abspath(__file__)), 'snapshots', 'GenReqStream.bodies.json')


def req_bodies(repo):
    b = {}
    cn = Source(repo + '/h3/src/connection.rs')
    s = mask_codes(squeeze(cn.fn_body('poll_recv_data')[0]))
    s = re.sub(r'^(while|if)!self\.stream\.has_data\(\)', 'LOOP!self.stream.has_data()', s)
    s = re.sub(r'Ok\(Some\(Frame::Data\{\.\.\}\)\)=>(\(\)|returnPoll::Ready\(Ok\(None\)\)),', 'Ok(Some(Frame::Data{..}))=>DATAARM,', s)
    b['poll_recv_data'] = s
    b['poll_recv_trailers'] = mask_codes(squeeze(cn.fn_body('poll_recv_trailers')[0]))
    b['struct RequestStream'] = _block(cn, r'pub\s+struct\s+RequestStream<S,\s*B>\s*\{')
    blk, _, _ = cn.item_block(r'impl<S,\s*B>\s+RequestStream<S,\s*B>\s*(?=\{\s*#\[allow\(missing_docs\)\]\s*pub\s+fn\s+new)')
    b['RequestStream::new'] = squeeze(blk)
    m = re.search(r'pub\(crate\)\s+fn\s+split\s*\(\s*self\s*,?\s*\)\s*->\s*\(\s*RequestStream', cn.text)
    if not m:
        raise AnchorLost('connection::RequestStream::split')
    b['RequestStream::split'] = squeeze(_sub_source(cn, cn.text[m.start():]).fn_body('split')[0])
    rq = Source(repo + '/h3/src/server/request.rs')
    b['resolve_request'] = squeeze(rq.fn_body('resolve_request')[0])
    b['accept_with_frame'] = mask_codes(squeeze(rq.fn_body('accept_with_frame')[0]))
    b['ResolvedRequest::resolve'] = mask_codes(squeeze(rq.fn_body('resolve')[0]))
    b['struct RequestResolver'] = _block(rq, r'pub\s+struct\s+RequestResolver<C,\s*B>')
    sc = Source(repo + '/h3/src/server/connection.rs')
    b['server accept'] = squeeze(sc.fn_body('accept')[0])
    b['create_resolver_internal'] = squeeze(sc.fn_body('create_resolver_internal')[0])
    ss = Source(repo + '/h3/src/server/stream.rs')
    b['server RequestStream'] = _block(ss, r'pub\s+struct\s+RequestStream<S,\s*B>\s*\{')
    for fn in ('recv_data', 'poll_recv_data', 'recv_trailers', 'poll_recv_trailers', 'split'):
        b['server ' + fn] = squeeze(ss.fn_body(fn)[0])
    cl = Source(repo + '/h3/src/client/stream.rs')
    b['client RequestStream'] = _block(cl, r'pub\s+struct\s+RequestStream<S,\s*B>\s*\{')
    b['recv_response'] = mask_codes(squeeze(cl.fn_body('recv_response')[0]))
    for fn in ('recv_data', 'poll_recv_data', 'recv_trailers', 'poll_recv_trailers', 'split'):
        b['client ' + fn] = squeeze(cl.fn_body(fn)[0])
    from gen_frames import no_trailing_commas
    return {k: no_trailing_commas(v) for k, v in b.items()}


_extract_facts = extract


def extract(repo):
    f, spans = _extract_facts(repo)
    check_bodies('gen_reqstream', req_bodies(repo), BODIES_SNAPSHOT)
    return f, spans


if __name__ == '__main__':
    import sys
    if len(sys.argv) > 2 and sys.argv[1] == '--snapshot-bodies':
        json.dump(req_bodies(sys.argv[2]), open(BODIES_SNAPSHOT, 'w'), indent=1, sort_keys=True)
        print('written', BODIES_SNAPSHOT)
