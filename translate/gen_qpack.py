"""Source facts for C20: constants and anchored comparison operators of the stateful QPACK code
(field.rs, dynamic.rs, block.rs, stream.rs)."""
import re
from rustsrc import Source, AnchorLost, parse_int
import qpack_bodies

NAME = 'GenQpack'

CMP = {'<': 'CLt', '<=': 'CLe', '>': 'CGt', '>=': 'CGe', '==': 'CEq', '!=': 'CNe'}


def need(m, what):
    if not m:
        raise AnchorLost(what)
    return m


def extract(repo):
    f, spans = {}, {}
    fld = Source(repo + '/h3/src/qpack/field.rs')
    m = need(re.search(r'const\s+ESTIMATED_OVERHEAD_BYTES\s*:\s*usize\s*=\s*([0-9_xa-fA-F]+)\s*;', fld.text), 'ESTIMATED_OVERHEAD_BYTES')
    f['overhead'] = parse_int(m.group(1))
    body, spans['mem_size'] = fld.fn_body('mem_size')
    need(re.search(r'self\.name\.len\(\)\s*\+\s*self\.value\.len\(\)\s*\+\s*ESTIMATED_OVERHEAD_BYTES', body), 'mem_size formula')

    dyn = Source(repo + '/h3/src/qpack/dynamic.rs')
    m = need(re.search(r'const\s+SETTINGS_MAX_TABLE_CAPACITY_MAX\s*:\s*usize\s*=\s*([0-9_]+)\s*;', dyn.text), 'CAPACITY_MAX')
    f['cap_max'] = parse_int(m.group(1))
    m = need(re.search(r'const\s+SETTINGS_MAX_BLOCKED_STREAMS_MAX\s*:\s*usize\s*=\s*([0-9_]+)\s*;', dyn.text), 'BLOCKED_MAX')
    f['blocked_streams_max'] = parse_int(m.group(1))
    body, spans['set_max_blocked'] = dyn.fn_body('set_max_blocked')
    m = need(re.search(r'if\s+max\s*(>=|>|<=|<)\s*SETTINGS_MAX_BLOCKED_STREAMS_MAX\s*\{', body), 'set_max_blocked cmp')
    f['set_max_blocked_cmp'] = CMP[m.group(1)]
    body, spans['set_max_size'] = dyn.fn_body('set_max_size')
    m = need(re.search(r'if\s+size\s*(>=|>|<=|<)\s*SETTINGS_MAX_TABLE_CAPACITY_MAX\s*\{', body), 'set_max_size cmp')
    f['set_max_size_cmp'] = CMP[m.group(1)]
    # DynamicTableEncoder::insert: the blocked-stream gate
    body, spans['enc_insert'] = dyn.fn_body('insert')
    m = need(re.search(r'if\s+self\.table\.blocked_count\s*(>=|>|<=|<|==)\s*self\.table\.blocked_max\s*\{', body), 'blocked gate')
    f['blocked_gate_cmp'] = CMP[m.group(1)]
    # DynamicTable::can_free
    body, spans['can_free'] = dyn.fn_body('can_free')
    m = need(re.search(r'if\s+required\s*(>=|>|<=|<)\s*self\.max_size\s*\{', body), 'can_free too large cmp')
    f['can_free_toolarge_cmp'] = CMP[m.group(1)]
    m = need(re.search(r'if\s+self\.max_size\s*-\s*self\.curr_size\s*(>=|>|<=|<)\s*required\s*\{', body), 'can_free room cmp')
    f['can_free_room_cmp'] = CMP[m.group(1)]
    mv = need(re.search(r'let\s+mut\s+(\w+)\s*=\s*self\.curr_size\s*;', body), 'can_free running size')
    hv = re.escape(mv.group(1))       # the local holding the hypothetical size, whatever it is called
    m = need(re.search(r'if\s+' + hv + r'\s*(>=|>|<=|<)\s*lower_bound\s*\{', body), 'can_free loop cmp')
    f['can_free_loop_cmp'] = CMP[m.group(1)]
    need(re.search(r'let\s+lower_bound\s*=\s*self\.max_size\s*-\s*required\s*;', body), 'can_free lower_bound statement')
    need(re.search(r'\w+\s*\+=\s*1\s*;\s*' + hv + r'\s*-=\s*\w+\.mem_size\(\)\s*;', body), 'can_free loop body')
    m = need(re.search(r'if\s+required\s*(>=|>|<=|<)\s*self\.max_size\s*-\s*' + hv + r'\s*\{', body), 'can_free final cmp')
    f['can_free_final_cmp'] = CMP[m.group(1)]
    # register_blocked
    body, spans['register_blocked'] = dyn.fn_body('register_blocked')
    m = need(re.search(r'if\s+largest\s*(>=|>|<=|<)\s*self\.largest_known_received\s*\{', body), 'register_blocked cmp')
    f['register_blocked_cmp'] = CMP[m.group(1)]

    blk = Source(repo + '/h3/src/qpack/block.rs')
    body, spans['prefix_new'] = blk.fn_body('new')
    m = need(re.search(r'let\s+max_entries\s*=\s*max_table_size\s*/\s*(\d+)\s*;', body), 'max_entries in new')
    f['max_entries_div_new'] = int(m.group(1))
    m = need(re.search(r'encoded_insert_count\s*:\s*required\s*%\s*\(\s*(\d+)\s*\*\s*max_entries\s*\)\s*\+\s*(\d+)', body), 'encoded insert count formula')
    f['eic_mul'] = int(m.group(1))
    f['eic_add'] = int(m.group(2))
    body, spans['prefix_get'] = blk.fn_body('get')
    m = need(re.search(r'let\s+max_entries\s*=\s*max_table_size\s*/\s*(\d+)\s*;', body), 'max_entries in get')
    f['max_entries_div_get'] = int(m.group(1))

    st = Source(repo + '/h3/src/qpack/stream.rs')
    blk2, spans['InsertCountIncrement'], _ = st.item_block(r'impl\s+InsertCountIncrement\b')
    m = need(re.search(r'if\s+x\s*>\s*(\d+)\s*\{', blk2), 'increment limit')
    f['increment_limit'] = int(m.group(1))
    # everything else in these files must be exactly the recorded source (fact sites masked, locals name-agnostic)
    OP = r'(>=|<=|==|!=|>|<)'
    ID = r'(?:\u00a7\d+|[a-z_]+)'
    qpack_bodies.check(repo, 'GenQpack.bodies.json', [
        ('h3/src/qpack/field.rs', [r'ESTIMATED_OVERHEAD_BYTES:usize=([0-9_]+);']),
        ('h3/src/qpack/vas.rs', []),
        ('h3/src/qpack/dynamic.rs', [
            r'SETTINGS_MAX_TABLE_CAPACITY_MAX:usize=([0-9_]+);', r'SETTINGS_MAX_BLOCKED_STREAMS_MAX:usize=([0-9_]+);',
            r'if' + ID + OP + r'SETTINGS_MAX_BLOCKED_STREAMS_MAX\{', r'if' + ID + OP + r'SETTINGS_MAX_TABLE_CAPACITY_MAX\{',
            r'ifself\.table\.blocked_count' + OP + r'self\.table\.blocked_max\{', r'if' + ID + OP + r'self\.max_size\{returnErr',
            r'ifself\.max_size-self\.curr_size' + OP + ID + r'\{', r'if' + ID + OP + ID + r'\{break;\}',
            r'if' + ID + OP + r'self\.max_size-' + ID + r'\{Ok\(Some', r'if' + ID + OP + r'self\.largest_known_received\{']),
        ('h3/src/qpack/block.rs', [r'=' + ID + r'/(\d+);', ID + r'%\((\d+)\*' + ID + r'\)\+(\d+),']),
        ('h3/src/qpack/stream.rs', [r'if' + ID + r'>(\d+)\{returnErr\(ParseError::Integer\(crate::qpack::prefix_int::Error::Overflow,\)\);\}' + ID + r'asu8']),
        ('h3/src/qpack/encoder.rs', []),
        ('h3/src/qpack/decoder.rs', []),
    ])
    return f, spans


def render(f):
    L = ['(* GENERATED by translate/gen_qpack.py from h3/src/qpack/{field,dynamic,block,stream}.rs *)',
         'From H3V Require Import Base.Bytes.',
         'Inductive cmpop := CLt | CLe | CGt | CGe | CEq | CNe.',
         'Definition cmp_eval (c : cmpop) (a b : N) : bool :=',
         '  match c with CLt => a <? b | CLe => a <=? b | CGt => b <? a | CGe => b <=? a | CEq => a =? b | CNe => negb (a =? b) end.']
    for k in ('overhead', 'cap_max', 'blocked_streams_max', 'max_entries_div_new', 'eic_mul', 'eic_add', 'max_entries_div_get', 'increment_limit'):
        L.append('Definition q_%s : N := %d.' % (k, f[k]))
    for k in ('set_max_blocked_cmp', 'set_max_size_cmp', 'blocked_gate_cmp', 'can_free_toolarge_cmp', 'can_free_room_cmp',
              'can_free_loop_cmp', 'can_free_final_cmp', 'register_blocked_cmp'):
        L.append('Definition q_%s : cmpop := %s.' % (k, f[k]))
    return '\n'.join(L) + '\n'
