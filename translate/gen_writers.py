"""Source facts for C14 (everything h3 writes): h3/src/stream.rs (WriteBuf), h3/src/proto/frame.rs (Encode for Frame),
h3/src/proto/stream.rs (StreamType), h3/src/proto/varint.rs (MAX_SIZE), h3/src/connection.rs (what is written where).

Facts the Coq model takes from the code as DATA:
  * the frame_types!{} and stream_types!{} tables;
  * the three grease generators `fastrand::u64(0..R) * M + A` (FrameType, StreamType, SettingId);
  * WRITE_BUF_ENCODE_SIZE evaluated from the constants it is built from;
  * for every arm of `impl Encode for Frame`: the frame type constant written and the expression given to
    write_var (payload `remaining()` / `len()` plus or minus a literal), the literal length and bytes of Frame::Grease;
  * the statement order of simple_frame_encode, Settings::encode, FrameHeader::encode_header, UniStreamHeader::encode arms,
    From<(StreamType, Frame)>;
  * the Buf impl of WriteBuf: the slice handed out by chunk(), the min() and the two updates in advance();
  * connection.rs: which header is written on which of the three setup streams and their opening order, what the
    grease stream sends, that finish() writes Frame::Grease before poll_finish and clears its flag, the GOAWAY frame of shutdown.
"""
import re
from rustsrc import Source, AnchorLost, parse_int, match_close, coq_bytes

NAME = 'GenWriters'

INT = r'(0[xX][0-9a-fA-F_]+|\d[\d_]*)'


def macro_table(src, name):
    m = re.search(r'(?m)^' + name + r'!\s*\{', src.text)
    if not m:
        raise AnchorLost(name + '! invocation')
    i = src.text.index('{', m.start())
    j = match_close(src.text, i)
    rows = re.findall(r'(\w+)\s*=\s*' + INT + r'\s*,', src.text[i + 1:j])
    if not rows:
        raise AnchorLost(name + ' rows')
    return [(n, parse_int(v)) for n, v in rows], (src.line_of(i), src.line_of(j))


def grease_fn(src, type_name):
    """the grease() of `impl <type_name>`: fastrand::u64(0..R) * M + A"""
    for m in re.finditer(r'impl\s+' + type_name + r'\s*\{', src.text):
        i = src.text.index('{', m.start())
        j = match_close(src.text, i)
        blk = src.text[i:j]
        g = re.search(r'fn\s+grease\s*\(\s*\)\s*->\s*Self\s*\{\s*' + type_name + r'\(\s*fastrand::u64\(\s*0\s*\.\.\s*' + INT +
                      r'\s*\)\s*\*\s*' + INT + r'\s*\+\s*' + INT + r'\s*\)\s*\}', blk)
        if g:
            return tuple(parse_int(x) for x in g.groups()), (src.line_of(i + g.start()), src.line_of(i + g.end()))
    raise AnchorLost(type_name + '::grease')


def stmts(body):
    """top-level `;`-separated statements of a block body (brace/paren aware), whitespace-normalised"""
    out, depth, cur = [], 0, []
    i = 0
    while i < len(body):
        c = body[i]
        if c in '({[':
            depth += 1
        elif c in ')}]':
            depth -= 1
        if c == ';' and depth == 0:
            out.append(re.sub(r'\s+', ' ', ''.join(cur)).strip())
            cur = []
        else:
            cur.append(c)
        i += 1
    tail = re.sub(r'\s+', ' ', ''.join(cur)).strip()
    if tail:
        out.append(tail)
    return out


def match_arms(body, anchor):
    """arms `Pat => { ... }` or `Pat => expr,` of the first `match <anchor> {` in body -> list of (pattern, text)"""
    m = re.search(r'match\s+' + anchor + r'\s*\{', body)
    if not m:
        raise AnchorLost('match ' + anchor)
    i = body.index('{', m.start())
    j = match_close(body, i)
    blk = body[i + 1:j]
    arms, k = [], 0
    while True:
        a = re.compile(r'\s*([^=]+?)\s*=>\s*').match(blk, k)
        if not a:
            break
        pat = re.sub(r'\s+', ' ', a.group(1))
        p = a.end()
        if blk[p] == '{':
            q = match_close(blk, p)
            arms.append((pat, blk[p + 1:q]))
            k = q + 1
            if k < len(blk) and blk[k] == ',':
                k += 1
        else:
            depth, q = 0, p
            while q < len(blk):
                c = blk[q]
                if c in '({[':
                    depth += 1
                elif c in ')}]':
                    depth -= 1
                elif c == ',' and depth == 0:
                    break
                q += 1
            arms.append((pat, blk[p:q]))
            k = q + 1
    return arms


def len_expr(arg, var):
    """`<var>.remaining() as u64`, `<var>.len() as u64`, optionally +/- literal (inside or outside the cast)"""
    a = arg.replace(' ', '')
    m = re.fullmatch(r'\(?' + re.escape(var) + r'\.(remaining|len)\(\)(?:([+-])' + INT + r')?\)?asu64(?:([+-])' + INT + r')?', a)
    if not m:
        raise AnchorLost('length expression: ' + arg)
    add = sub = 0
    for sign, lit in ((m.group(2), m.group(3)), (m.group(4), m.group(5))):
        if sign == '+':
            add += parse_int(lit)
        elif sign == '-':
            sub += parse_int(lit)
    return add, sub


def byte_literal(tok):
    m = re.fullmatch(r'b"((?:[^"\\]|\\.)*)"', tok.strip())
    if not m:
        raise AnchorLost('byte literal ' + tok)
    return list(m.group(1).encode('latin-1').decode('unicode_escape').encode('latin-1'))


CENSUS_CALLEES = [('stream::write', r'\bstream::write\('), ('.send_data', r'\.send_data\('),
                  ('.poll_send', r'\.poll_send\('), ('.poll_finish', r'\.poll_finish\(')]


def strip_test_modules(text):
    """blank out `#[cfg(test)] mod x { ... }` blocks (keeping offsets)"""
    out = text
    for m in list(re.finditer(r'#\[cfg\(test\)\]\s*(?:pub(?:\([^)]*\))?\s+)?mod\s+\w+\s*\{', text)):
        i = text.index('{', m.start())
        j = match_close(text, i)
        out = out[:m.start()] + re.sub(r'[^\n]', ' ', text[m.start():j + 1]) + out[j + 1:]
    return out


def fn_ranges(text):
    res = []
    for m in re.finditer(r'\bfn\s+(\w+)', text):
        i, depth = m.end(), 0
        while i < len(text):
            c = text[i]
            if c in '([':
                depth += 1
            elif c in ')]':
                depth -= 1
            elif c == '{' and depth == 0:
                break
            elif c == ';' and depth == 0:
                i = -1
                break
            i += 1
        if i < 0 or i >= len(text):
            continue
        try:
            j = match_close(text, i)
        except AnchorLost:
            continue
        res.append((i, j, m.group(1)))
    return res


def write_site_census(repo):
    """(file, enclosing fn, callee, head of the first argument) of every call that hands bytes or a FIN to a send stream,
    in every non-test source file of h3/src"""
    import os
    import hashlib
    root = os.path.join(repo, 'h3', 'src')
    sites = []
    for d, dirs, files in sorted(os.walk(root)):
        dirs.sort()
        if os.path.basename(d) == 'tests':
            dirs[:] = []
            continue
        for fn in sorted(files):
            if not fn.endswith('.rs') or fn == 'tests.rs':
                continue
            path = os.path.join(d, fn)
            rel = os.path.relpath(path, os.path.join(repo, 'h3', 'src'))
            src = Source(path)
            text = strip_test_modules(src.text)
            ranges = fn_ranges(text)
            found = []
            for name, pat in CENSUS_CALLEES:
                for m in re.finditer(pat, text):
                    pos = m.end() - 1
                    try:
                        close = match_close(text, pos, '(', ')')
                    except AnchorLost:
                        raise AnchorLost('census: unbalanced call in ' + rel)
                    args, arg, depth = [], [], 0
                    for ch in text[pos + 1:close]:
                        if ch in '([{':
                            depth += 1
                        elif ch in ')]}':
                            depth -= 1
                        elif ch == ',' and depth == 0:
                            args.append(''.join(arg))
                            arg = []
                            continue
                        arg.append(ch)
                    args.append(''.join(arg))
                    head = ','.join(re.sub(r'\s+', '', a)[:44] for a in args[:2] if a.strip())
                    encl = [(j - i, nm) for i, j, nm in ranges if i <= m.start() <= j]
                    fnname = min(encl)[1] if encl else '-'
                    found.append((m.start(), rel, fnname, name, head))
            for _, rel, fnname, name, head in sorted(found):
                txt = '%s|%s|%s|%s' % (rel, fnname, name, head)
                sites.append((txt, int(hashlib.sha256(txt.encode()).hexdigest()[:12], 16)))
    if len(sites) < 5:
        raise AnchorLost('write-site census found too little')
    return sites


# whole comment-free, whitespace-free bodies of the functions whose control flow the writer automaton mirrors, compared with
# the bodies the model was written against (SHA-256).  (file, fn name, which occurrence in the file)
BODY_ANCHORS = [
    ('connection.rs', 'send_control_stream_headers', 0), ('connection.rs', 'new', 0), ('connection.rs', 'shutdown', 0),
    ('connection.rs', 'poll_grease_stream', 0), ('connection.rs', 'send_data', 0), ('connection.rs', 'send_trailers', 0),
    ('connection.rs', 'finish', 0), ('connection.rs', 'process_goaway', 0),
    ('config.rs', 'try_from', 0),
    ('stream.rs', 'write', 0), ('stream.rs', 'encode_stream_type', 0), ('stream.rs', 'encode_value', 0),
    ('stream.rs', 'encode_frame_header', 0), ('stream.rs', 'from', 0), ('stream.rs', 'from', 1), ('stream.rs', 'from', 2),
    ('stream.rs', 'from', 3), ('stream.rs', 'from', 4),
    ('server/stream.rs', 'send_response', 0), ('server/stream.rs', 'send_data', 0), ('server/stream.rs', 'send_trailers', 0),
    ('server/stream.rs', 'finish', 0),
    ('server/connection.rs', 'new', 0), ('server/connection.rs', 'accept', 0), ('server/connection.rs', 'shutdown', 0),
    ('server/connection.rs', 'create_resolver_internal', 0), ('server/builder.rs', 'build', 0),
    ('server/request.rs', 'resolve_request', 0), ('server/request.rs', 'resolve', 0),
    ('client/connection.rs', 'send_request', 0), ('client/connection.rs', 'shutdown', 0),
    ('client/stream.rs', 'send_data', 0), ('client/stream.rs', 'send_trailers', 0), ('client/stream.rs', 'finish', 0),
    ('client/builder.rs', 'new', 0), ('client/builder.rs', 'build', 0),
]
BODY_SHA = {'client/builder.rs:build:0': '12b328cfce49eeb9',
 'client/builder.rs:new:0': '4662884e899dc8b0',
 'client/connection.rs:send_request:0': '53e30074ee34656c',
 'client/connection.rs:shutdown:0': '413bf545212817aa',
 'client/stream.rs:finish:0': '4d4744985a4c51a3',
 'client/stream.rs:send_data:0': '4e78c127c1ca6026',
 'client/stream.rs:send_trailers:0': 'f8b0a0db2b4f1ab8',
 'config.rs:try_from:0': '657092604aff33a6',
 'connection.rs:finish:0': '35eeeee29e510bcd',
 'connection.rs:new:0': '2406d23acfe23a38',
 'connection.rs:poll_grease_stream:0': '64a2d06aad81290a',
 'connection.rs:process_goaway:0': 'fc666058544e3826',
 'connection.rs:send_control_stream_headers:0': '447cb1a56fe0afa2',
 'connection.rs:send_data:0': '05f246300f89c535',
 'connection.rs:send_trailers:0': '85d18851d06044f5',
 'connection.rs:shutdown:0': 'ba5623a67db6f42b',
 'server/builder.rs:build:0': 'fab325ba172a799d',
 'server/connection.rs:accept:0': 'fa5cbcc0d642d349',
 'server/connection.rs:create_resolver_internal:0': '6b3f0fc198eac4dc',
 'server/connection.rs:new:0': '886bca48649e472b',
 'server/connection.rs:shutdown:0': 'b8f49a697076345e',
 'server/request.rs:resolve:0': '34ac43b8f72f01b0',
 'server/request.rs:resolve_request:0': '9293cf4065efa910',
 'server/stream.rs:finish:0': '4d4744985a4c51a3',
 'server/stream.rs:send_data:0': '4e78c127c1ca6026',
 'server/stream.rs:send_response:0': '2af382508dc02b1a',
 'server/stream.rs:send_trailers:0': 'f8b0a0db2b4f1ab8',
 'stream.rs:encode_frame_header:0': 'ed5fa65dec213c7e',
 'stream.rs:encode_stream_type:0': '17d6db253f0c8ce7',
 'stream.rs:encode_value:0': 'a19d9e2c0378c521',
 'stream.rs:from:0': 'c7be9724e90a2882',
 'stream.rs:from:1': '42c83b96fd8103ba',
 'stream.rs:from:2': '42c83b96fd8103ba',
 'stream.rs:from:3': 'c993e3b5e48135c7',
 'stream.rs:from:4': '2fddae2dca89a113',
 'stream.rs:write:0': '14aa06b35d2b6c4a'}


def body_digest(repo, rel, name, nth):
    import hashlib
    src = Source(repo + '/h3/src/' + rel)
    body, _ = src.fn_body(name, nth=nth)
    return hashlib.sha256(re.sub(r'\s+', '', body).encode()).hexdigest()[:16]


def check_bodies(repo):
    for rel, name, nth in BODY_ANCHORS:
        got = body_digest(repo, rel, name, nth)
        want = BODY_SHA.get('%s:%s:%d' % (rel, name, nth))
        if got != want:
            raise AnchorLost('body of %s fn %s (#%d) differs from the one the model mirrors (%s, expected %s)' % (rel, name, nth, got, want))


# `impl Buf for WriteBuf`: exactly these methods (a provided method that is overridden - chunks_vectored, copy_to_bytes,
# ... - would change what a transport sees without touching the three) and, when no fact site is altered, this exact text
BUF_IMPL_METHODS = ['remaining', 'chunk', 'advance']
BUF_IMPL_TEXT = ('fnremaining(&self)->usize{self.len-self.pos+self.frame.as_ref().and_then(|f|f.payload()).map_or(0,|x'
                 '|x.remaining())}fnchunk(&self)->&[u8]{ifself.len-self.pos>0{&self.buf[self.pos..self.len]}elseifletS'
                 'ome(payload)=self.frame.as_ref().and_then(|f|f.payload()){payload.chunk()}else{&[]}}fnadvance(&mutse'
                 'lf,mutcnt:usize){letremaining_header=self.len-self.pos;ifremaining_header>0{letadvanced=usize::min(c'
                 'nt,remaining_header);self.pos+=advanced;cnt-=advanced;}ifletSome(payload)=self.frame.as_mut().and_th'
                 'en(|f|f.payload_mut()){payload.advance(cnt);}}')


GENERIC_FN_NAMES = {'new', 'from', 'default', 'build', 'drop', 'clone', 'fmt', 'poll', 'into', 'encode', 'decode'}


def writer_call_census(repo):
    """Call graph above the write sites.  W starts with the SendStream primitives (send_data, poll_send, poll_finish) and
    stream::write; every call of a name in W - method call, path call (UFCS, `Trait::f(&mut s, ..)`) or bare call after a
    `use` - is a site (file, enclosing fn, callee, how many times), and its enclosing fn joins W (generic names such as
    `new` are recorded as callers but not followed).  A new caller of any function that can reach a write is a new row."""
    import os
    import hashlib
    root = os.path.join(repo, 'h3', 'src')
    texts, ranges = {}, {}
    for d, dirs, files in sorted(os.walk(root)):
        dirs.sort()
        if os.path.basename(d) == 'tests':
            dirs[:] = []
            continue
        for fn in sorted(files):
            if fn.endswith('.rs') and fn != 'tests.rs':
                path = os.path.join(d, fn)
                t = strip_test_modules(Source(path).text)
                texts[path] = t
                ranges[path] = fn_ranges(t)
    W = {'send_data', 'poll_send', 'poll_finish', 'write'}
    sites = {}
    changed = True
    rounds = 0
    while changed:
        changed = False
        rounds += 1
        if rounds > 50:
            raise AnchorLost('writer call census does not converge')
        sites = {}
        for path, t in texts.items():
            rel = os.path.relpath(path, root)
            imports_write = bool(re.search(r'use\s+[\w:]*stream::(?:\{[^;]*\bwrite\b|write\b)', t))
            for name in sorted(W):
                for m in re.finditer(r'(?<![\w!])' + name + r'\s*(?:::<[^>]*>)?\s*\(', t):
                    pre = t[max(0, m.start() - 12):m.start()]
                    if re.search(r'\bfn\s+$', pre):
                        continue
                    if name == 'write' and not (pre.rstrip().endswith('stream::') or rel == 'stream.rs' or imports_write):
                        continue    # io::Write::write and friends
                    encl = [(j - i, nm) for i, j, nm in ranges[path] if i <= m.start() <= j]
                    fnn = min(encl)[1] if encl else '-'
                    sites[(rel, fnn, name)] = sites.get((rel, fnn, name), 0) + 1
                    if fnn not in W and fnn not in GENERIC_FN_NAMES and fnn != '-':
                        W.add(fnn)
                        changed = True
    out = []
    for (rel, fnn, name), cnt in sorted(sites.items()):
        txt = '%s|%s|%s|x%d' % (rel, fnn, name, cnt)
        out.append((txt, int(hashlib.sha256(txt.encode()).hexdigest()[:12], 16)))
    if len(out) < 10:
        raise AnchorLost('writer call census found too little')
    return out


def extract(repo):
    f, spans = {}, {}
    fr = Source(repo + '/h3/src/proto/frame.rs')
    st = Source(repo + '/h3/src/proto/stream.rs')
    vi = Source(repo + '/h3/src/proto/varint.rs')
    ws = Source(repo + '/h3/src/stream.rs')
    cn = Source(repo + '/h3/src/connection.rs')

    f['frame_types'], spans['frame_types'] = macro_table(fr, 'frame_types')
    f['stream_types'], spans['stream_types'] = macro_table(st, 'stream_types')
    ft = dict(f['frame_types'])
    sty = dict(f['stream_types'])
    for need in ('DATA', 'HEADERS', 'CANCEL_PUSH', 'SETTINGS', 'PUSH_PROMISE', 'GOAWAY', 'MAX_PUSH_ID', 'WEBTRANSPORT_BI_STREAM'):
        if need not in ft:
            raise AnchorLost('frame type ' + need)
    for need in ('CONTROL', 'PUSH', 'ENCODER', 'DECODER', 'WEBTRANSPORT_BIDI', 'WEBTRANSPORT_UNI'):
        if need not in sty:
            raise AnchorLost('stream type ' + need)

    f['ft_grease'], spans['FrameType::grease'] = grease_fn(fr, 'FrameType')
    f['sid_grease'], spans['SettingId::grease'] = grease_fn(fr, 'SettingId')
    f['st_grease'], spans['StreamType::grease'] = grease_fn(st, 'StreamType')

    # sizes
    m = re.search(r'pub\s+const\s+MAX_SIZE\s*:\s*usize\s*=\s*' + INT + r'\s*;', vi.text)
    if not m:
        raise AnchorLost('VarInt::MAX_SIZE')
    vmax = parse_int(m.group(1))
    m = re.search(r'impl\s+Frame<PayloadLen>\s*\{\s*pub\s+const\s+MAX_ENCODED_SIZE\s*:\s*usize\s*=\s*VarInt::MAX_SIZE\s*\*\s*' + INT + r'\s*;', fr.text)
    if not m:
        raise AnchorLost('Frame::MAX_ENCODED_SIZE')
    frame_max = vmax * parse_int(m.group(1))
    m = re.search(r'pub\s+const\s+MAX_ENCODED_SIZE\s*:\s*usize\s*=\s*VarInt::MAX_SIZE\s*(?:\*\s*' + INT + r'\s*)?;', st.text)
    if not m:
        raise AnchorLost('StreamType::MAX_ENCODED_SIZE')
    st_max = vmax * (parse_int(m.group(1)) if m.group(1) else 1)
    m = re.search(r'const\s+WRITE_BUF_ENCODE_SIZE\s*:\s*usize\s*=\s*([^;]+);', ws.text)
    if not m:
        raise AnchorLost('WRITE_BUF_ENCODE_SIZE')
    expr = m.group(1).replace(' ', '')
    spans['WRITE_BUF_ENCODE_SIZE'] = (ws.line_of(m.start()), ws.line_of(m.end()))
    env = {'StreamType::MAX_ENCODED_SIZE': st_max, 'Frame::MAX_ENCODED_SIZE': frame_max, 'VarInt::MAX_SIZE': vmax}
    total = 0
    sign = 1
    for tok in re.findall(r'[+-]|[^+-]+', expr):
        if tok == '+':
            sign = 1
        elif tok == '-':
            sign = -1
        else:
            prod = 1
            for fac in tok.split('*'):
                prod *= env[fac] if fac in env else parse_int(fac) if re.fullmatch(INT, fac) else (_ for _ in ()).throw(AnchorLost('WRITE_BUF_ENCODE_SIZE term ' + fac))
            total += sign * prod
    if total <= 0:
        raise AnchorLost('WRITE_BUF_ENCODE_SIZE value')
    f['write_buf_encode_size'] = total

    # impl Encode for Frame
    blk, spans['Encode for Frame'], _ = fr.item_block(r'impl<B>\s+Encode\s+for\s+Frame<B>')
    arms = dict(match_arms(blk, 'self'))

    def arm(key):
        for k, v in arms.items():
            if k.startswith(key):
                return k, v
        raise AnchorLost('Encode arm ' + key)
    k, body = arm('Frame::Data(')
    var = re.match(r'Frame::Data\((\w+)\)', k).group(1)
    ss = stmts(body)
    m0 = re.fullmatch(r'FrameType::(\w+)\.encode\(buf\)', ss[0]) if len(ss) == 2 else None
    m1 = re.fullmatch(r'buf\.write_var\((.*)\)', ss[1]) if len(ss) == 2 else None
    if not (m0 and m1):
        raise AnchorLost('Data arm')
    f['data_type'] = ft[m0.group(1)]
    f['data_len_add'], f['data_len_sub'] = len_expr(m1.group(1), var)
    k, body = arm('Frame::Headers(')
    var = re.match(r'Frame::Headers\((\w+)\)', k).group(1)
    ss = stmts(body)
    m0 = re.fullmatch(r'FrameType::(\w+)\.encode\(buf\)', ss[0]) if len(ss) == 2 else None
    m1 = re.fullmatch(r'buf\.write_var\((.*)\)', ss[1]) if len(ss) == 2 else None
    if not (m0 and m1):
        raise AnchorLost('Headers arm')
    f['headers_type'] = ft[m0.group(1)]
    f['headers_len_add'], f['headers_len_sub'] = len_expr(m1.group(1), var)
    for key, nm in (('Frame::CancelPush(', 'cancel_push_type'), ('Frame::Goaway(', 'goaway_type'), ('Frame::MaxPushId(', 'max_push_id_type')):
        k, body = arm(key)
        m = re.match(r'\s*simple_frame_encode\(\s*FrameType::(\w+)\s*,', body)
        if not m:
            raise AnchorLost(key + ' arm')
        f[nm] = ft[m.group(1)]
    k, body = arm('Frame::Grease')
    ss = stmts(body)
    if len(ss) != 3 or ss[0] != 'FrameType::grease().encode(buf)':
        raise AnchorLost('Grease arm')
    m1 = re.fullmatch(r'buf\.write_var\(\s*' + INT + r'\s*\)', ss[1])
    m2 = re.fullmatch(r'buf\.put_slice\((.*)\)', ss[2])
    if not (m1 and m2):
        raise AnchorLost('Grease arm statements')
    f['grease_len_field'] = parse_int(m1.group(1))
    f['grease_payload'] = byte_literal(m2.group(1))
    k, body = arm('Frame::WebTransportStream(')
    ss = stmts(body)
    m0 = re.fullmatch(r'FrameType::(\w+)\.encode\(buf\)', ss[0]) if len(ss) == 2 else None
    if not (m0 and ss[1] == 'id.encode(buf)'):
        raise AnchorLost('WebTransportStream arm')
    f['wt_frame_type'] = ft[m0.group(1)]
    k, body = arm('Frame::Settings(')
    if body.strip() != 'f.encode(buf)':
        raise AnchorLost('Settings arm')
    k, body = arm('Frame::PushPromise(')
    if body.strip() != 'f.encode(buf)':
        raise AnchorLost('PushPromise arm')

    # payload(): which variants expose a payload
    body, spans['payload'] = fr.fn_body('payload')
    pa = match_arms(body, 'self')
    some = sorted(re.match(r'Frame::(\w+)', k).group(1) for k, v in pa if v.strip().startswith('Some'))
    f['payload_variants'] = some
    body2, spans['payload_mut'] = fr.fn_body('payload_mut')
    some2 = sorted(re.match(r'Frame::(\w+)', k).group(1) for k, v in match_arms(body2, 'self') if v.strip().startswith('Some'))
    f['payload_mut_variants'] = some2

    # simple_frame_encode
    body, spans['simple_frame_encode'] = fr.fn_body('simple_frame_encode')
    names = {'ty.encode(buf)': 0, 'buf.write_var(id.size() as u64)': 1, 'id.encode(buf)': 2}
    ss = stmts(body)
    if sorted(ss) != sorted(names):
        raise AnchorLost('simple_frame_encode statements: %r' % ss)
    f['simple_frame_order'] = [names[s] for s in ss]

    # FrameHeader::encode_header (default) and Settings::encode
    blk, spans['FrameHeader'], _ = fr.item_block(r'pub\(crate\)\s+trait\s+FrameHeader')
    m = re.search(r'fn\s+encode_header[^{]*\{', blk)
    if not m:
        raise AnchorLost('FrameHeader::encode_header')
    i = blk.index('{', m.start())
    ss = stmts(blk[i + 1:match_close(blk, i)])
    names = {'Self::TYPE.encode(buf)': 0, 'buf.write_var(self.len() as u64)': 1}
    if sorted(ss) != sorted(names):
        raise AnchorLost('encode_header statements: %r' % ss)
    f['frame_header_order'] = [names[s] for s in ss]
    blk, spans['impl Settings'], _ = fr.item_block(r'impl\s+Settings\s*\{')
    m = re.search(r'fn\s+encode<[^{]*\{', blk)
    if not m:
        raise AnchorLost('Settings::encode')
    i = blk.index('{', m.start())
    sbody = blk[i + 1:match_close(blk, i)]
    m = re.fullmatch(r'\s*self\.encode_header\(buf\);\s*for\s*\(id,\s*val\)\s*in\s*self\.entries\[\.\.self\.len\]\.iter\(\)\s*\{\s*id\.encode\(buf\);\s*buf\.write_var\(\*val\);\s*\}\s*', sbody)
    if not m:
        raise AnchorLost('Settings::encode body')
    blk, _, _ = fr.item_block(r'impl\s+FrameHeader\s+for\s+Settings')
    m = re.search(r'const\s+TYPE\s*:\s*FrameType\s*=\s*FrameType::(\w+)\s*;', blk)
    if not m:
        raise AnchorLost('Settings TYPE')
    f['settings_type'] = ft[m.group(1)]
    m = re.search(r'len\s*\+\s*VarInt::from_u64\(id\.0\)\.unwrap\(\)\.size\(\)\s*\+\s*VarInt::from_u64\(\*val\)\.unwrap\(\)\.size\(\)', blk)
    if not m:
        raise AnchorLost('Settings len()')
    m = re.search(r'const\s+SETTINGS_LEN\s*:\s*usize\s*=\s*' + INT + r'\s*;', fr.text)
    if not m:
        raise AnchorLost('SETTINGS_LEN')
    f['settings_len'] = parse_int(m.group(1))

    # PushPromise (modelled for completeness; never constructed for sending)
    blk, spans['FrameHeader for PushPromise'], _ = fr.item_block(r'impl\s+FrameHeader\s+for\s+PushPromise')
    m = re.search(r'const\s+TYPE\s*:\s*FrameType\s*=\s*FrameType::(\w+)\s*;', blk)
    if not m:
        raise AnchorLost('PushPromise TYPE')
    f['push_promise_type'] = ft[m.group(1)]
    blk, _, _ = fr.item_block(r'impl\s+PushPromise\s*\{')
    m = re.search(r'fn\s+encode<[^{]*\{\s*self\.encode_header\(buf\);\s*(buf\.put\(self\.encoded\.clone\(\)\);)?\s*\}', blk)
    if not m:
        raise AnchorLost('PushPromise::encode')
    f['push_promise_puts_payload_in_header'] = bool(m.group(1))

    # UniStreamHeader / BidiStreamHeader encode arms
    blk, spans['Encode for UniStreamHeader'], _ = ws.item_block(r'impl\s+Encode\s+for\s+UniStreamHeader')
    ua = match_arms(blk, 'self')
    uni = {}
    for k, body in ua:
        name = re.search(r'(\w+)(?:\(\w+\))?$', k).group(1)
        ss = stmts(body)
        m0 = re.fullmatch(r'StreamType::(\w+)\.encode\(buf\)', ss[0]) if ss else None
        if name == 'Control':
            names = {'StreamType::CONTROL.encode(buf)': 0, 'settings.encode(buf)': 1}
            if sorted(ss) != sorted(names):
                raise AnchorLost('Control arm: %r' % ss)
            f['control_header_order'] = [names[s] for s in ss]
            uni[name] = sty['CONTROL']
        elif name == 'WebTransportUni':
            if not (m0 and len(ss) == 2 and ss[1] == 'session_id.encode(buf)'):
                raise AnchorLost('WebTransportUni arm')
            uni[name] = sty[m0.group(1)]
        else:
            if not (m0 and len(ss) == 1):
                raise AnchorLost(name + ' arm')
            uni[name] = sty[m0.group(1)]
    for need in ('Control', 'WebTransportUni', 'Encoder', 'Decoder'):
        if need not in uni:
            raise AnchorLost('UniStreamHeader::' + need)
    f['uni'] = uni
    blk, spans['Encode for BidiStreamHeader'], _ = ws.item_block(r'impl\s+Encode\s+for\s+BidiStreamHeader')
    ba = match_arms(blk, 'self')
    if len(ba) != 1:
        raise AnchorLost('BidiStreamHeader arms')
    ss = stmts(ba[0][1])
    m0 = re.fullmatch(r'StreamType::(\w+)\.encode\(buf\)', ss[0])
    if not (m0 and len(ss) == 2 and ss[1] == 'session_id.encode(buf)'):
        raise AnchorLost('WebTransportBidi arm')
    f['wt_bidi_type'] = sty[m0.group(1)]

    # From<(StreamType, Frame<B>)>
    blk, spans['From<(StreamType, Frame)>'], _ = ws.item_block(r'impl<B>\s+From<\(StreamType,\s*Frame<B>\)>\s+for\s+WriteBuf<B>')
    i1, i2 = blk.find('me.encode_value(ty)'), blk.find('me.encode_frame_header()')
    if i1 < 0 or i2 < 0:
        raise AnchorLost('From<(StreamType, Frame)> body')
    f['pair_type_first'] = i1 < i2
    m = re.search(r'buf:\s*\[0;\s*WRITE_BUF_ENCODE_SIZE\],\s*len:\s*' + INT + r',\s*pos:\s*' + INT + r',', blk)
    if not m:
        raise AnchorLost('WriteBuf literal')
    f['init_len'], f['init_pos'] = parse_int(m.group(1)), parse_int(m.group(2))

    # impl Buf for WriteBuf
    blk, spans['Buf for WriteBuf'], _ = ws.item_block(r'impl<B>\s+Buf\s+for\s+WriteBuf<B>')
    flat = re.sub(r'\s+', '', blk)
    if 'self.len-self.pos+self.frame.as_ref().and_then(|f|f.payload()).map_or(0,|x|x.remaining())' not in flat:
        raise AnchorLost('WriteBuf::remaining')
    m = re.search(r'ifself\.len-self\.pos>0\{&self\.buf\[self\.pos(?:([+-])' + INT + r')?\.\.self\.len(?:([+-])' + INT + r')?\]\}elseifletSome\(payload\)=self\.frame\.as_ref\(\)\.and_then\(\|f\|f\.payload\(\)\)\{payload\.chunk\(\)\}else\{&\[\]\}', flat)
    if not m:
        raise AnchorLost('WriteBuf::chunk')

    def signed(sign, lit):
        return 0 if not sign else (parse_int(lit) if sign == '+' else -parse_int(lit))
    f['chunk_lo_off'], f['chunk_hi_off'] = signed(m.group(1), m.group(2)), signed(m.group(3), m.group(4))
    m = re.search(r'letremaining_header=self\.len-self\.pos;ifremaining_header>0\{letadvanced=usize::(min|max)\(cnt,remaining_header\);'
                  r'self\.pos\+=advanced(?:([+-])' + INT + r')?;cnt-=advanced(?:([+-])' + INT + r')?;\}'
                  r'ifletSome\(payload\)=self\.frame\.as_mut\(\)\.and_then\(\|f\|f\.payload_mut\(\)\)\{payload\.advance\(cnt(?:([+-])' + INT + r')?\);\}', flat)
    if not m:
        raise AnchorLost('WriteBuf::advance')
    f['advance_uses_min'] = m.group(1) == 'min'
    f['advance_pos_off'] = signed(m.group(2), m.group(3))
    f['advance_cnt_off'] = signed(m.group(4), m.group(5))
    f['advance_payload_off'] = signed(m.group(6), m.group(7))
    methods = re.findall(r'\bfn\s+(\w+)', blk)
    if methods != BUF_IMPL_METHODS:
        raise AnchorLost('impl Buf for WriteBuf defines %s, expected exactly %s' % (methods, BUF_IMPL_METHODS))
    untouched = (f['chunk_lo_off'] == 0 and f['chunk_hi_off'] == 0 and f['advance_uses_min'] and f['advance_pos_off'] == 0
                 and f['advance_cnt_off'] == 0 and f['advance_payload_off'] == 0)
    if untouched and flat != BUF_IMPL_TEXT:
        raise AnchorLost('impl Buf for WriteBuf differs from the block the model mirrors')

    # connection.rs
    body, spans['send_control_stream_headers'] = cn.fn_body('send_control_stream_headers')
    flatb = re.sub(r'\s+', '', body)
    m = re.search(r'stream::write\(&mutself\.control_send,WriteBuf::from\(UniStreamHeader::(\w+)\(settings\)\),?\)', flatb)
    if not m:
        raise AnchorLost('control header write')
    f['setup_control'] = m.group(1)
    m1 = re.search(r'ifletSome\(stream\)=&mutdecoder_send\{let_=stream::write\(stream,WriteBuf::from\(UniStreamHeader::(\w+)\)\)\.await;\}', flatb)
    m2 = re.search(r'ifletSome\(stream\)=&mutencoder_send\{let_=stream::write\(stream,WriteBuf::from\(UniStreamHeader::(\w+)\)\)\.await;\}', flatb)
    if not (m1 and m2):
        raise AnchorLost('qpack header writes')
    f['setup_decoder'], f['setup_encoder'] = m1.group(1), m2.group(1)
    body, spans['ConnectionInner::new'] = cn.fn_body('new')
    m = re.search(r'let\s*\(\s*(\w+)\s*,\s*(\w+)\s*,\s*(\w+)\s*\)\s*=\s*\(\s*future::poll_fn\(\|cx\|\s*conn\.poll_open_send\(cx\)\)\.await,\s*'
                  r'future::poll_fn\(\|cx\|\s*conn\.poll_open_send\(cx\)\)\.await,\s*future::poll_fn\(\|cx\|\s*conn\.poll_open_send\(cx\)\)\.await,?\s*\)', body)
    if not m:
        raise AnchorLost('setup open order')
    order = list(m.groups())
    flatn = re.sub(r'\s+', '', body)
    dm = re.search(r'decoder_send:(\w+)\.ok\(\)', flatn)
    em = re.search(r'encoder_send:(\w+)\.ok\(\)', flatn)
    if not (dm and em and 'control_send' in order and dm.group(1) in order and em.group(1) in order):
        raise AnchorLost('setup stream roles')
    # position (0,1,2) of the control, encoder, decoder send streams among the three opens
    f['open_pos'] = [order.index('control_send'), order.index(em.group(1)), order.index(dm.group(1))]
    body, spans['poll_grease_stream'] = cn.fn_body('poll_grease_stream')
    if not re.search(r'\.send_data\(\(StreamType::grease\(\),\s*Frame::Grease\)\)', body):
        raise AnchorLost('grease stream data')
    f['grease_stream_finishes'] = bool(re.search(r'stream\.poll_finish\(cx\)', body))
    body, spans['RequestStream::finish'] = cn.fn_body('finish')
    flatf = re.sub(r'\s+', '', body)
    m = re.search(r'ifself\.send_grease_frame\{stream::write\(&mutself\.stream,Frame::(\w+)\)\.await\.map_err\(\|e\|self\.handle_quic_stream_error\(e\)\)\?;'
                  r'self\.send_grease_frame=(true|false);\}future::poll_fn\(\|cx\|self\.stream\.poll_finish\(cx\)\)', flatf)
    if not m:
        raise AnchorLost('RequestStream::finish')
    f['finish_frame'] = m.group(1)
    f['finish_clears_flag'] = m.group(2) == 'false'
    body, spans['ConnectionInner::shutdown'] = cn.fn_body('shutdown')
    m = re.search(r'stream::write\(&mut\s+self\.control_send,\s*Frame::(\w+)\(max_id\.into\(\)\)\)', body)
    if not m:
        raise AnchorLost('shutdown frame')
    f['shutdown_frame'] = m.group(1)
    m = re.search(r'if\s+\*sent_id\s*(<=|<|>=|>)\s*max_id\s*\{\s*return\s+Ok\(\(\)\);', body)
    if not m:
        raise AnchorLost('shutdown monotone test')
    f['shutdown_skip_cmp'] = m.group(1)
    # the guard `if let Some(err) = self.get_conn_error() { return Err(..) }` placed before the monotonicity test
    g = re.search(r'if\s+let\s+Some\(err\)\s*=\s*self\.get_conn_error\(\)\s*\{\s*return\s+Err\(self\.handle_connection_error\(err\)\);\s*\}', body)
    if g is None and 'get_conn_error' in body:
        raise AnchorLost('shutdown connection-error guard')
    f['shutdown_checks_conn_error'] = bool(g) and g.start() < m.start()
    if g is not None and not f['shutdown_checks_conn_error']:
        raise AnchorLost('shutdown connection-error guard position')
    body, spans['send_data'] = cn.fn_body('send_data')
    if not re.search(r'let\s+frame\s*=\s*Frame::Data\(buf\);\s*stream::write\(&mut\s+self\.stream,\s*frame\)', body):
        raise AnchorLost('RequestStream::send_data')
    body, spans['send_trailers'] = cn.fn_body('send_trailers')
    if not re.search(r'stream::write\(&mut\s+self\.stream,\s*Frame::Headers\(block\.freeze\(\)\)\)', body):
        raise AnchorLost('RequestStream::send_trailers')
    check_bodies(repo)
    f['write_sites'] = write_site_census(repo)
    f['writer_calls'] = writer_call_census(repo)
    # config.rs: TryFrom<Config> for frame::Settings
    cf = Source(repo + '/h3/src/config.rs')
    f['setting_ids'], spans['setting_identifiers'] = macro_table(fr, 'setting_identifiers')
    sids = dict(f['setting_ids'])
    blk, spans['TryFrom<Config>'], _ = cf.item_block(r'impl\s+TryFrom<Config>\s+for\s+frame::Settings')
    body = blk[blk.index('fn try_from'):]
    fields = {'max_field_section_size': 0, 'enable_extended_connect': 1, 'enable_webtransport': 2, 'enable_datagram': 3,
              'max_webtransport_sessions': 4}
    ins = []
    for m in re.finditer(r'settings\s*\.insert\(\s*frame::SettingId::(\w+)(\(\))?\s*,\s*([^;]*?)\s*,?\s*\)\s*(\?)?\s*[;{]', body):
        name, call, expr, q = m.group(1), m.group(2), m.group(3), m.group(4)
        if name == 'grease' and call:
            lit = re.fullmatch(INT, expr.strip())
            if not lit or q:
                raise AnchorLost('grease insert')
            pre = body[:m.start()]
            if not re.search(r'if\s+send_grease\s*\{[^}]*$', pre, re.S) or not re.search(r'match\s*$', pre):
                raise AnchorLost('grease insert guard')
            ins.append(('grease', parse_int(lit.group(0)), None))
        else:
            e = re.fullmatch(r'(\w+)(\s+as\s+u64)?', expr.strip())
            if not e or e.group(1) not in fields or name not in sids or not q:
                raise AnchorLost('settings insert ' + m.group(0))
            ins.append((name, sids[name], fields[e.group(1)]))
    if not ins or sum(1 for i in ins if i[0] == 'grease') > 1:
        raise AnchorLost('settings inserts')
    f['config_inserts'] = ins
    # Settings::insert checks, in order
    blk, _, _ = fr.item_block(r'impl\s+Settings\s*\{')
    m = re.search(r'pub\s+fn\s+insert[^{]*\{', blk)
    i = blk.index('{', m.start())
    ib = re.sub(r'\s+', '', blk[i + 1:match_close(blk, i)])
    want = ('ifself.len>=self.entries.len(){returnErr(SettingsError::Exceeded);}'
            'ifVarInt::from_u64(id.0).is_err()||VarInt::from_u64(value).is_err(){returnErr(SettingsError::InvalidSettingValue(id,value));}'
            'ifself.entries[..self.len].iter().any(|(i,_)|*i==id){returnErr(SettingsError::Repeated(id));}'
            'self.entries[self.len]=(id,value);self.len+=1;Ok(())')
    if ib != want:
        raise AnchorLost('Settings::insert body')
    return f, spans


def render(f):
    b = lambda x: 'true' if x else 'false'
    z = lambda x: '%d' % x if x >= 0 else '(-%d)' % (-x)
    L = ['(* GENERATED by translate/gen_writers.py from h3/src/{stream.rs,connection.rs,proto/frame.rs,proto/stream.rs,proto/varint.rs} *)',
         'From H3V Require Import Base.Bytes.']
    for n, v in f['frame_types']:
        L.append('Definition ft_%s : N := %d.' % (n, v))
    L.append('Definition frame_type_table : list N := [%s].' % '; '.join('ft_' + n for n, _ in f['frame_types']))
    for n, v in f['stream_types']:
        L.append('Definition st_%s : N := %d.' % (n, v))
    L.append('Definition stream_type_table : list N := [%s].' % '; '.join('st_' + n for n, _ in f['stream_types']))
    for nm in ('ft_grease', 'st_grease', 'sid_grease'):
        r, m, a = f[nm]
        L.append('Definition %s_range : N := %d.' % (nm, r))
        L.append('Definition %s_mul : N := %d.' % (nm, m))
        L.append('Definition %s_add : N := %d.' % (nm, a))
    L.append('Definition write_buf_encode_size : N := %d.' % f['write_buf_encode_size'])
    L.append('Definition wb_init_len : N := %d.' % f['init_len'])
    L.append('Definition wb_init_pos : N := %d.' % f['init_pos'])
    for nm in ('data_type', 'headers_type', 'cancel_push_type', 'goaway_type', 'max_push_id_type', 'settings_type',
               'push_promise_type', 'wt_frame_type', 'data_len_add', 'data_len_sub', 'headers_len_add', 'headers_len_sub',
               'grease_len_field', 'settings_len', 'wt_bidi_type'):
        L.append('Definition %s : N := %d.' % (nm, f[nm]))
    L.append('Definition grease_payload : bytes := %s.' % coq_bytes(f['grease_payload']))
    L.append('Definition payload_variants : list N := [%s].' % '; '.join(str({'Data': 0, 'Headers': 1, 'PushPromise': 5}.get(v, 99)) for v in f['payload_variants']))
    L.append('Definition payload_mut_variants : list N := [%s].' % '; '.join(str({'Data': 0, 'Headers': 1, 'PushPromise': 5}.get(v, 99)) for v in f['payload_mut_variants']))
    L.append('(* 0 = type, 1 = length, 2 = id *)')
    L.append('Definition simple_frame_order : list N := [%s].' % '; '.join(map(str, f['simple_frame_order'])))
    L.append('(* 0 = TYPE.encode, 1 = write_var(self.len()) *)')
    L.append('Definition frame_header_order : list N := [%s].' % '; '.join(map(str, f['frame_header_order'])))
    L.append('(* 0 = StreamType::CONTROL.encode, 1 = settings.encode *)')
    L.append('Definition control_header_order : list N := [%s].' % '; '.join(map(str, f['control_header_order'])))
    L.append('Definition push_promise_puts_payload_in_header : bool := %s.' % b(f['push_promise_puts_payload_in_header']))
    for k in ('Control', 'WebTransportUni', 'Encoder', 'Decoder'):
        L.append('Definition uni_%s_type : N := %d.' % (k, f['uni'][k]))
    L.append('Definition pair_type_first : bool := %s.' % b(f['pair_type_first']))
    L.append('Definition chunk_lo_off : Z := %s.' % z(f['chunk_lo_off']))
    L.append('Definition chunk_hi_off : Z := %s.' % z(f['chunk_hi_off']))
    L.append('Definition advance_uses_min : bool := %s.' % b(f['advance_uses_min']))
    L.append('Definition advance_pos_off : Z := %s.' % z(f['advance_pos_off']))
    L.append('Definition advance_cnt_off : Z := %s.' % z(f['advance_cnt_off']))
    L.append('Definition advance_payload_off : Z := %s.' % z(f['advance_payload_off']))
    hdr = {'Control': 0, 'Encoder': 1, 'Decoder': 2, 'WebTransportUni': 3}
    L.append('(* which UniStreamHeader (0 Control, 1 Encoder, 2 Decoder) setup writes on control_send / encoder_send / decoder_send *)')
    L.append('Definition setup_headers : list N := [%d; %d; %d].' % (hdr.get(f['setup_control'], 9), hdr.get(f['setup_encoder'], 9), hdr.get(f['setup_decoder'], 9)))
    L.append('(* position of the control / encoder / decoder send stream among the three poll_open_send calls *)')
    L.append('Definition setup_open_pos : list N := [%s].' % '; '.join(map(str, f['open_pos'])))
    L.append('Definition grease_stream_finishes : bool := %s.' % b(f['grease_stream_finishes']))
    L.append('Definition finish_frame_is_grease : bool := %s.' % b(f['finish_frame'] == 'Grease'))
    L.append('Definition finish_clears_flag : bool := %s.' % b(f['finish_clears_flag']))
    L.append('Definition shutdown_frame_is_goaway : bool := %s.' % b(f['shutdown_frame'] == 'Goaway'))
    L.append('(* `if *sent_id CMP max_id { return Ok(()) }`: 0 "<=", 1 "<", 2 ">=", 3 ">" *)')
    L.append('Definition shutdown_skip_cmp : N := %d.' % {'<=': 0, '<': 1, '>=': 2, '>': 3}[f['shutdown_skip_cmp']])
    L.append('(* ConnectionInner::shutdown starts with `if let Some(err) = self.get_conn_error() { return Err(..) }` *)')
    L.append('Definition shutdown_checks_conn_error : bool := %s.' % b(f['shutdown_checks_conn_error']))
    for n, v in f['setting_ids']:
        L.append('Definition sid_%s : N := %d.' % (n, v))
    L.append('(* TryFrom<Config>: the inserts in source order: (setting id, config field) with field 0 max_field_section_size,')
    L.append('   1 enable_extended_connect, 2 enable_webtransport, 3 enable_datagram, 4 max_webtransport_sessions; the grease insert')
    L.append('   (only when send_grease; its error is ignored) is (None, value) *)')
    rows = []
    for name, a, b in f['config_inserts']:
        rows.append('(None, %d)' % a if name == 'grease' else '(Some %d, %d)' % (a, b))
    L.append('Definition config_inserts : list (option N * N) := [%s].' % '; '.join(rows))
    L.append('(* CENSUS of the calls that hand bytes or a FIN to a send stream in the non-test sources of h3/src:')
    L.append('   file | enclosing fn | callee | head of the first argument, each as the first 48 bits of its SHA-256 *)')
    L.append('Definition write_sites : list N := [')
    L.append(';\n'.join('  %d (* %s *)' % (h, t.replace('*)', '* )')) for t, h in f['write_sites']))
    L.append('].')
    L.append('(* CALL GRAPH above those sites: file | enclosing fn | callee that can reach a write | number of calls *)')
    L.append('Definition writer_calls : list N := [')
    L.append(';\n'.join('  %d (* %s *)' % (h, t) for t, h in f['writer_calls']))
    L.append('].')
    return '\n'.join(L) + '\n'
