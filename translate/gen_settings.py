"""Source facts for C13 (SETTINGS): proto/frame.rs, config.rs, stream.rs, proto/stream.rs, proto/varint.rs,
connection.rs, shared_state.rs, error/internal_error.rs.

Everything the Coq model of SETTINGS takes from the code as data: the identifier table, the supported and
forbidden lists, SETTINGS_LEN, the order of the checks in Settings::insert, the decode loop's short-buffer
comparison, the grease formula, the order and the sources of the inserts in TryFrom<Config>, the rows of
From<&frame::Settings> for config::Settings, the defaults, the WriteBuf header capacity expression and the
error codes chosen at the three relevant sites."""
import re
from rustsrc import Source, AnchorLost, parse_int, match_close

NAME = 'GenSettings'

FIELDS = ['max_field_section_size', 'enable_webtransport', 'enable_extended_connect', 'enable_datagram',
          'max_webtransport_sessions']
FCON = {'max_field_section_size': 'F_mfs', 'enable_webtransport': 'F_wt', 'enable_extended_connect': 'F_ec',
        'enable_datagram': 'F_dg', 'max_webtransport_sessions': 'F_wtmax'}


def macro_table(src, name):
    m = re.search(r'(?m)^' + name + r'!\s*\{', src.text)
    if not m:
        raise AnchorLost(name + '! invocation')
    i = src.text.index('{', m.start())
    j = match_close(src.text, i)
    rows = re.findall(r'(\w+)\s*=\s*(0[xX][0-9a-fA-F_]+|\d[\d_]*)\s*,', src.text[i + 1:j])
    if not rows:
        raise AnchorLost(name + ' rows')
    return [(n, parse_int(v)) for n, v in rows], (src.line_of(i), src.line_of(j))


def const_expr(src, name):
    m = re.search(r'\bconst\s+' + name + r'\s*:\s*[\w:]+\s*=\s*([^;]+);', src.text)
    if not m:
        raise AnchorLost('const ' + name + ' in ' + src.path)
    return m.group(1).strip(), src.line_of(m.start())


def extract(repo):
    f, spans = {}, {}
    fr = Source(repo + '/h3/src/proto/frame.rs')
    # ---- identifier table
    f['ids'], spans['setting_identifiers'] = macro_table(fr, 'setting_identifiers')
    idmap = dict(f['ids'])
    ftypes, spans['frame_types'] = macro_table(fr, 'frame_types')
    ftypes = dict(ftypes)
    # ---- impl SettingId
    blk, sp, _ = fr.item_block(r'(?m)^impl\s+SettingId\s*\{')
    spans['impl SettingId'] = sp
    m = re.search(r'const\s+NONE\s*:\s*SettingId\s*=\s*SettingId\(([^)]+)\)', blk)
    if not m:
        raise AnchorLost('SettingId::NONE')
    f['none'] = parse_int(m.group(1))
    m = re.search(r'fn\s+grease\s*\(\s*\)\s*->\s*Self\s*\{\s*SettingId\(\s*fastrand::u64\(\s*0\s*\.\.\s*(\w+)\s*\)\s*\*\s*(\w+)\s*\+\s*(\w+)\s*\)\s*\}', blk)
    if not m:
        raise AnchorLost('SettingId::grease formula')
    f['grease'] = [parse_int(x) for x in m.groups()]
    m = re.search(r'fn\s+is_supported\s*\(\s*self\s*\)\s*->\s*bool\s*\{\s*matches!\s*\(\s*self\s*,([^)]*)\)', blk)
    if not m:
        raise AnchorLost('is_supported')
    names = re.findall(r'SettingId::(\w+)', m.group(1))
    lits = re.findall(r'SettingId\(', m.group(1))
    if not names or lits or any(n not in idmap for n in names):
        raise AnchorLost('is_supported list')
    f['supported'] = names
    m = re.search(r'fn\s+is_forbidden\s*\(\s*&self\s*\)\s*->\s*bool\s*\{\s*matches!\s*\(\s*self\s*,((?:[^()]|\([^()]*\))*)\)', blk)
    if not m:
        raise AnchorLost('is_forbidden')
    nums = re.findall(r'SettingId\(\s*(\w+)\s*\)', m.group(1))
    if not nums or re.search(r'SettingId::', m.group(1)):
        raise AnchorLost('is_forbidden list')
    f['forbidden'] = [parse_int(x) for x in nums]
    # ---- SETTINGS_LEN, entries array
    e, _ = const_expr(fr, 'SETTINGS_LEN')
    f['settings_len'] = parse_int(e)
    if not re.search(r'entries\s*:\s*\[\s*\(SettingId\s*,\s*u64\)\s*;\s*SETTINGS_LEN\s*\]', fr.text):
        raise AnchorLost('Settings.entries array type')
    # ---- frame type of Settings
    m = re.search(r'impl\s+FrameHeader\s+for\s+Settings\s*\{\s*const\s+TYPE\s*:\s*FrameType\s*=\s*FrameType::(\w+)\s*;', fr.text)
    if not m or m.group(1) not in ftypes:
        raise AnchorLost('FrameHeader for Settings TYPE')
    f['frame_type'] = ftypes[m.group(1)]
    # ---- impl Settings: insert / get / decode
    blk, sp, mm = fr.item_block(r'(?m)^impl\s+Settings\s*\{')
    spans['impl Settings'] = sp
    sub = Source.__new__(Source)
    sub.path, sub.raw, sub.text = fr.path, blk, blk
    body, _ = sub.fn_body('insert')
    m = re.search(r'if\s+self\.len\s*(>=|>|==)\s*self\.entries\.len\(\)\s*\{\s*return\s+Err\(SettingsError::Exceeded\)', body)
    if not m:
        raise AnchorLost('insert: Exceeded check')
    f['exceeded_cmp'] = m.group(1)
    order = []
    for mm2 in re.finditer(r'return\s+Err\(SettingsError::(\w+)', body):
        order.append(mm2.group(1))
    if sorted(order) != ['Exceeded', 'InvalidSettingValue', 'Repeated']:
        raise AnchorLost('insert: checks ' + ','.join(order))
    f['insert_checks'] = order
    if not re.search(r'VarInt::from_u64\(id\.0\)\.is_err\(\)\s*\|\|\s*VarInt::from_u64\(value\)\.is_err\(\)', body):
        raise AnchorLost('insert: varint range check')
    if not re.search(r'self\.entries\[\.\.self\.len\]\.iter\(\)\.any\(\|\(i,\s*_\)\|\s*\*i\s*==\s*id\)', body):
        raise AnchorLost('insert: repeated check')
    body, _ = sub.fn_body('get')
    if re.search(r'in\s+self\.entries\.iter\(\)', body):
        f['get_scans_all'] = True
    elif re.search(r'in\s+self\.entries\[\.\.self\.len\]\.iter\(\)', body):
        f['get_scans_all'] = False
    else:
        raise AnchorLost('get: iteration')
    body, _ = sub.fn_body('encode')
    if not re.search(r'self\.encode_header\(buf\);\s*for\s*\(id,\s*val\)\s*in\s*self\.entries\[\.\.self\.len\]\.iter\(\)\s*\{\s*id\.encode\(buf\);\s*buf\.write_var\(\*val\);', body):
        raise AnchorLost('Settings::encode shape')
    body, _ = sub.fn_body('decode')
    m = re.search(r'while\s+buf\.has_remaining\(\)\s*\{\s*if\s+buf\.remaining\(\)\s*(<=|<)\s*(\w+)\s*\{\s*return\s+Err\(SettingsError::Malformed\)', body)
    if not m:
        raise AnchorLost('decode: short-buffer check')
    f['dec_min_cmp'] = m.group(1)
    f['dec_min'] = parse_int(m.group(2))
    pf = body.find('identifier.is_forbidden()')
    ps = body.find('identifier.is_supported()')
    pi = body.find('settings.insert(identifier, value)?')
    # the two identifier classes are disjoint, so their order is immaterial; the insert must be under is_supported
    if pf < 0 or ps < 0 or pi < 0 or not (ps < pi):
        raise AnchorLost('decode: forbidden/supported/insert')
    if not re.search(r'if\s+identifier\.is_forbidden\(\)\s*\{\s*return\s+Err\(SettingsError::InvalidSettingId\(identifier\.0\)\)', body):
        raise AnchorLost('decode: forbidden arm')
    # ---- capacities
    vi = Source(repo + '/h3/src/proto/varint.rs')
    e, _ = const_expr(vi, 'MAX_SIZE')
    env = {'VarInt::MAX_SIZE': parse_int(e)}
    m = re.search(r'const\s+MAX\s*:\s*VarInt\s*=\s*VarInt\(\s*\(\s*1\s*<<\s*(\d+)\s*\)\s*-\s*1\s*\)', vi.text)
    if not m:
        raise AnchorLost('VarInt::MAX')
    varint_max = (1 << int(m.group(1))) - 1
    ps_ = Source(repo + '/h3/src/proto/stream.rs')
    stypes, spans['stream_types'] = macro_table(ps_, 'stream_types')
    stypes = dict(stypes)
    m = re.search(r'impl\s+StreamType\s*\{\s*pub\s+const\s+MAX_ENCODED_SIZE\s*:\s*usize\s*=\s*([^;]+);', ps_.text)
    if not m:
        raise AnchorLost('StreamType::MAX_ENCODED_SIZE')
    env['StreamType::MAX_ENCODED_SIZE'] = eval_expr(m.group(1), env)
    m = re.search(r'impl\s+Frame<PayloadLen>\s*\{\s*pub\s+const\s+MAX_ENCODED_SIZE\s*:\s*usize\s*=\s*([^;]+);', fr.text)
    if not m:
        raise AnchorLost('Frame::MAX_ENCODED_SIZE')
    env['Frame::MAX_ENCODED_SIZE'] = eval_expr(m.group(1), env)
    st = Source(repo + '/h3/src/stream.rs')
    e, ln = const_expr(st, 'WRITE_BUF_ENCODE_SIZE')
    f['write_buf_size'] = eval_expr(e, env)
    spans['WRITE_BUF_ENCODE_SIZE'] = (ln, ln)
    m = re.search(r'Self::Control\(settings\)\s*=>\s*\{\s*StreamType::(\w+)\.encode\(buf\);\s*settings\.encode\(buf\);\s*\}', st.text)
    if not m or m.group(1) not in stypes:
        raise AnchorLost('UniStreamHeader::Control encode')
    f['control_stream_type'] = stypes[m.group(1)]
    if not re.search(r'buf:\s*\[u8;\s*WRITE_BUF_ENCODE_SIZE\]', st.text):
        raise AnchorLost('WriteBuf.buf array')
    # ---- config.rs
    cf = Source(repo + '/h3/src/config.rs')
    blk, sp, _ = cf.item_block(r'impl\s+TryFrom<Config>\s+for\s+frame::Settings\s*')
    spans['TryFrom<Config>'] = sp
    pg = blk.find('if send_grease')
    if pg < 0:
        raise AnchorLost('TryFrom<Config>: grease branch')
    gi = blk.index('{', pg)
    gj = match_close(blk, gi)
    gblk = blk[gi:gj]
    m = re.search(r'match\s+settings\.insert\(\s*frame::SettingId::grease\(\)\s*,\s*(\w+)\s*\)\s*\{\s*Ok\(_\)\s*=>\s*\(\)\s*,\s*Err\(_err\)\s*=>\s*\{', gblk)
    if not m:
        raise AnchorLost('TryFrom<Config>: grease insert')
    f['grease_value'] = parse_int(m.group(1))
    rest = blk[:pg] + ' ' * (gj - pg) + blk[gj:]
    ins = []
    for mm2 in re.finditer(r'settings\.insert\(\s*frame::SettingId::(\w+)\s*,\s*(\w+)(\s+as\s+u64)?\s*,?\s*\)\s*(\?)?', rest):
        if mm2.group(1) not in idmap or mm2.group(2) not in FIELDS or not mm2.group(4):
            raise AnchorLost('TryFrom<Config>: insert ' + mm2.group(0))
        ins.append((mm2.group(1), mm2.group(2), mm2.start()))
    if not ins:
        raise AnchorLost('TryFrom<Config>: inserts')
    f['grease_first'] = all(pg < p for _, _, p in ins)
    if not f['grease_first'] and not all(pg > p for _, _, p in ins):
        raise AnchorLost('TryFrom<Config>: grease position')
    f['cfg_inserts'] = [(a, b) for a, b, _ in ins]
    blk, sp, _ = cf.item_block(r'impl\s+From<&frame::Settings>\s+for\s+Settings\s*')
    spans['From<&frame::Settings>'] = sp
    rows = []
    for mm2 in re.finditer(r'(\w+)\s*:\s*settings\s*\.get\(\s*frame::SettingId::(\w+)\s*\)\s*(\.map\(\s*\|value\|\s*value\s*!=\s*0\s*\))?\s*\.unwrap_or\(\s*defaults\.(\w+)\s*\)', blk):
        fld, sid, asb, dfl = mm2.groups()
        if fld not in FIELDS or sid not in idmap or dfl != fld:
            raise AnchorLost('From<&frame::Settings>: row ' + fld)
        rows.append((fld, sid, bool(asb)))
    if sorted(r[0] for r in rows) != sorted(FIELDS):
        raise AnchorLost('From<&frame::Settings>: rows')
    f['apply_rows'] = rows
    blk, sp, _ = cf.item_block(r'impl\s+Default\s+for\s+Settings\s*')
    spans['Default for Settings'] = sp
    dfl = {}
    for mm2 in re.finditer(r'(\w+)\s*:\s*([\w:.]+)\s*,', blk):
        k, v = mm2.groups()
        if k in FIELDS:
            if v == 'VarInt::MAX.0':
                dfl[k] = varint_max
            elif v in ('true', 'false'):
                dfl[k] = 1 if v == 'true' else 0
            else:
                dfl[k] = parse_int(v)
    if sorted(dfl) != sorted(FIELDS):
        raise AnchorLost('Default for Settings')
    f['defaults'] = dfl
    blk, sp, _ = cf.item_block(r'impl\s+Default\s+for\s+Config\s*')
    m = re.search(r'send_grease\s*:\s*(true|false)', blk)
    if not m:
        raise AnchorLost('Default for Config')
    f['default_grease'] = m.group(1) == 'true'
    # ---- error codes
    ie = Source(repo + '/h3/src/error/internal_error.rs')
    m = re.search(r'FrameProtocolError::Settings\(\w+\)\s*=>\s*InternalConnectionError\s*\{\s*code:\s*Code::(\w+)', ie.text)
    if not m:
        raise AnchorLost('got_frame_error: Settings arm')
    f['code_settings_error'] = m.group(1)
    fs = Source(repo + '/h3/src/frame.rs')
    if not re.search(r'Err\(frame::FrameError::Settings\(e\)\)\s*=>\s*\{\s*return\s+Err\(FrameStreamError::Proto\(FrameProtocolError::Settings\(e\)\)\)', fs.text):
        raise AnchorLost('FrameStream: Settings error arm')
    co = Source(repo + '/h3/src/connection.rs')
    body, spans['send_control_stream_headers'] = co.fn_body('send_control_stream_headers')
    m = re.search(r'frame::Settings::try_from\(self\.config\)\.map_err\(\|_err\|\s*\{\s*self\.handle_connection_error\(InternalConnectionError::new\(\s*Code::(\w+)', body)
    if not m:
        raise AnchorLost('send_control_stream_headers: try_from error')
    f['code_setup_error'] = m.group(1)
    if not re.search(r'WriteBuf::from\(UniStreamHeader::Control\(settings\)\)', body):
        raise AnchorLost('send_control_stream_headers: control header write')
    body, spans['poll_control'] = co.fn_body('poll_control')
    m = re.search(r'Ok\(Some\(Frame::Settings\(settings\)\)\)\s*=>\s*\{\s*if\s+!self\.got_peer_settings\s*\{\s*self\.got_peer_settings\s*=\s*true;\s*self\.set_settings\(\(&settings\)\.into\(\)\);'
                  r'.*?\}\s*else\s*\{.*?Code::(\w+)', body, re.S)
    if not m:
        raise AnchorLost('poll_control: first SETTINGS handling')
    f['code_second_settings'] = m.group(1)
    ss = Source(repo + '/h3/src/shared_state.rs')
    body, _ = ss.fn_body('settings')
    if not re.search(r'\.settings\s*\.get\(\)\s*\.map\(Cow::Borrowed\)\s*\.unwrap_or_default\(\)', body):
        raise AnchorLost('ConnectionState::settings default')
    body, _ = ss.fn_body('set_settings')
    if not re.search(r'\.settings\.set\(settings\)', body) or not re.search(r'settings\s*:\s*OnceLock<Settings>', ss.text):
        raise AnchorLost('set_settings write-once cell')
    return f, spans


def eval_expr(e, env):
    e = e.strip()
    for k in sorted(env, key=len, reverse=True):
        e = e.replace(k, str(env[k]))
    if not re.fullmatch(r'[\d\s+*()]+', e):
        raise AnchorLost('constant expression ' + e)
    return int(eval(e, {'__builtins__': {}}))


def render(f):
    idmap = dict(f['ids'])
    L = ['(* GENERATED by translate/gen_settings.py from h3/src/proto/frame.rs, config.rs, stream.rs, proto/stream.rs,',
         '   proto/varint.rs, connection.rs, shared_state.rs, error/internal_error.rs *)',
         'From H3V Require Import Base.Bytes Gen.GenCodes.',
         '(* setting_identifiers! *)']
    for n, v in f['ids']:
        L.append('Definition sid_%s : N := %d.' % (n, v))
    L.append('Definition setting_table : list N := [%s].' % '; '.join('sid_' + n for n, _ in f['ids']))
    L.append('Definition sid_NONE : N := %d.' % f['none'])
    L.append('(* SettingId::is_supported / is_forbidden *)')
    L.append('Definition supported_ids : list N := [%s].' % '; '.join('sid_' + n for n in f['supported']))
    L.append('Definition forbidden_ids : list N := [%s].' % '; '.join('%d' % x for x in f['forbidden']))
    L.append('Definition settings_len : N := %d.' % f['settings_len'])
    L.append('Definition frame_type_settings : N := %d.' % f['frame_type'])
    L.append('Definition stream_type_control : N := %d.' % f['control_stream_type'])
    L.append('Definition write_buf_encode_size : N := %d.' % f['write_buf_size'])
    L.append('(* SettingId::grease: fastrand::u64(0..bound) * mul + add *)')
    L.append('Definition grease_bound : N := %d.' % f['grease'][0])
    L.append('Definition grease_mul : N := %d.' % f['grease'][1])
    L.append('Definition grease_add : N := %d.' % f['grease'][2])
    L.append('(* Settings::insert: the checks in source order; the capacity comparison `self.len OP entries.len()` *)')
    L.append('Inductive insert_check := ChkExceeded | ChkInvalidSettingValue | ChkRepeated.')
    L.append('Definition insert_checks : list insert_check := [%s].' % '; '.join('Chk' + c for c in f['insert_checks']))
    L.append('Inductive cmpop := CmpGe | CmpGt | CmpEq | CmpLt | CmpLe.')
    L.append('Definition exceeded_cmp : cmpop := %s.' % {'>=': 'CmpGe', '>': 'CmpGt', '==': 'CmpEq'}[f['exceeded_cmp']])
    L.append('Definition get_scans_all : bool := %s.' % ('true' if f['get_scans_all'] else 'false'))
    L.append('(* Settings::decode: `if buf.remaining() OP k { Malformed }` *)')
    L.append('Definition dec_min_cmp : cmpop := %s.' % {'<': 'CmpLt', '<=': 'CmpLe'}[f['dec_min_cmp']])
    L.append('Definition dec_min : N := %d.' % f['dec_min'])
    L.append('(* config.rs *)')
    L.append('Inductive cfg_field := F_mfs | F_wt | F_ec | F_dg | F_wtmax.')
    L.append('Definition grease_first : bool := %s.' % ('true' if f['grease_first'] else 'false'))
    L.append('Definition grease_value : N := %d.' % f['grease_value'])
    L.append('Definition cfg_inserts : list (N * cfg_field) := [%s].' % '; '.join('(sid_%s, %s)' % (a, FCON[b]) for a, b in f['cfg_inserts']))
    L.append('(* From<&frame::Settings> for config::Settings: field, identifier read, `value != 0` conversion *)')
    L.append('Definition apply_rows : list (cfg_field * (N * bool)) := [%s].' % '; '.join(
        '(%s, (sid_%s, %s))' % (FCON[a], b, 'true' if c else 'false') for a, b, c in f['apply_rows']))
    L.append('(* Default for config::Settings (booleans as 0/1) and Config *)')
    L.append('Definition default_field (f : cfg_field) : N :=\n  match f with %s end.' % ' | '.join(
        '%s => %d' % (FCON[k], f['defaults'][k]) for k in FIELDS))
    L.append('Definition default_send_grease : bool := %s.' % ('true' if f['default_grease'] else 'false'))
    L.append('(* error codes *)')
    L.append('Definition code_settings_error : N := %s.' % f['code_settings_error'])
    L.append('Definition code_setup_error : N := %s.' % f['code_setup_error'])
    L.append('Definition code_second_settings : N := %s.' % f['code_second_settings'])
    return '\n'.join(L) + '\n'
