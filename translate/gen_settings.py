"""Source facts for C13 (SETTINGS): proto/frame.rs, config.rs, stream.rs, proto/stream.rs, proto/varint.rs,
connection.rs, shared_state.rs, error/internal_error.rs.

Everything the Coq model of SETTINGS takes from the code as data: the identifier table, the supported and
forbidden lists, SETTINGS_LEN, the order of the checks in Settings::insert, the decode loop's short-buffer
comparison, the grease formula, the order and the sources of the inserts in TryFrom<Config>, the rows of
From<&frame::Settings> for config::Settings, the defaults, the WriteBuf header capacity expression and the
error codes chosen at the three relevant sites."""
import os
import re
from rustsrc import Source, AnchorLost, parse_int, match_close

NAME = 'GenSettings'

FIELDS = ['max_field_section_size', 'enable_webtransport', 'enable_extended_connect', 'enable_datagram',
          'max_webtransport_sessions']
FCON = {'max_field_section_size': 'F_mfs', 'enable_webtransport': 'F_wt', 'enable_extended_connect': 'F_ec',
        'enable_datagram': 'F_dg', 'max_webtransport_sessions': 'F_wtmax'}


def squash(t):
    return re.sub(r'\s+', '', t)


def tmpl(t):
    """regex from a template: whitespace-insensitive literal text; holes written as <<name:regex>>; <<STR>> = any string literal"""
    out, pos = [], 0
    for m in re.finditer(r'<<(?:(\w+):)?(.*?)>>', t):
        out.append(re.escape(squash(t[pos:m.start()])))
        name, rx = m.group(1), m.group(2)
        if rx == 'STR':
            rx = r'"[^"]*"'
        out.append('(?P<%s>%s)' % (name, rx) if name else '(?:%s)' % rx)
        pos = m.end()
    out.append(re.escape(squash(t[pos:])))
    return re.compile(''.join(out))


TRACE = r'<<(?:#\[cfg\(feature="tracing"\)\]tracing::\w+!\((?:[^()]|\([^()]*\))*\);)?>>'

SETTERS = {'max_field_section_size': 'S_mfs', 'send_grease': 'S_grease', 'enable_webtransport': 'S_wt',
           'enable_extended_connect': 'S_ec', 'enable_datagram': 'S_dg', 'max_webtransport_sessions': 'S_wtmax'}
TARGETS = {'send_grease': 'T_grease', 'settings.max_field_section_size': 'T_field F_mfs',
           'settings.enable_webtransport': 'T_field F_wt', 'settings.enable_extended_connect': 'T_field F_ec',
           'settings.enable_datagram': 'T_field F_dg', 'settings.max_webtransport_sessions': 'T_field F_wtmax'}


def builder_setters(path, build_call):
    """every public setter of a Builder: its body must be assignments of its argument to config fields, then `self`"""
    src = Source(path)
    out = []
    for m in re.finditer(r'pub\s+fn\s+(\w+)\s*\(\s*&mut\s+self\s*,\s*(\w+)\s*:\s*(\w+)\s*\)\s*->\s*&mut\s+Self\s*\{', src.text):
        name, arg, ty = m.groups()
        i = src.text.index('{', m.end() - 1)
        j = match_close(src.text, i)
        body = squash(src.text[i + 1:j])
        if name == 'send_settings':
            continue
        if name not in SETTERS:
            raise AnchorLost('unknown builder setter %s in %s' % (name, path))
        mm = re.fullmatch(r'((?:self\.config\.[\w.]+=%s;)+)self' % re.escape(arg), body)
        if not mm:
            raise AnchorLost('builder setter %s is not a plain assignment: %s' % (name, body[:80]))
        targets = re.findall(r'self\.config\.([\w.]+)=', mm.group(1))
        if any(t not in TARGETS for t in targets):
            raise AnchorLost('builder setter %s writes %s' % (name, targets))
        if (ty == 'u64') != (name in ('max_field_section_size', 'max_webtransport_sessions')):
            raise AnchorLost('builder setter %s argument type %s' % (name, ty))
        out.append((name, targets))
    if not out:
        raise AnchorLost('no setters in ' + path)
    if not re.search(r'fn\s+new\(\)\s*->\s*Self\s*\{\s*Builder\s*\{\s*config:\s*Default::default\(\),\s*\}\s*\}', src.text):
        raise AnchorLost('Builder::new in ' + path)
    if not re.search(build_call, src.text):
        raise AnchorLost('Builder::build passes self.config in ' + path)
    return out


BODY_SNAPSHOT = os.path.join(os.path.dirname(os.path.abspath(__file__)), 'snapshots', 'GenSettings.bodies.json')


def mask(t, entries=False):
    """comment-free, whitespace-free text with only the fact sites masked: error codes, string literals, and the two
    admissible iteration ranges of Settings::get"""
    t = squash(t)
    t = re.sub(r'"(?:[^"\\]|\\.)*"', '""', t)
    t = re.sub(r'Code::\w+', 'Code::_', t)
    if entries:
        t = t.replace('inself.entries[..self.len].iter()', 'inENTRIES').replace('inself.entries.iter()', 'inENTRIES')
    return t


def impl_blocks(src, rx):
    out = []
    for m in re.finditer(rx, src.text):
        i = src.text.index('{', m.end() - 1)
        j = match_close(src.text, i)
        out.append(squash(src.text[m.start():j + 1]))
    return out


def control_flow_bodies(repo):
    """the functions whose control flow the model mirrors by hand; any change to them must be looked at"""
    R = repo + '/h3/src/'
    b = {}
    for key, path, fn, nth in [
        ('client::Builder::build', 'client/builder.rs', 'build', 0),
        ('server::Builder::build', 'server/builder.rs', 'build', 0),
        ('ConnectionInner::send_control_stream_headers', 'connection.rs', 'send_control_stream_headers', 0),
        ('ConnectionState::settings', 'shared_state.rs', 'settings', 0),
        ('ConnectionState::set_settings', 'shared_state.rs', 'set_settings', 0),
        ('InternalConnectionError::got_frame_error', 'error/internal_error.rs', 'got_frame_error', 0),
        ('ConnectionInner::close_if_needed', 'error/connection_error_creators.rs', 'close_if_needed', 0),
        ('ConnectionInner::handle_connection_error', 'error/connection_error_creators.rs', 'handle_connection_error', 0),
        ('WriteBuf::encode_value', 'stream.rs', 'encode_value', 0),
        ('FrameHeader::encode_header', 'proto/frame.rs', 'encode_header', 0),
    ]:
        body, _ = Source(R + path).fn_body(fn, nth=nth)
        b[key] = mask(body)
    co = Source(R + 'connection.rs')
    body, _ = co.fn_body('new', after=co.text.index('pub async fn new'))
    b['ConnectionInner::new'] = mask(body)
    fr = Source(R + 'proto/frame.rs')
    blk, _, _ = fr.item_block(r'(?m)^impl\s+Settings\s*\{')
    sub = Source.__new__(Source)
    sub.path, sub.raw, sub.text = fr.path, blk, blk
    for fn in ('get', 'encode'):
        body, _ = sub.fn_body(fn)
        b['Settings::' + fn] = mask(body, entries=(fn == 'get'))
    b['FrameHeader for Settings'] = ''.join(impl_blocks(fr, r'impl\s+FrameHeader\s+for\s+Settings\s*\{'))
    st = Source(R + 'stream.rs')
    b['Buf for WriteBuf'] = ''.join(impl_blocks(st, r'impl<B>\s+Buf\s+for\s+WriteBuf<B>\s+where\s+B:\s*Buf,\s*\{'))
    b['From<UniStreamHeader> for WriteBuf'] = ''.join(impl_blocks(st, r'impl<B>\s+From<UniStreamHeader>\s+for\s+WriteBuf<B>\s+where\s+B:\s*Buf,\s*\{'))
    b['Encode for UniStreamHeader'] = ''.join(impl_blocks(st, r'impl\s+Encode\s+for\s+UniStreamHeader\s*\{'))
    # every implementer of ConnectionState only names its SharedState (settings()/set_settings() are never overridden)
    for path in ('shared_state.rs', 'connection.rs', 'client/connection.rs', 'client/stream.rs', 'server/connection.rs',
                 'server/stream.rs', 'server/request.rs'):
        b['ConnectionState impls in ' + path] = '|'.join(impl_blocks(Source(R + path), r'impl(?:<[^>]*>)?\s+ConnectionState\s+for\s+[^{]*\{'))
    return b


def check_bodies(repo):
    import json
    got = control_flow_bodies(repo)
    want = json.load(open(BODY_SNAPSHOT))
    for k in sorted(set(got) | set(want)):
        if got.get(k) != want.get(k):
            raise AnchorLost('the body of %s is not the one the model was written against' % k)


def macro_table(src, name):
    m = re.search(r'(?m)^' + name + r'!\s*\{', src.text)
    if not m:
        raise AnchorLost(name + '! invocation')
    i = src.text.index('{', m.start())
    j = match_close(src.text, i)
    rows = re.findall(r'(\w+)\s*=\s*(0[xX][0-9a-fA-F_]+|\d[\d_]*)\s*,', src.text[i + 1:j])
    if not rows:
        raise AnchorLost(name + ' rows')
    return [(n, parse_int(v)) for n, v in rows], (src.line_of(i), src.line_of(j))


def const_expr(src, name):
    m = re.search(r'\bconst\s+' + name + r'\s*:\s*[\w:]+\s*=\s*([^;]+);', src.text)
    if not m:
        raise AnchorLost('const ' + name + ' in ' + src.path)
    return m.group(1).strip(), src.line_of(m.start())


def extract(repo):
    f, spans = {}, {}
    check_bodies(repo)
    fr = Source(repo + '/h3/src/proto/frame.rs')
    # ---- identifier table
    f['ids'], spans['setting_identifiers'] = macro_table(fr, 'setting_identifiers')
    idmap = dict(f['ids'])
    ftypes, spans['frame_types'] = macro_table(fr, 'frame_types')
    ftypes = dict(ftypes)
    # ---- impl SettingId
    blk, sp, _ = fr.item_block(r'(?m)^impl\s+SettingId\s*\{')
    spans['impl SettingId'] = sp
    m = re.search(r'const\s+NONE\s*:\s*SettingId\s*=\s*SettingId\(([^)]+)\)', blk)
    if not m:
        raise AnchorLost('SettingId::NONE')
    f['none'] = parse_int(m.group(1))
    m = re.search(r'fn\s+grease\s*\(\s*\)\s*->\s*Self\s*\{\s*SettingId\(\s*fastrand::u64\(\s*0\s*\.\.\s*(\w+)\s*\)\s*\*\s*(\w+)\s*\+\s*(\w+)\s*\)\s*\}', blk)
    if not m:
        raise AnchorLost('SettingId::grease formula')
    f['grease'] = [parse_int(x) for x in m.groups()]
    m = re.search(r'fn\s+is_supported\s*\(\s*self\s*\)\s*->\s*bool\s*\{\s*matches!\s*\(\s*self\s*,([^)]*)\)', blk)
    if not m:
        raise AnchorLost('is_supported')
    names = re.findall(r'SettingId::(\w+)', m.group(1))
    lits = re.findall(r'SettingId\(', m.group(1))
    if not names or lits or any(n not in idmap for n in names):
        raise AnchorLost('is_supported list')
    f['supported'] = names
    m = re.search(r'fn\s+is_forbidden\s*\(\s*&self\s*\)\s*->\s*bool\s*\{\s*matches!\s*\(\s*self\s*,((?:[^()]|\([^()]*\))*)\)', blk)
    if not m:
        raise AnchorLost('is_forbidden')
    nums = re.findall(r'SettingId\(\s*(\w+)\s*\)', m.group(1))
    if not nums or re.search(r'SettingId::', m.group(1)):
        raise AnchorLost('is_forbidden list')
    f['forbidden'] = [parse_int(x) for x in nums]
    # ---- SETTINGS_LEN, entries array
    e, _ = const_expr(fr, 'SETTINGS_LEN')
    f['settings_len'] = parse_int(e)
    if not re.search(r'entries\s*:\s*\[\s*\(SettingId\s*,\s*u64\)\s*;\s*SETTINGS_LEN\s*\]', fr.text):
        raise AnchorLost('Settings.entries array type')
    # ---- frame type of Settings
    m = re.search(r'impl\s+FrameHeader\s+for\s+Settings\s*\{\s*const\s+TYPE\s*:\s*FrameType\s*=\s*FrameType::(\w+)\s*;', fr.text)
    if not m or m.group(1) not in ftypes:
        raise AnchorLost('FrameHeader for Settings TYPE')
    f['frame_type'] = ftypes[m.group(1)]
    # ---- impl Settings: insert / get / decode
    blk, sp, mm = fr.item_block(r'(?m)^impl\s+Settings\s*\{')
    spans['impl Settings'] = sp
    sub = Source.__new__(Source)
    sub.path, sub.raw, sub.text = fr.path, blk, blk
    body, _ = sub.fn_body('insert')
    blocks = {
        'Exceeded': r'if self.len <<op:>=|>|==>> self.entries.len() { return Err(SettingsError::Exceeded); }',
        'InvalidSettingValue': 'if VarInt::from_u64(id.0).is_err() || VarInt::from_u64(value).is_err() '
                               '{ return Err(SettingsError::InvalidSettingValue(id, value)); }',
        'Repeated': 'if self.entries[..self.len].iter().any(|(i, _)| *i == id) { return Err(SettingsError::Repeated(id)); }',
    }
    import itertools
    found = None
    for perm in itertools.permutations(sorted(blocks)):
        m = tmpl(''.join(blocks[k] for k in perm) + 'self.entries[self.len] = (id, value); self.len += 1; Ok(())').fullmatch(squash(body))
        if m:
            found = (list(perm), m.group('op'))
    if not found:
        raise AnchorLost('Settings::insert body is not the three known checks followed by the store')
    f['insert_checks'], f['exceeded_cmp'] = found
    body, _ = sub.fn_body('get')
    if re.search(r'in\s+self\.entries\.iter\(\)', body):
        f['get_scans_all'] = True
    elif re.search(r'in\s+self\.entries\[\.\.self\.len\]\.iter\(\)', body):
        f['get_scans_all'] = False
    else:
        raise AnchorLost('get: iteration')
    body, _ = sub.fn_body('encode')
    if not re.search(r'self\.encode_header\(buf\);\s*for\s*\(id,\s*val\)\s*in\s*self\.entries\[\.\.self\.len\]\.iter\(\)\s*\{\s*id\.encode\(buf\);\s*buf\.write_var\(\*val\);', body):
        raise AnchorLost('Settings::encode shape')
    body, _ = sub.fn_body('decode')
    m = tmpl("""let mut settings = Settings::default();
        while buf.has_remaining() {
            if buf.remaining() <<op:<=|<>> <<k:\\w+>> { return Err(SettingsError::Malformed); }
            let identifier = SettingId::decode(buf).map_err(|_| SettingsError::Malformed)?;
            let value = buf.get_var().map_err(|_| SettingsError::Malformed)?;
            if identifier.is_forbidden() { return Err(SettingsError::InvalidSettingId(identifier.0)); }
            if identifier.is_supported() { settings.insert(identifier, value)?; } else { """ + TRACE + """ }
        }
        Ok(settings)""").fullmatch(squash(body))
    if not m:
        raise AnchorLost('Settings::decode body is not the known loop')
    f['dec_min_cmp'] = m.group('op')
    f['dec_min'] = parse_int(m.group('k'))
    # ---- capacities
    vi = Source(repo + '/h3/src/proto/varint.rs')
    e, _ = const_expr(vi, 'MAX_SIZE')
    env = {'VarInt::MAX_SIZE': parse_int(e)}
    m = re.search(r'const\s+MAX\s*:\s*VarInt\s*=\s*VarInt\(\s*\(\s*1\s*<<\s*(\d+)\s*\)\s*-\s*1\s*\)', vi.text)
    if not m:
        raise AnchorLost('VarInt::MAX')
    varint_max = (1 << int(m.group(1))) - 1
    ps_ = Source(repo + '/h3/src/proto/stream.rs')
    stypes, spans['stream_types'] = macro_table(ps_, 'stream_types')
    stypes = dict(stypes)
    m = re.search(r'impl\s+StreamType\s*\{\s*pub\s+const\s+MAX_ENCODED_SIZE\s*:\s*usize\s*=\s*([^;]+);', ps_.text)
    if not m:
        raise AnchorLost('StreamType::MAX_ENCODED_SIZE')
    env['StreamType::MAX_ENCODED_SIZE'] = eval_expr(m.group(1), env)
    m = re.search(r'impl\s+Frame<PayloadLen>\s*\{\s*pub\s+const\s+MAX_ENCODED_SIZE\s*:\s*usize\s*=\s*([^;]+);', fr.text)
    if not m:
        raise AnchorLost('Frame::MAX_ENCODED_SIZE')
    env['Frame::MAX_ENCODED_SIZE'] = eval_expr(m.group(1), env)
    st = Source(repo + '/h3/src/stream.rs')
    e, ln = const_expr(st, 'WRITE_BUF_ENCODE_SIZE')
    f['write_buf_size'] = eval_expr(e, env)
    spans['WRITE_BUF_ENCODE_SIZE'] = (ln, ln)
    m = re.search(r'Self::Control\(settings\)\s*=>\s*\{\s*StreamType::(\w+)\.encode\(buf\);\s*settings\.encode\(buf\);\s*\}', st.text)
    if not m or m.group(1) not in stypes:
        raise AnchorLost('UniStreamHeader::Control encode')
    f['control_stream_type'] = stypes[m.group(1)]
    if not re.search(r'buf:\s*\[u8;\s*WRITE_BUF_ENCODE_SIZE\]', st.text):
        raise AnchorLost('WriteBuf.buf array')
    # ---- config.rs
    cf = Source(repo + '/h3/src/config.rs')
    blk, sp, _ = cf.item_block(r'impl\s+TryFrom<Config>\s+for\s+frame::Settings\s*')
    spans['TryFrom<Config>'] = sp
    pg = blk.find('if send_grease')
    if pg < 0:
        raise AnchorLost('TryFrom<Config>: grease branch')
    gi = blk.index('{', pg)
    gj = match_close(blk, gi)
    gblk = blk[gi:gj]
    m = re.search(r'match\s+settings\.insert\(\s*frame::SettingId::grease\(\)\s*,\s*(\w+)\s*\)\s*\{\s*Ok\(_\)\s*=>\s*\(\)\s*,\s*Err\(_err\)\s*=>\s*\{', gblk)
    if not m:
        raise AnchorLost('TryFrom<Config>: grease insert')
    f['grease_value'] = parse_int(m.group(1))
    rest = blk[:pg] + ' ' * (gj - pg) + blk[gj:]
    ins = []
    for mm2 in re.finditer(r'settings\.insert\(\s*frame::SettingId::(\w+)\s*,\s*(\w+)(\s+as\s+u64)?\s*,?\s*\)\s*(\?)?', rest):
        if mm2.group(1) not in idmap or mm2.group(2) not in FIELDS or not mm2.group(4):
            raise AnchorLost('TryFrom<Config>: insert ' + mm2.group(0))
        ins.append((mm2.group(1), mm2.group(2), mm2.start()))
    if not ins:
        raise AnchorLost('TryFrom<Config>: inserts')
    f['grease_first'] = all(pg < p for _, _, p in ins)
    if not f['grease_first'] and not all(pg > p for _, _, p in ins):
        raise AnchorLost('TryFrom<Config>: grease position')
    f['cfg_inserts'] = [(a, b) for a, b, _ in ins]
    grease_rx = tmpl('if send_grease { match settings.insert(frame::SettingId::grease(), <<\\w+>>) '
                     '{ Ok(_) => (), Err(_err) => { ' + TRACE + ' } } }').pattern
    insert_rx = r'settings\.insert\(frame::SettingId::\w+,\w+(?:asu64)?,?\)\?;'
    whole = tmpl('''type Error = frame::SettingsError;
        fn try_from(value: Config) -> Result<Self, Self::Error> {
            let mut settings = frame::Settings::default();
            let Config { send_grease, #[cfg(test)] send_settings: _,
                settings: Settings { max_field_section_size, enable_webtransport, enable_extended_connect,
                                     enable_datagram, max_webtransport_sessions, }, } = value;
            <<(?:GREASE|INSERT)+>>
            Ok(settings)
        }''').pattern.replace('GREASE', grease_rx).replace('INSERT', insert_rx)
    if not re.fullmatch(whole, squash(blk)):
        raise AnchorLost('TryFrom<Config>: body is not destructure, grease block, inserts, Ok(settings)')
    blk, sp, _ = cf.item_block(r'impl\s+From<&frame::Settings>\s+for\s+Settings\s*')
    spans['From<&frame::Settings>'] = sp
    rows = []
    for mm2 in re.finditer(r'(\w+)\s*:\s*settings\s*\.get\(\s*frame::SettingId::(\w+)\s*\)\s*(\.map\(\s*\|value\|\s*value\s*!=\s*0\s*\))?\s*\.unwrap_or\(\s*defaults\.(\w+)\s*\)', blk):
        fld, sid, asb, dfl = mm2.groups()
        if fld not in FIELDS or sid not in idmap or dfl != fld:
            raise AnchorLost('From<&frame::Settings>: row ' + fld)
        rows.append((fld, sid, bool(asb)))
    if sorted(r[0] for r in rows) != sorted(FIELDS):
        raise AnchorLost('From<&frame::Settings>: rows')
    f['apply_rows'] = rows
    want = 'fnfrom(settings:&frame::Settings)->Self{letdefaults:Self=Default::default();Self{' + ''.join(
        '%s:settings.get(frame::SettingId::%s)%s.unwrap_or(defaults.%s),' % (a, b, '.map(|value|value!=0)' if c else '', a)
        for a, b, c in rows) + '}}'
    if squash(blk) != want:
        raise AnchorLost('From<&frame::Settings>: body is more than the field rows')
    blk, sp, _ = cf.item_block(r'impl\s+Default\s+for\s+Settings\s*')
    spans['Default for Settings'] = sp
    dfl = {}
    for mm2 in re.finditer(r'(\w+)\s*:\s*([\w:.]+)\s*,', blk):
        k, v = mm2.groups()
        if k in FIELDS:
            if v == 'VarInt::MAX.0':
                dfl[k] = varint_max
            elif v in ('true', 'false'):
                dfl[k] = 1 if v == 'true' else 0
            else:
                dfl[k] = parse_int(v)
    if sorted(dfl) != sorted(FIELDS):
        raise AnchorLost('Default for Settings')
    f['defaults'] = dfl
    blk, sp, _ = cf.item_block(r'impl\s+Default\s+for\s+Config\s*')
    m = re.search(r'send_grease\s*:\s*(true|false)', blk)
    if not m:
        raise AnchorLost('Default for Config')
    f['default_grease'] = m.group(1) == 'true'
    # ---- error codes
    ie = Source(repo + '/h3/src/error/internal_error.rs')
    m = re.search(r'FrameProtocolError::Settings\(\w+\)\s*=>\s*InternalConnectionError\s*\{\s*code:\s*Code::(\w+)', ie.text)
    if not m:
        raise AnchorLost('got_frame_error: Settings arm')
    f['code_settings_error'] = m.group(1)
    fs = Source(repo + '/h3/src/frame.rs')
    if not re.search(r'Err\(frame::FrameError::Settings\(e\)\)\s*=>\s*\{\s*return\s+Err\(FrameStreamError::Proto\(FrameProtocolError::Settings\(e\)\)\)', fs.text):
        raise AnchorLost('FrameStream: Settings error arm')
    co = Source(repo + '/h3/src/connection.rs')
    body, spans['send_control_stream_headers'] = co.fn_body('send_control_stream_headers')
    m = re.search(r'let\s+settings\s*=\s*frame::Settings::try_from\(self\.config\)\.map_err\(\|_err\|\s*\{\s*self\.handle_connection_error\(InternalConnectionError::new\(\s*Code::(\w+),\s*"[^"]*"\.to_string\(\),\s*\)\)\s*\}\)\?;', body)
    if not m:
        raise AnchorLost('send_control_stream_headers: try_from error')
    f['code_setup_error'] = m.group(1)
    if not re.search(r'WriteBuf::from\(UniStreamHeader::Control\(settings\)\)', body):
        raise AnchorLost('send_control_stream_headers: control header write')
    body, spans['poll_control'] = co.fn_body('poll_control')
    sq = squash(body)
    m = tmpl("""Ok(Some(Frame::Settings(settings))) => {
            if !self.got_peer_settings {
                self.got_peer_settings = true;
                self.set_settings((&settings).into());
                Frame::Settings(settings)
            } else {
                return Poll::Ready(Err(self.handle_connection_error(
                    InternalConnectionError::new(Code::<<code:\\w+>>, <<STR>>.to_string(),),
                )));
            }
        }
        Ok(Some(frame)) if !self.got_peer_settings""").search(sq)
    if not m:
        raise AnchorLost('poll_control: SETTINGS arm is not the known one')
    f['code_second_settings'] = m.group('code')
    if not tmpl("""Err(FrameStreamError::Proto(frame_error)) => {
            return Poll::Ready(Err(self.handle_connection_error(
                InternalConnectionError::got_frame_error(frame_error),
            )));
        }
        Ok(None)""").search(sq):
        raise AnchorLost('poll_control: protocol-error arm is not the known one')
    ce = Source(repo + '/h3/src/error/connection_error_creators.rs')
    body, spans['handle_connection_error'] = ce.fn_body('handle_connection_error')
    if not tmpl("""if let Some(ref error) = self.handled_connection_error { return error.clone(); }
            let err = self.set_conn_error(error.into());
            let err = self.close_if_needed(err);
            self.convert_to_connection_error(err)""").fullmatch(squash(body)):
        raise AnchorLost('handle_connection_error body')
    body, _ = ce.fn_body('close_if_needed')
    if not tmpl("""match error {
            ErrorOrigin::Internal(ref internal_error) => {
                self.close_connection(internal_error.code, internal_error.message.clone())
            }""").match(squash(body)):
        raise AnchorLost('close_if_needed: internal errors close with their own code')
    body, _ = ce.fn_body('close_connection')
    if squash(body) != squash('self.conn.close(code, reason.as_bytes())'):
        raise AnchorLost('close_connection body')
    # ---- builders
    f['client_setters'] = builder_setters(repo + '/h3/src/client/builder.rs',
                                          r'ConnectionInner::new\(quic,\s*conn_state\.clone\(\),\s*self\.config\)\.await\?')
    f['server_setters'] = builder_setters(repo + '/h3/src/server/builder.rs',
                                          r'ConnectionInner::new\(conn,\s*Arc::new\(shared\),\s*self\.config\)\.await\?')
    body, _ = co.fn_body('new', after=co.text.index('pub async fn new'))
    if not re.search(r'send_grease_frame:\s*config\.send_grease,\s*config,', body) or \
            not re.search(r'conn_inner\.send_control_stream_headers\(\)\.await\?;\s*Ok\(conn_inner\)', body):
        raise AnchorLost('ConnectionInner::new: config stored, control headers sent')
    ss = Source(repo + '/h3/src/shared_state.rs')
    body, _ = ss.fn_body('settings')
    if not re.search(r'\.settings\s*\.get\(\)\s*\.map\(Cow::Borrowed\)\s*\.unwrap_or_default\(\)', body):
        raise AnchorLost('ConnectionState::settings default')
    body, _ = ss.fn_body('set_settings')
    if not re.search(r'\.settings\.set\(settings\)', body) or not re.search(r'settings\s*:\s*OnceLock<Settings>', ss.text):
        raise AnchorLost('set_settings write-once cell')
    return f, spans


def eval_expr(e, env):
    e = e.strip()
    for k in sorted(env, key=len, reverse=True):
        e = e.replace(k, str(env[k]))
    if not re.fullmatch(r'[\d\s+*()]+', e):
        raise AnchorLost('constant expression ' + e)
    return int(eval(e, {'__builtins__': {}}))


def render(f):
    idmap = dict(f['ids'])
    L = ['(* GENERATED by translate/gen_settings.py from h3/src/proto/frame.rs, config.rs, stream.rs, proto/stream.rs,',
         '   proto/varint.rs, connection.rs, shared_state.rs, error/internal_error.rs *)',
         'From H3V Require Import Base.Bytes Gen.GenCodes.',
         '(* setting_identifiers! *)']
    for n, v in f['ids']:
        L.append('Definition sid_%s : N := %d.' % (n, v))
    L.append('Definition setting_table : list N := [%s].' % '; '.join('sid_' + n for n, _ in f['ids']))
    L.append('Definition sid_NONE : N := %d.' % f['none'])
    L.append('(* SettingId::is_supported / is_forbidden *)')
    L.append('Definition supported_ids : list N := [%s].' % '; '.join('sid_' + n for n in f['supported']))
    L.append('Definition forbidden_ids : list N := [%s].' % '; '.join('%d' % x for x in f['forbidden']))
    L.append('Definition settings_len : N := %d.' % f['settings_len'])
    L.append('Definition frame_type_settings : N := %d.' % f['frame_type'])
    L.append('Definition stream_type_control : N := %d.' % f['control_stream_type'])
    L.append('Definition write_buf_encode_size : N := %d.' % f['write_buf_size'])
    L.append('(* SettingId::grease: fastrand::u64(0..bound) * mul + add *)')
    L.append('Definition grease_bound : N := %d.' % f['grease'][0])
    L.append('Definition grease_mul : N := %d.' % f['grease'][1])
    L.append('Definition grease_add : N := %d.' % f['grease'][2])
    L.append('(* Settings::insert: the checks in source order; the capacity comparison `self.len OP entries.len()` *)')
    L.append('Inductive insert_check := ChkExceeded | ChkInvalidSettingValue | ChkRepeated.')
    L.append('Definition insert_checks : list insert_check := [%s].' % '; '.join('Chk' + c for c in f['insert_checks']))
    L.append('Inductive cmpop := CmpGe | CmpGt | CmpEq | CmpLt | CmpLe.')
    L.append('Definition exceeded_cmp : cmpop := %s.' % {'>=': 'CmpGe', '>': 'CmpGt', '==': 'CmpEq'}[f['exceeded_cmp']])
    L.append('Definition get_scans_all : bool := %s.' % ('true' if f['get_scans_all'] else 'false'))
    L.append('(* Settings::decode: `if buf.remaining() OP k { Malformed }` *)')
    L.append('Definition dec_min_cmp : cmpop := %s.' % {'<': 'CmpLt', '<=': 'CmpLe'}[f['dec_min_cmp']])
    L.append('Definition dec_min : N := %d.' % f['dec_min'])
    L.append('(* config.rs *)')
    L.append('Inductive cfg_field := F_mfs | F_wt | F_ec | F_dg | F_wtmax.')
    L.append('Definition grease_first : bool := %s.' % ('true' if f['grease_first'] else 'false'))
    L.append('Definition grease_value : N := %d.' % f['grease_value'])
    L.append('Definition cfg_inserts : list (N * cfg_field) := [%s].' % '; '.join('(sid_%s, %s)' % (a, FCON[b]) for a, b in f['cfg_inserts']))
    L.append('(* From<&frame::Settings> for config::Settings: field, identifier read, `value != 0` conversion *)')
    L.append('Definition apply_rows : list (cfg_field * (N * bool)) := [%s].' % '; '.join(
        '(%s, (sid_%s, %s))' % (FCON[a], b, 'true' if c else 'false') for a, b, c in f['apply_rows']))
    L.append('(* Default for config::Settings (booleans as 0/1) and Config *)')
    L.append('Definition default_field (f : cfg_field) : N :=\n  match f with %s end.' % ' | '.join(
        '%s => %d' % (FCON[k], f['defaults'][k]) for k in FIELDS))
    L.append('Definition default_send_grease : bool := %s.' % ('true' if f['default_grease'] else 'false'))
    L.append('(* the public setters of client::Builder and server::Builder: which Config fields each one assigns its argument to *)')
    L.append('Inductive setter := S_mfs | S_grease | S_wt | S_ec | S_dg | S_wtmax.')
    L.append('Inductive cfg_target := T_grease | T_field (f : cfg_field).')
    for role in ('client', 'server'):
        L.append('Definition %s_setters : list (setter * list cfg_target) := [%s].' % (role, '; '.join(
            '(%s, [%s])' % (SETTERS[n], '; '.join(TARGETS[t] for t in ts)) for n, ts in f[role + '_setters'])))
    L.append('(* error codes; handle_connection_error closes the connection with the code of the error it returns *)')
    L.append('Definition code_settings_error : N := %s.' % f['code_settings_error'])
    L.append('Definition code_setup_error : N := %s.' % f['code_setup_error'])
    L.append('Definition code_second_settings : N := %s.' % f['code_second_settings'])
    return '\n'.join(L) + '\n'


if __name__ == '__main__':
    # python3 translate/gen_settings.py --write-bodies : refresh the control-flow snapshot from /repo (authoring time only)
    import json
    import sys
    if sys.argv[1:] == ['--write-bodies']:
        json.dump(control_flow_bodies('/repo'), open(BODY_SNAPSHOT, 'w'), indent=1, sort_keys=True)
