"""Source facts for C02/C03 (frame layer): h3/src/proto/frame.rs, h3/src/frame.rs, h3/src/error/internal_error.rs,
h3/src/error/connection_error_creators.rs.

What the Coq model of `Frame::decode` / `FrameDecoder` / `FrameStream` takes from the code as DATA:
the frame_types!{} table; the order of the special cases of Frame::decode (WebTransport before the length,
DATA before the payload-complete test), the three `Incomplete(..)` expressions, the comparison of the
payload-complete test, whether the payload is bounded by `take(len)`; every arm of `match ty` (which types, which
payload reader, whether a short payload is mapped to Malformed), the trailing-bytes test after the match;
the two lists of SettingId::is_supported / is_forbidden and SETTINGS_LEN (only the ok/error decision of
Settings::decode matters to the frame layer); FrameDecoder::decode's memo comparison and which arms reset the memo,
its FrameError -> FrameProtocolError arms; the guards of FrameStream::poll_data's match; poll_next's assert and
end-of-stream test; the FrameProtocolError -> Code arms of got_frame_error and the code used for UnexpectedEnd."""
import re
from rustsrc import Source, AnchorLost, parse_int, match_close

NAME = 'GenFrameTypes'


def macro_table(src, name):
    m = re.search(r'(?m)^' + name + r'!\s*\{', src.text)
    if not m:
        raise AnchorLost(name + '! invocation')
    i = src.text.index('{', m.start())
    j = match_close(src.text, i)
    rows = re.findall(r'(\w+)\s*=\s*(0[xX][0-9a-fA-F_]+|\d[\d_]*)\s*,', src.text[i + 1:j])
    if not rows:
        raise AnchorLost(name + ' rows')
    return [(n, parse_int(v)) for n, v in rows], (src.line_of(i), src.line_of(j))


def split_arms(body):
    """[(pattern, arm_body)] of the top level of a `match` body (string/bracket aware enough for h3's code)."""
    arms = []
    i, n = 0, len(body)
    start = 0
    depth = 0
    while i < n:
        c = body[i]
        if c in '([{':
            depth += 1
        elif c in ')]}':
            depth -= 1
        elif c == '"':
            i += 1
            while i < n and body[i] != '"':
                i += 2 if body[i] == '\\' else 1
        elif c == '=' and depth == 0 and body[i:i + 2] == '=>':
            pat = body[start:i].strip()
            j = i + 2
            while j < n and body[j].isspace():
                j += 1
            if j < n and body[j] == '{':
                k = match_close(body, j)
                arm = body[j:k + 1]
                j = k + 1
                while j < n and (body[j].isspace() or body[j] == ','):
                    j += 1
            else:
                d = 0
                k = j
                while k < n:
                    ch = body[k]
                    if ch in '([{':
                        d += 1
                    elif ch in ')]}':
                        d -= 1
                    elif ch == '"':
                        k += 1
                        while k < n and body[k] != '"':
                            k += 2 if body[k] == '\\' else 1
                    elif ch == ',' and d == 0:
                        break
                    k += 1
                arm = body[j:k]
                j = k + 1
            arms.append((pat, arm.strip()))
            i = j
            start = j
            continue
        i += 1
    return arms


def squeeze(s):
    return re.sub(r'\s+', '', s)


def find_match_body(text, head_regex):
    m = re.search(head_regex, text)
    if not m:
        raise AnchorLost('match ' + head_regex)
    i = text.index('{', m.end() - 1)
    j = match_close(text, i)
    return text[i + 1:j], i, j


def extract(repo):
    f, spans = {}, {}
    fr = Source(repo + '/h3/src/proto/frame.rs')
    f['types'], spans['frame_types'] = macro_table(fr, 'frame_types')
    tmap = dict(f['types'])

    # ---------------- Frame::decode
    blk, sp, m0 = fr.item_block(r'(?m)^impl\s+Frame<PayloadLen>\s*\{')
    base = fr.text.index('{', m0.end() - 1) + 1
    sub = Source.__new__(Source)
    sub.path, sub.raw, sub.text = fr.path, blk, blk
    body, _ = sub.fn_body('decode')
    off = blk.index(body)
    spans['Frame::decode'] = (fr.line_of(base + off), fr.line_of(base + off + len(body)))
    sq = squeeze(body)
    m = re.search(r'letty=FrameType::decode\(buf\)\.map_err\(\|_\|FrameError::Incomplete\(remaining\+(\d+)\)\)\?;', sq)
    if not m or not sq.startswith('letremaining=buf.remaining();'):
        raise AnchorLost('Frame::decode type read')
    f['ty_addend'] = int(m.group(1))
    p_ty = m.end()
    m = re.search(r'ifty==FrameType::(\w+)\{(?:[^{}]*?)returnOk\(Frame::WebTransportStream\(SessionId::decode\(buf\)\?\)\);\}', sq)
    if not m:
        raise AnchorLost('Frame::decode WebTransport special case')
    f['wt_type'] = m.group(1)
    p_wt = m.start()
    m = re.search(r'letlen=buf\.get_var\(\)\.map_err\(\|_\|FrameError::Incomplete\(remaining\+(\d+)\)\)\?;', sq)
    if not m:
        raise AnchorLost('Frame::decode length read')
    f['len_addend'] = int(m.group(1))
    p_len = m.start()
    m = re.search(r'ifty==FrameType::(\w+)\{returnOk\(Frame::Data\(\(lenasusize\)\.into\(\)\)\);\}', sq)
    if not m:
        raise AnchorLost('Frame::decode DATA special case')
    f['data_type'] = m.group(1)
    p_data = m.start()
    m = re.search(r'ifbuf\.remaining\(\)(<=|<)lenasusize\{returnErr\(FrameError::Incomplete\((\d+)\+lenasusize\)\);\}', sq)
    if not m:
        raise AnchorLost('Frame::decode payload-complete test')
    f['payload_cmp_strict'] = (m.group(1) == '<')
    f['payload_addend'] = int(m.group(2))
    p_chk = m.start()
    m = re.search(r'letmutpayload=buf\.take\(lenasusize\);', sq)
    f['payload_bounded'] = bool(m)
    if not m:
        if 'letmutpayload=' in sq or 'payload' not in sq:
            raise AnchorLost('Frame::decode payload binding')
    if not (p_ty <= p_wt < p_len < p_data < p_chk):
        raise AnchorLost('Frame::decode order of special cases')
    mbody, _, _ = find_match_body(body, r'let\s+frame\s*=\s*match\s+ty\s*\{')
    arms = []
    for pat, arm in split_arms(mbody):
        a = squeeze(arm)
        p = squeeze(pat)
        mal = '.map_err(|_|FrameError::Malformed)' in a
        if p == '_':
            if not re.search(r'Err\(FrameError::UnknownFrame\(ty\.0\)\)', a):
                raise AnchorLost('wildcard arm')
            f['unknown_advances'] = 'payload.advance(lenasusize);' in a
            continue
        names = []
        for t in p.split('|'):
            mm = re.fullmatch(r'FrameType::(\w+)', t)
            if not mm or mm.group(1) not in tmap:
                raise AnchorLost('arm pattern ' + pat)
            names.append(mm.group(1))
        if a == 'Ok(Frame::Headers(payload.copy_to_bytes(lenasusize)))':
            kind = 'ArmHeaders'
        elif a == 'Ok(Frame::Settings(Settings::decode(&mutpayload)?))':
            kind = 'ArmSettings'
        elif re.fullmatch(r'Ok\(Frame::CancelPush\(payload\.get_var\(\)(\.map_err\(\|_\|FrameError::Malformed\))?\?\.try_into\(\)\?,?\)\)', a):
            kind = 'ArmCancelPush %s' % ('true' if mal else 'false')
        elif re.fullmatch(r'Ok\(Frame::MaxPushId\(payload\.get_var\(\)(\.map_err\(\|_\|FrameError::Malformed\))?\?\.try_into\(\)\?,?\)\)', a):
            kind = 'ArmMaxPushId %s' % ('true' if mal else 'false')
        elif re.fullmatch(r'Ok\(Frame::PushPromise\(PushPromise::decode\(&mutpayload\)(\.map_err\(\|_\|FrameError::Malformed\))?\?,?\)\)', a):
            kind = 'ArmPushPromise %s' % ('true' if mal else 'false')
        elif re.fullmatch(r'Ok\(Frame::Goaway\(VarInt::decode\(&mutpayload\)(\.map_err\(\|_\|FrameError::Malformed\))?\?,?\)\)', a):
            kind = 'ArmGoaway %s' % ('true' if mal else 'false')
        elif a == 'Err(FrameError::UnsupportedFrame(ty.0))':
            kind = 'ArmUnsupported'
        elif a == 'unreachable!()':
            kind = 'ArmUnreachable'
        else:
            raise AnchorLost('unrecognised arm body for ' + pat)
        for nme in names:
            arms.append((nme, kind))
    if 'unknown_advances' not in f:
        raise AnchorLost('no wildcard arm')
    f['arms'] = arms
    f['trailing_check'] = bool(re.search(r'ifframe\.is_ok\(\)&&payload\.has_remaining\(\)\{returnErr\(FrameError::Malformed\);\}', sq))
    # PushPromise::decode reads an id then takes the rest
    pb, _, _ = fr.item_block(r'(?m)^impl\s+PushPromise\s*\{')
    if 'id:buf.get_var()?,encoded:buf.copy_to_bytes(buf.remaining()),' not in squeeze(pb):
        raise AnchorLost('PushPromise::decode')
    # From<UnexpectedEnd> for FrameError
    if 'FrameError::Incomplete(e.0)' not in squeeze(fr.item_block(r'impl\s+From<UnexpectedEnd>\s+for\s+FrameError')[0]):
        raise AnchorLost('From<UnexpectedEnd>')

    # ---------------- the ok/error decision of Settings::decode
    ids, spans['setting_identifiers'] = macro_table(fr, 'setting_identifiers')
    idmap = dict(ids)
    sblk, _, _ = fr.item_block(r'(?m)^impl\s+SettingId\s*\{')
    m = re.search(r'fn\s+is_supported\s*\(\s*self\s*\)\s*->\s*bool\s*\{\s*matches!\s*\(\s*self\s*,([^)]*)\)', sblk)
    if not m:
        raise AnchorLost('is_supported')
    sup = re.findall(r'SettingId::(\w+)', m.group(1))
    if not sup or any(s not in idmap for s in sup):
        raise AnchorLost('is_supported names')
    f['supported'] = [idmap[s] for s in sup]
    m = re.search(r'fn\s+is_forbidden\s*\(\s*&self\s*\)\s*->\s*bool\s*\{\s*matches!\s*\(\s*self\s*,(.*?)\)\s*\}', sblk, re.S)
    if not m:
        raise AnchorLost('is_forbidden')
    f['forbidden'] = [parse_int(x) for x in re.findall(r'SettingId\(\s*(0x[0-9a-fA-F]+|\d+)\s*\)', m.group(1))]
    m = re.search(r'const\s+SETTINGS_LEN\s*:\s*usize\s*=\s*(\d+)\s*;', fr.text)
    if not m:
        raise AnchorLost('SETTINGS_LEN')
    f['settings_len'] = int(m.group(1))
    stblk, _, _ = fr.item_block(r'(?m)^impl\s+Settings\s*\{')
    ssub = Source.__new__(Source)
    ssub.path, ssub.raw, ssub.text = fr.path, stblk, stblk
    sdec = squeeze(ssub.fn_body('decode')[0])
    m = re.search(r'whilebuf\.has_remaining\(\)\{ifbuf\.remaining\(\)<(\d+)\{returnErr\(SettingsError::Malformed\);\}', sdec)
    if not m:
        raise AnchorLost('Settings::decode short test')
    f['settings_min'] = int(m.group(1))
    p1 = sdec.find('ifidentifier.is_forbidden()')
    p2 = sdec.find('ifidentifier.is_supported()')
    if not (0 < p1 < p2) or 'settings.insert(identifier,value)?;' not in sdec:
        raise AnchorLost('Settings::decode checks')
    sins = squeeze(ssub.fn_body('insert')[0])
    q1 = sins.find('ifself.len>=self.entries.len(){returnErr(SettingsError::Exceeded);}')
    q2 = sins.find('returnErr(SettingsError::InvalidSettingValue(id,value));')
    q3 = sins.find('ifself.entries[..self.len].iter().any(|(i,_)|*i==id){returnErr(SettingsError::Repeated(id));}')
    if not (0 <= q1 < q2 < q3):
        raise AnchorLost('Settings::insert checks')

    # ---------------- h3/src/frame.rs
    fs = Source(repo + '/h3/src/frame.rs')
    dblk, sp, _ = fs.item_block(r'(?m)^impl\s+FrameDecoder\s*\{')
    spans['FrameDecoder'] = sp
    dq = squeeze(dblk)
    m = re.search(r'ifletSome\(min\)=self\.expected\{ifsrc\.remaining\(\)(<=|<)min\{returnOk\(None\);\}\}', dq)
    if not m:
        raise AnchorLost('FrameDecoder memo test')
    f['memo_cmp_strict'] = (m.group(1) == '<')
    if not dq.find('if!src.has_remaining(){returnOk(None);}') < m.start():
        raise AnchorLost('FrameDecoder empty test')
    mbody, _, _ = find_match_body(dblk, r'match\s+decoded\s*\{')
    maps = []
    for pat, arm in split_arms(mbody):
        p, a = squeeze(pat), squeeze(arm)
        if p.startswith('Err(frame::FrameError::UnknownFrame('):
            if 'src.advance(pos);' not in a or not a.rstrip('}').endswith('continue;'):
                raise AnchorLost('FrameDecoder unknown arm')
            f['unknown_resets_memo'] = 'self.expected=None;' in a
        elif p.startswith('Err(frame::FrameError::Incomplete(min)'):
            if a != '{self.expected=Some(min);returnOk(None);}':
                raise AnchorLost('FrameDecoder incomplete arm')
        elif p == 'Ok(frame)':
            if 'src.advance(pos);' not in a or 'returnOk(Some(frame));' not in a:
                raise AnchorLost('FrameDecoder ok arm')
            f['ok_resets_memo'] = 'self.expected=None;' in a
        else:
            mm = re.fullmatch(r'Err\(frame::FrameError::(\w+)(?:\(\w+\))?\)', p)
            m2 = re.search(r'FrameStreamError::Proto\(FrameProtocolError::(\w+)', a)
            if not mm or not m2:
                raise AnchorLost('FrameDecoder error arm ' + pat)
            maps.append((mm.group(1), m2.group(1)))
    if 'unknown_resets_memo' not in f or 'ok_resets_memo' not in f:
        raise AnchorLost('FrameDecoder arms')
    f['err_map'] = maps
    pn, spans['poll_next'] = fs.fn_body('poll_next')
    pq = squeeze(pn)
    if not pq.startswith('assert!(self.remaining_data==0,'):
        raise AnchorLost('poll_next assert')
    if 'letend=self.try_recv(cx)?;returnmatchself.decoder.decode(self.stream.buf_mut())?{' not in pq:
        raise AnchorLost('poll_next loop head')
    if 'Some(Frame::Data(PayloadLen(len)))=>{self.remaining_data=len;' not in pq:
        raise AnchorLost('poll_next DATA arm')
    if 'frame@Some(Frame::WebTransportStream(_))=>{self.remaining_data=usize::MAX;' not in pq:
        raise AnchorLost('poll_next WebTransport arm')
    m = re.search(r'Poll::Ready\(true\)=>\{ifself\.stream\.buf_mut\(\)\.has_remaining\(\)\{Poll::Ready\(Err\(FrameStreamError::UnexpectedEnd\)\)\}else\{Poll::Ready\(Ok\(None\)\)\}\}', pq)
    f['next_end_checks_buffer'] = bool(m)
    if not m and 'Poll::Ready(true)=>' not in pq:
        raise AnchorLost('poll_next end arm')
    if 'Poll::Ready(false)=>continue,Poll::Pending=>Poll::Pending,' not in pq:
        raise AnchorLost('poll_next continue/pending arms')
    pd, spans['poll_data'] = fs.fn_body('poll_data')
    dq2 = squeeze(pd)
    if not dq2.startswith('ifself.remaining_data==0{returnPoll::Ready(Ok(None));};'):
        raise AnchorLost('poll_data zero test')
    if 'Poll::Pending=>false,};letdata=self.stream.buf_mut().take_chunk(self.remaining_data);' not in dq2:
        raise AnchorLost('poll_data try_recv/take_chunk')
    mbody, _, _ = find_match_body(pd, r'match\s*\(\s*data\s*,\s*end\s*\)\s*\{')
    darms = [(squeeze(p), squeeze(a)) for p, a in split_arms(mbody)]
    f['data_none_end_guard'] = False
    f['data_short_last_guard'] = False
    seen_plain = []
    for p, a in darms:
        if p == '(None,true)ifself.remaining_data!=usize::MAX':
            if 'UnexpectedEnd' not in a or seen_plain:
                raise AnchorLost('poll_data guard arm')
            f['data_none_end_guard'] = True
        elif p == '(Some(d),true)ifd.remaining()<self.remaining_data&&!self.stream.buf_mut().has_remaining()':
            if 'UnexpectedEnd' not in a or '(Some(d),_)' in seen_plain:
                raise AnchorLost('poll_data short arm')
            f['data_short_last_guard'] = True
        elif p in ('(None,true)', '(None,false)', '(Some(d),_)'):
            seen_plain.append(p)
            want = {'(None,true)': 'Poll::Ready(Ok(None))', '(None,false)': 'Poll::Pending',
                    '(Some(d),_)': '{self.remaining_data-=d.remaining();Poll::Ready(Ok(Some(d)))}'}[p]
            if a != want:
                raise AnchorLost('poll_data arm ' + p)
        else:
            raise AnchorLost('poll_data unknown arm ' + p)
    if sorted(seen_plain) != sorted(['(None,true)', '(None,false)', '(Some(d),_)']):
        raise AnchorLost('poll_data arms')

    # ---------------- error codes
    ie = Source(repo + '/h3/src/error/internal_error.rs')
    gb, spans['got_frame_error'] = ie.fn_body('got_frame_error')
    mbody, _, _ = find_match_body(gb, r'match\s+value\s*\{')
    cmap = []
    for pat, arm in split_arms(mbody):
        vs = re.findall(r'FrameProtocolError::(\w+)', pat)
        mm = re.search(r'code\s*:\s*Code::(\w+)', arm)
        if not vs or not mm:
            raise AnchorLost('got_frame_error arm')
        for v in vs:
            cmap.append((v, mm.group(1)))
    f['code_map'] = cmap
    ce = Source(repo + '/h3/src/error/connection_error_creators.rs')
    hb, spans['handle_frame_stream_error_on_request_stream'] = ce.fn_body('handle_frame_stream_error_on_request_stream', nth=1)
    m = re.search(r'FrameStreamError::UnexpectedEnd\s*=>\s*\{[^}]*?Code::(\w+)', hb, re.S)
    if not m:
        raise AnchorLost('UnexpectedEnd code')
    f['unexpected_end_code'] = m.group(1)
    return f, spans


PVARIANTS = ['Malformed', 'ForbiddenFrame', 'InvalidFrameValue', 'Settings', 'InvalidStreamId', 'InvalidPushId']
FVARIANTS = ['Malformed', 'UnsupportedFrame', 'InvalidFrameValue', 'Settings', 'InvalidStreamId', 'InvalidPushId']


def b(x):
    return 'true' if x else 'false'


def render(f):
    L = ['(* GENERATED by translate/gen_frames.py from h3/src/proto/frame.rs, h3/src/frame.rs,',
         '   h3/src/error/internal_error.rs, h3/src/error/connection_error_creators.rs *)',
         'From H3V Require Import Base.Bytes Gen.GenCodes.',
         '(* frame_types! *)']
    for n, v in f['types']:
        L.append('Definition FT_%s : N := %d.' % (n, v))
    L.append('Definition frame_type_table : list N := [%s].' % '; '.join('FT_' + n for n, _ in f['types']))
    L += ['(* Frame::decode *)',
          'Definition fdec_ty_addend : N := %d.' % f['ty_addend'],
          'Definition fdec_len_addend : N := %d.' % f['len_addend'],
          'Definition fdec_payload_addend : N := %d.' % f['payload_addend'],
          'Definition fdec_payload_cmp_strict : bool := %s.' % b(f['payload_cmp_strict']),
          'Definition fdec_payload_bounded : bool := %s.' % b(f['payload_bounded']),
          'Definition fdec_wt_type : N := FT_%s.' % f['wt_type'],
          'Definition fdec_data_type : N := FT_%s.' % f['data_type'],
          '(* arms of `match ty`; the bool says whether a payload too short for the field is mapped to Malformed',
          '   (otherwise the UnexpectedEnd becomes Incomplete(k) through From<UnexpectedEnd>) *)',
          'Inductive arm := ArmHeaders | ArmSettings | ArmCancelPush (short_malformed : bool)',
          '  | ArmPushPromise (short_malformed : bool) | ArmGoaway (short_malformed : bool)',
          '  | ArmMaxPushId (short_malformed : bool) | ArmUnsupported | ArmUnreachable.',
          'Definition fdec_arms : list (N * arm) := [%s].' % '; '.join('(FT_%s, %s)' % (n, k) for n, k in f['arms']),
          'Definition fdec_unknown_advances : bool := %s.' % b(f['unknown_advances']),
          'Definition fdec_trailing_check : bool := %s.' % b(f['trailing_check']),
          '(* Settings::decode: what decides ok / error *)',
          'Definition fs_supported_ids : list N := [%s].' % '; '.join('%d' % x for x in f['supported']),
          'Definition fs_forbidden_ids : list N := [%s].' % '; '.join('%d' % x for x in f['forbidden']),
          'Definition fs_settings_len : N := %d.' % f['settings_len'],
          'Definition fs_settings_min : N := %d.' % f['settings_min'],
          '(* FrameDecoder::decode *)',
          'Definition fd_memo_cmp_strict : bool := %s.' % b(f['memo_cmp_strict']),
          'Definition fd_unknown_resets_memo : bool := %s.' % b(f['unknown_resets_memo']),
          'Definition fd_ok_resets_memo : bool := %s.' % b(f['ok_resets_memo']),
          'Inductive perr_kind := PK_Malformed | PK_ForbiddenFrame | PK_InvalidFrameValue | PK_Settings',
          '  | PK_InvalidStreamId | PK_InvalidPushId.',
          'Inductive ferr_kind := FK_Malformed | FK_UnsupportedFrame | FK_InvalidFrameValue | FK_Settings',
          '  | FK_InvalidStreamId | FK_InvalidPushId.']
    for fk, pk in f['err_map']:
        if fk not in FVARIANTS or pk not in PVARIANTS:
            from rustsrc import AnchorLost as AL
            raise AL('unknown error variant %s -> %s' % (fk, pk))
    L.append('Definition fd_err_map : list (ferr_kind * perr_kind) := [%s].' % '; '.join('(FK_%s, PK_%s)' % x for x in f['err_map']))
    L += ['(* FrameStream::poll_next / poll_data *)',
          'Definition fs_next_end_checks_buffer : bool := %s.' % b(f['next_end_checks_buffer']),
          'Definition fs_data_none_end_guard : bool := %s.' % b(f['data_none_end_guard']),
          'Definition fs_data_short_last_guard : bool := %s.' % b(f['data_short_last_guard']),
          '(* InternalConnectionError::got_frame_error and the request-stream handler *)']
    for pk, c in f['code_map']:
        if pk not in PVARIANTS:
            from rustsrc import AnchorLost as AL
            raise AL('unknown FrameProtocolError variant ' + pk)
    L.append('Definition perr_code_map : list (perr_kind * N) := [%s].' % '; '.join('(PK_%s, %s)' % x for x in f['code_map']))
    L.append('Definition unexpected_end_code : N := %s.' % f['unexpected_end_code'])
    return '\n'.join(L) + '\n'


# ---------------------------------------------------------------- whole-body anchors
# Every function / struct the frame-layer model mirrors is compared, as a whole, with a committed snapshot of its
# comment-free, whitespace-free text in which only the sites that are read as FACTS above are masked.  An inserted
# statement, an early return, a new struct field, a new match arm: the text differs -> AnchorLost (= violation).
import json
import os

BODIES_SNAPSHOT = os.path.join(os.path.dirname(os.path.abspath(__file__)), 'snapshots', 'GenFrameTypes.bodies.json')


def _sub_source(src, text):
    s = Source.__new__(Source)
    s.path, s.raw, s.text = src.path, text, text
    return s


def _block(src, regex):
    """squeezed text from the match of regex to the end of the brace block that follows it"""
    m = re.compile(regex).search(src.text)
    if not m:
        raise AnchorLost('%s not found in %s' % (regex, src.path))
    i = src.text.find('{', m.end() - 1)
    j = match_close(src.text, i)
    return squeeze(src.text[m.start():j + 1])


def _fn_in(src, impl_regex, fn, nth=0):
    blk, _, _ = src.item_block(impl_regex)
    return squeeze(_sub_source(src, blk).fn_body(fn, nth=nth)[0])


def no_trailing_commas(s):
    # rustfmt adds or drops them when an expression is re-wrapped
    return s.replace(',)', ')').replace(',}', '}').replace(',]', ']')


def mask_codes(s):
    return re.sub(r'Code::\w+', 'Code::#', s)


def frame_bodies(repo):
    b = {}
    fr = Source(repo + '/h3/src/proto/frame.rs')
    s = _fn_in(fr, r'(?m)^impl\s+Frame<PayloadLen>\s*\{', 'decode')
    s = re.sub(r'Incomplete\(remaining\+\d+\)', 'Incomplete(remaining+#)', s)
    s = re.sub(r'ifbuf\.remaining\(\)(<=|<)lenasusize\{returnErr\(FrameError::Incomplete\(\d+\+lenasusize\)\);\}', 'PAYLOADTEST;', s)
    s = s.replace('.map_err(|_|FrameError::Malformed)', '')
    s = re.sub(r'ifframe\.is_ok\(\)&&payload\.has_remaining\(\)\{returnErr\(FrameError::Malformed\);\}', '', s)
    s = re.sub(r'(?:\|?FrameType::H2_\w+)+=>Err\(FrameError::UnsupportedFrame\(ty\.0\)\),', 'H2ARMS,', s)
    s = s.replace('_=>{payload.advance(lenasusize);Err(', '_=>{Err(')
    b['Frame::decode'] = s
    b['struct PayloadLen'] = squeeze(re.search(r'pub\s+struct\s+PayloadLen\s*\([^)]*\)\s*;', fr.text).group(0))
    b['From<usize> for PayloadLen'] = _block(fr, r'impl\s+From<usize>\s+for\s+PayloadLen\s*\{')
    # reached from the error arms of the request-stream code (`format!("{:?}", frame)`)
    b['Debug for Frame<PayloadLen>'] = _block(fr, r'impl\s+fmt::Debug\s+for\s+Frame<PayloadLen>\s*\{')
    b['FrameType::decode'] = _fn_in(fr, r'(?m)^impl\s+FrameType\s*(?=\{\s*fn\s+decode)', 'decode')
    b['PushPromise::decode'] = _fn_in(fr, r'(?m)^impl\s+PushPromise\s*\{', 'decode')
    b['Settings::decode'] = re.sub(r'remaining\(\)<\d+', 'remaining()<#', _fn_in(fr, r'(?m)^impl\s+Settings\s*\{', 'decode'))
    b['Settings::insert'] = _fn_in(fr, r'(?m)^impl\s+Settings\s*\{', 'insert')
    fs = Source(repo + '/h3/src/frame.rs')
    b['struct FrameStream'] = _block(fs, r'pub\s+struct\s+FrameStream<S,\s*B>\s*\{')
    b['struct FrameDecoder'] = _block(fs, r'#\[derive\(Default\)\]\s*pub\s+struct\s+FrameDecoder\s*\{')
    b['FrameStream::new'] = squeeze(fs.fn_body('new')[0])
    b['FrameStream::into_inner'] = squeeze(fs.fn_body('into_inner')[0])
    s = squeeze(fs.fn_body('poll_next')[0])
    s = re.sub(r'Poll::Ready\(true\)=>(?:\{ifself\.stream\.buf_mut\(\)\.has_remaining\(\)\{Poll::Ready\(Err\(FrameStreamError::UnexpectedEnd\)\)\}else\{Poll::Ready\(Ok\(None\)\)\}\}|Poll::Ready\(Ok\(None\)\),?)', 'ENDARM', s)
    b['poll_next'] = s
    s = squeeze(fs.fn_body('poll_data')[0])
    s = re.sub(r'\(None,true\)ifself\.remaining_data!=usize::MAX=>\{Poll::Ready\(Err\(FrameStreamError::UnexpectedEnd\)\)\}', '', s)
    s = re.sub(r'\(Some\(d\),true\)ifd\.remaining\(\)<self\.remaining_data&&!self\.stream\.buf_mut\(\)\.has_remaining\(\)=>\{Poll::Ready\(Err\(FrameStreamError::UnexpectedEnd\)\)\}', '', s)
    b['poll_data'] = s
    for fn in ('stop_sending', 'has_data', 'is_eos', 'try_recv', 'id', 'split'):
        b['FrameStream::' + fn] = squeeze(fs.fn_body(fn)[0])
    s = _fn_in(fs, r'(?m)^impl\s+FrameDecoder\s*\{', 'decode')
    s = s.replace('self.expected=None;', '')
    s = re.sub(r'ifsrc\.remaining\(\)(<=|<)min', 'ifsrc.remaining()?min', s)
    b['FrameDecoder::decode'] = s
    b['enum FrameStreamError'] = _block(fs, r'pub\s+enum\s+FrameStreamError\s*\{')
    b['enum FrameProtocolError'] = _block(fs, r'pub\s+enum\s+FrameProtocolError\s*\{')
    st = Source(repo + '/h3/src/stream.rs')
    b['struct BufRecvStream'] = _block(st, r'pub\s+struct\s+BufRecvStream<S,\s*B>\s*\{')
    blk, _, _ = st.item_block(r'impl<S,\s*B>\s+BufRecvStream<S,\s*B>\s*(?=\{\s*pub\s+fn\s+new)')
    b['BufRecvStream::new'] = squeeze(blk)
    blk, _, _ = st.item_block(r'impl<B,\s*S:\s*RecvStream>\s+BufRecvStream<S,\s*B>\s*\{')
    b['BufRecvStream recv impl'] = squeeze(blk)
    blk, _, _ = st.item_block(r'impl<S,\s*B>\s+BidiStream<B>\s+for\s+BufRecvStream<S,\s*B>')
    b['BufRecvStream::split'] = squeeze(blk)
    bf = Source(repo + '/h3/src/buf.rs')
    cut = bf.text.find('#[cfg(test)]\nmod tests')
    if cut < 0:
        raise AnchorLost('buf.rs tests marker')
    b['buf.rs'] = squeeze(bf.text[:cut])
    ie = Source(repo + '/h3/src/error/internal_error.rs')
    b['got_frame_error'] = mask_codes(squeeze(ie.fn_body('got_frame_error')[0]))
    ce = Source(repo + '/h3/src/error/connection_error_creators.rs')
    b['handle_frame_stream_error_on_request_stream'] = mask_codes(squeeze(ce.fn_body('handle_frame_stream_error_on_request_stream', nth=1)[0]))
    b['handle_quic_stream_error'] = squeeze(ce.fn_body('handle_quic_stream_error')[0])
    b['handle_connection_error_on_stream'] = squeeze(ce.fn_body('handle_connection_error_on_stream')[0])
    b['control error arms'] = mask_codes(''.join(p + '=>' + a + ';' for p, a in control_error_arms(repo)))
    # every pattern (with its guard) of that match, in order: an arm put in front of the anchored ones would shadow them
    b['control arm patterns'] = ' ; '.join(control_arm_patterns(repo))
    return {k: no_trailing_commas(v) for k, v in b.items()}


def control_error_arms(repo):
    """the `Err(FrameStreamError::..)` arms of ConnectionInner::poll_control's match on recv.poll_next"""
    cn = Source(repo + '/h3/src/connection.rs')
    body, _ = cn.fn_body('poll_control')
    mb, _, _ = find_match_body(body, r'match\s+ready!\(recv\.poll_next\(cx\)\)\s*\{')
    arms = [(squeeze(p), squeeze(a)) for p, a in split_arms(mb)]
    return [(p, a) for p, a in arms if p.startswith('Err(FrameStreamError::')]


def control_arm_patterns(repo):
    cn = Source(repo + '/h3/src/connection.rs')
    body, _ = cn.fn_body('poll_control')
    mb, _, _ = find_match_body(body, r'match\s+ready!\(recv\.poll_next\(cx\)\)\s*\{')
    return [squeeze(p) for p, a in split_arms(mb)]


def control_facts(repo):
    f = {}
    for p, a in control_error_arms(repo):
        if p == 'Err(FrameStreamError::UnexpectedEnd)':
            m = re.search(r'InternalConnectionError::new\(Code::(\w+),', a)
            if not m:
                raise AnchorLost('control UnexpectedEnd arm')
            f['ctl_unexpected_end_code'] = m.group(1)
        elif p == 'Err(FrameStreamError::Proto(frame_error))':
            f['ctl_proto_via_table'] = ('InternalConnectionError::got_frame_error(frame_error)' in a
                                        and 'InternalConnectionError::new' not in a)
    if len(f) != 2:
        raise AnchorLost('control stream error arms')
    return f


def check_bodies(name, bodies, snapshot_path):
    try:
        snap = json.load(open(snapshot_path))
    except FileNotFoundError:
        raise AnchorLost('no body snapshot ' + snapshot_path)
    for k in sorted(set(snap) | set(bodies)):
        if snap.get(k) != bodies.get(k):
            a, b2 = snap.get(k) or '', bodies.get(k) or ''
            i = 0
            while i < min(len(a), len(b2)) and a[i] == b2[i]:
                i += 1
            raise AnchorLost('%s: the text of `%s` is no longer the one the model was written from (first difference at '
                             'offset %d: snapshot `...%s` / now `...%s`)' % (name, k, i, a[max(0, i - 30):i + 40], b2[max(0, i - 30):i + 40]))


_extract_facts = extract


def extract(repo):
    f, spans = _extract_facts(repo)
    f.update(control_facts(repo))
    m = re.search(r'FrameStreamError::Proto\(frame_error\)=>self\.handle_connection_error_on_stream\(InternalConnectionError::got_frame_error\(frame_error\),?\)',
                  squeeze(Source(repo + '/h3/src/error/connection_error_creators.rs').fn_body('handle_frame_stream_error_on_request_stream', nth=1)[0]))
    f['req_proto_via_table'] = bool(m)
    fs = Source(repo + '/h3/src/frame.rs')
    for key, rx in (('fd_fields', r'pub\s+struct\s+FrameDecoder\s*\{'), ('fs_fields', r'pub\s+struct\s+FrameStream<S,\s*B>\s*\{')):
        blk, _, _ = fs.item_block(rx)
        f[key] = re.findall(r'(?:pub(?:\([^)]*\))?\s+)?(\w+)\s*:', re.sub(r'<[^<>]*>', '', blk))
    check_bodies('gen_frames', frame_bodies(repo), BODIES_SNAPSHOT)
    return f, spans


_render_facts = render


def render(f):
    t = _render_facts(f)
    t += '(* the two sites that turn a FrameStreamError into a connection error code: request streams above, and\n'
    t += '   ConnectionInner::poll_control for the control stream; do the Proto arms go through got_frame_error? *)\n'
    t += 'Definition ctl_unexpected_end_code : N := %s.\n' % f['ctl_unexpected_end_code']
    t += 'Definition ctl_proto_via_table : bool := %s.\n' % b(f['ctl_proto_via_table'])
    t += 'Definition req_proto_via_table : bool := %s.\n' % b(f['req_proto_via_table'])
    t += '(* the whole state: struct FrameDecoder { %s }, struct FrameStream { %s } *)\n' % (', '.join(f['fd_fields']), ', '.join(f['fs_fields']))
    t += 'Definition fd_decoder_field_count : N := %d.\nDefinition fs_stream_field_count : N := %d.\n' % (len(f['fd_fields']), len(f['fs_fields']))
    return t


if __name__ == '__main__':
    import sys
    if len(sys.argv) > 2 and sys.argv[1] == '--snapshot-bodies':
        json.dump(frame_bodies(sys.argv[2]), open(BODIES_SNAPSHOT, 'w'), indent=1, sort_keys=True)
        print('written', BODIES_SNAPSHOT)
