"""Source facts for C12: h3/src/proto/headers.rs, h3/src/ext.rs and the six call sites
(server/request.rs resolve, client/stream.rs recv_response, connection.rs poll_recv_trailers / send_trailers,
client/connection.rs send_request, server/stream.rs send_response).

Every item is read as a WHOLE statement sequence: comments are stripped, all white space is removed and the text
is matched in full against a template in which only the facts (tables, optional checks, error codes, constructor
names) are variable.  Anything else - an extra statement, a condition wrapped around a check, a re-binding of a
variable between the decoder and Header::try_from - no longer matches and raises AnchorLost (= the theorems are
no longer about this code: a violation)."""
import json
import os
import re
from rustsrc import Source, AnchorLost, match_close

NAME = 'GenHeaders'

KINDS = {'Method': 'KMethod', 'Scheme': 'KScheme', 'Authority': 'KAuthority', 'Path': 'KPath',
         'Status': 'KStatus', 'Protocol': 'KProtocol'}
PARSERS = {'try_value': 'PTryValue', 'Method::from_bytes': 'PMethodFromBytes',
           'StatusCode::from_bytes': 'PStatusFromBytes'}
ITER_FIELDS = {'method': 'KMethod', 'scheme': 'KScheme', 'authority': 'KAuthority', 'path': 'KPath',
               'status': 'KStatus', 'protocol': 'KProtocol'}


def nows(s):
    """remove all white space OUTSIDE string, byte-string, char and byte literals"""
    out = []
    i, n = 0, len(s)
    while i < n:
        c = s[i]
        if c == '"':
            j = i + 1
            while j < n and s[j] != '"':
                j += 2 if s[j] == '\\' else 1
            out.append(s[i:j + 1])
            i = j + 1
        elif c == "'":
            m = re.match(r"'(\\.[^']*|[^'\\])'", s[i:])
            if m:
                out.append(m.group(0))
                i += len(m.group(0))
            else:
                out.append(c)
                i += 1
        elif c.isspace():
            i += 1
        else:
            out.append(c)
            i += 1
    return ''.join(out)


def fn_full(src, name, nth=0):
    """text of the nth `fn name` from the keyword to the closing brace (signature included), and its span"""
    pos, m = 0, None
    for _ in range(nth + 1):
        m = re.compile(r'\bfn\s+' + re.escape(name) + r'\b').search(src.text, pos)
        if not m:
            raise AnchorLost('fn %s not found in %s' % (name, src.path))
        pos = m.end()
    i, depth = m.end(), 0
    while i < len(src.text):
        c = src.text[i]
        if c in '([':
            depth += 1
        elif c in ')]':
            depth -= 1
        elif c == '{' and depth == 0:
            break
        i += 1
    j = match_close(src.text, i)
    return src.text[m.start():j + 1], (src.line_of(m.start()), src.line_of(j))


BODIES_FILE = os.path.join(os.path.dirname(os.path.abspath(__file__)), 'snapshots', 'GenHeaders.bodies.json')


def mask_after(text, marker, pattern, repl):
    k = text.find(marker)
    if k < 0:
        raise AnchorLost('marker %s' % marker)
    return text[:k] + re.sub(pattern, repl, text[k:])


def whole_bodies(repo, spans):
    """comment-free, white-space-free text (signature included) of every function between the QPACK codec and the
    Header type on the six call paths; only the fact sites (error codes after Header::try_from) are masked"""
    out = {}
    hdr = Source(repo + '/h3/src/proto/headers.rs')
    blk, spans['impl IntoIterator for Header'], _ = hdr.item_block(r'impl\s+IntoIterator\s+for\s+Header\b')
    out['headers.rs impl IntoIterator for Header'] = nows(blk)
    srv = Source(repo + '/h3/src/server/request.rs')
    for name in ('resolve_request', 'accept_with_frame', 'resolve'):
        t, spans['whole ' + name] = fn_full(srv, name)
        t = nows(t)
        if name == 'resolve':
            t = mask_after(t, 'Header::try_from(fields)', r'leterror_code=Code::\w+;', 'leterror_code=Code::_;')
        out['server/request.rs ' + name] = t
    cli = Source(repo + '/h3/src/client/stream.rs')
    t, spans['whole recv_response'] = fn_full(cli, 'recv_response')
    out['client/stream.rs recv_response'] = mask_after(nows(t), 'Header::try_from(fields)', r'Code::\w+', 'Code::_')
    con = Source(repo + '/h3/src/connection.rs')
    t, spans['whole poll_recv_trailers'] = fn_full(con, 'poll_recv_trailers')
    out['connection.rs poll_recv_trailers'] = mask_after(nows(t), 'Header::try_from(fields)', r'Code::\w+', 'Code::_')
    for name in ('poll_recv_data', 'send_trailers'):
        t, spans['whole ' + name] = fn_full(con, name)
        out['connection.rs ' + name] = nows(t)
    ccon = Source(repo + '/h3/src/client/connection.rs')
    t, spans['whole send_request'] = fn_full(ccon, 'send_request')
    out['client/connection.rs send_request'] = nows(t)
    sstr = Source(repo + '/h3/src/server/stream.rs')
    t, spans['whole send_response'] = fn_full(sstr, 'send_response')
    out['server/stream.rs send_response'] = nows(t)
    return out


def check_bodies(bodies):
    try:
        snap = json.load(open(BODIES_FILE))
    except FileNotFoundError:
        raise AnchorLost('no body snapshot ' + BODIES_FILE)
    for k, v in bodies.items():
        w = snap.get(k)
        if w is None:
            raise AnchorLost('no body snapshot for ' + k)
        if w != v:
            i = next((j for j in range(min(len(v), len(w))) if v[j] != w[j]), min(len(v), len(w)))
            raise AnchorLost('%s is no longer the code the model was written against; first difference at: ...%s' % (k, v[max(0, i - 40):i + 80]))


def L(s):
    """literal piece of a template (white space insensitive)"""
    return re.escape(nows(s))


STR = r'"[^"]*"'


def full(template, text, what):
    m = re.fullmatch(template, nows(text))
    if not m:
        raise AnchorLost('%s does not have the expected statement sequence' % what)
    return m


def byte_lit(tok):
    m = re.match(r"b'(\\?.)'$", tok.strip())
    if not m:
        raise AnchorLost('byte literal ' + tok)
    s = m.group(1)
    if s.startswith('\\'):
        esc = {'\\\'': 39, '\\\\': 92, '\\n': 10, '\\r': 13, '\\t': 9, '\\0': 0, '\\"': 34}
        if s not in esc:
            raise AnchorLost('escape ' + s)
        return esc[s]
    return ord(s)


def extract(repo):
    f, spans = {}, {}
    src = Source(repo + '/h3/src/proto/headers.rs')

    # ---- is_token_char: the matches! alternatives as inclusive ranges (absent before the F16 fix)
    try:
        body, spans['is_token_char'] = src.fn_body('is_token_char')
    except AnchorLost:
        body = None
    if body is None:
        f['token_ranges'] = None
    else:
        m = re.fullmatch(r'\s*matches!\s*\(\s*b\s*,(.*)\)\s*', body, re.S)
        if not m:
            raise AnchorLost('is_token_char is not a single matches!(b, ..)')
        alts = m.group(1)
        lit = r"b'(?:\\.|[^'\\])'"
        rng = r"(%s)(?:\s*\.\.=\s*(%s))?" % (lit, lit)
        ranges = []
        for mm in re.finditer(rng, alts):
            lo = byte_lit(mm.group(1))
            hi = byte_lit(mm.group(2)) if mm.group(2) else lo
            ranges.append((lo, hi))
        if re.sub(rng, '', alts).replace('|', '').strip():
            raise AnchorLost('is_token_char pattern has something else than byte literals and ranges')
        f['token_ranges'] = ranges

    # ---- Field::parse, whole body
    body, spans['Field::parse'] = src.fn_body('parse')
    tokcheck = L('if !name.iter().all(|b| is_token_char(*b)) { return Err(HeaderError::invalid_name(name)); }')
    ret = (L('return Ok(Field::Header((HeaderName::') + r'(?P<ctor>from_lowercase|from_bytes)' +
           L('(name).map_err(|_| HeaderError::invalid_name(name))?,') +
           r'(?P<valchk>' + L('HeaderValue::from_bytes(value.as_ref()).map_err(|_| HeaderError::invalid_value(name, value))?,') + r')' +
           L(')));'))
    pchk = L('HeaderValue::from_bytes(value.as_ref()).map_err(|_| HeaderError::invalid_value(name, value.as_ref()))?;')
    arm = (r'b"(:[^"]*)"=>Field::(\w+)\((?:' + L('try_value(name, value)?') + r'|' +
           r'(?:Method|StatusCode)' + L('::from_bytes(value.as_ref()).map_err(|_| HeaderError::invalid_value(name, value))?,') + r')\),')
    tmpl = (L('let name = name.as_ref();') +
            r'(?P<empty>' + L('if name.is_empty() { return Err(HeaderError::InvalidHeaderName(') + STR + L('.into())); }') + r')?' +
            L('if name[0] != ') + r"(?P<prefix>b'\\?.')" + r'\{' +
            r'(?P<tok>' + tokcheck + r')?' + ret + r'\}' +
            r'(?P<pchk>' + pchk + r')?' +
            L('Ok(match name {') + r'(?P<arms>(?:' + arm + r')+)' +
            r'(?P<unknown>' + L('_ => return Err(HeaderError::invalid_name(name)),') + r')' + L('})'))
    m = full(tmpl, body, 'Field::parse')
    f['empty_name_is_error'] = m.group('empty') is not None
    f['pseudo_prefix'] = byte_lit(m.group('prefix'))
    f['token_check_used'] = m.group('tok') is not None
    if f['token_check_used'] and f['token_ranges'] is None:
        raise AnchorLost('is_token_char used but not found')
    f['name_ctor_lowercase'] = m.group('ctor') == 'from_lowercase'
    f['value_checked'] = True
    f['pseudo_value_checked'] = m.group('pchk') is not None
    f['unknown_pseudo_is_error'] = True
    arms = []
    for am in re.finditer(r'b"(:[^"]*)"=>Field::(\w+)\((try_value|Method::from_bytes|StatusCode::from_bytes)\(', m.group('arms')):
        nm, kind, parser = am.groups()
        if kind not in KINDS:
            raise AnchorLost('Field variant ' + kind)
        arms.append((nm, kind, parser))
    f['arms'] = arms

    # ---- try_value, whole body
    body, spans['try_value'] = src.fn_body('try_value')
    full(L('let (name, value) = (name.as_ref(), value.as_ref());'
           'let s = std::str::from_utf8(value).map_err(|_| HeaderError::invalid_value(name, value))?;'
           'R::from_str(s).map_err(|_| HeaderError::invalid_value(name, value))'), body, 'try_value')
    f['try_value_utf8'] = True

    # ---- HeaderIter::next, whole body
    blk, spans['HeaderIter::next'], _ = src.item_block(r'impl\s+Iterator\s+for\s+HeaderIter')
    mnext = re.search(r'fn\s+next\s*\(\s*&mut\s+self\s*\)\s*->\s*Option<Self::Item>\s*\{', blk)
    if not mnext:
        raise AnchorLost('HeaderIter::next')
    i = mnext.end() - 1
    nbody = blk[i + 1:match_close(blk, i)]
    take = (r'iflet' + r'Some\((\w+)\)=pseudo\.(\w+)\.take\(\)\{returnSome\(\((":[^"]*"),(\w+)\.as_str\(\)(?:\.as_bytes\(\))?\)\.into\(\)\);\}')
    loop = L('for (new_header_name, header_value) in self.fields.by_ref() {'
             'if let Some(new) = new_header_name { self.last_header_name = Some(new); }'
             'if let (Some(ref n), v) = (&self.last_header_name, header_value) { return Some((n.as_str(), v.as_bytes()).into()); } }')
    pblock = L('if let Some(ref mut pseudo) = self.pseudo {') + r'(?P<takes>(?:' + take + r')+)\}' + L('self.pseudo = None;')
    mm = re.fullmatch(r'(?:(?P<pf>' + pblock + loop + r')|(?P<ff>' + loop + pblock.replace('?P<takes>', '?P<takes2>') + r'))' + L('None'), nows(nbody))
    if not mm:
        raise AnchorLost('HeaderIter::next does not have the expected statement sequence')
    f['iter_pseudo_first'] = mm.group('pf') is not None
    takes = mm.group('takes') if f['iter_pseudo_first'] else mm.group('takes2')
    order = []
    for tm in re.finditer(take, takes):
        var, fld, nm, var2 = tm.groups()
        if fld not in ITER_FIELDS or var != fld or var2 != fld:
            raise AnchorLost('HeaderIter field ' + fld)
        order.append((fld, nm.strip('"')))
    f['iter_order'] = order

    # ---- TryFrom<Vec<HeaderField>>, whole body
    body, spans['try_from'] = src.fn_body('try_from')
    parm = r'Field::(\w+)\((\w)\)=>\{pseudo\.(\w+)=Some\((\w)\);pseudo\.len\+=1;\}'
    harm = (r'Field::Header\(\(n,v\)\)=>\{(?:(?P<tryapp>' + L('fields.try_append(n, v).map_err(|_| HeaderError::TooManyFields)?;') +
            r')|(?P<app>' + L('fields.append(n, v);') + r'))\}')
    tmpl = (r'(?:(?P<tryalloc>' + L('let mut fields = HeaderMap::try_with_capacity(headers.len()).map_err(|_| HeaderError::TooManyFields)?;') +
            r')|(?P<alloc>' + L('let mut fields = HeaderMap::with_capacity(headers.len());') + r'))' +
            L('let mut pseudo = Pseudo::default();'
              'for field in headers.into_iter() { let (name, value) = field.into_inner(); match Field::parse(name, value)? {') +
            r'(?:' + parm + r')*' + harm + r'(?:' + parm + r')*' + L('} }') + L('Ok(Header { pseudo, fields })'))
    m = full(tmpl, body, 'Header::try_from')
    f['alloc_fallible'] = m.group('tryalloc') is not None
    f['append_fallible'] = m.group('tryapp') is not None
    seen = set()
    for pm in re.finditer(parm, nows(body)):
        variant, v1, fld, v2 = pm.groups()
        if variant.lower() != fld or variant not in KINDS or v1 != v2:
            raise AnchorLost('try_from stores Field::%s into pseudo.%s' % (variant, fld))
        seen.add(variant)
    if seen != set(KINDS):
        raise AnchorLost('try_from pseudo arms ' + ','.join(sorted(seen)))

    # ---- into_request_parts, whole body
    body, spans['into_request_parts'] = src.fn_body('into_request_parts')
    tmpl = (L('let mut uri = Uri::builder();'
              'if let Some(path) = self.pseudo.path { uri = uri.path_and_query(path.as_str().as_bytes()); }'
              'if let Some(scheme) = self.pseudo.scheme { uri = uri.scheme(scheme.as_str().as_bytes()); }'
              'match (self.pseudo.authority, self.fields.get(') + r'"(?P<host>[^"]*)"' + L(')) {') +
            r'(?P<missing>' + L('(None, None) => return Err(HeaderError::MissingAuthority),') + r')?' +
            L('(Some(a), None) => uri = uri.authority(a.as_str().as_bytes()),'
              '(None, Some(h)) => uri = uri.authority(h.as_bytes()),') +
            r'(?P<contra>' + L('(Some(a), Some(h)) if a.as_str() != h => { return Err(HeaderError::ContradictedAuthority) }') + r')?' +
            L('(Some(_), Some(h)) => uri = uri.authority(h.as_bytes()), }'
              'Ok(( self.pseudo.method.ok_or(HeaderError::MissingMethod)?,'
              'uri.build().map_err(HeaderError::InvalidRequest)?, self.pseudo.protocol, self.fields, ))'))
    m = full(tmpl, body, 'Header::into_request_parts')
    f['host_name'] = m.group('host')
    f['req_missing_authority'] = m.group('missing') is not None
    f['req_contradiction'] = m.group('contra') is not None
    f['req_method_required'] = True
    f['req_uri_checked'] = True
    body, spans['into_response_parts'] = src.fn_body('into_response_parts')
    full(L('Ok(( self.pseudo.status.ok_or(HeaderError::MissingStatus)?, self.fields, ))'), body, 'Header::into_response_parts')
    f['resp_status_required'] = True
    body, spans['into_fields'] = src.fn_body('into_fields')
    full(L('self.fields'), body, 'Header::into_fields')

    # ---- Header::request / response / trailer, Pseudo::request / response: whole bodies
    body, spans['Header::request'] = src.fn_body('request')
    tmpl = (L('match (uri.authority(), fields.get(') + r'"(?P<host>[^"]*)"' + L(')) {') +
            r'(?P<missing>' + L('(None, None) => Err(HeaderError::MissingAuthority),') + r')?' +
            r'(?P<contra>' + L('(Some(a), Some(h)) if a.as_str() != h => Err(HeaderError::ContradictedAuthority),') + r')?' +
            L('_ => Ok(Self { pseudo: Pseudo::request(method, uri, ext), fields, }), }'))
    m = full(tmpl, body, 'Header::request')
    f['send_host_name'] = m.group('host')
    f['send_missing_authority'] = m.group('missing') is not None
    f['send_contradiction'] = m.group('contra') is not None
    body, spans['Header::response'] = src.fn_body('response')
    full(L('Self { pseudo: Pseudo::response(status), fields, }'), body, 'Header::response')
    body, spans['Header::trailer'] = src.fn_body('trailer')
    full(L('Self { pseudo: Pseudo::default(), fields, }'), body, 'Header::trailer')
    f['trailer_pseudo_default'] = True
    pblk, spans['impl Pseudo'], _ = src.item_block(r'impl\s+Pseudo\s*\{')
    psrc = Source.__new__(Source)
    psrc.path, psrc.raw, psrc.text = src.path, pblk, pblk
    body, _sp = psrc.fn_body('request')
    full(L('let Parts { scheme, authority, path_and_query, .. } = uri::Parts::from(uri);'
           'let path = path_and_query.map_or_else( || PathAndQuery::from_static("/"), |path| {'
           'if path.path().is_empty() && method != Method::OPTIONS { PathAndQuery::from_static("/") } else { path } }, );'
           'let protocol = if method == Method::CONNECT { ext.get::<Protocol>().copied() } else { None };'
           'let (scheme, path) = if method == Method::CONNECT && protocol.is_none() { (None, None) }'
           'else { (scheme.or(Some(Scheme::HTTPS)), Some(path)) };'
           'let len = 3 + authority.is_some() as usize + protocol.is_some() as usize;'
           'Self { method: Some(method), scheme, authority, path, status: None, protocol, len, }'), body, 'Pseudo::request')
    body, _sp = psrc.fn_body('response')
    full(L('Pseudo { method: None, scheme: None, authority: None, path: None, status: Some(status), len: 1, protocol: None, }'),
         body, 'Pseudo::response')

    # ---- ext.rs Protocol
    ext = Source(repo + '/h3/src/ext.rs')
    blk, spans['ProtocolInner'], _ = ext.item_block(r'enum\s+ProtocolInner')
    variants = re.findall(r'(\w+)\s*,', blk)
    if not variants:
        raise AnchorLost('ProtocolInner variants')
    f['proto_variants'] = variants
    body, spans['Protocol::as_str'] = ext.fn_body('as_str')
    m = full(L('match self.0 {') + r'(?P<rows>(?:ProtocolInner::\w+=>' + STR + r',)+)\}', body, 'Protocol::as_str')
    f['proto_as_str'] = re.findall(r'ProtocolInner::(\w+)=>"([^"]*)"', m.group('rows'))
    body, spans['Protocol::from_str'] = ext.fn_body('from_str')
    m = full(L('match s {') + r'(?P<rows>(?:' + STR + r'=>Ok\(Self\(ProtocolInner::\w+\)\),)+)' + L('_ => Err(InvalidProtocol), }'),
             body, 'Protocol::from_str')
    f['proto_from_str'] = re.findall(r'"([^"]*)"=>Ok\(Self\(ProtocolInner::(\w+)\)\)', m.group('rows'))
    for v, _s in f['proto_as_str']:
        if v not in variants:
            raise AnchorLost('as_str variant ' + v)
    for _s, v in f['proto_from_str']:
        if v not in variants:
            raise AnchorLost('from_str variant ' + v)

    # ---- receive call sites: from the binding of `fields` by the QPACK decoder to the end of the function
    srv = Source(repo + '/h3/src/server/request.rs')
    body, spans['resolve'] = srv.fn_body('resolve')
    k = re.search(r'let\s+fields\s*=\s*match\s+self\.decoded\s*\{', body)
    if not k:
        raise AnchorLost('resolve: let fields = match self.decoded')
    j = match_close(body, k.end() - 1)
    head = nows(body[k.end():j])
    if not re.fullmatch(L('Ok(v) => v.fields, Err(cancel_size) => {') + r'.*' + L('return Err(StreamError::HeaderTooBig {') + r'[^{}]*\}\);\}', head):
        raise AnchorLost('resolve: how `fields` is bound')
    rest = body[j + 1:]
    if not rest.lstrip().startswith(';'):
        raise AnchorLost('resolve: statement after the fields binding')
    rest = rest.lstrip()[1:]
    tmpl = (L('let result = match Header::try_from(fields) { Ok(header) => match header.into_request_parts() {'
              'Ok(parts) => Ok(parts), Err(err) => Err(err), }, Err(err) => Err(err), };'
              'let (method, uri, protocol, headers) = match result { Ok(parts) => parts, Err(err) => {'
              'let error_code = Code::') + r'(?P<code>\w+);' +
            r'(?P<reset>' + L('self.request_stream.stop_stream(error_code);') + r')?' +
            r'(?P<stop>' + L('self.request_stream.stop_sending(error_code);') + r')?' +
            L('return Err(StreamError::StreamError { code: error_code, reason: format!(') + STR + L(', err), }); } };') +
            L('let mut req = http::Request::new(());'
              '*req.method_mut() = method; *req.uri_mut() = uri; *req.headers_mut() = headers;'
              'if let Some(protocol) = protocol { req.extensions_mut().insert(protocol); }'
              '*req.version_mut() = http::Version::HTTP_3;') +
            r'(?:#\[cfg\(feature="tracing"\)\]tracing::trace!\([^;]*\);)?' +
            L('Ok((req, self.request_stream))'))
    m = full(tmpl, rest, 'server resolve (from Header::try_from on)')
    f['srv_code'] = m.group('code')
    f['srv_reset'] = m.group('reset') is not None
    f['srv_stop'] = m.group('stop') is not None

    cli = Source(repo + '/h3/src/client/stream.rs')
    body, spans['recv_response'] = cli.fn_body('recv_response')
    k = re.search(r'let\s+qpack::Decoded\s*\{\s*fields\s*,\s*\.\.\s*\}\s*=\s*decoded\s*;', body)
    if not k:
        raise AnchorLost('recv_response: let qpack::Decoded { fields, .. } = decoded')
    if not re.search(L('let decoded = if let Frame::Headers(ref mut encoded) = frame {'
                       'match qpack::decode_stateless(encoded, self.inner.max_field_section_size) {'), nows(body[:k.start()])):
        raise AnchorLost('recv_response: where `decoded` comes from')
    closure = (L('.map_err(|_e| {') + r'(?:' + L('self.inner.stream.stop_sending(Code::') + r'(\w+)\);)?' +
               L('StreamError::StreamError { code: Code::') + r'(\w+),reason:' + STR + L('.to_string(), } })?'))
    tmpl = (L('let (status, headers) = Header::try_from(fields)') + closure + L('.into_response_parts()') + closure + r';' +
            L('let mut resp = Response::new(()); *resp.status_mut() = status; *resp.headers_mut() = headers;'
              '*resp.version_mut() = http::Version::HTTP_3; Ok(resp)'))
    m = full(tmpl, body[k.end():], 'client recv_response (from Header::try_from on)')
    f['cli_stop_try_from'], f['cli_code_try_from'], f['cli_stop_parts'], f['cli_code_parts'] = m.groups()

    con = Source(repo + '/h3/src/connection.rs')
    body, spans['poll_recv_trailers'] = con.fn_body('poll_recv_trailers')
    k = re.search(r'let\s+qpack::Decoded\s*\{\s*fields\s*,\s*\.\.\s*\}\s*=\s*match\s+qpack::decode_stateless\(\s*&mut\s+trailers\s*,\s*self\.max_field_section_size\s*\)\s*\{', body)
    if not k:
        raise AnchorLost('poll_recv_trailers: let qpack::Decoded { fields, .. } = match qpack::decode_stateless(..)')
    j = match_close(body, k.end() - 1)
    if not re.search(L('Ok(decoded) => decoded,'), nows(body[k.end():j])):
        raise AnchorLost('poll_recv_trailers: how `fields` is bound')
    rest = body[j + 1:].lstrip()
    if not rest.startswith(';'):
        raise AnchorLost('poll_recv_trailers: statement after the fields binding')
    tmpl = (L('Poll::Ready(Ok(Some( Header::try_from(fields).map_err(|_e| {') +
            r'(?:' + L('self.stop_sending(Code::') + r'(\w+)\);)?' +
            L('StreamError::StreamError { code: Code::') + r'(\w+),reason:' + STR + L('.to_string(), } })? .into_fields(), )))'))
    m = full(tmpl, rest[1:], 'poll_recv_trailers (from Header::try_from on)')
    f['trl_stop'], f['trl_code'] = m.groups()

    # ---- send call sites: which constructor, with which arguments, is encoded and written
    body, spans['send_trailers'] = con.fn_body('send_trailers')
    nb = nows(body)
    if not nb.startswith(nows('let mut block = BytesMut::new(); let mem_size = qpack::encode_stateless(&mut block, Header::trailer(trailers)).map_err(|_e| {')):
        raise AnchorLost('send_trailers does not start with encode_stateless(&mut block, Header::trailer(trailers))')
    if nb.count('letmutblock') != 1 or nows('stream::write(&mut self.stream, Frame::Headers(block.freeze()))') not in nb:
        raise AnchorLost('send_trailers: what is written')
    ccon = Source(repo + '/h3/src/client/connection.rs')
    body, spans['send_request'] = ccon.fn_body('send_request')
    nb = nows(body)
    a = nb.find(nows('let (parts, _) = req.into_parts(); let request::Parts { method, uri, headers, extensions, .. } = parts;'
                     'let headers = Header::request(method, uri, headers, extensions).map_err(|_e| {'))
    b = nb.find(nows('let mut block = BytesMut::new(); let mem_size = qpack::encode_stateless(&mut block, headers).map_err(|_e| {'))
    c = nb.find(nows('stream::write(&mut stream, Frame::Headers(block.freeze()))'))
    if a < 0 or b < a or c < b:
        raise AnchorLost('send_request: Header::request(method, uri, headers, extensions) -> encode_stateless -> write')
    seg = nb[a:b]
    seg = seg[seg.find('})?;') + 4:]
    if 'headers' in seg or 'block' in seg or nb.count('letmutblock') != 1 or nb.count('letheaders=') != 1:
        raise AnchorLost('send_request: headers/block touched between construction and encoding')
    sstr = Source(repo + '/h3/src/server/stream.rs')
    body, spans['send_response'] = sstr.fn_body('send_response')
    nb = nows(body)
    if not nb.startswith(nows('let (parts, _) = resp.into_parts(); let response::Parts { status, headers, .. } = parts;'
                              'let headers = Header::response(status, headers); let mut block = BytesMut::new();'
                              'let mem_size = qpack::encode_stateless(&mut block, headers).map_err(|_e| {')):
        raise AnchorLost('send_response does not start with Header::response(status, headers) -> encode_stateless')
    if nb.count('letmutblock') != 1 or nows('stream::write(&mut self.inner.stream, Frame::Headers(block.freeze()))') not in nb:
        raise AnchorLost('send_response: what is written')
    f['send_sites_ok'] = True

    # ---- everything else on the six call paths: whole functions against the committed snapshot
    check_bodies(whole_bodies(repo, spans))
    f['call_paths_unchanged'] = True
    return f, spans


def bl(s):
    return '[' + '; '.join(str(b) for b in s.encode('latin-1')) + ']'


def cb(x):
    return 'true' if x else 'false'


def optcode(c):
    return 'Some %s' % c if c else 'None'


def render(f):
    Ls = ['(* GENERATED by translate/gen_headers.py from h3/src/proto/headers.rs, h3/src/ext.rs, h3/src/server/request.rs,',
          '   h3/src/client/stream.rs, h3/src/connection.rs, h3/src/client/connection.rs, h3/src/server/stream.rs *)',
          'From H3V Require Import Base.Bytes Gen.GenCodes.',
          'Inductive pkind := KMethod | KScheme | KAuthority | KPath | KStatus | KProtocol.',
          'Inductive pparser := PTryValue | PMethodFromBytes | PStatusFromBytes.',
          '(* is_token_char: inclusive byte ranges of the matches! pattern; token_check_used = Field::parse applies it, unconditionally, to regular names *)']
    tr = f['token_ranges'] or []
    Ls.append('Definition token_char_ranges : list (N * N) := [%s].' % '; '.join('(%d, %d)' % r for r in tr))
    Ls.append('Definition token_check_used : bool := %s.' % cb(f['token_check_used']))
    Ls.append('Definition empty_name_is_error : bool := %s.' % cb(f['empty_name_is_error']))
    Ls.append('Definition pseudo_prefix : N := %d.' % f['pseudo_prefix'])
    Ls.append('Definition name_ctor_lowercase : bool := %s.' % cb(f['name_ctor_lowercase']))
    Ls.append('Definition value_checked : bool := %s.' % cb(f['value_checked']))
    Ls.append('Definition pseudo_value_checked : bool := %s.' % cb(f['pseudo_value_checked']))
    Ls.append('(* the pseudo-header arms of Field::parse, in source order *)')
    Ls.append('Definition pseudo_arms : list (bytes * (pkind * pparser)) := [')
    Ls.append(';\n'.join('  (%s, (%s, %s)) (* %s *)' % (bl(nm), KINDS[k], PARSERS[p], nm) for nm, k, p in f['arms']))
    Ls.append('].')
    Ls.append('Definition unknown_pseudo_is_error : bool := %s.' % cb(f['unknown_pseudo_is_error']))
    Ls.append('Definition try_value_utf8 : bool := %s.' % cb(f['try_value_utf8']))
    Ls.append('(* HeaderIter::next: the order in which the pseudo fields are taken, with the names written *)')
    Ls.append('Definition iter_order : list (pkind * bytes) := [')
    Ls.append(';\n'.join('  (%s, %s) (* %s *)' % (ITER_FIELDS[k], bl(nm), nm) for k, nm in f['iter_order']))
    Ls.append('].')
    Ls.append('Definition iter_pseudo_first : bool := %s.' % cb(f['iter_pseudo_first']))
    Ls.append('Definition alloc_fallible : bool := %s.' % cb(f['alloc_fallible']))
    Ls.append('Definition append_fallible : bool := %s.' % cb(f['append_fallible']))
    Ls.append('Definition host_name : bytes := %s. (* %s *)' % (bl(f['host_name']), f['host_name']))
    Ls.append('Definition req_missing_authority : bool := %s.' % cb(f['req_missing_authority']))
    Ls.append('Definition req_contradiction : bool := %s.' % cb(f['req_contradiction']))
    Ls.append('Definition req_method_required : bool := %s.' % cb(f['req_method_required']))
    Ls.append('Definition req_uri_checked : bool := %s.' % cb(f['req_uri_checked']))
    Ls.append('Definition resp_status_required : bool := %s.' % cb(f['resp_status_required']))
    Ls.append('Definition send_host_name : bytes := %s. (* %s *)' % (bl(f['send_host_name']), f['send_host_name']))
    Ls.append('Definition send_missing_authority : bool := %s.' % cb(f['send_missing_authority']))
    Ls.append('Definition send_contradiction : bool := %s.' % cb(f['send_contradiction']))
    Ls.append('Definition trailer_pseudo_default : bool := %s.' % cb(f['trailer_pseudo_default']))
    Ls.append('(* ext.rs: Protocol variants are numbered in declaration order *)')
    idx = {v: i for i, v in enumerate(f['proto_variants'])}
    Ls.append('Definition proto_count : N := %d.' % len(idx))
    Ls.append('Definition proto_from_str : list (bytes * N) := [%s].' % '; '.join('(%s, %d)' % (bl(s), idx[v]) for s, v in f['proto_from_str']))
    Ls.append('Definition proto_as_str : list (N * bytes) := [%s].' % '; '.join('(%d, %s)' % (idx[v], bl(s)) for v, s in f['proto_as_str']))
    Ls.append('(* call sites: code of the StreamError returned, codes passed to stop_stream (reset) / stop_sending *)')
    Ls.append('Definition srv_code : N := %s.' % f['srv_code'])
    Ls.append('Definition srv_reset : option N := %s.' % optcode(f['srv_code'] if f['srv_reset'] else None))
    Ls.append('Definition srv_stop : option N := %s.' % optcode(f['srv_code'] if f['srv_stop'] else None))
    Ls.append('Definition cli_code_try_from : N := %s.' % f['cli_code_try_from'])
    Ls.append('Definition cli_code_parts : N := %s.' % f['cli_code_parts'])
    Ls.append('Definition cli_stop_try_from : option N := %s.' % optcode(f['cli_stop_try_from']))
    Ls.append('Definition cli_stop_parts : option N := %s.' % optcode(f['cli_stop_parts']))
    Ls.append('Definition trl_code : N := %s.' % f['trl_code'])
    Ls.append('Definition trl_stop : option N := %s.' % optcode(f['trl_stop']))
    Ls.append('(* send_request / send_response / send_trailers encode and write exactly Header::request(method, uri, headers, extensions) /')
    Ls.append('   Header::response(status, headers) / Header::trailer(trailers) of the caller\'s parts *)')
    Ls.append('Definition send_sites_ok : bool := %s.' % cb(f['send_sites_ok']))
    Ls.append('(* into_iter, resolve_request, accept_with_frame, resolve, recv_response, poll_recv_data, poll_recv_trailers, send_request,')
    Ls.append('   send_response, send_trailers: signature and body equal, token for token, the text the model was written against *)')
    Ls.append('Definition call_paths_unchanged : bool := %s.' % cb(f['call_paths_unchanged']))
    return '\n'.join(Ls) + '\n'


if __name__ == '__main__':
    import sys
    if sys.argv[1:2] == ['--update-bodies']:
        repo = sys.argv[2] if len(sys.argv) > 2 else '/repo'
        b = whole_bodies(repo, {})
        with open(BODIES_FILE, 'w') as fh:
            json.dump(b, fh, indent=1, sort_keys=True)
        print('wrote', BODIES_FILE, len(b), 'bodies')
