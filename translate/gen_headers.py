"""Source facts for C12: h3/src/proto/headers.rs (Field::parse tables, is_token_char, HeaderIter order, the
fallible HeaderMap calls, the presence of the request/response checks), h3/src/ext.rs (Protocol tables) and the
error codes used where a HeaderError is turned into a stream error (server/request.rs resolve,
client/stream.rs recv_response, connection.rs poll_recv_trailers)."""
import re
from rustsrc import Source, AnchorLost, match_close

NAME = 'GenHeaders'

KINDS = {'Method': 'KMethod', 'Scheme': 'KScheme', 'Authority': 'KAuthority', 'Path': 'KPath',
         'Status': 'KStatus', 'Protocol': 'KProtocol'}
PARSERS = {'try_value': 'PTryValue', 'Method::from_bytes': 'PMethodFromBytes',
           'StatusCode::from_bytes': 'PStatusFromBytes'}
ITER_FIELDS = {'method': 'KMethod', 'scheme': 'KScheme', 'authority': 'KAuthority', 'path': 'KPath',
               'status': 'KStatus', 'protocol': 'KProtocol'}


def byte_lit(tok):
    """b'a' / b'\\'' / b':' -> int"""
    m = re.match(r"b'(\\?.)'$", tok.strip())
    if not m:
        raise AnchorLost('byte literal ' + tok)
    s = m.group(1)
    if s.startswith('\\'):
        esc = {'\\\'': 39, '\\\\': 92, '\\n': 10, '\\r': 13, '\\t': 9, '\\0': 0, '\\"': 34}
        if s not in esc:
            raise AnchorLost('escape ' + s)
        return esc[s]
    return ord(s)


def extract(repo):
    f, spans = {}, {}
    src = Source(repo + '/h3/src/proto/headers.rs')

    # ---- is_token_char: the matches! alternatives as inclusive ranges (absent before the F16 fix)
    try:
        body, spans['is_token_char'] = src.fn_body('is_token_char')
        m = re.search(r'matches!\s*\(\s*b\s*,', body)
        if not m:
            raise AnchorLost('is_token_char matches!')
        i = body.index('(', m.start())
        j = match_close(body, i, '(', ')')
        alts = body[m.end():j]
        ranges = []
        lit = r"b'(?:\\.|[^'\\])'"
        for mm in re.finditer(r"(%s)(?:\s*\.\.=\s*(%s))?" % (lit, lit), alts):
            lo = byte_lit(mm.group(1))
            hi = byte_lit(mm.group(2)) if mm.group(2) else lo
            ranges.append((lo, hi))
        leftover = re.sub(r"(%s)(?:\s*\.\.=\s*(%s))?" % (lit, lit), '', alts)
        if leftover.replace('|', '').strip():
            raise AnchorLost('is_token_char pattern: ' + leftover.strip()[:40])
        f['token_ranges'] = ranges
    except AnchorLost as ex:
        if 'not found' in str(ex):
            f['token_ranges'] = None      # no such function: no extra name check
        else:
            raise

    # ---- Field::parse
    body, spans['Field::parse'] = src.fn_body('parse')
    f['empty_name_is_error'] = bool(re.search(r'if\s+name\.is_empty\(\)\s*\{\s*return\s+Err\(\s*HeaderError::InvalidHeaderName', body))
    m = re.search(r"if\s+name\[0\]\s*!=\s*(b'\\?.')\s*\{", body)
    if not m:
        raise AnchorLost('Field::parse regular-name guard')
    f['pseudo_prefix'] = byte_lit(m.group(1))
    i = body.index('{', m.start())
    j = match_close(body, i)
    reg = body[i:j]
    if f['token_ranges'] is not None:
        f['token_check_used'] = bool(re.search(r'if\s+!\s*name\.iter\(\)\.all\(\s*\|b\|\s*is_token_char\(\*b\)\s*\)\s*\{\s*return\s+Err\(\s*HeaderError::invalid_name', reg))
    else:
        f['token_check_used'] = False
    mm = re.search(r'HeaderName::(from_lowercase|from_bytes)\(name\)', reg)
    if not mm:
        raise AnchorLost('Field::parse HeaderName constructor')
    f['name_ctor_lowercase'] = (mm.group(1) == 'from_lowercase')
    f['value_checked'] = bool(re.search(r'HeaderValue::from_bytes\(value\.as_ref\(\)\)\s*\.map_err', reg))
    rest = body[j:]
    km = re.search(r'Ok\(\s*match\s+name\s*\{', rest)
    if not km:
        raise AnchorLost('Field::parse pseudo match')
    f['pseudo_value_checked'] = bool(re.search(r'HeaderValue::from_bytes\(value\.as_ref\(\)\)\s*\.map_err\([^;]*HeaderError::invalid_value\([^;]*\)\s*\)\?\s*;', rest[:km.start()]))
    arms = re.findall(r'b"(:[^"]*)"\s*=>\s*Field::(\w+)\(\s*(try_value|Method::from_bytes|StatusCode::from_bytes)\(', rest)
    if not arms:
        raise AnchorLost('Field::parse pseudo arms')
    for nm, kind, parser in arms:
        if kind not in KINDS:
            raise AnchorLost('Field variant ' + kind)
    f['arms'] = arms
    f['unknown_pseudo_is_error'] = bool(re.search(r'_\s*=>\s*return\s+Err\(\s*HeaderError::invalid_name\(name\)\s*\)', rest))

    # ---- try_value: utf8 first
    body, spans['try_value'] = src.fn_body('try_value')
    f['try_value_utf8'] = bool(re.search(r'std::str::from_utf8\(value\)\s*\.map_err', body)) and bool(re.search(r'R::from_str\(s\)', body))

    # ---- HeaderIter::next
    blk, spans['HeaderIter::next'], _ = src.item_block(r'impl\s+Iterator\s+for\s+HeaderIter')
    order = re.findall(r'pseudo\.(\w+)\.take\(\)\s*\{\s*return\s+Some\(\s*\(\s*"(:[^"]*)"', blk)
    if not order:
        raise AnchorLost('HeaderIter pseudo order')
    for fld, _nm in order:
        if fld not in ITER_FIELDS:
            raise AnchorLost('HeaderIter field ' + fld)
    f['iter_order'] = order
    last_take = max(mm.start() for mm in re.finditer(r'pseudo\.\w+\.take\(\)', blk))
    loop = re.search(r'for\s*\(\s*new_header_name\s*,\s*header_value\s*\)\s*in\s+self\.fields', blk)
    if not loop:
        raise AnchorLost('HeaderIter field loop')
    f['iter_pseudo_first'] = loop.start() > last_take

    # ---- TryFrom<Vec<HeaderField>>
    body, spans['try_from'] = src.fn_body('try_from')
    if re.search(r'HeaderMap::try_with_capacity\(\s*headers\.len\(\)\s*\)\s*\.map_err\(\s*\|_\|\s*HeaderError::TooManyFields\s*\)\?', body):
        f['alloc_fallible'] = True
    elif re.search(r'HeaderMap::with_capacity\(\s*headers\.len\(\)\s*\)', body):
        f['alloc_fallible'] = False
    else:
        raise AnchorLost('try_from map allocation')
    if re.search(r'\.try_append\(\s*n\s*,\s*v\s*\)\s*\.map_err\(\s*\|_\|\s*HeaderError::TooManyFields\s*\)\?', body):
        f['append_fallible'] = True
    elif re.search(r'fields\s*\.append\(\s*n\s*,\s*v\s*\)', body):
        f['append_fallible'] = False
    else:
        raise AnchorLost('try_from map append')

    # ---- into_request_parts / into_response_parts / Header::request: which checks exist
    body, spans['into_request_parts'] = src.fn_body('into_request_parts')
    m = re.search(r'self\.fields\.get\(\s*"([^"]*)"\s*\)', body)
    if not m:
        raise AnchorLost('into_request_parts host lookup')
    f['host_name'] = m.group(1)
    f['req_missing_authority'] = bool(re.search(r'\(\s*None\s*,\s*None\s*\)\s*=>\s*return\s+Err\(\s*HeaderError::MissingAuthority\s*\)', body))
    f['req_contradiction'] = bool(re.search(r'\(\s*Some\(a\)\s*,\s*Some\(h\)\s*\)\s*if\s+a\.as_str\(\)\s*!=\s*h\s*=>\s*\{?\s*return\s+Err\(\s*HeaderError::ContradictedAuthority\s*\)', body))
    f['req_method_required'] = bool(re.search(r'self\.pseudo\.method\.ok_or\(\s*HeaderError::MissingMethod\s*\)\?', body))
    f['req_uri_checked'] = bool(re.search(r'uri\.build\(\)\.map_err\(\s*HeaderError::InvalidRequest\s*\)\?', body))
    body, spans['into_response_parts'] = src.fn_body('into_response_parts')
    f['resp_status_required'] = bool(re.search(r'self\.pseudo\.status\.ok_or\(\s*HeaderError::MissingStatus\s*\)\?', body))
    body, spans['Header::request'] = src.fn_body('request')
    m = re.search(r'fields\.get\(\s*"([^"]*)"\s*\)', body)
    if not m:
        raise AnchorLost('Header::request host lookup')
    f['send_host_name'] = m.group(1)
    f['send_missing_authority'] = bool(re.search(r'\(\s*None\s*,\s*None\s*\)\s*=>\s*Err\(\s*HeaderError::MissingAuthority\s*\)', body))
    f['send_contradiction'] = bool(re.search(r'\(\s*Some\(a\)\s*,\s*Some\(h\)\s*\)\s*if\s+a\.as_str\(\)\s*!=\s*h\s*=>\s*Err\(\s*HeaderError::ContradictedAuthority\s*\)', body))
    body, spans['Header::trailer'] = src.fn_body('trailer')
    f['trailer_pseudo_default'] = bool(re.search(r'pseudo:\s*Pseudo::default\(\)', body))

    # ---- ext.rs Protocol
    ext = Source(repo + '/h3/src/ext.rs')
    blk, spans['ProtocolInner'], _ = ext.item_block(r'enum\s+ProtocolInner')
    variants = re.findall(r'(\w+)\s*,', blk)
    if not variants:
        raise AnchorLost('ProtocolInner variants')
    f['proto_variants'] = variants
    body, spans['Protocol::as_str'] = ext.fn_body('as_str')
    f['proto_as_str'] = re.findall(r'ProtocolInner::(\w+)\s*=>\s*"([^"]*)"', body)
    body, spans['Protocol::from_str'] = ext.fn_body('from_str')
    f['proto_from_str'] = re.findall(r'"([^"]*)"\s*=>\s*Ok\(\s*Self\(\s*ProtocolInner::(\w+)\s*\)\s*\)', body)
    if not f['proto_as_str'] or not f['proto_from_str']:
        raise AnchorLost('Protocol tables')
    for v, _s in f['proto_as_str']:
        if v not in variants:
            raise AnchorLost('as_str variant ' + v)
    for _s, v in f['proto_from_str']:
        if v not in variants:
            raise AnchorLost('from_str variant ' + v)

    # ---- the call sites: HeaderError -> stream error
    srv = Source(repo + '/h3/src/server/request.rs')
    body, spans['resolve'] = srv.fn_body('resolve')
    m = re.search(r'let\s+error_code\s*=\s*Code::(\w+)\s*;', body)
    if not m:
        raise AnchorLost('resolve error_code')
    f['srv_code'] = m.group(1)
    tail = body[m.end():]
    f['srv_reset'] = bool(re.search(r'self\.request_stream\.stop_stream\(\s*error_code\s*\)', tail))
    f['srv_stop'] = bool(re.search(r'self\.request_stream\.stop_sending\(\s*error_code\s*\)', tail))
    if not re.search(r'StreamError::StreamError\s*\{\s*code:\s*error_code\s*,', tail):
        raise AnchorLost('resolve StreamError code')

    cli = Source(repo + '/h3/src/client/stream.rs')
    body, spans['recv_response'] = cli.fn_body('recv_response')
    k = body.find('Header::try_from(fields)')
    if k < 0:
        raise AnchorLost('recv_response try_from')
    tail = body[k:]
    k2 = tail.find('.into_response_parts()')
    if k2 < 0:
        raise AnchorLost('recv_response into_response_parts')
    a, b = tail[:k2], tail[k2:]
    ca = re.findall(r'code:\s*Code::(\w+)', a)
    cb = re.findall(r'code:\s*Code::(\w+)', b)
    sa = re.findall(r'stop_sending\(\s*Code::(\w+)\s*\)', a)
    sb = re.findall(r'stop_sending\(\s*Code::(\w+)\s*\)', b)
    if len(ca) != 1 or len(cb) < 1:
        raise AnchorLost('recv_response codes')
    f['cli_code_try_from'] = ca[0]
    f['cli_code_parts'] = cb[0]
    f['cli_stop_try_from'] = sa[0] if sa else None
    f['cli_stop_parts'] = sb[0] if sb else None

    con = Source(repo + '/h3/src/connection.rs')
    body, spans['poll_recv_trailers'] = con.fn_body('poll_recv_trailers')
    k = body.find('Header::try_from(fields)')
    if k < 0:
        raise AnchorLost('poll_recv_trailers try_from')
    tail = body[k:]
    c = re.findall(r'code:\s*Code::(\w+)', tail)
    s = re.findall(r'self\.stop_sending\(\s*Code::(\w+)\s*\)', tail)
    if len(c) < 1:
        raise AnchorLost('poll_recv_trailers code')
    f['trl_code'] = c[0]
    f['trl_stop'] = s[0] if s else None
    return f, spans


def bl(s):
    return '[' + '; '.join(str(b) for b in s.encode('latin-1')) + ']'


def cb(x):
    return 'true' if x else 'false'


def optcode(c):
    return 'Some %s' % c if c else 'None'


def render(f):
    L = ['(* GENERATED by translate/gen_headers.py from h3/src/proto/headers.rs, h3/src/ext.rs, h3/src/server/request.rs,',
         '   h3/src/client/stream.rs, h3/src/connection.rs *)',
         'From H3V Require Import Base.Bytes Gen.GenCodes.',
         'Inductive pkind := KMethod | KScheme | KAuthority | KPath | KStatus | KProtocol.',
         'Inductive pparser := PTryValue | PMethodFromBytes | PStatusFromBytes.',
         '(* is_token_char: inclusive byte ranges of the matches! pattern; token_check_used = Field::parse applies it to regular names *)']
    tr = f['token_ranges'] or []
    L.append('Definition token_char_ranges : list (N * N) := [%s].' % '; '.join('(%d, %d)' % r for r in tr))
    L.append('Definition token_check_used : bool := %s.' % cb(f['token_check_used']))
    L.append('Definition empty_name_is_error : bool := %s.' % cb(f['empty_name_is_error']))
    L.append('Definition pseudo_prefix : N := %d.' % f['pseudo_prefix'])
    L.append('Definition name_ctor_lowercase : bool := %s.' % cb(f['name_ctor_lowercase']))
    L.append('Definition value_checked : bool := %s.' % cb(f['value_checked']))
    L.append('Definition pseudo_value_checked : bool := %s.' % cb(f['pseudo_value_checked']))
    L.append('(* the pseudo-header arms of Field::parse, in source order *)')
    L.append('Definition pseudo_arms : list (bytes * (pkind * pparser)) := [')
    L.append(';\n'.join('  (%s, (%s, %s)) (* %s *)' % (bl(nm), KINDS[k], PARSERS[p], nm) for nm, k, p in f['arms']))
    L.append('].')
    L.append('Definition unknown_pseudo_is_error : bool := %s.' % cb(f['unknown_pseudo_is_error']))
    L.append('Definition try_value_utf8 : bool := %s.' % cb(f['try_value_utf8']))
    L.append('(* HeaderIter::next: the order in which the pseudo fields are taken, with the names written *)')
    L.append('Definition iter_order : list (pkind * bytes) := [')
    L.append(';\n'.join('  (%s, %s) (* %s *)' % (ITER_FIELDS[k], bl(nm), nm) for k, nm in f['iter_order']))
    L.append('].')
    L.append('Definition iter_pseudo_first : bool := %s.' % cb(f['iter_pseudo_first']))
    L.append('Definition alloc_fallible : bool := %s.' % cb(f['alloc_fallible']))
    L.append('Definition append_fallible : bool := %s.' % cb(f['append_fallible']))
    L.append('Definition host_name : bytes := %s. (* %s *)' % (bl(f['host_name']), f['host_name']))
    L.append('Definition req_missing_authority : bool := %s.' % cb(f['req_missing_authority']))
    L.append('Definition req_contradiction : bool := %s.' % cb(f['req_contradiction']))
    L.append('Definition req_method_required : bool := %s.' % cb(f['req_method_required']))
    L.append('Definition req_uri_checked : bool := %s.' % cb(f['req_uri_checked']))
    L.append('Definition resp_status_required : bool := %s.' % cb(f['resp_status_required']))
    L.append('Definition send_host_name : bytes := %s. (* %s *)' % (bl(f['send_host_name']), f['send_host_name']))
    L.append('Definition send_missing_authority : bool := %s.' % cb(f['send_missing_authority']))
    L.append('Definition send_contradiction : bool := %s.' % cb(f['send_contradiction']))
    L.append('Definition trailer_pseudo_default : bool := %s.' % cb(f['trailer_pseudo_default']))
    L.append('(* ext.rs: Protocol variants are numbered in declaration order *)')
    idx = {v: i for i, v in enumerate(f['proto_variants'])}
    L.append('Definition proto_count : N := %d.' % len(idx))
    L.append('Definition proto_from_str : list (bytes * N) := [%s].' % '; '.join('(%s, %d)' % (bl(s), idx[v]) for s, v in f['proto_from_str']))
    L.append('Definition proto_as_str : list (N * bytes) := [%s].' % '; '.join('(%d, %s)' % (idx[v], bl(s)) for v, s in f['proto_as_str']))
    L.append('(* call sites: code of the StreamError returned, codes passed to stop_stream (reset) / stop_sending *)')
    L.append('Definition srv_code : N := %s.' % f['srv_code'])
    L.append('Definition srv_reset : option N := %s.' % optcode(f['srv_code'] if f['srv_reset'] else None))
    L.append('Definition srv_stop : option N := %s.' % optcode(f['srv_code'] if f['srv_stop'] else None))
    L.append('Definition cli_code_try_from : N := %s.' % f['cli_code_try_from'])
    L.append('Definition cli_code_parts : N := %s.' % f['cli_code_parts'])
    L.append('Definition cli_stop_try_from : option N := %s.' % optcode(f['cli_stop_try_from']))
    L.append('Definition cli_stop_parts : option N := %s.' % optcode(f['cli_stop_parts']))
    L.append('Definition trl_code : N := %s.' % f['trl_code'])
    L.append('Definition trl_stop : option N := %s.' % optcode(f['trl_stop']))
    return '\n'.join(L) + '\n'
