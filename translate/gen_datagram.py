"""Source facts for C18: h3-datagram/src/datagram.rs and the call sites of Datagram::{new,encode,decode}.

Two kinds of output:
 * facts (constants the Coq model imports): the modulus of the assert in `new`, the divisor in `encode`, the multiplier
   and the two error codes in `decode`, where the header bytes come from, the initial cursor, the SET of methods the
   `Buf` impl defines, the number of places an EncodedDatagram is constructed, and whether the handlers of
   datagram_handler.rs go through new/encode resp. decode + connection error;
 * a text tie: the comment-free, whitespace-free text of every function the model mirrors (and of the call sites the
   manifest names: h3-datagram's DatagramSender::send_datagram / DatagramReader::read_datagram / get_datagram_*,
   h3-quinn's send_datagram / poll_incoming_datagram) and the item list of datagram.rs are compared with
   translate/snapshots/GenDatagram.bodies.json.  Only the fact sites above and string literals are masked.  Any other
   difference (an inserted statement, a new impl block, a second constructor, a reordered statement) is AnchorLost.
   The three methods of the Buf impl are compared one by one, so their order in the block does not matter.

python3 translate/gen_datagram.py --write-bodies   refreshes the snapshot from /repo (authoring time only).
"""
import json
import os
import re
from rustsrc import Source, AnchorLost, parse_int, match_close

NAME = 'GenDatagram'
BODIES_SNAPSHOT = os.path.join(os.path.dirname(os.path.abspath(__file__)), 'snapshots', 'GenDatagram.bodies.json')


def squash(t):
    t = re.sub(r'"(?:[^"\\]|\\.)*"', '""', t)      # message texts are not facts
    return re.sub(r'\s+', '', t)


def sub_source(src, text):
    s = Source.__new__(Source)
    s.path, s.raw, s.text = src.path, text, text
    return s


def strip_attrs(t):
    """remove #[...] / #![...] attributes (bracket matched)"""
    out, i = [], 0
    while i < len(t):
        if t[i] == '#' and re.match(r'#!?\s*\[', t[i:]):
            j = t.index('[', i)
            i = match_close(t, j, '[', ']') + 1
        else:
            out.append(t[i])
            i += 1
    return ''.join(out)


def top_items(text):
    """depth-0 items of a file or of an impl/trait block: [(header text, block text or None)]"""
    text = strip_attrs(text)
    items, i, n = [], 0, len(text)
    start = 0
    depth = 0
    while i < n:
        c = text[i]
        if c == '"':
            i += 1
            while i < n and text[i] != '"':
                i += 2 if text[i] == '\\' else 1
        elif c in '([':
            depth += 1
        elif c in ')]':
            depth -= 1
        elif c == ';' and depth == 0:
            items.append((text[start:i].strip(), None))
            start = i + 1
        elif c == '{' and depth == 0:
            j = match_close(text, i)
            items.append((text[start:i].strip(), text[i + 1:j]))
            i = j
            start = j + 1
        i += 1
    if text[start:].strip():
        raise AnchorLost('trailing text after the last item: ' + text[start:].strip()[:40])
    return items


def methods(block):
    """{name: squashed text of the whole method (signature and body)} of an impl block"""
    out = {}
    for h, b in top_items(block):
        m = re.search(r'\bfn\s+(\w+)', h)
        if not m or b is None:
            raise AnchorLost('unexpected item in impl block: ' + h[:40])
        if m.group(1) in out:
            raise AnchorLost('method defined twice: ' + m.group(1))
        out[m.group(1)] = squash(h) + '{' + squash(b) + '}'
    return out


def impl_target(header):
    """the type an impl block is for: text after `for`, else after `impl<..>` (header = raw text before the `{`)"""
    m = re.search(r'\bfor\s+', header)
    if m:
        return squash(header[m.end():])
    return squash(re.sub(r'^\s*(?:unsafe\s+)?impl\s*(?:<[^>]*>)?\s*', '', header))


def datagram_rs(repo):
    """-> (facts, texts, spans) of h3-datagram/src/datagram.rs"""
    src = Source(repo + '/h3-datagram/src/datagram.rs')
    f, t, spans = {}, {}, {}
    items = top_items(src.text)
    listing = []
    ctor_total, ctor_in_encode = 0, 0
    seen_buf_impl = False
    for h, b in items:
        hs = squash(h)
        if re.match(r'(?:pub(?:\s*\([^)]*\))?\s+)?use\b', h):
            continue                                  # imports cannot change behaviour on their own
        if b is None:
            if hs:
                listing.append(hs)
            continue
        if re.match(r'(?:unsafe\s+)?impl\b', h):
            ms = methods(b)
            listing.append(hs + ':' + ','.join(sorted(ms)))
            if impl_target(h).startswith('EncodedDatagram'):
                # a constructor written as Self { .. } inside an impl for EncodedDatagram
                ctor_total += len(re.findall(r'(?<![\w])Self\{', squash(b)))
            if re.match(r'impl<B>BufforEncodedDatagram<B>', hs):
                if seen_buf_impl:
                    raise AnchorLost('two Buf impls for EncodedDatagram')
                seen_buf_impl = True
                f['buf_methods_source_order'] = list(ms)
                for k in ('remaining', 'chunk', 'advance'):
                    if k not in ms:
                        raise AnchorLost('Buf impl lacks ' + k)
                for k in ms:
                    # the three required methods one by one (their order in the block is irrelevant); an overridden
                    # provided method shows up as a text the snapshot does not have
                    t['EncodedDatagram::' + k] = ms[k]
            elif re.match(r'impl<B>Datagram<B>whereB:Buf,$', hs):
                for k in ('new', 'encode', 'decode'):
                    if k not in ms:
                        raise AnchorLost('Datagram::' + k)
                t.update(datagram_methods(ms, f))
                ctor_in_encode = len(re.findall(r'(?<![\w])EncodedDatagram\{', ms['encode']))
        else:
            # struct / enum / fn / trait / mod / macro: the whole text (field lists matter: the model's record mirrors them)
            listing.append(hs + '{' + squash(strip_attrs(b)) + '}')
    if not seen_buf_impl:
        raise AnchorLost('impl Buf for EncodedDatagram')
    ctor_total += len(re.findall(r'(?<![\w])EncodedDatagram(?:::<[^>]*>)?\{', squash(strip_attrs(src.text))))
    f['encoded_datagram_constructors'] = ctor_total
    f['constructor_in_encode'] = (ctor_in_encode == 1)
    t['datagram.rs items'] = '\n'.join(listing)
    for k in ('new', 'encode', 'decode'):
        _, spans[k] = src.fn_body(k)
    return f, t, spans


def one(rx, text, what):
    ms = list(re.finditer(rx, text))
    if len(ms) != 1:
        raise AnchorLost('%s: %d sites' % (what, len(ms)))
    return ms[0]


def datagram_methods(ms, f):
    """masks the fact sites of new/encode/decode and reads the facts there"""
    t = {}
    new = ms['new']
    m = one(r'assert!\(stream_id\.into_inner\(\)%(\d+)==0,', new, 'Datagram::new assert')
    f['new_modulus'] = int(m.group(1))
    t['Datagram::new'] = new[:m.start(1)] + '_' + new[m.end(1):]
    enc = ms['encode']
    m = one(r'letvarint=VarInt::from\(self\.stream_id\)/(\d+);', enc, 'encode divisor')
    f['enc_divisor'] = int(m.group(1))
    enc = enc[:m.start(1)] + '_' + enc[m.end(1):]
    m = one(r'EncodedDatagram\{stream_id:([^,]+),len:([^,]+),pos:([^,]+),payload:([^,}]+),?\}', enc, 'EncodedDatagram literal')
    hdr, ln, pos, pl = m.groups()
    if hdr == 'buffer':
        f['header_is_buffer'] = True
    elif re.match(r'\[0;', hdr):
        f['header_is_buffer'] = False
    else:
        raise AnchorLost('header source ' + hdr)
    f['initial_pos'] = parse_int(pos)
    t['Datagram::encode'] = enc[:m.start()] + 'EncodedDatagram{stream_id:_,len:%s,pos:_,payload:%s,}' % (ln, pl) + enc[m.end():]
    dec = ms['decode']
    m = one(r'StreamId::try_from\(u64::from\(q_stream_id\)\*(\d+)\)', dec, 'decode multiplier')
    f['dec_multiplier'] = int(m.group(1))
    dec = dec[:m.start(1)] + '_' + dec[m.end(1):]
    codes = re.findall(r'InternalConnectionError::new\(Code::(\w+)', dec)
    if len(codes) != 2 or len(re.findall(r'Code::\w+', dec)) != 2:
        raise AnchorLost('decode error codes')
    f['dec_codes'] = codes
    t['Datagram::decode'] = re.sub(r'Code::\w+', 'Code::_', dec)
    return t


def call_sites(repo):
    """-> (facts, texts) of the handlers that are the only callers of new/encode/decode"""
    f, t = {}, {}
    D = repo + '/h3-datagram/src/'
    h = Source(D + 'datagram_handler.rs')
    for key, name in (('DatagramSender::send_datagram', 'send_datagram'), ('DatagramReader::read_datagram', 'read_datagram')):
        body, _ = h.fn_body(name)
        t[key] = squash(body)
    f['tx_path_new_encode'] = bool(re.fullmatch(
        r'letencoded_datagram=Datagram::new\(self\.stream_id,data\);matchself\.handler\.send_datagram\(encoded_datagram\.encode\(\)\)\{.*\}',
        t['DatagramSender::send_datagram']))
    f['rx_error_is_connection_error'] = bool(re.search(
        r'Ok\(datagram\)=>Datagram::decode\(datagram\)\.map_err\(\|err\|self\.handle_connection_error_on_stream\(err\)\),',
        t['DatagramReader::read_datagram']))
    # DatagramReader does not override CloseStream::handle_connection_error_on_stream
    blocks = [(squash(hd), b) for hd, b in top_items(h.text) if b is not None and re.match(r'impl\b', hd) and re.search(r'\bCloseStream\s+for\b', hd)]
    t['CloseStream impls in datagram_handler.rs'] = '|'.join(hd + '{' + squash(b) + '}' for hd, b in blocks)
    for fn in ('server.rs', 'client.rs'):
        s = Source(D + fn)
        for name in ('get_datagram_sender', 'get_datagram_reader'):
            body, _ = s.fn_body(name)
            t['%s %s' % (fn, name)] = squash(body)
    q = Source(D + 'quic_traits.rs')
    blk, _, _ = q.item_block(r'pub\s+trait\s+SendDatagram<B:\s*Buf>\s*')
    t['trait SendDatagram'] = squash(blk)
    qn = Source(repo + '/h3-quinn/src/datagram.rs')
    for name in ('send_datagram', 'poll_incoming_datagram', 'send_datagram_handler', 'recv_datagram_handler'):
        body, _ = qn.fn_body(name)
        t['h3-quinn ' + name] = squash(body)
    return f, t


def bodies(repo):
    f, t, spans = datagram_rs(repo)
    f2, t2 = call_sites(repo)
    f.update(f2)
    t.update(t2)
    return f, t, spans


def check_bodies(got):
    try:
        want = json.load(open(BODIES_SNAPSHOT))
    except FileNotFoundError:
        raise AnchorLost('no body snapshot ' + BODIES_SNAPSHOT)
    diff = [k for k in sorted(set(got) | set(want)) if want.get(k) != got.get(k)]
    if diff:
        k = diff[0]
        a, b = want.get(k) or '', got.get(k) or ''
        i = 0
        while i < min(len(a), len(b)) and a[i] == b[i]:
            i += 1
        raise AnchorLost('the text of %s is no longer the one the model was written from (`%s`: first difference at offset %d: '
                         'snapshot `...%s` / now `...%s`)' % (', '.join('`%s`' % x for x in diff), k, i, a[max(0, i - 30):i + 50], b[max(0, i - 30):i + 50]))


def extract(repo):
    f, t, spans = bodies(repo)
    check_bodies(t)
    return f, spans


def b01(x):
    return 'true' if x else 'false'


def render(f):
    L = ['(* GENERATED by translate/gen_datagram.py from h3-datagram/src/datagram.rs (+ datagram_handler.rs call sites) *)',
         'From H3V Require Import Base.Bytes Gen.GenCodes.',
         'Definition new_modulus : N := %d.' % f['new_modulus'],
         'Definition enc_divisor : N := %d.' % f['enc_divisor'],
         'Definition header_is_buffer : bool := %s.' % b01(f['header_is_buffer']),
         'Definition initial_pos : N := %d.' % f['initial_pos'],
         'Definition dec_multiplier : N := %d.' % f['dec_multiplier'],
         'Definition dec_code_truncated : N := %s.' % f['dec_codes'][0],
         'Definition dec_code_range : N := %s.' % f['dec_codes'][1],
         '(* the methods `impl Buf for EncodedDatagram` defines, in source order: 1 = remaining, 2 = chunk, 3 = advance; anything',
         '   else is an overridden provided method, coded 99.  Only the SET matters (C18_buf_impl_shape). *)',
         'Definition buf_methods : list N := [%s].' % '; '.join({'remaining': '1', 'chunk': '2', 'advance': '3'}.get(m, '99') for m in f['buf_methods_source_order']),
         '(* places in datagram.rs where an EncodedDatagram value is built (struct literals, Self { } in its impls) *)',
         'Definition encoded_datagram_constructors : N := %d.' % f['encoded_datagram_constructors'],
         'Definition constructor_in_encode : bool := %s.' % b01(f['constructor_in_encode']),
         '(* DatagramSender::send_datagram = handler.send_datagram(Datagram::new(self.stream_id, data).encode()) *)',
         'Definition tx_path_new_encode : bool := %s.' % b01(f['tx_path_new_encode']),
         '(* DatagramReader::read_datagram: Datagram::decode(d).map_err(|err| self.handle_connection_error_on_stream(err)) *)',
         'Definition rx_error_is_connection_error : bool := %s.' % b01(f['rx_error_is_connection_error'])]
    return '\n'.join(L) + '\n'


if __name__ == '__main__':
    import sys
    if sys.argv[1:2] == ['--write-bodies']:
        repo = sys.argv[2] if len(sys.argv) > 2 else '/repo'
        json.dump(bodies(repo)[1], open(BODIES_SNAPSHOT, 'w'), indent=1, sort_keys=True)
    else:
        repo = sys.argv[1] if len(sys.argv) > 1 else '/repo'
        fx, _ = extract(repo)
        print(render(fx))
