"""Source facts for C06: the inventory of panic-capable constructs in the receive-path files.

Every occurrence, OUTSIDE `#[cfg(test)]` items, of
  unwrap() / expect( / panic! / unreachable! / assert!-family / debug_assert!-family / todo! / unimplemented! /
  index or slice expressions x[..] / Buf calls that panic when short (advance, copy_to_slice, copy_to_bytes, get_uN,
  split_to, split_off, slice, split_at, copy_from_slice, Vec::remove/swap_remove/drain) /
  arithmetic that can overflow (+ - * / % << >> and their assigning forms, .pow() ) / `as <int>` casts /
  HeaderMap::with_capacity, insert, append / with_capacity, reserve
is emitted as a row (file, enclosing fn, kind, ordinal of that kind within the fn).  The key does not mention
line numbers, so pure line shifts do not change it; a NEW site, a site MOVED to another function or a site
whose kind changed produces a row that `Spec/PanicReview.v` does not classify, which breaks the proof obligation
`C06_panic_sites_all_reviewed`.  In addition every function that owns a row is fingerprinted (`fn_prints`): the reviewed
verdicts (guards, bounds, "send path only") were read off that exact text, so ANY edit of such a function - another
operator or argument at an existing site, a weakened guard - breaks `C06_panic_owner_functions_unchanged` until the
function is reviewed again (python3 translate/mk_panicreview.py --accept-prints).

Not a Rust parser: a tokeniser over comment-stripped text with string literals blanked.
"""
import hashlib
import re
from rustsrc import Source, AnchorLost, match_close

NAME = 'GenPanicSites'

FILES = [
    'h3/src/frame.rs', 'h3/src/buf.rs', 'h3/src/stream.rs', 'h3/src/connection.rs',
    'h3/src/proto/frame.rs', 'h3/src/proto/varint.rs', 'h3/src/proto/headers.rs',
    'h3/src/qpack/decoder.rs', 'h3/src/qpack/block.rs',
    'h3/src/qpack/prefix_string/mod.rs', 'h3/src/qpack/prefix_string/decode.rs', 'h3/src/qpack/prefix_string/bitwin.rs',
    'h3/src/qpack/prefix_int.rs', 'h3/src/qpack/static_.rs',
    'h3/src/server/connection.rs', 'h3/src/server/request.rs',
    'h3/src/client/connection.rs', 'h3/src/client/stream.rs',
    # not in the property's anchor list, but on the receive path as well
    'h3/src/proto/stream.rs', 'h3/src/proto/coding.rs', 'h3/src/proto/push.rs', 'h3/src/qpack/field.rs',
    'h3/src/server/stream.rs', 'h3/src/shared_state.rs', 'h3/src/error/connection_error_creators.rs',
    'h3/src/webtransport/session_id.rs',
    # errors handed to the application (Display / Debug / conversions run on peer-chosen codes), the quic trait module,
    # configuration, extensions, and the WebTransport crate (session accept, stream wrappers incl. AsyncRead)
    'h3/src/error/error.rs', 'h3/src/error/internal_error.rs', 'h3/src/error/codes.rs', 'h3/src/error/mod.rs',
    'h3/src/quic.rs', 'h3/src/config.rs', 'h3/src/ext.rs',
    'h3-webtransport/src/lib.rs', 'h3-webtransport/src/server.rs', 'h3-webtransport/src/stream.rs',
]

KINDS = ['unwrap', 'expect', 'panic', 'unreachable', 'assert', 'debug_assert', 'todo', 'index', 'index_const',
         'buf_advance', 'buf_copy', 'buf_get', 'split', 'arith', 'shift', 'cast', 'headermap', 'capacity', 'buf_put', 'ilog',
         'slice_move', 'from_static']

KEYWORDS = {'return', 'in', 'if', 'else', 'match', 'as', 'let', 'mut', 'ref', 'move', 'while', 'for', 'loop', 'break',
            'continue', 'where', 'impl', 'dyn', 'fn', 'pub', 'use', 'mod', 'struct', 'enum', 'type', 'const', 'static',
            'unsafe', 'async', 'await', 'box', 'yield'}
PRIM_TYPES = {'u8', 'u16', 'u32', 'u64', 'u128', 'usize', 'i8', 'i16', 'i32', 'i64', 'i128', 'isize', 'bool', 'str', 'char', 'f32', 'f64'}
INT_TYPES = {'u8', 'u16', 'u32', 'u64', 'u128', 'usize', 'i8', 'i16', 'i32', 'i64', 'i128', 'isize'}


def blank_strings(text):
    """Replace the contents of string / byte-string / char literals by spaces (length preserved)."""
    out = list(text)
    i, n = 0, len(text)
    while i < n:
        c = text[i]
        if c == '"':
            j = i + 1
            while j < n and text[j] != '"':
                j += 2 if text[j] == '\\' else 1
            for k in range(i + 1, min(j, n)):
                if out[k] != '\n':
                    out[k] = ' '
            i = j + 1
        elif c == 'r' and text.startswith('r#"', i):
            j = text.find('"#', i + 3)
            j = n if j < 0 else j
            for k in range(i + 3, j):
                if out[k] != '\n':
                    out[k] = ' '
            i = j + 2
        elif c == "'":
            m = re.match(r"'(\\.[^']*|[^'\\])'", text[i:])
            if m:
                for k in range(i + 1, i + len(m.group(0)) - 1):
                    out[k] = ' '
                i += len(m.group(0))
            else:
                i += 1
        else:
            i += 1
    return ''.join(out)


def blank_cfg_test(text):
    """Blank every item / statement annotated with #[cfg(test)] (or cfg(all(test, ..)))."""
    out = text
    pat = re.compile(r'#\[cfg\(\s*(?:test|all\(\s*test\b[^\]]*)\s*\)\]')
    pos = 0
    while True:
        m = pat.search(out, pos)
        if not m:
            break
        i = m.end()
        # skip further attributes
        while True:
            m2 = re.match(r'\s*#\[', out[i:])
            if not m2:
                break
            k = i + m2.end() - 1
            i = match_close(out, k, '[', ']') + 1
        # to the first ';' or '{' block at depth 0 (parens / brackets tracked)
        depth, j, n = 0, i, len(out)
        end = None
        while j < n:
            c = out[j]
            if c in '([':
                depth += 1
            elif c in ')]':
                depth -= 1
            elif c == ';' and depth == 0:
                end = j
                break
            elif c == ',' and depth == 0:
                end = j
                break
            elif c == '{' and depth == 0:
                end = match_close(out, j)
                break
            j += 1
        if end is None:
            raise AnchorLost('cfg(test) item end')
        seg = out[m.start():end + 1]
        out = out[:m.start()] + ''.join(ch if ch == '\n' else ' ' for ch in seg) + out[end + 1:]
        pos = end + 1
    return out


TOKEN_RE = re.compile(r"""
    (?P<ws>\s+)
  | (?P<life>'[A-Za-z_][A-Za-z0-9_]*)(?!')
  | (?P<chr>'(?:\\.[^']*|[^'\\])')
  | (?P<str>b?"(?:[^"\\]|\\.)*")
  | (?P<num>\d[\d_]*(?:\.\d+)?(?:[a-zA-Z][a-zA-Z0-9_]*)?)
  | (?P<id>[A-Za-z_][A-Za-z0-9_]*)
  | (?P<op><<=|>>=|\.\.=|\.\.\.|<<|>>|\+=|-=|\*=|/=|%=|->|=>|::|\.\.|&&|\|\||==|!=|<=|>=|[-+*/%&|^!=<>.,;:#?@$~(){}\[\]])
""", re.X)


def tokenize(text):
    toks = []
    i, n = 0, len(text)
    while i < n:
        m = TOKEN_RE.match(text, i)
        if not m:
            i += 1
            continue
        k = m.lastgroup
        if k != 'ws':
            toks.append((k, m.group(0), i))
        i = m.end()
    return toks


def type_like(tok):
    k, s, _ = tok
    if k == 'life':
        return True
    if k != 'id':
        return s in ('>', '?')
    if s in PRIM_TYPES:
        return True
    if not s[0].isupper():
        return False
    return len(s) == 1 or any(ch.islower() for ch in s)


def is_operand_end(tok):
    k, s, _ = tok
    if k in ('num', 'str', 'chr'):
        return True
    if k == 'id':
        return s not in KEYWORDS
    return s in (')', ']', '?')


def is_operand_start(tok):
    k, s, _ = tok
    if k in ('num', 'id', 'str', 'chr'):
        return k != 'id' or s not in ('for', 'where', 'as', 'in')
    return s in ('(', '-', '!', '*', '&')


def impl_name(header):
    """`impl<T, B> SendStream<B> for FrameStream<T, B> where ..` -> `SendStream for FrameStream`."""
    h = header
    h = re.sub(r'\bwhere\b.*', '', h, flags=re.S)
    # strip generics (nested angle brackets)
    prev = None
    while prev != h:
        prev = h
        h = re.sub(r'<[^<>]*>', '', h)
    h = re.sub(r'^\s*(?:unsafe\s+)?impl\s*', '', h)
    h = re.sub(r"&'?\w*\s*|\bmut\b|\bdyn\b", '', h)
    h = ' '.join(h.split())
    h = re.sub(r'\b(?:crate|self|super)::', '', h)
    h = re.sub(r'\b\w+::', '', h)
    return h


def find_scopes(text):
    """Returns list of (start, end, name) for every fn body, impl-qualified, and macro_rules bodies."""
    scopes = []
    # impl / trait blocks
    blocks = []
    for m in re.finditer(r'(?m)^\s*(?:unsafe\s+)?(impl\b[^{;]*)\{', text):
        i = m.end() - 1
        try:
            j = match_close(text, i)
        except AnchorLost:
            continue
        blocks.append((i, j, impl_name(m.group(1))))
    for m in re.finditer(r'(?m)^\s*(?:pub(?:\([^)]*\))?\s+)?trait\s+(\w+)[^{;]*\{', text):
        i = m.end() - 1
        j = match_close(text, i)
        blocks.append((i, j, 'trait ' + m.group(1)))
    for m in re.finditer(r'\bmacro_rules!\s*(\w+)\s*\{', text):
        i = m.end() - 1
        j = match_close(text, i)
        scopes.append((i, j, 'macro_rules ' + m.group(1)))
    for m in re.finditer(r'\bfn\s+(\w+)\b', text):
        # find body
        i, depth = m.end(), 0
        n = len(text)
        ok = False
        while i < n:
            c = text[i]
            if c in '([':
                depth += 1
            elif c in ')]':
                depth -= 1
            elif c == '{' and depth == 0:
                ok = True
                break
            elif c == ';' and depth == 0:
                break
            i += 1
        if not ok:
            continue
        j = match_close(text, i)
        ctx = ''
        best = None
        for (a, b, nm) in blocks:
            if a < m.start() < b and (best is None or a > best[0]):
                best = (a, b, nm)
        if best:
            ctx = best[2] + '::'
        scopes.append((i, j, ctx + m.group(1)))
    return scopes


def scan_file(repo, rel):
    src = Source(repo + '/' + rel)
    text = blank_strings(src.text)
    text = blank_cfg_test(text)
    scopes = find_scopes(text)
    # disambiguate duplicate names by order of appearance
    scopes.sort(key=lambda s: s[0])
    seen = {}
    named = []
    for (a, b, nm) in scopes:
        seen[nm] = seen.get(nm, 0) + 1
        named.append((a, b, nm if seen[nm] == 1 else '%s#%d' % (nm, seen[nm])))

    def scope_of(pos):
        best = None
        for (a, b, nm) in named:
            if a < pos < b and (best is None or a > best[0]):
                best = (a, b, nm)
        return best[2] if best else '<top>'

    toks = tokenize(text)
    found = []   # (pos, kind)

    def T(i):
        return toks[i] if 0 <= i < len(toks) else ('eof', '', -1)

    for i, (k, s, pos) in enumerate(toks):
        nxt, prv = T(i + 1), T(i - 1)
        if k == 'id':
            bang = nxt[1] == '!' and T(i + 2)[1] in ('(', '[', '{')
            if bang:
                if s == 'panic':
                    found.append((pos, 'panic'))
                elif s == 'unreachable':
                    found.append((pos, 'unreachable'))
                elif s in ('assert', 'assert_eq', 'assert_ne'):
                    found.append((pos, 'assert'))
                elif s in ('debug_assert', 'debug_assert_eq', 'debug_assert_ne'):
                    found.append((pos, 'debug_assert'))
                elif s in ('todo', 'unimplemented'):
                    found.append((pos, 'todo'))
                elif s == 'vec' and T(i + 2)[1] == '[':
                    # vec![x; n] allocates n
                    close = match_close(text, T(i + 2)[2], '[', ']')
                    if ';' in text[T(i + 2)[2]:close]:
                        found.append((pos, 'capacity'))
            elif prv[1] in ('.', '::') and nxt[1] == '(':
                if s == 'unwrap' and prv[1] == '.':
                    found.append((pos, 'unwrap'))
                elif s in ('expect', 'expect_err', 'unwrap_err') and prv[1] == '.':
                    found.append((pos, 'expect'))
                elif s == 'advance' and prv[1] == '.':
                    found.append((pos, 'buf_advance'))
                elif s in ('copy_to_slice', 'copy_to_bytes', 'copy_from_slice', 'clone_from_slice', 'put_slice', 'put'):
                    found.append((pos, 'buf_copy'))
                elif re.fullmatch(r'get_(u8|i8|u16|u32|u64|u128|i16|i32|i64|uint|int)(_le|_ne)?', s):
                    found.append((pos, 'buf_get'))
                elif s in ('split_to', 'split_off', 'split_at', 'split_at_mut', 'slice', 'swap_remove', 'drain', 'truncate_front') and prv[1] == '.':
                    found.append((pos, 'split'))
                elif s == 'remove' and prv[1] == '.':
                    found.append((pos, 'split'))
                elif s == 'pow' and prv[1] == '.':
                    found.append((pos, 'arith'))
                elif re.fullmatch(r'put_(u8|i8|u16|u32|u64|u128|i16|i32|i64|uint|int|bytes)(_le|_ne)?', s) and prv[1] == '.':
                    found.append((pos, 'buf_put'))      # BufMut::put_uN panics when the destination is full
                elif s in ('ilog2', 'ilog10', 'ilog', 'isqrt', 'abs', 'div_euclid', 'rem_euclid', 'next_power_of_two') and prv[1] == '.':
                    found.append((pos, 'ilog'))         # panic on 0 / overflow
                elif s in ('swap', 'rotate_left', 'rotate_right', 'copy_within', 'truncate', 'split_first', 'chunks', 'chunks_exact', 'windows', 'swap_with_slice') and prv[1] == '.':
                    found.append((pos, 'slice_move'))
                elif s == 'from_static' and prv[1] == '::':
                    found.append((pos, 'from_static'))  # HeaderName / HeaderValue / PathAndQuery::from_static panic on invalid text
                elif s in ('with_capacity', 'reserve', 'reserve_exact', 'resize'):
                    j = i - 2
                    if prv[1] == '::' and T(j)[1] == 'HeaderMap':
                        found.append((pos, 'headermap'))
                    else:
                        found.append((pos, 'capacity'))
                elif s in ('append', 'insert') and prv[1] == '.':
                    # HeaderMap::append / insert panic on capacity overflow; receiver type is not known
                    # lexically, so every `.append(` / `.insert(` is listed and classified by review
                    found.append((pos, 'headermap'))
            elif s == 'as' and nxt[0] == 'id' and nxt[1] in INT_TYPES:
                found.append((pos, 'cast'))
        elif k == 'op':
            if s == '[':
                # index expression: '[' glued to an expression end
                if pos > 0 and (text[pos - 1].isalnum() or text[pos - 1] in '_)]?'):
                    if prv[0] == 'id' and prv[1] in KEYWORDS:
                        continue
                    if prv[0] == 'life':
                        continue
                    close = match_close(text, pos, '[', ']')
                    inner = text[pos + 1:close].strip()
                    if re.fullmatch(r'\d[\d_]*(usize)?', inner):
                        found.append((pos, 'index_const'))
                    else:
                        found.append((pos, 'index'))
            elif s in ('+', '-', '*', '/', '%', '+=', '-=', '*=', '/=', '%='):
                if s in ('+', '-', '*', '/', '%'):
                    if not (is_operand_end(prv) and is_operand_start(nxt)):
                        continue
                    if s == '+' and type_like(prv) and type_like(nxt):
                        continue
                found.append((pos, 'arith'))
            elif s in ('<<', '>>', '<<=', '>>='):
                if s in ('<<', '>>'):
                    if not (is_operand_end(prv) and is_operand_start(nxt)):
                        continue
                    if nxt[0] == 'id' and nxt[1] in KEYWORDS:
                        continue
                    if s == '>>' and (type_like(prv) or prv[1] == '>'):
                        continue
                found.append((pos, 'shift'))
    # rows
    rows = []
    counters = {}
    lines = {}
    owners = {}
    for pos, kind in sorted(found):
        fn = scope_of(pos)
        if kind in ('arith', 'shift', 'cast') and fn == '<top>':
            continue   # constant expressions are evaluated at compile time
        key = (fn, kind)
        counters[key] = counters.get(key, 0) + 1
        rows.append((rel, fn, kind, counters[key]))
        lines[(rel, fn, kind, counters[key])] = src.line_of(pos)
        owners[fn] = True
    # fingerprint of every function of the file (rows or not): its whole body, comments stripped, string contents blanked,
    # white space removed.  Changing an operator, an argument or a guard anywhere in such a function changes it.
    prints = []
    for (a, b, nm) in named:
        if True:   # EVERY function / macro body of the inventoried files, whether or not it owns a row
            body = re.sub(r'\s+', '', text[a:b + 1])
            h = int(hashlib.sha256(body.encode()).hexdigest()[:15], 16)
            prints.append((rel, nm, h, src.line_of(a)))
    return rows, lines, prints


def extract(repo):
    rows, spans = [], {}
    all_lines = {}
    prints = []
    for rel in FILES:
        try:
            r, lines, pr = scan_file(repo, rel)
        except FileNotFoundError:
            raise AnchorLost('receive-path file missing: ' + rel)
        rows += r
        all_lines.update(lines)
        prints += pr
        spans[rel] = (1, len(r))
    if len(rows) < 50:
        raise AnchorLost('implausibly few panic sites')
    f = {'rows': rows, 'lines': {'|'.join([a, b, c, str(d)]): l for (a, b, c, d), l in all_lines.items()},
         'prints': [(a, b, c) for (a, b, c, _) in prints], 'print_lines': {a + '|' + b: l for (a, b, _, l) in prints}}
    return f, spans


def coq_str(s):
    return '"' + s.replace('"', '""') + '"'


def kind_ctor(k):
    return 'K_' + k


def render(f):
    L = ['(* GENERATED by translate/gen_panicsites.py from the receive-path files of h3/src (see FILES there). *)',
         '(* One row per panic-capable construct outside #[cfg(test)]: (file, enclosing fn, kind, ordinal of the kind in the fn). *)',
         'From Coq Require Import String.',
         'From H3V Require Import Base.Bytes.',
         'Inductive pkind := ' + ' | '.join(kind_ctor(k) for k in KINDS) + '.',
         'Record site := mk_site { s_file : string; s_fn : string; s_kind : pkind; s_ord : N }.',
         'Local Open Scope string_scope.',
         'Definition sites : list site := [']
    rows = f['rows']
    for n, (fl, fn, kind, o) in enumerate(rows):
        L.append('  mk_site %s %s %s %d%s' % (coq_str(fl), coq_str(fn), kind_ctor(kind), o, ';' if n + 1 < len(rows) else ''))
    L.append('].')
    L.append('Definition n_sites : N := %d.' % len(rows))
    L.append('(* fingerprint (60 bits of SHA-256 of the comment-free, blank-free body) of every function that owns a row above *)')
    L.append('Record fn_print := mk_print { p_file : string; p_fn : string; p_hash : N }.')
    L.append('Definition fn_prints : list fn_print := [')
    pr = f['prints']
    for n, (fl, fn, h) in enumerate(pr):
        L.append('  mk_print %s %s %d%s' % (coq_str(fl), coq_str(fn), h, ';' if n + 1 < len(pr) else ''))
    L.append('].')
    return '\n'.join(L) + '\n'


if __name__ == '__main__':
    import sys
    import collections
    repo = sys.argv[1] if len(sys.argv) > 1 else '/repo'
    f, _ = extract(repo)
    hist = collections.Counter(r[2] for r in f['rows'])
    if '-p' in sys.argv:
        for r in f['prints']:
            print(r)
    if '-v' in sys.argv:
        for r in f['rows']:
            print('%s:%d\t%s\t%s\t%d' % (r[0], f['lines']['|'.join([r[0], r[1], r[2], str(r[3])])], r[1], r[2], r[3]))
    print(len(f['rows']), dict(hist), file=sys.stderr)
