"""Source facts for C17: h3-quinn/src/lib.rs.

Extracted: every match arm of the three error-conversion functions (source variant -> target variant,
where the error code comes from, whether the original error is kept), and the decision points of the
stream state machines (send_data guard, poll_ready advance count, recv_id source, poll_data put-back,
deferred stop, reset saturation).  The vocabulary (variant tags) is fixed text: an unknown variant name
is an AnchorLost.
"""
import re
from rustsrc import Source, AnchorLost, parse_int, match_close

NAME = 'GenQuinn'

# quinn 0.11 enums (quinn-proto ConnectionError, quinn ReadError / WriteError) and h3::quic error enums
CONN_VARIANTS = ['VersionMismatch', 'TransportError', 'ConnectionClosed', 'ApplicationClosed', 'Reset', 'TimedOut',
                 'LocallyClosed', 'CidsExhausted']
READ_VARIANTS = ['Reset', 'ConnectionLost', 'ClosedStream', 'IllegalOrderedRead', 'ZeroRttRejected']
WRITE_VARIANTS = ['Stopped', 'ConnectionLost', 'ClosedStream', 'ZeroRttRejected']
TARGETS = ['ApplicationClose', 'Timeout', 'InternalError', 'Undefined',          # ConnectionErrorIncoming
           'ConnectionErrorIncoming', 'StreamTerminated', 'Unknown',             # StreamErrorIncoming
           'PanicArm']
DGRAM_VARIANTS = ['UnsupportedByPeer', 'Disabled', 'TooLarge', 'ConnectionLost']   # quinn SendDatagramError
DGRAM_TARGETS = ['NotAvailable', 'TooLarge', 'ConnectionError']                    # h3_datagram SendDatagramErrorIncoming
H3CONN = ['ApplicationClose', 'Timeout', 'InternalError', 'Undefined']


def split_arms(block):
    """[(pattern_text, body_text)] of a match block (text between the braces of `match x { ... }`)."""
    arms = []
    i, n = 0, len(block)
    while i < n:
        # pattern up to top-level `=>`
        depth = 0
        j = i
        while j < n:
            c = block[j]
            if c in '([{':
                depth += 1
            elif c in ')]}':
                depth -= 1
            elif c == '=' and depth == 0 and block[j:j + 2] == '=>':
                break
            j += 1
        if j >= n:
            if block[i:].strip():
                raise AnchorLost('trailing text in match: ' + block[i:].strip()[:40])
            break
        pat = block[i:j].strip()
        k = j + 2
        while k < n and block[k].isspace():
            k += 1
        if k < n and block[k] == '{':
            e = match_close(block, k)
            body = block[k + 1:e]
            k = e + 1
            while k < n and (block[k].isspace() or block[k] == ','):
                k += 1
        else:
            depth = 0
            e = k
            while e < n:
                c = block[e]
                if c == '"':
                    e += 1
                    while e < n and block[e] != '"':
                        e += 2 if block[e] == '\\' else 1
                elif c in '([{':
                    depth += 1
                elif c in ')]}':
                    depth -= 1
                elif c == ',' and depth == 0:
                    break
                e += 1
            body = block[k:e]
            k = e + 1
        arms.append((pat, body.strip()))
        i = k
    return arms


def split_alternatives(pat):
    out, depth, cur = [], 0, ''
    for c in pat:
        if c in '([{':
            depth += 1
        elif c in ')]}':
            depth -= 1
        if c == '|' and depth == 0:
            out.append(cur.strip())
            cur = ''
        else:
            cur += c
    if cur.strip():
        out.append(cur.strip())
    return out


def parse_alt(alt, variants):
    """-> (variant, whole_binder or None, field_binder or None)"""
    m = re.match(r'^(?:(\w+)\s*@\s*)?(?:\w+::)*(\w+)\s*(?:\(\s*(\w+)\s*\)|\{[^}]*\})?$', alt)
    if not m:
        raise AnchorLost('pattern ' + alt)
    whole, var, fld = m.group(1), m.group(2), m.group(3)
    if var not in variants:
        raise AnchorLost('unknown variant ' + var)
    if fld == '_':
        fld = None
    return var, whole, fld


def squash(x):
    return re.sub(r'\s+', '', x)


def classify_body(body, whole, fld):
    """-> (target, code_src, keeps_original)   code_src: 'passed' | ('const', n) | 'absent' | 'viaconn'

    Strict: the whole arm body (white space removed) must be ONE of the known expression shapes: a single
    constructor application, no control flow.  Anything else is an AnchorLost."""
    flat = squash(body)
    if re.search(r'\b(if|match|return|else|loop|while|for|let)\b', body) or 'matches!' in body or '?' in flat.replace('"', ''):
        if not re.fullmatch(r'panic!\("[^"]*"\)', flat):
            raise AnchorLost('control flow inside a conversion arm: ' + flat[:80])
    if len(re.findall(r'\b(?:ConnectionErrorIncoming|StreamErrorIncoming)::\w+', body)) > 1:
        raise AnchorLost('more than one target constructor in a conversion arm: ' + flat[:80])
    if re.fullmatch(r'(?:panic|unreachable)!\((?:"[^"]*")?\)', flat):
        return 'PanicArm', 'absent', False
    m = re.fullmatch(r'ConnectionErrorIncoming::Timeout', flat)
    if m:
        return 'Timeout', 'absent', False
    m = re.fullmatch(r'ConnectionErrorIncoming::Undefined\(Arc::new\((\w+)\)\)', flat)
    if m:
        if whole is None or m.group(1) != whole:
            raise AnchorLost('Undefined does not keep the original error: ' + flat[:80])
        return 'Undefined', 'absent', True
    m = re.fullmatch(r'StreamErrorIncoming::Unknown\(Box::new\((\w+)\)\)', flat)
    if m:
        if whole is None or m.group(1) != whole:
            raise AnchorLost('Unknown does not keep the original error: ' + flat[:80])
        return 'Unknown', 'absent', True
    m = re.fullmatch(r'StreamErrorIncoming::ConnectionErrorIncoming\{connection_error:convert_connection_error\((\w+)\),?\}', flat)
    if m:
        if fld is None or m.group(1) != fld:
            raise AnchorLost('nested connection error ' + flat[:80])
        return 'ConnectionErrorIncoming', 'viaconn', False
    m = re.fullmatch(r'(?:ConnectionErrorIncoming::(ApplicationClose)|StreamErrorIncoming::(StreamTerminated))\{error_code:([^,}]+),?\}', flat)
    if m:
        target = m.group(1) or m.group(2)
        expr = m.group(3)
        if fld and expr in (fld + '.into_inner()', fld + '.error_code.into()', fld + '.error_code.into_inner()',
                            fld + '.into()', 'u64::from(' + fld + ')', 'u64::from(' + fld + '.error_code)'):
            return target, 'passed', False
        try:
            return target, ('const', parse_int(expr)), False
        except ValueError:
            raise AnchorLost('error_code expression ' + expr)
    raise AnchorLost('conversion arm of unknown shape: ' + flat[:100])


def table(src, fname, variants, spans):
    body, spans[fname] = src.fn_body(fname)
    m = re.search(r'\bmatch\s+\w+\s*\{', body)
    if not m:
        raise AnchorLost(fname + ': no match')
    i = m.end() - 1
    j = match_close(body, i)
    rows = []
    for pat, arm in split_arms(body[i + 1:j]):
        for alt in split_alternatives(pat):
            var, whole, fld = parse_alt(alt, variants)
            rows.append((var,) + classify_body(arm, whole, fld))
    seen = [r[0] for r in rows]
    if sorted(seen) != sorted(variants):
        raise AnchorLost('%s: arms %s do not cover %s exactly once' % (fname, seen, variants))
    return rows


def match_block(body, what):
    m = re.search(r'\bmatch\s+\w+\s*\{', body)
    if not m:
        raise AnchorLost(what + ': no match')
    i = m.end() - 1
    return body[i + 1:match_close(body, i)]


def extract_datagram(repo, f, spans):
    """h3-quinn/src/datagram.rs: the two conversion tables and what send_datagram hands to Quinn"""
    src = Source(repo + '/h3-quinn/src/datagram.rs')
    body, spans['convert_send_datagram_error'] = src.fn_body('convert_send_datagram_error')
    rows = []
    for pat, arm in split_arms(match_block(body, 'convert_send_datagram_error')):
        for alt in split_alternatives(pat):
            var, whole, fld = parse_alt(alt, DGRAM_VARIANTS)
            m = re.search(r'\bSendDatagramErrorIncoming::(\w+)', arm)
            if not m or m.group(1) not in DGRAM_TARGETS:
                raise AnchorLost('datagram arm ' + arm[:60])
            via = False
            if m.group(1) == 'ConnectionError':
                mm = re.search(r'ConnectionError\(\s*convert_h3_error_to_datagram_error\(\s*convert_connection_error\(\s*(\w+)\s*\)\s*\)\s*,?\s*\)', arm)
                if not mm or mm.group(1) != fld:
                    raise AnchorLost('datagram connection error ' + arm[:80])
                via = True
            rows.append((var, m.group(1), via))
    if sorted(r[0] for r in rows) != sorted(DGRAM_VARIANTS):
        raise AnchorLost('convert_send_datagram_error arms')
    f['dgram'] = rows
    body, spans['convert_h3_error_to_datagram_error'] = src.fn_body('convert_h3_error_to_datagram_error')
    rows = []
    for pat, arm in split_arms(match_block(body, 'convert_h3_error_to_datagram_error')):
        m = re.match(r'^(?:\w+::)*(\w+)\s*(?:\{\s*(\w+)\s*\}|\(\s*(\w+)\s*\))?$', pat)
        if not m or m.group(1) not in H3CONN:
            raise AnchorLost('h3->datagram pattern ' + pat)
        binder = m.group(2) or m.group(3)
        t = re.match(r'^(?:\w+::)*(\w+)\s*(?:\{\s*(\w+)\s*(?::\s*(\w+)\s*)?\}|\(\s*(\w+)\s*\))?$', arm.strip())
        if not t or t.group(1) not in H3CONN:
            raise AnchorLost('h3->datagram arm ' + arm[:60])
        payload = t.group(3) or t.group(2) or t.group(4)
        rows.append((m.group(1), t.group(1), (binder is None and payload is None) or (binder is not None and payload == binder)))
    if sorted(r[0] for r in rows) != sorted(H3CONN):
        raise AnchorLost('convert_h3_error_to_datagram_error arms')
    f['h3dg'] = rows
    body, spans['send_datagram'] = src.fn_body('send_datagram')
    if not re.search(r'\.send_datagram\(', body) or not re.search(r'\.map_err\(\s*convert_send_datagram_error\s*\)', body):
        raise AnchorLost('send_datagram body')
    f['send_datagram_whole'] = bool(re.search(r'\.send_datagram\(\s*buf\.copy_to_bytes\(\s*buf\.remaining\(\)\s*\)\s*\)', body))
    if not f['send_datagram_whole']:
        raise AnchorLost('send_datagram hands over something else than copy_to_bytes(remaining())')
    body, spans['poll_incoming_datagram'] = src.fn_body('poll_incoming_datagram')
    if not re.search(r'\.map_err\(\s*convert_connection_error\s*\)', body):
        raise AnchorLost('poll_incoming_datagram error conversion')


# whole bodies (white space removed) of the open/accept wrappers: the error of Quinn's future goes through
# convert_connection_error, the streams are wrapped by the adapter's constructors
OPEN_BIDI = ('letbi=self.opening_bi.get_or_insert_with(||{Box::pin(stream::unfold(self.conn.clone(),|conn|async{Some((conn.open_bi().await,conn))}))});'
             'let(send,recv)=ready!(bi.poll_next_unpin(cx)).expect("BoxStreamdoesnotreturnNone")'
             '.map_err(|e|StreamErrorIncoming::ConnectionErrorIncoming{connection_error:convert_connection_error(e),})?;'
             'Poll::Ready(Ok(Self::BidiStream{send:Self::SendStream::new(send),recv:RecvStream::new(recv),}))')
OPEN_SEND = ('letuni=self.opening_uni.get_or_insert_with(||{Box::pin(stream::unfold(self.conn.clone(),|conn|async{Some((conn.open_uni().await,conn))}))});'
             'letsend=ready!(uni.poll_next_unpin(cx)).expect("BoxStreamdoesnotreturnNone")'
             '.map_err(|e|StreamErrorIncoming::ConnectionErrorIncoming{connection_error:convert_connection_error(e),})?;'
             'Poll::Ready(Ok(Self::SendStream::new(send)))')
CLOSE = 'self.conn.close(VarInt::from_u64(code.value()).expect("errorcodeVarInt"),reason,);'
ACCEPT_BIDI = ('let(send,recv)=ready!(self.incoming_bi.poll_next_unpin(cx)).expect("self.incoming_biBoxStreamneverreturnsNone")'
               '.map_err(convert_connection_error)?;'
               'Poll::Ready(Ok(Self::BidiStream{send:Self::SendStream::new(send),recv:Self::RecvStream::new(recv),}))')
ACCEPT_RECV = ('letrecv=ready!(self.incoming_uni.poll_next_unpin(cx)).expect("self.incoming_uniBoxStreamneverreturnsNone")'
               '.map_err(convert_connection_error)?;Poll::Ready(Ok(Self::RecvStream::new(recv)))')
OPENER = 'OpenStreams{conn:self.conn.clone(),opening_bi:None,opening_uni:None,}'
CLONE = 'Self{conn:self.conn.clone(),opening_bi:None,opening_uni:None,}'
POLL_DATA = ('ifletSome(mutstream)=self.stream.take(){self.read_chunk_fut.set(asyncmove{letchunk=stream.read_chunk(usize::MAX,true).await;(stream,chunk)})};'
             'let(mutstream,chunk)=ready!(self.read_chunk_fut.poll(cx));'
             '%s%s'
             'Poll::Ready(Ok(chunk.map_err(convert_read_error_to_stream_error)?.map(|c|c.bytes)))')
POLL_DATA_STOP = 'ifletSome(error_code)=self.pending_stop.take(){let_=stream.stop(error_code);}'
POLL_DATA_PUT = 'self.stream=Some(stream);'
POLL_SEND_GUARD = 'ifself.writing.is_some(){panic!("poll_sendcalledwhilesendstreamisnotready")}'
POLL_SEND_REST = ('lets=Pin::new(&mutself.stream);letres=ready!(s.poll_write(cx,buf.chunk()));matchres{'
                  'Ok(written)=>{buf.advance(written);Poll::Ready(Ok(written))}'
                  'Err(err)=>Poll::Ready(Err(convert_write_error_to_stream_error(err))),}')


def extract_sites(src, f, spans):
    """open / accept / close wrappers of BOTH OpenStreams impls, opener(), Clone; poll_send; poll_data statement order"""
    def body_of(impl_re, fn, key):
        _, _, m = src.item_block(impl_re)
        b, spans[key] = src.fn_body(fn, after=m.start())
        return squash(b)
    sites = {}
    for tag, impl_re in (('conn', r'impl<B>\s+quic::OpenStreams<B>\s+for\s+Connection\b'),
                         ('opener', r'impl<B>\s+quic::OpenStreams<B>\s+for\s+OpenStreams\b')):
        for fn, want in (('poll_open_bidi', OPEN_BIDI), ('poll_open_send', OPEN_SEND), ('close', CLOSE)):
            got = body_of(impl_re, fn, tag + '::' + fn)
            if got != want:
                raise AnchorLost('%s (impl OpenStreams for %s) is not the known wrapper: %s' % (fn, tag, got[:160]))
            sites[tag + '_' + fn] = True
    for fn, want in (('poll_accept_bidi', ACCEPT_BIDI), ('poll_accept_recv', ACCEPT_RECV), ('opener', OPENER)):
        got = body_of(r'impl<B>\s+quic::Connection<B>\s+for\s+Connection\b', fn, 'conn::' + fn)
        if got != want:
            raise AnchorLost('%s is not the known wrapper: %s' % (fn, got[:160]))
        sites['conn_' + fn] = True
    got = body_of(r'impl\s+Clone\s+for\s+OpenStreams\b', 'clone', 'opener::clone')
    if got != CLONE:
        raise AnchorLost('OpenStreams::clone: ' + got[:120])
    sites['opener_clone'] = True
    f['sites'] = sites
    # BidiStream delegates
    _, _, m = src.item_block(r'impl<B>\s+quic::SendStreamUnframed<B>\s+for\s+BidiStream<B>')
    b, _ = src.fn_body('poll_send', after=m.start())
    if squash(b) != 'self.send.poll_send(cx,buf)':
        raise AnchorLost('BidiStream::poll_send delegate')
    # poll_send of SendStream: guard present or absent, the rest verbatim
    got = body_of(r'impl<B>\s+quic::SendStreamUnframed<B>\s+for\s+SendStream<B>', 'poll_send', 'poll_send')
    if got == POLL_SEND_GUARD + POLL_SEND_REST:
        f['poll_send_guard'] = True
    elif got == POLL_SEND_REST:
        f['poll_send_guard'] = False
    else:
        raise AnchorLost('poll_send is not the known body: ' + got[:200])
    # poll_data: statement order pinned (stop delivery and put-back happen BEFORE the `?` on the chunk)
    got = body_of(r'impl\s+quic::RecvStream\s+for\s+RecvStream\s*\{', 'poll_data', 'poll_data')
    ok = False
    for stop in (True, False):
        for put in (True, False):
            if got == POLL_DATA % (POLL_DATA_STOP if stop else '', POLL_DATA_PUT if put else ''):
                ok = True
    # known variant: the chunk's error is converted (and returned by `?`) BEFORE the stream is put back,
    # i.e. after a failed read the stream is lost
    alt = POLL_DATA.replace('Poll::Ready(Ok(chunk.map_err(convert_read_error_to_stream_error)?.map(|c|c.bytes)))',
                            'Poll::Ready(Ok(chunk.map(|c|c.bytes)))') % (
        POLL_DATA_STOP, 'letchunk=chunk.map_err(convert_read_error_to_stream_error)?;' + POLL_DATA_PUT)
    f['poll_data_puts_back_on_error'] = True
    if got == alt:
        f['poll_data_puts_back_on_error'] = False
    elif not ok and got != POLL_DATA % (POLL_DATA_STOP, 'drop(stream);'):
        raise AnchorLost('poll_data is not the known statement sequence: ' + got[:200])


def extract(repo):
    src = Source(repo + '/h3-quinn/src/lib.rs')
    f, spans = {}, {}
    extract_datagram(repo, f, spans)
    extract_sites(src, f, spans)
    f['conn'] = table(src, 'convert_connection_error', CONN_VARIANTS, spans)
    f['read'] = table(src, 'convert_read_error_to_stream_error', READ_VARIANTS, spans)
    f['write'] = table(src, 'convert_write_error_to_stream_error', WRITE_VARIANTS, spans)

    # ---- RecvStream
    _, _, m = src.item_block(r'impl\s+RecvStream\s*\{')
    body, spans['RecvStream::new'] = src.fn_body('new', after=m.start())
    f['recv_new_caches_id'] = bool(re.search(r'\bid\s*:\s*num\.try_into\(\)\.expect\(', body))
    if not re.search(r'stream\s*:\s*Some\(stream\)', body) or not re.search(r'pending_stop\s*:\s*None', body):
        raise AnchorLost('RecvStream::new initial state')
    _, _, m = src.item_block(r'impl\s+quic::RecvStream\s+for\s+RecvStream\s*\{')
    body, spans['recv_id'] = src.fn_body('recv_id', after=m.start())
    flat = re.sub(r'\s+', '', body)
    if flat == 'self.id':
        f['recv_id_cached'] = True
    elif re.search(r'self\.stream\.as_ref\(\)\.(unwrap\(\)|expect\()', flat):
        f['recv_id_cached'] = False
    else:
        raise AnchorLost('recv_id body ' + flat[:60])
    if f['recv_id_cached'] and not f['recv_new_caches_id']:
        raise AnchorLost('recv_id reads self.id but new() does not set it from the stream')
    body, spans['poll_data'] = src.fn_body('poll_data', after=m.start())
    if not re.search(r'if\s+let\s+Some\(\s*mut\s+stream\s*\)\s*=\s*self\.stream\.take\(\)', body):
        raise AnchorLost('poll_data take')
    if not re.search(r'stream\.read_chunk\(\s*usize::MAX\s*,\s*true\s*\)', body):
        raise AnchorLost('poll_data ordered read_chunk')
    if not re.search(r'ready!\(\s*self\.read_chunk_fut\.poll\(cx\)\s*\)', body):
        raise AnchorLost('poll_data poll of the reusable future')
    f['poll_data_puts_back'] = bool(re.search(r'self\.stream\s*=\s*Some\(\s*stream\s*\)\s*;', body))
    f['poll_data_delivers_stop'] = bool(re.search(
        r'if\s+let\s+Some\(\s*(\w+)\s*\)\s*=\s*self\.pending_stop\.take\(\)\s*\{\s*let\s+_\s*=\s*stream\.stop\(\s*\1\s*\)\s*;\s*\}', body))
    if not re.search(r'\.map_err\(\s*convert_read_error_to_stream_error\s*\)', body):
        raise AnchorLost('poll_data error conversion')
    if not re.search(r'\.map\(\s*\|\s*c\s*\|\s*c\.bytes\s*\)', body):
        raise AnchorLost('poll_data chunk bytes')
    body, spans['stop_sending'] = src.fn_body('stop_sending', after=m.start())
    if not re.search(r'VarInt::from_u64\(\s*error_code\s*\)\.expect\(', body):
        raise AnchorLost('stop_sending code conversion')
    mm = re.search(r'if\s+let\s+Some\(\s*stream\s*\)\s*=\s*self\.stream\.as_mut\(\)\s*\{\s*let\s+_\s*=\s*stream\.stop\(\s*error_code\s*\)\s*;\s*\}'
                   r'(\s*else\s*\{\s*self\.pending_stop\s*=\s*Some\(\s*error_code\s*\)\s*;\s*\})?', body)
    if not mm:
        raise AnchorLost('stop_sending branches')
    f['stop_sending_defers'] = bool(mm.group(1))

    # ---- SendStream
    _, _, m = src.item_block(r'impl<B>\s+quic::SendStream<B>\s+for\s+SendStream<B>')
    body, spans['poll_ready'] = src.fn_body('poll_ready', after=m.start())
    if not re.search(r'if\s+let\s+Some\(\s*ref\s+mut\s+data\s*\)\s*=\s*self\.writing\s*\{\s*while\s+data\.has_remaining\(\)', body):
        raise AnchorLost('poll_ready loop head')
    mm = re.search(r'let\s+(\w+)\s*=\s*ready!\(\s*stream\.poll_write\(\s*cx\s*,\s*data\.chunk\(\)\s*\)\s*\)\s*'
                   r'\.map_err\(\s*convert_write_error_to_stream_error\s*\)\s*\?\s*;\s*data\.advance\(\s*([^;]*?)\s*\)\s*;', body)
    if not mm:
        raise AnchorLost('poll_ready write/advance')
    if mm.group(2) != mm.group(1):
        raise AnchorLost('poll_ready advances by `%s`, not by the accepted count' % mm.group(2))
    f['poll_ready_advances_by_written'] = True
    f['poll_ready_clears_writing'] = bool(re.search(r'\}\s*self\.writing\s*=\s*None\s*;\s*Poll::Ready\(\s*Ok\(\s*\(\)\s*\)\s*\)\s*$', body.strip()))
    body, spans['send_data'] = src.fn_body('send_data', after=m.start())
    if not re.search(r'self\.writing\s*=\s*Some\(\s*data\.into\(\)\s*\)\s*;\s*Ok\(\s*\(\)\s*\)\s*$', body.strip()):
        raise AnchorLost('send_data store')
    mm = re.search(r'if\s+self\.writing\.is_some\(\)\s*\{', body)
    if mm:
        e = match_close(body, mm.end() - 1)
        inner = body[mm.end():e]
        r = re.search(r'return\s+Err\(\s*StreamErrorIncoming::ConnectionErrorIncoming\s*\{\s*connection_error\s*:\s*ConnectionErrorIncoming::(\w+)', inner)
        if not r or r.group(1) not in TARGETS:
            raise AnchorLost('send_data refusal value')
        f['send_data_guard'] = True
        f['send_data_refusal'] = r.group(1)
    else:
        f['send_data_guard'] = False
        f['send_data_refusal'] = 'InternalError'
    body, spans['send_id'] = src.fn_body('send_id', after=m.start())
    if re.sub(r'\s+', '', body) != 'letnum:u64=self.stream.id().into();num.try_into().expect("invalidstreamid")':
        raise AnchorLost('send_id body')
    body, spans['reset'] = src.fn_body('reset', after=m.start())
    if not re.search(r'\.reset\(\s*VarInt::from_u64\(\s*reset_code\s*\)', body):
        raise AnchorLost('reset body')
    f['reset_saturates'] = bool(re.search(r'\.unwrap_or\(\s*VarInt::MAX\s*\)', body))
    if not f['reset_saturates'] and not re.search(r'\.(unwrap|expect)\(', body):
        raise AnchorLost('reset code conversion')
    body, spans['poll_finish'] = src.fn_body('poll_finish', after=m.start())
    fin = 'Poll::Ready(self.stream.finish().map_err(|e|StreamErrorIncoming::Unknown(Box::new(e))),)'
    drain = 'ifself.writing.is_some(){ready!(self.poll_ready(cx))?;}'
    if squash(body) == drain + fin:
        f['poll_finish_drains'] = True       # a pending write is written out (or its error returned) before finish()
    elif squash(body) == fin:
        f['poll_finish_drains'] = False
    else:
        raise AnchorLost('poll_finish is not the known body: ' + squash(body)[:160])
    return f, spans


def render(f):
    L = ['(* GENERATED by translate/gen_quinn.py from h3-quinn/src/lib.rs *)',
         'From H3V Require Import Base.Bytes.',
         '(* vocabulary: variant tags of quinn 0.11 ConnectionError / ReadError / WriteError and of h3::quic error enums *)']
    for i, v in enumerate(CONN_VARIANTS):
        L.append('Definition qc_%s : N := %d.' % (v, i))
    for i, v in enumerate(READ_VARIANTS):
        L.append('Definition qr_%s : N := %d.' % (v, i))
    for i, v in enumerate(WRITE_VARIANTS):
        L.append('Definition qw_%s : N := %d.' % (v, i))
    for i, v in enumerate(TARGETS):
        L.append('Definition h_%s : N := %d.' % (v, i))
    for i, v in enumerate(DGRAM_VARIANTS):
        L.append('Definition qd_%s : N := %d.' % (v, i))
    for i, v in enumerate(DGRAM_TARGETS):
        L.append('Definition hd_%s : N := %d.' % (v, i))
    L.append('Inductive codesrc := CodePassed | CodeConst (n : N) | CodeAbsent | CodeViaConn.')
    L.append('(* one row per match arm alternative: source variant, (target variant, (code source, original error kept)) *)')

    def rows(name, pre, rs):
        items = []
        for var, target, code, keeps in rs:
            if code == 'passed':
                c = 'CodePassed'
            elif code == 'absent':
                c = 'CodeAbsent'
            elif code == 'viaconn':
                c = 'CodeViaConn'
            else:
                c = '(CodeConst %d)' % code[1]
            items.append('(%s_%s, (h_%s, (%s, %s)))' % (pre, var, target, c, 'true' if keeps else 'false'))
        L.append('Definition %s : list (N * (N * (codesrc * bool))) :=\n  [%s].' % (name, ';\n   '.join(items)))
    rows('conn_arms', 'qc', f['conn'])
    rows('read_arms', 'qr', f['read'])
    rows('write_arms', 'qw', f['write'])
    b = lambda x: 'true' if x else 'false'
    L.append('(* h3-quinn/src/datagram.rs: source variant, (target variant, nested connection error converted by both functions) *)')
    L.append('Definition dgram_arms : list (N * (N * bool)) :=\n  [%s].' % ';\n   '.join(
        '(qd_%s, (hd_%s, %s))' % (v, t, b(via)) for v, t, via in f['dgram']))
    L.append('(* convert_h3_error_to_datagram_error: source variant, (target variant, payload handed over unchanged) *)')
    L.append('Definition h3dg_arms : list (N * (N * bool)) :=\n  [%s].' % ';\n   '.join(
        '(h_%s, (h_%s, %s))' % (v, t, b(p)) for v, t, p in f['h3dg']))
    L.append('Definition send_datagram_whole : bool := %s.' % b(f['send_datagram_whole']))
    L.append('(* call sites whose whole body was recognised: Quinn\'s error goes through convert_connection_error, *)')
    L.append('(* close hands over code.value(); one tag per wrapper, for BOTH OpenStreams impls *)')
    names = sorted(f['sites'])
    for i, n in enumerate(names):
        L.append('Definition site_%s : N := %d.' % (n, i))
    L.append('Definition site_converts : list (N * bool) :=\n  [%s].' % '; '.join('(site_%s, %s)' % (n, b(f['sites'][n])) for n in names))
    L.append('Definition poll_send_guard : bool := %s.' % b(f['poll_send_guard']))
    L.append('(* decision points *)')
    L.append('Definition recv_id_cached : bool := %s.' % b(f['recv_id_cached']))
    L.append('Definition poll_data_puts_back : bool := %s.' % b(f['poll_data_puts_back']))
    L.append('Definition poll_data_delivers_stop : bool := %s.' % b(f['poll_data_delivers_stop']))
    L.append('Definition stop_sending_defers : bool := %s.' % b(f['stop_sending_defers']))
    L.append('Definition send_data_guard : bool := %s.' % b(f['send_data_guard']))
    L.append('Definition send_data_refusal : N := h_%s.' % f['send_data_refusal'])
    L.append('Definition poll_ready_advances_by_written : bool := %s.' % b(f['poll_ready_advances_by_written']))
    L.append('Definition poll_ready_clears_writing : bool := %s.' % b(f['poll_ready_clears_writing']))
    L.append('Definition reset_saturates : bool := %s.' % b(f['reset_saturates']))
    L.append('Definition poll_data_puts_back_on_error : bool := %s.' % b(f['poll_data_puts_back_on_error']))
    L.append('Definition poll_finish_drains : bool := %s.' % b(f['poll_finish_drains']))
    return '\n'.join(L) + '\n'


if __name__ == '__main__':
    import sys
    facts, spans = extract(sys.argv[1] if len(sys.argv) > 1 else '/repo')
    sys.stdout.write(render(facts))
